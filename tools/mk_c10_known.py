#!/usr/bin/env python3
"""List the C10 sub-optimality instances of the last ./check C10 run that are not yet in
known_findings.jsonl, confirm each witness with the crate's own decoder, and print (or with
--append write) known-finding entries identified by the exact case (modes, list, input)."""
import sys, json, re, subprocess, os
ROOT = os.path.dirname(os.path.dirname(os.path.abspath(__file__)))
prof = "dev"
# optional: --dir <directory holding C10_c10_dev.got/.req> (e.g. copied from a thorough background run)
src = sys.argv[sys.argv.index("--dir") + 1] if "--dir" in sys.argv else os.path.join(ROOT, "work")
got = open(os.path.join(src, "C10_c10_%s.got" % prof)).read().split("\n")
req = open(os.path.join(src, "C10_c10_%s.req" % prof)).read().split("\n")
known = [json.loads(l) for l in open(os.path.join(ROOT, "known_findings.jsonl")) if l.strip()]
known = [k for k in known if k["property"] == "C10" and k["kind"] == "known"]
def listed(q, g):
    for k in known:
        m = k.get("match", {})
        if (not m.get("line_regex") or re.search(m["line_regex"], "O " + q)) and (not m.get("answer_regex") or re.search(m["answer_regex"], g)):
            return True
    return False
n = len([k for k in known if k["id"].startswith("K-B")])
new = []
for g, q in zip(got, req):
    if not g.startswith("fail:o:") or listed(q, g):
        continue
    parts = q.split()
    modes, mask, inp = parts[2], parts[3], parts[7]
    if any(e["match"]["line_regex"].startswith("enc o %s %s " % (modes, mask)) and e["match"]["line_regex"].endswith(" - %s " % inp) and re.search(e["match"]["line_regex"], "O " + q) for e in new):
        continue
    wit = g.split("witness:")[1]
    r = subprocess.run([os.path.join(ROOT, "harness/target/debug/dmh"), "ddata", wit], capture_output=True, text=True).stdout.strip()
    ok = (r == "ok:" + inp)
    n += 1
    new.append({"property": "C10", "kind": "known", "id": "K-B%d" % n,
                "match": {"line_regex": ("enc o %s %s \\d \\d - %s " % (modes, mask, inp)) if parts[5] == "0" else ("enc o %s %s \\d 1 - %s " % (modes, mask, inp))},
                "what": "planner misses a shorter plan (pruning / end-of-data pricing)" + (" behind an FNC1 start codeword" if parts[5] == "1" else "") + ": modes=%s list=%s input=%s: %s; witness stream %s decodes to the input with the crate's own decoder: %s" % (
                    modes, mask, inp, g.split(":witness")[0].replace("fail:o:", ""), wit, ok)})
for e in new:
    print(json.dumps(e))
if "--append" in sys.argv:
    with open(os.path.join(ROOT, "known_findings.jsonl"), "a") as f:
        for e in new:
            f.write(json.dumps(e) + "\n")
    print("appended", len(new))
