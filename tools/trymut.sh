#!/bin/sh
# trymut.sh <seeded id> <check ids...>: apply a stored mutation to /repo, run the quick checks, undo it
id=$1; shift
cd /verif
test -z "$(git -C /repo status --porcelain)" || { echo "repo not clean"; exit 2; }
git -C /repo apply /verif/seeded/$id/patch.diff || exit 2
for c in "$@"; do
  VERIF_EVIDENCE_DIR=/verif/work/mut_evidence ./check $c 2>&1 | grep -E "^\[C|^VIOLATION" | cut -c1-300
done
git -C /repo checkout -- .
