#!/usr/bin/env python3
"""Write MANIFEST.json from tools/props.py (keeps the manifest and the orchestrator in sync)."""
import json, os, sys
sys.path.insert(0, os.path.dirname(os.path.abspath(__file__)))
import props as P
ROOT = os.path.dirname(os.path.dirname(os.path.abspath(__file__)))
ids = [json.loads(l)["id"] for l in open(os.path.join(ROOT, "properties.jsonl"))]
hook_commits = ["eb725ef", "e8fde29", "46887c4", "aa8f2c6", "1a7ec1f"]
checks, na = [], []
for pid in ids:
    c = P.PROPS.get(pid)
    if not c:
        na.append({"property_id": pid, "reason": "check under construction in this round (DESIGN.md section 8 gives the order of work); not claimed yet"})
        continue
    checks.append({
        "property_id": pid,
        "quick_cmd": "./check %s --tier quick" % pid,
        "thorough_cmd": "./check %s --tier thorough" % pid,
        "evidence_file": "evidence/%s.json" % pid,
        "replay_cmd_template": "./check %s --replay {path}" % pid,
        "engine": "lean",
        "level_claimed": {"category": c["level"], "text": c["level_text"], "design_ref": c.get("design_ref", "DESIGN.md section 5, " + pid)},
        "level_note": c["level_note"],
        "technique": c["technique"],
    })
m = {
    "version": 1,
    "setup_cmd": "./setup.sh",
    "hooks": {
        "guard": "cfg(datamatrix_verif)",
        "enable": "RUSTFLAGS=\"--cfg datamatrix_verif\" (set in harness/.cargo/config.toml; the harness crate has a path dependency on /repo)",
        "baseline_off_cmd": "cd /repo && cargo test --workspace --no-fail-fast --offline",
        "source_commits": hook_commits,
        "add_only": True,
    },
    "engines": [
        {"name": "lean", "path": "lean/", "serves_properties": [c["property_id"] for c in checks],
         "kind_free_text": "Lean 4 project: tables regenerated from the code (DM/Gen), hand-written models (DM/Model), independent specs (DM/Spec), theorems (DM/Props), compiled line-protocol driver (Main.lean)"},
        {"name": "harness", "path": "harness/", "serves_properties": [c["property_id"] for c in checks],
         "kind_free_text": "Rust crate linking /repo with hooks on: table dump, case generators, implementation answers"},
        {"name": "check", "path": "check", "serves_properties": [c["property_id"] for c in checks],
         "kind_free_text": "python3 orchestrator: rebuild, regenerate tables, lake build + axiom audit, correspondence diff, oracle sweep, evidence"},
    ],
    "checks": checks,
    "not_applicable": na,
    "notes": "See DESIGN.md. Known findings and repaired defects: known_findings.jsonl. Seeded mutations: seeded/.",
}
json.dump(m, open(os.path.join(ROOT, "MANIFEST.json"), "w"), indent=1)
print("manifest: %d checks, %d not claimed" % (len(checks), len(na)))
