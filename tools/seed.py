#!/usr/bin/env python3
"""seed.py <pid> <k> [extra check ids...]: confirm a seeded mutation produced by a sub-agent and run the checks on it.

 A. in the scratch worktree /tmp/mut/<pid>: the demo passes on the unmodified crate, the existing test suite
    still passes with the mutation, the demo fails with the mutation;
 B. apply the mutation to /repo, run ./check <pid> (and the extra ids), undo it;
 C. store patch, demo and meta under /verif/seeded/<pid>-<k>/.
"""
import sys, os, subprocess, json, shutil, re, time

args = sys.argv[1:]
src_name = None
if "--from" in args:
    # mutations produced by an area-focused agent: --from areaA reads /tmp/mut/areaA and /tmp/mut/out_areaA
    i = args.index("--from")
    src_name = args[i + 1]
    del args[i:i + 2]
pid, k = args[0], args[1]
extra = args[2:]
WT = "/tmp/mut/%s" % (src_name or pid)
OUT = "/tmp/mut/out_%s" % (src_name or pid)
diff = os.path.join(OUT, "mut%s.diff" % k)
demo = os.path.join(OUT, "demo%s.rs" % k)
meta = json.load(open(os.path.join(OUT, "meta%s.json" % k)))
env = dict(os.environ, CARGO_NET_OFFLINE="true", VERIF_EVIDENCE_DIR="/verif/work/mut_evidence")

def sh(cmd, cwd=None, timeout=3000):
    p = subprocess.run(cmd, cwd=cwd, env=env, stdout=subprocess.PIPE, stderr=subprocess.STDOUT, timeout=timeout)
    return p.returncode, p.stdout.decode("utf-8", "replace")

def clean_wt():
    sh(["git", "checkout", "--", "."], cwd=WT)
    shutil.rmtree(os.path.join(WT, "tests"), ignore_errors=True)

res = {"property": pid, "k": k}
clean_wt()
os.makedirs(os.path.join(WT, "tests"), exist_ok=True)
shutil.copy(demo, os.path.join(WT, "tests", "seeded_demo.rs"))
rc, out = sh(["cargo", "test", "--offline", "--test", "seeded_demo"], cwd=WT)
res["demo_passes_without"] = (rc == 0)
rc, out = sh(["git", "apply", diff], cwd=WT)
res["applies"] = (rc == 0)
rc, out = sh(["cargo", "test", "--offline", "--lib"], cwd=WT)
m = re.search(r"test result: (\w+)\. (\d+) passed; (\d+) failed", out)
res["suite_with_mutation"] = m.group(0) if m else out[-300:]
res["suite_passes_with"] = bool(m and m.group(1) == "ok" and m.group(2) == "167")
rc, out = sh(["cargo", "test", "--offline", "--test", "seeded_demo"], cwd=WT)
res["demo_fails_with"] = (rc != 0)
clean_wt()
confirmed = res["demo_passes_without"] and res["applies"] and res["suite_passes_with"] and res["demo_fails_with"]
res["confirmed"] = confirmed
print("A:", res)
# B. checks against /repo
checks = {}
if confirmed:
    rc, out = sh(["git", "-C", "/repo", "status", "--porcelain"])
    assert out.strip() == "", "repo not clean: " + out
    rc, out = sh(["git", "-C", "/repo", "apply", diff])
    if rc != 0:
        # the hooks moved the context: apply with fuzz and store the diff against the current HEAD
        rc, out = sh(["patch", "-p1", "-F3", "-i", diff], cwd="/repo")
        assert rc == 0, out
        sh(["find", "/repo/src", "-name", "*.orig", "-delete"])
        rc2, newdiff = sh(["git", "-C", "/repo", "diff"])
        rebased = os.path.join(OUT, "mut%s.rebased.diff" % k)
        open(rebased, "w").write(newdiff)
        res["rebased"] = True
    try:
        for c in [pid] + extra:
            t0 = time.time()
            rc, out = sh(["./check", c], cwd="/verif")
            vio = [l for l in out.split("\n") if l.startswith("VIOLATION") or l.startswith("KNOWN")]
            summ = [l for l in out.split("\n") if l.startswith("[")]
            checks[c] = {"exit": rc, "lines": vio, "summary": summ[-1:] , "wall_s": round(time.time() - t0, 1)}
            # keep the replay for the record
            print("B:", c, rc, vio, summ[-1:])
    finally:
        sh(["git", "-C", "/repo", "checkout", "--", "."])
    res["checks"] = checks
    res["detected_by"] = [c for c, v in checks.items() if v["exit"] != 0]
# C. store
d = "/verif/seeded/%s-%s" % (pid, (src_name + k) if src_name else k)
os.makedirs(d, exist_ok=True)
shutil.copy(os.path.join(OUT, "mut%s.rebased.diff" % k) if res.get("rebased") else diff, os.path.join(d, "patch.diff"))
shutil.copy(demo, os.path.join(d, "demo.rs"))
meta.update({"confirmation": res, "ran": "tools/seed.py %s %s %s" % (pid, k, " ".join(extra))})
json.dump(meta, open(os.path.join(d, "meta.json"), "w"), indent=1)
print("stored", d, "detected_by", res.get("detected_by"))
