"""Per-property configuration of the orchestrator."""
import re

TRUSTED_BASE = [
    "Lean 4.33 kernel (leanchecker in the thorough tier)",
    "axioms: propext, Classical.choice, Quot.sound only (audited with #print axioms on every property theorem)",
    "hand-typed standard tables and reference semantics in lean/DM/Spec (definition of conformance)",
    "table dump + correspondence harness (harness/, tools/gen_tables.py): decide that the model speaks about this code",
    "rustc/cargo; the Lean compiler for the driver only (oracles and correspondence), not for any theorem",
]

def dump_sanity(d):
    """three sources must agree: hook values, public API observations, derived identities"""
    msgs = []
    for i, s in enumerate(d["sizes"]):
        if s["pub_data"] != s["data_cw"]:
            msgs.append("size %s: data_codewords() has %d entries, catalogue says %d" % (s["name"], s["pub_data"], s["data_cw"]))
        if s["pub_total"] != s["data_cw"] + s["blocks"] * s["ecc_per"]:
            msgs.append("size %s: codewords() has %d entries, catalogue says %d+%d*%d" % (s["name"], s["pub_total"], s["data_cw"], s["blocks"], s["ecc_per"]))
        if (s["bm_w"], s["bm_h"]) != (s["width"], s["height"]) or (s["bm0_w"], s["bm0_h"]) != (s["width"], s["height"]):
            msgs.append("size %s: bitmap is %dx%d, catalogue says %dx%d" % (s["name"], s["bm_w"], s["bm_h"], s["width"], s["height"]))
        if s["traversed"] != s["pub_total"]:
            msgs.append("size %s: traversal visits %d codewords, symbol has %d" % (s["name"], s["traversed"], s["pub_total"]))
    # Ord observed through the public impl vs the key (data_cw, w^2+h^2)
    key = [(s["data_cw"], s["width"] ** 2 + s["height"] ** 2) for s in d["sizes"]]
    for a in range(len(key)):
        for b in range(len(key)):
            exp = -1 if key[a] < key[b] else (1 if key[a] > key[b] else 0)
            if d["cmp"][a][b] != exp:
                msgs.append("Ord: cmp(%s,%s)=%d, key order says %d" % (d["sizes"][a]["name"], d["sizes"][b]["name"], d["cmp"][a][b], exp))
    return msgs

def _c12_nontrivial(r):
    # non-trivial: the request involves at least two distinct symbols or a bounded range
    parts = r.split()
    lst = parts[-2] if parts[0] in ("first", "upper") else parts[-1]
    return len(set(lst.split(","))) >= 2

def _c06_nontrivial(r):
    # non-trivial: a data vector that is not all-zero
    parts = r.split()
    return parts[0] in ("ecc", "rs") and len(parts) > 2 and parts[2].strip("0-") != ""

def _c07_nontrivial(r):
    parts = r.split()
    if parts[0] == "layout": return True
    return parts[0] == "write" and parts[2].strip("0-") != ""

def _c08_nontrivial(r):
    parts = r.split()
    if parts[0] == "oracle": return False
    if parts[0] == "parse": return parts[1] != "0" and not parts[2].startswith("0:")
    return True

NONTRIVIAL = {
    "C08": _c08_nontrivial,
    "C07": _c07_nontrivial,
    "C12": _c12_nontrivial,
    "C06": _c06_nontrivial,
}

def count_nontrivial(pid, reqs):
    f = NONTRIVIAL.get(pid, lambda r: True)
    seen = set()
    for r in reqs:
        if f(r):
            seen.add(r)
    return len(seen)

PROPS = {
    "C08": {
        "lean": ["DM.Props.C08"],
        "gens": ["c08"],
        "level": "proof",
        "release": True,
        "rule": "cases: rendered layout of every size with tagged content (exhaustive over all pixels of all 48 sizes), valid renderings of random contents, every single-module deviation of a valid rendering (exhaustive for sizes up to 700 modules, sampled with all fixed-module classes otherwise; thorough: exhaustive for all sizes), constant arrays of all shapes up to 40x40, width 0, random arrays and widths, framed arrays with random interior; each parse also carries the property's own oracle (accepted => re-rendering reproduces the array); non-trivial = distinct non-degenerate parse/deviation/layout requests",
        "explanation": "parse_render (for every size and every content with the size's fixed corner pattern, parsing the rendering returns the content and the size) and render_parse (whatever array the parser accepts is bit for bit the rendering of what it returns, with matching width) are kernel-checked theorems about the models of bitmap() and try_from_bits(); rejection of width 0, non-multiple lengths and unknown dimensions are theorems; layout_eq_spec ties the rendered fixed modules and content cells to the standard's region arithmetic (DM/Spec/FinderSpec.lean). Per size the kernel evaluates a certificate (cells in render order = cells in parse order = specification cells, injective, in range; every check position is a fixed module with the rendered constant; checks and cells cover every pixel).",
        "level_text": "Proof: both directions of the property and the three rejection rules are kernel-checked theorems over the models, for all sizes, all contents and all pixel arrays; the models are tied to the code by the exhaustive tagged layout of every size and by parsing every single-module deviation.",
        "level_note": "Trusted: Lean kernel, standard axioms, DM/Spec/FinderSpec.lean as the definition of the finder/alignment layout, the correspondence harness; the parser model represents the data-oblivious loops of try_from_bits as check/take lists (error variant fidelity is checked by correspondence, not proved).",
        "technique": "Lean 4 theorems (per-size kernel-evaluated certificate + lift to all contents / all pixel arrays) with model/implementation correspondence",
        "assumptions": [],
    },
    "C07": {
        "lean": ["DM.Props.C07"],
        "gens": ["c07"],
        "level": "proof",
        "exhaustive": True,
        "release": True,
        "rule": "cases: for each of the 48 sizes the complete (codeword, bit) -> module map observed through the public traverse_mut (exhaustive: every pair of every size, see input_distribution.codeword_bit_pairs), plus new_with_codewords on zero / all-ones / unit / random vectors with the entry vector read back and codewords() compared with the input; non-trivial = distinct layout requests and write requests with a non-zero vector",
        "explanation": "placement_conformant: for every size of the regenerated catalogue and every codeword vector of the size's length, the model of new_with_codewords stores bit 7-k of codeword i in the module that the transcription of ISO/IEC 16022 Annex F (+ ISO 21471 row wrap) assigns to (i,k), the four left-over modules of 12/16/20/24 carry dark/light/light/dark, and codewords() returns the vector. Per size the kernel evaluates both the model of IndexTraversal::run and Annex F and checks equality, injectivity (bit set), range, count and the corner cells; the lift to all vectors is by induction (writing through distinct positions). The model is tied to the code exhaustively: the full map of every size is observed through the public API.",
        "level_text": "Proof: full statement (all sizes, all vectors, every codeword bit, fixed pattern, read-after-write) is a kernel-checked theorem about the model; the model's map equals the implementation's map for every (codeword, bit) pair of every size (exhaustive correspondence).",
        "level_note": "Trusted: Lean kernel, standard axioms, the transcription of Annex F in DM/Spec/AnnexF.lean (the definition of conformance), address arithmetic in the harness to observe entry positions through traverse_mut.",
        "technique": "Lean 4 theorem (kernel evaluation of traversal vs Annex F per size + induction over writes) with exhaustive model/implementation correspondence",
        "assumptions": ["new_with_codewords is called with at least the size's number of codewords (documented panic otherwise)"],
    },
    "C06": {
        "lean": ["DM.Props.C06"],
        "gens": ["c06"],
        "level": "proof",
        "release": True,
        "rule": "cases: for each of the 48 sizes the zero vector, F2-basis vectors of the data space (all 8*n for n <= 24 codewords, 32 sampled otherwise; thorough: all 8*sum(n) ~ 88k), random vectors, constant and patterned vectors; each case is answered by the model (P: unique RS remainder) and the implementation's output is checked with table-free GF(256) syndromes (O); non-trivial = distinct requests with a non-zero data vector",
        "explanation": "encode_error_conformant is proved for every size of the regenerated catalogue and every data vector: the model of encode_error returns blocks*k error codewords and every interleaved block has all k syndromes zero in the table-free GF(256) arithmetic of DM/Spec/GF256.lean. Ingredients: LOG/ANTI_LOG tables (regenerated) form a field (structural proof from finite table facts), table multiplication = carry-less multiplication on all 65536 pairs, all 25 generator polynomials (regenerated) are monic with roots 2^1..2^k, LFSR invariant by induction over the data. The model is tied to the code by correspondence on basis and random vectors (a linear map is determined by a basis; random vectors expose non-linear mutations).",
        "level_text": "Proof: the full statement (all sizes, all data vectors, all blocks, all k syndromes, error codeword count) is one kernel-checked theorem about the model of encode_error over tables regenerated from the code; model = code is checked on an F2-basis of every data space plus random vectors, and the implementation's own output is checked with independent field arithmetic.",
        "level_note": "Trusted: Lean kernel, standard axioms, Spec/GF256.lean (field polynomial 0x12D, roots 2^1..2^k) and Spec/Table7.lean as the definition of the ISO code, the correspondence harness (basis + random vectors) for model = code.",
        "technique": "Lean 4 theorem (field laws from table facts, LFSR invariant by induction, decide over regenerated generator polynomials) + model/implementation correspondence",
        "assumptions": ["encode_error is called with a data vector of the size's length (otherwise it panics by contract)"],
    },
    "C12": {
        "lean": ["DM.Props.C12"],
        "gens": ["c12"],
        "level": "proof",
        "exhaustive": False,
        "rule": "cases: white-lists (all singletons, all ordered pairs, random shuffled lists with repetitions), width/height filters for every bound 0..150 (inclusive/exclusive/unbounded, one side exhaustively, both sides sampled; thorough: full product), filter compositions, first_symbol_big_enough_for / encode() size choice for n = 0..max+1; non-trivial = distinct requests whose list holds >= 2 different symbols",
        "explanation": "Kernel-checked theorems over the catalogue table regenerated from the code (48 rows = ISO 16022 Table 7 + ISO 21471, module budget, dimension injectivity, Ord key injective, default = the 30 ISO sizes, every white-list iterates as the master order restricted to its members, filters = predicate, first-big-enough = minimal capacity); the model of SymbolList is tied to the code by exhaustive/sampled correspondence through the public API.",
        "assumptions": ["BTreeSet<SymbolSize> iterates in strictly increasing Ord order without duplicates (alloc)"],
        "level_text": "Proof: every part of the property is a kernel-checked theorem over the catalogue table regenerated from the code on each run (finite table facts by decide, list/filter/first-fit facts for all white-lists, ranges and requests by induction); the SymbolList model is tied to the code by correspondence through the public API.",
        "level_note": "Trusted: Lean kernel, axioms propext/Classical.choice/Quot.sound, the hand-typed ISO 16022 Table 7 / ISO 21471 rows in DM/Spec/Table7.lean (typed from memory of the standards), the dump/correspondence harness, BTreeSet semantics.",
        "technique": "Lean 4 theorems (decide over regenerated tables + induction) with model/implementation correspondence",
    },
}
