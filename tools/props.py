"""Per-property configuration of the orchestrator."""
import re

TRUSTED_BASE = [
    "Lean 4.33 kernel (leanchecker in the thorough tier)",
    "axioms: propext, Classical.choice, Quot.sound only (audited with #print axioms on every property theorem)",
    "hand-typed standard tables and reference semantics in lean/DM/Spec (definition of conformance)",
    "table dump + correspondence harness (harness/, tools/gen_tables.py): decide that the model speaks about this code",
    "rustc/cargo; the Lean compiler for the driver only (oracles and correspondence), not for any theorem",
]

def dump_sanity(d):
    """three sources must agree: hook values, public API observations, derived identities"""
    msgs = []
    for i, s in enumerate(d["sizes"]):
        if s["pub_data"] != s["data_cw"]:
            msgs.append("size %s: data_codewords() has %d entries, catalogue says %d" % (s["name"], s["pub_data"], s["data_cw"]))
        if s["pub_total"] != s["data_cw"] + s["blocks"] * s["ecc_per"]:
            msgs.append("size %s: codewords() has %d entries, catalogue says %d+%d*%d" % (s["name"], s["pub_total"], s["data_cw"], s["blocks"], s["ecc_per"]))
        if (s["bm_w"], s["bm_h"]) != (s["width"], s["height"]) or (s["bm0_w"], s["bm0_h"]) != (s["width"], s["height"]):
            msgs.append("size %s: bitmap is %dx%d, catalogue says %dx%d" % (s["name"], s["bm_w"], s["bm_h"], s["width"], s["height"]))
        if s["traversed"] != s["pub_total"]:
            msgs.append("size %s: traversal visits %d codewords, symbol has %d" % (s["name"], s["traversed"], s["pub_total"]))
    # Ord observed through the public impl vs the key (data_cw, w^2+h^2)
    key = [(s["data_cw"], s["width"] ** 2 + s["height"] ** 2) for s in d["sizes"]]
    for a in range(len(key)):
        for b in range(len(key)):
            exp = -1 if key[a] < key[b] else (1 if key[a] > key[b] else 0)
            if d["cmp"][a][b] != exp:
                msgs.append("Ord: cmp(%s,%s)=%d, key order says %d" % (d["sizes"][a]["name"], d["sizes"][b]["name"], d["cmp"][a][b], exp))
    return msgs

def _c12_nontrivial(r):
    # non-trivial: the request involves at least two distinct symbols or a bounded range
    parts = r.split()
    lst = parts[-2] if parts[0] in ("first", "upper") else parts[-1]
    return len(set(lst.split(","))) >= 2

def _c06_nontrivial(r):
    # non-trivial: a data vector that is not all-zero
    parts = r.split()
    return parts[0] in ("ecc", "rs") and len(parts) > 2 and parts[2].strip("0-") != ""

def _c07_nontrivial(r):
    parts = r.split()
    if parts[0] == "layout": return True
    return parts[0] == "write" and parts[2].strip("0-") != ""

def _c08_nontrivial(r):
    parts = r.split()
    if parts[0] == "oracle": return False
    if parts[0] == "parse": return parts[1] != "0" and not parts[2].startswith("0:")
    return True

def _enc_nontrivial(r):
    # non-trivial: an encoding request (not an eq line) whose input has >= 2 bytes and that succeeded
    parts = r.split()
    return parts[0] == "enc" and len(parts[7]) >= 4 and parts[8].startswith("ok")

NONTRIVIAL = {
    "C01": _enc_nontrivial, "C02": _enc_nontrivial, "C13": _enc_nontrivial, "C16": _enc_nontrivial,
    "C18": _enc_nontrivial, "C19": _enc_nontrivial,
    "C11": (lambda r: r.split()[0] == "enc"),
    "C08": _c08_nontrivial,
    "C07": _c07_nontrivial,
    "C12": _c12_nontrivial,
    "C06": _c06_nontrivial,
}

def count_nontrivial(pid, reqs):
    f = NONTRIVIAL.get(pid, lambda r: True)
    seen = set()
    for r in reqs:
        if f(r):
            seen.add(r)
    return len(seen)

ENC_RULE = 'cases: (input, mode set, symbol list, macro flag, FNC1 flag[, ECI]) tuples: a fixed corpus (repository regression inputs, past minimised failures), all strings over an 8-letter class alphabet (digit, upper, lower, space, X12 special, punctuation, >=128, control) up to the stated length x sampled configurations incl. a single just-fitting size, and structured random inputs (runs of byte classes, lengths 0..3200, macro envelope shapes) x weighted mode subsets x lists (default/all/single/pair/random/sparse); non-trivial = distinct successful encodings of inputs with >= 2 bytes'

PROPS = {
    "C02": {
        "lean": [],
        "gens": ["c02"],
        "level": "exploration",
        "release": True,
        "rule": ENC_RULE,
        "explanation": "Every successful encoding of the sweep is checked by oracles compiled from the Lean specifications: the independent ISO/IEC 16022 reference decoder (DM/Spec/Stream.lean) must decode the data codewords to the input (latches/unlatches, shift sets, upper shift, X12, EDIFACT unlatch, Base256 length and 255-state randomisation, end-of-symbol rules, Macro/FNC1/ECI headers, 253-state pads after a pad reached in ASCII mode), the size must be a member of the list, the codeword counts must be the catalogue's (C12) and the error part must have zero table-free syndromes (C06).",
        "level_text": "Exploration with a specification oracle: no theorem yet covers the mode encoders; the reference decoder, the catalogue and the RS oracle are the Lean specs of C12/C06, evaluated on the implementation's output for every case of a structured sweep (exhaustive short strings + random).",
        "level_note": "Trusted: the reference decoder's reading of ISO/IEC 16022 5.2 (interpretation decisions in DESIGN.md 5.0), the harness. Not a proof: the sweep samples the input space.",
        "technique": "specification oracle (Lean reference decoder, compiled) on implementation output over an exhaustive-short + structured random sweep",
        "assumptions": [],
    },
    "C08": {
        "lean": ["DM.Props.C08"],
        "gens": ["c08"],
        "level": "proof",
        "release": True,
        "rule": "cases: rendered layout of every size with tagged content (exhaustive over all pixels of all 48 sizes), valid renderings of random contents, every single-module deviation of a valid rendering (exhaustive for sizes up to 700 modules, sampled with all fixed-module classes otherwise; thorough: exhaustive for all sizes), constant arrays of all shapes up to 40x40, width 0, random arrays and widths, framed arrays with random interior; each parse also carries the property's own oracle (accepted => re-rendering reproduces the array); non-trivial = distinct non-degenerate parse/deviation/layout requests",
        "explanation": "parse_render (for every size and every content with the size's fixed corner pattern, parsing the rendering returns the content and the size) and render_parse (whatever array the parser accepts is bit for bit the rendering of what it returns, with matching width) are kernel-checked theorems about the models of bitmap() and try_from_bits(); rejection of width 0, non-multiple lengths and unknown dimensions are theorems; layout_eq_spec ties the rendered fixed modules and content cells to the standard's region arithmetic (DM/Spec/FinderSpec.lean). Per size the kernel evaluates a certificate (cells in render order = cells in parse order = specification cells, injective, in range; every check position is a fixed module with the rendered constant; checks and cells cover every pixel).",
        "level_text": "Proof: both directions of the property and the three rejection rules are kernel-checked theorems over the models, for all sizes, all contents and all pixel arrays; the models are tied to the code by the exhaustive tagged layout of every size and by parsing every single-module deviation.",
        "level_note": "Trusted: Lean kernel, standard axioms, DM/Spec/FinderSpec.lean as the definition of the finder/alignment layout, the correspondence harness; the parser model represents the data-oblivious loops of try_from_bits as check/take lists (error variant fidelity is checked by correspondence, not proved).",
        "technique": "Lean 4 theorems (per-size kernel-evaluated certificate + lift to all contents / all pixel arrays) with model/implementation correspondence",
        "assumptions": [],
    },
    "C07": {
        "lean": ["DM.Props.C07"],
        "gens": ["c07"],
        "level": "proof",
        "exhaustive": True,
        "release": True,
        "rule": "cases: for each of the 48 sizes the complete (codeword, bit) -> module map observed through the public traverse_mut (exhaustive: every pair of every size, see input_distribution.codeword_bit_pairs), plus new_with_codewords on zero / all-ones / unit / random vectors with the entry vector read back and codewords() compared with the input; non-trivial = distinct layout requests and write requests with a non-zero vector",
        "explanation": "placement_conformant: for every size of the regenerated catalogue and every codeword vector of the size's length, the model of new_with_codewords stores bit 7-k of codeword i in the module that the transcription of ISO/IEC 16022 Annex F (+ ISO 21471 row wrap) assigns to (i,k), the four left-over modules of 12/16/20/24 carry dark/light/light/dark, and codewords() returns the vector. Per size the kernel evaluates both the model of IndexTraversal::run and Annex F and checks equality, injectivity (bit set), range, count and the corner cells; the lift to all vectors is by induction (writing through distinct positions). The model is tied to the code exhaustively: the full map of every size is observed through the public API.",
        "level_text": "Proof: full statement (all sizes, all vectors, every codeword bit, fixed pattern, read-after-write) is a kernel-checked theorem about the model; the model's map equals the implementation's map for every (codeword, bit) pair of every size (exhaustive correspondence).",
        "level_note": "Trusted: Lean kernel, standard axioms, the transcription of Annex F in DM/Spec/AnnexF.lean (the definition of conformance), address arithmetic in the harness to observe entry positions through traverse_mut.",
        "technique": "Lean 4 theorem (kernel evaluation of traversal vs Annex F per size + induction over writes) with exhaustive model/implementation correspondence",
        "assumptions": ["new_with_codewords is called with at least the size's number of codewords (documented panic otherwise)"],
    },
    "C06": {
        "lean": ["DM.Props.C06"],
        "gens": ["c06"],
        "level": "proof",
        "release": True,
        "rule": "cases: for each of the 48 sizes the zero vector, F2-basis vectors of the data space (all 8*n for n <= 24 codewords, 32 sampled otherwise; thorough: all 8*sum(n) ~ 88k), random vectors, constant and patterned vectors; each case is answered by the model (P: unique RS remainder) and the implementation's output is checked with table-free GF(256) syndromes (O); non-trivial = distinct requests with a non-zero data vector",
        "explanation": "encode_error_conformant is proved for every size of the regenerated catalogue and every data vector: the model of encode_error returns blocks*k error codewords and every interleaved block has all k syndromes zero in the table-free GF(256) arithmetic of DM/Spec/GF256.lean. Ingredients: LOG/ANTI_LOG tables (regenerated) form a field (structural proof from finite table facts), table multiplication = carry-less multiplication on all 65536 pairs, all 25 generator polynomials (regenerated) are monic with roots 2^1..2^k, LFSR invariant by induction over the data. The model is tied to the code by correspondence on basis and random vectors (a linear map is determined by a basis; random vectors expose non-linear mutations).",
        "level_text": "Proof: the full statement (all sizes, all data vectors, all blocks, all k syndromes, error codeword count) is one kernel-checked theorem about the model of encode_error over tables regenerated from the code; model = code is checked on an F2-basis of every data space plus random vectors, and the implementation's own output is checked with independent field arithmetic.",
        "level_note": "Trusted: Lean kernel, standard axioms, Spec/GF256.lean (field polynomial 0x12D, roots 2^1..2^k) and Spec/Table7.lean as the definition of the ISO code, the correspondence harness (basis + random vectors) for model = code.",
        "technique": "Lean 4 theorem (field laws from table facts, LFSR invariant by induction, decide over regenerated generator polynomials) + model/implementation correspondence",
        "assumptions": ["encode_error is called with a data vector of the size's length (otherwise it panics by contract)"],
    },
    "C12": {
        "lean": ["DM.Props.C12"],
        "gens": ["c12"],
        "level": "proof",
        "exhaustive": False,
        "rule": "cases: white-lists (all singletons, all ordered pairs, random shuffled lists with repetitions), width/height filters for every bound 0..150 (inclusive/exclusive/unbounded, one side exhaustively, both sides sampled; thorough: full product), filter compositions, first_symbol_big_enough_for / encode() size choice for n = 0..max+1; non-trivial = distinct requests whose list holds >= 2 different symbols",
        "explanation": "Kernel-checked theorems over the catalogue table regenerated from the code (48 rows = ISO 16022 Table 7 + ISO 21471, module budget, dimension injectivity, Ord key injective, default = the 30 ISO sizes, every white-list iterates as the master order restricted to its members, filters = predicate, first-big-enough = minimal capacity); the model of SymbolList is tied to the code by exhaustive/sampled correspondence through the public API.",
        "assumptions": ["BTreeSet<SymbolSize> iterates in strictly increasing Ord order without duplicates (alloc)"],
        "level_text": "Proof: every part of the property is a kernel-checked theorem over the catalogue table regenerated from the code on each run (finite table facts by decide, list/filter/first-fit facts for all white-lists, ranges and requests by induction); the SymbolList model is tied to the code by correspondence through the public API.",
        "level_note": "Trusted: Lean kernel, axioms propext/Classical.choice/Quot.sound, the hand-typed ISO 16022 Table 7 / ISO 21471 rows in DM/Spec/Table7.lean (typed from memory of the standards), the dump/correspondence harness, BTreeSet semantics.",
        "technique": "Lean 4 theorems (decide over regenerated tables + induction) with model/implementation correspondence",
    },
}

def _enc_prop(gen, expl, text, note, tech, level="exploration", lean=None, extra=None):
    d = {"lean": lean or [], "gens": [gen], "level": level, "release": True, "rule": ENC_RULE,
         "explanation": expl, "level_text": text, "level_note": note, "technique": tech, "assumptions": []}
    if extra: d.update(extra)
    return d

PROPS.update({
    "C01": _enc_prop("c01",
        "For every successful encoding of the sweep: decode_data(data codewords) and DataMatrix::decode(bitmap pixels, width) must both return exactly the input (compared in the harness on the real code), and the independent reference decoder (DM/Spec/Stream.lean) must decode the stream to the input as well. The symbol-level half of the pipeline (render -> parse -> read codewords -> RS check) is covered for all contents by the theorems of C06, C07 and C08.",
        "Exploration with specification oracle for the data-level round trip (encoder and planner are not yet modelled in Lean); the symbol-level half is proved (C06/C07/C08).",
        "Trusted: reference decoder reading of ISO/IEC 16022 5.2, harness. Sweep samples the input space.",
        "round trip on the real code + Lean reference decoder as oracle over exhaustive-short and structured random sweep"),
    "C13": _enc_prop("c13",
        "For every successful encoding the reference decoder's trace (carrying mode of every byte, list of latches) is checked: no latch into a disabled mode, no byte carried by a disabled non-ASCII mode, and when ASCII is disabled the bytes carried by ASCII form a suffix of at most 4 characters that follows some latch (the standard's end-of-data fallback).",
        "Exploration with specification oracle (mode trace of the Lean reference decoder).",
        "Trusted: reference decoder, harness. Sweep samples the input space; mode subsets without ASCII are over-represented on purpose.",
        "mode-trace oracle (Lean reference decoder) on implementation output"),
    "C16": _enc_prop("c16",
        "Macro shape oracle: the first data codeword is 236/237 exactly when macros are enabled, no FNC1 start was requested and the input is header ++ body ++ trailer (length >= 9); with FNC1 start the first codeword is 232; otherwise no header codeword; plus the round-trip oracles of C01/C02 on macro-shaped inputs (proper envelopes and all near misses: header only, trailer only, truncated header, partial trailer, bare header, header+trailer only).",
        "Exploration with specification oracle on macro-shaped inputs (80% of the sweep).",
        "Trusted: reference decoder, harness.",
        "macro/FNC1 shape oracle + round trip on envelope-shaped inputs"),
    "C11": _enc_prop("c11",
        "Totality and classification oracle on the real code: no panic/abort for any (input, list incl. empty and singletons, mode set incl. empty and without ASCII, macro, FNC1, ECI) of the sweep (each case under catch_unwind, a planner step cap converts runaway planning into a failure), SymbolListEmpty iff the list is empty, every other refusal TooMuchOrIllegalData.",
        "Exploration (panic-freedom and error classification observed on the real code in the checked profile; release profile in the thorough tier).",
        "Trusted: harness; catch_unwind cannot catch aborts (the harness records the running case so an abort is attributed).",
        "catch_unwind sweep with error-classification oracle"),
    "C18": _enc_prop("c18",
        "Plan/encoder agreement oracle: the plan the encoder used (hook) is non-empty, names only enabled modes, positions never increase and end at 0; the non-ASCII latches in the output (reference decoder) are the non-ASCII plan entries with >= 1 character in order; the symbol used is not larger than first_big_enough(list, prefix + ceil(cost)) predicted by the planner (hook cost).",
        "Exploration with specification oracle and planner hooks.",
        "Trusted: reference decoder, hooks (last_plan, chosen cost), harness.",
        "plan-vs-stream oracle using planner hooks"),
    "C19": _enc_prop("c19",
        "Instrumented counters (hook): number of Plan::step calls <= 216*(n+1)+5 and live plans after pruning <= 36 for every case, including adversarial alternations and maximal inputs; a step cap of 2,000,000 turns exponential planning into a failure instead of a hang.",
        "Exploration of instrumented step counts (not a stopwatch).",
        "Trusted: hook counters, harness.",
        "instrumented step/live-plan counters against the linear bound"),
})

PROPS.update({
    "C05": {
        "lean": [], "gens": ["c05d"], "level": "exploration", "release": True,
        "rule": "cases: data-codeword streams: all streams of length <= 2 (exhaustive, 65793), every latch/header codeword followed by all triples over 17 interesting values, ECI 3/11/13/26/27 (+ unsupported) followed by every byte, grammar-aware mutations of valid encoder output (random/special byte, truncation, inserted latch/unlatch/ECI designator, C40 pairs 0,0 and 255,255, upper shift at the end, swaps), raw random bytes; every case through decode_data and decode_str, model and implementation compared incl. error variant; non-trivial = distinct streams of >= 2 codewords",
        "explanation": "Totality of the decoding entry points: the Lean model (every Rust panic site an explicit outcome) is compared with the implementation on every case; any panic of the implementation is a violation on its own.",
        "level_text": "Exploration + model correspondence for the data decoder; see DESIGN.md for the parts that are theorems (C08 parser totality) and the parts under construction (RS decoder).",
        "level_note": "Trusted: harness (catch_unwind, checked profile = overflow checks + debug assertions on; release profile in the thorough tier).",
        "technique": "Lean model with explicit panic outcomes, model/implementation correspondence on exhaustive-short and grammar-aware mutated streams",
        "assumptions": [],
    },
    "C15": {
        "lean": [], "gens": ["c15"], "level": "exploration", "release": False,
        "exhaustive": False,
        "rule": "cases: ECI numbers 0..20000 exhaustively plus every 97th up to 999999 and boundaries (thorough: all 1,000,000): designator written by the encoder vs Table 6 and read back; all 1- and 2-codeword designators (65792, exhaustive), 3-codeword designators sampled (thorough: all with first codeword 180..215); every byte under ECI 0/3/11/13/26/27 through the public string decoder vs the Unicode mapping tables (exhaustive, 6*256); valid/invalid UTF-8 and 7-bit sequences; non-trivial = distinct requests",
        "explanation": "Designators: the implementation's output for each ECI number must equal the ISO/IEC 16022 Table 6 form (DM/Spec/Eci.lean) and read back as the same number; malformed designators must be rejected (model = spec). Character sets: each byte must decode exactly as ISO-8859-1/-9/-11 (DM/Spec/Charsets.lean) or give CharsetError.",
        "level_text": "Exploration with specification oracle, exhaustive on the finite parts in the thorough tier.",
        "level_note": "Trusted: Spec/Eci.lean (Table 6) and Spec/Charsets.lean (Unicode mapping files, typed from memory) as definition; harness.",
        "technique": "specification oracle (Table 6, Unicode mapping tables) + model correspondence, exhaustive over finite domains",
        "assumptions": [],
    },
})
NONTRIVIAL["C05"] = lambda r: len(r.split()) >= 2 and len(r.split()[1]) >= 4
NONTRIVIAL["C15"] = lambda r: True

PROPS["C14"] = {
    "lean": [], "gens": ["c14"], "level": "exploration", "release": False,
    "rule": "cases: every Unicode scalar value as a one-character string (exhaustive, 1,112,064; round trip and ECI choice checked in the harness, reported per block of 4096; full stream oracle for U+0000..U+03FF and a sample), random strings over scalar classes (controls, ASCII, Latin-1 supplement, BMP, astral; pure Latin-1 strings; macro 05/06 shaped strings), Latin-1 helper functions on random byte strings and strings; non-trivial = distinct strchk/dstr/l2u/u2l requests",
    "explanation": "encode_str -> decode_str returns the string (compared on the real code); the stream oracle (Lean reference decoder) checks the ECI choice: printable ISO-8859-1 strings are encoded byte for byte without ECI codeword, all others carry ECI 26 followed by the UTF-8 bytes; the Latin-1 helpers are compared with the regenerated per-character tables.",
    "level_text": "Exploration with specification oracle; exhaustive over all one-character strings.",
    "level_note": "Trusted: reference decoder, Spec/Charsets.lean, harness.",
    "technique": "round trip on the real code + stream oracle (Lean reference decoder), exhaustive over scalar values",
    "assumptions": ["core::str::from_utf8 accepts exactly well-formed UTF-8 (compared with Lean's String.fromUTF8?)"],
}
NONTRIVIAL["C14"] = lambda r: r.split()[0] in ("strchk", "dstr", "l2u", "u2l") and len(r.split()[1]) >= 4

PROPS["C17"] = {
    "lean": ["DM.Props.C17"], "gens": ["c17"], "level": "translation_validation", "release": False,
    "rule": "programs = bitmaps whose path()/pixels()/unicode() output is validated: every w x h bitmap with a dark top-left module up to 13 cells (thorough: 20 cells, ~1M; holes, diagonal contacts and nested islands all occur), random bitmaps up to 144x144 at densities 10..90%, nested rings, encoded symbols of all 48 sizes; non-trivial = distinct bitmaps with >= 2 cells",
    "explanation": "Each path returned by the implementation is run through the executable checker pathOK, compiled from the Lean definition for which checker_sound is proved: acceptance implies the path is well formed (axis-parallel non-zero segments, moves only after a close, inside the bounding box, closed at the end) and its even-odd fill is exactly the bitmap; the checker additionally demands that every outline edge is drawn exactly once. pixels() is compared with the model for which pixels_exact is proved; unicode() with its model.",
    "level_text": "Translation validation: a proved-sound checker (Lean theorem checker_sound) validates every path the implementation produces in the sweep; that the implementation's Hierholzer walk always yields an accepted path (path_model_ok) is not proved.",
    "level_note": "Trusted: Lean kernel for checker_sound, DM/Spec/Fill.lean as the semantics of relative path operators and the even-odd rule, the Lean compiler for running the checker, the harness. The sweep is exhaustive for small bitmaps only.",
    "technique": "certified checker (Lean theorem: accepted => even-odd fill = bitmap) run on every implementation output",
    "unproved": ["path_model_ok: forall bitmaps with dark top-left, pathOK bm (path bm)"],
    "assumptions": ["bitmap dimensions fit i16 (documented precondition of path())"],
}
NONTRIVIAL["C17"] = lambda r: r.split()[0] in ("path", "pathm", "pixels", "unicode") and int(r.split()[2].split(":")[0]) >= 2

RS_RULE = "cases: received words for all 48 sizes: C03: zero codeword + every single error position (sampled per size in quick, all in thorough), random codewords with <= t errors per block in every region (anywhere, data part, EC part, tail), exactly t errors in every block, bursts, all double-error position pairs of 10x10 (values sampled); C09/C05: t+1..t+3 errors in one block, heavy damage, random words, words whose first j syndromes vanish, unit words, 20000 random words of the smallest sizes; non-trivial = distinct non-zero received words"
PROPS["C03"] = {
    "lean": [], "gens": ["c03"], "level": "exploration", "release": True, "rule": RS_RULE,
    "explanation": "For every error pattern of weight <= floor(k/2) per block in the sweep the implementation must return Ok and the original codeword vector (compared on the real code); the Lean model of the decoder (Levinson-Durbin, Chien, Bjorck-Pereyra, every panic site explicit) is compared with the implementation on every case incl. error variants.",
    "level_text": "Exploration / fault enumeration of error patterns with model correspondence; completeness of Levinson-Durbin is not proved.",
    "level_note": "Trusted: harness; encode_error (C06-proved) provides the codewords; by linearity the zero codeword covers all data vectors for the decoder's corrections.",
    "technique": "fault enumeration of error patterns within the correction radius + Lean model correspondence",
    "assumptions": [],
}
PROPS["C09"] = {
    "lean": [], "gens": ["c09"], "level": "exploration", "release": True, "rule": RS_RULE,
    "explanation": "Whenever the implementation answers Ok for a received word of the sweep (mostly words beyond the correction radius), the vector it leaves behind must have zero table-free syndromes in every interleaved block (DM/Spec/GF256.lean oracle); model correspondence on every case.",
    "level_text": "Exploration with specification oracle (independent GF(256) syndromes) on words beyond the radius.",
    "level_note": "Trusted: Spec/GF256.lean, harness.",
    "technique": "specification oracle (zero syndromes in table-free arithmetic) on every successful decode + Lean model correspondence",
    "assumptions": [],
}
NONTRIVIAL["C03"] = lambda r: r.split()[0] == "rsdec" and r.split()[2].strip("0") != ""
NONTRIVIAL["C09"] = NONTRIVIAL["C03"]
PROPS["C05"]["gens"] = ["c05d", "c05r"]

PROPS["C04"] = {
    "lean": [], "gens": ["c04"], "level": "exploration", "release": True,
    "pregen": {"c04": {"op": "gen-c04", "quick": 30000, "thorough": 600000}},
    "rule": "cases: data codeword streams built by the independent reference encoder of DM/Spec/Build.lean from random scripts: up to 5 mode runs (ASCII with or without digit packing, C40, Text, X12, EDIFACT, Base256) with explicit UNLATCH or end-of-symbol forms (run ending at the symbol end, single trailing ASCII codeword after C40/Text/X12, <= 2 ASCII codewords after a complete EDIFACT group, Base256 length 0 = to the end, 1- and 2-codeword Base256 lengths), optional Macro 05/06 or FNC1 header, padding to the next real symbol capacity; only scripts on which the reference builder and the reference decoder agree are used; non-trivial = distinct streams with >= 2 codewords",
    "explanation": "The crate's decode_data must return exactly the bytes the script stands for, for streams its own optimiser would never produce; the Lean model of the decoder is compared on the same streams.",
    "level_text": "Exploration with an independent reference encoder as stream source; decoder_complete is not yet a theorem.",
    "level_note": "Trusted: DM/Spec/Build.lean + DM/Spec/Stream.lean as the reading of ISO/IEC 16022 5.2 (a script is used only if both agree), harness.",
    "technique": "independent reference encoder (Lean) generates legal streams; implementation and Lean decoder model must both return the script's bytes",
    "assumptions": [],
}
NONTRIVIAL["C04"] = lambda r: r.split()[0] == "ddata" and len(r.split()[1]) >= 4

PROPS["C10"] = _enc_prop("c10",
    "Upper-bound oracle with witnesses: for every case the search of DM/Spec/Opt.lean (dynamic programming over whole mode runs + all end-of-symbol forms + pure ASCII / pure Base256 candidates, full search for inputs up to 48 bytes) looks for a legal stream in a listed symbol of smaller capacity than the one the encoder chose (or in any listed symbol when the encoder refused); a hit is reported together with the witness stream, which the reference decoder maps back to the input. The search is sound (every report has a witness) but not complete.",
    "Exploration with a witness-producing oracle; planner optimality is not proved (DESIGN.md, C10).",
    "Trusted: reference builder/decoder (witness check), harness. Cases with an ECI designator are not compared; FNC1-start and Macro 05/06 messages are searched with the header codeword in front (DM.Spec.Opt.searchH).",
    "search for a smaller legal encoding with re-checked witness (Lean), compared with the encoder's choice")
NONTRIVIAL["C10"] = _enc_nontrivial

PROPS["C15"].update({
    "lean": ["DM.Props.C15"], "level": "proof",
    "explanation": "Theorems: write_eci emits 241 + the ISO/IEC 16022 Table 6 designator for every number up to 999999 (and refuses beyond); every designator is read back as the same number whatever follows (read_write_eci); read_eci never panics and accepts exactly the well-formed designators with Table 6's value (read_eci_eq_spec); for each of ECI 0/3/11/13 the per-byte behaviour of the string decoder, regenerated from the code on every run, equals ISO-8859-1/-9/-11 on printable bytes and CharsetError elsewhere (kernel decide over 256 bytes each); ECI 26/27 pass exactly well-formed UTF-8 / 7-bit sequences. The models of write_eci / read_eci are tied to the code by exhaustive correspondence (all 1- and 2-codeword designators; all 1,000,000 numbers and 9.4M 3-codeword designators in the thorough tier).",
    "level_text": "Proof: every clause of the property is a kernel-checked theorem (arithmetic by omega for all 1,000,000 numbers, decide over regenerated 256-entry tables); model = code by exhaustive correspondence.",
    "level_note": "Trusted: Lean kernel, standard axioms, Spec/Eci.lean (Table 6) and Spec/Charsets.lean (Unicode mapping files, typed from memory) as definitions; String.fromUTF8? as the meaning of well-formed UTF-8; the per-byte charset tables are observed through the public decode_str.",
    "technique": "Lean 4 theorems (omega, decide over regenerated tables) + exhaustive model/implementation correspondence",
})

PROPS["C05"].update({
    "lean": ["DM.Props.C05"],
    "unproved": ["decode_str_total (span slicing in eci::convert)", "rs_decode_total (Reed-Solomon decoder: Levinson-Durbin / Chien / Bjorck-Pereyra index and divisor obligations)"],
    "explanation": "Theorems: decode_data_total - for every list of codewords the data-decoder model (every Rust panic site an explicit outcome) returns a value or a documented error, never a panic, and its loop bound is never reached; try_from_bits_total - the bitmap parser only reads inside the pixel array (with C08's theorems: every pixel array gets an answer). The string decoder and the Reed-Solomon decoder are decided by model/implementation correspondence (models with explicit panic outcomes vs the real code under catch_unwind, checked profile = overflow checks and debug assertions on) on exhaustive-short, grammar-aware mutated, crafted-syndrome and random inputs; any panic of the implementation is a violation on its own.",
    "level_text": "Partial proof (data decoder and bitmap parser total for all inputs) + exploration with model correspondence for decode_str and the Reed-Solomon decoder.",
})

PROPS["C16"].update({"lean": ["DM.Props.C16"], "gens": ["c16", "c16m"],
    "explanation": PROPS["C16"]["explanation"] + " Theorems (DM/Props/C16.lean) about the model of with_size + use_macro_if_possible, which is compared with the code through the macro_prefix hook on every envelope shape (each header truncated by 0..6 bytes x full/partial/missing trailer x flags): macro_total (the slice never panics), macro05_iff / macro06_of_envelope (a Macro codeword is written exactly when macros are on, no FNC1 start, and the message is header ++ body ++ trailer; the encoder continues with exactly the body), fnc1_first, macros_off, no_trailer_verbatim.",
    "level_text": "Partial proof (decision logic of macro compaction / FNC1 start proved on the model, tied by correspondence) + exploration with specification oracle for losslessness."})
PROPS["C02"].update({"lean": ["DM.Props.C02"], "gens": ["c02", "c02p"],
    "explanation": PROPS["C02"]["explanation"] + " Theorem padding_conformant (DM/Props/C02.lean): for every prefix and capacity the model of add_padding, compared with the code through the add_padding hook for every size and prefix length, writes UNLATCH if needed, 129, then codewords that the standard's 253-state de-randomisation maps to 129, and nothing else.",
    "level_text": "Partial proof (padding proved for all prefixes and capacities) + exploration with specification oracle for the mode encoders."})
PROPS["C14"].update({"lean": ["DM.Props.C14"],
    "explanation": PROPS["C14"]["explanation"] + " Theorems (DM/Props/C14.lean) over the two per-character tables regenerated on every run: latin1_agrees_iso8859_1, latin1_inverse_l / latin1_inverse_r (the helpers are mutually inverse on their domains, for whole strings).",
    "level_text": "Partial proof (Latin-1 helpers) + exploration with specification oracle, exhaustive over one-character strings."})

PROPS["C01"].update({"lean": ["DM.Props.C01"],
    "explanation": "Theorem pipeline_roundtrip (DM/Props/C01.lean): for every size and every vector of data codewords of the size's capacity, encode_error -> new_with_codewords -> bitmap -> try_from_bits -> codewords -> decode_error returns exactly the data codewords and the size (composition of the C06, C07, C08 theorems with clean_word_unchanged: the decoder's syndromes equal the specification's, so a word whose blocks are codewords passes the Reed-Solomon decoder untouched). Hence DataMatrix::decode(bitmap) and decode_data(data codewords) agree on every encoder output. The data-level half (decode_data inverts the mode encoders for every plan) is decided by the sweep: decode_data and DataMatrix::decode on the real code must return the input, the independent reference decoder must decode the stream to the input, and the whole decoding pipeline is compared with the composition of the Lean models (also on symbols with a few damaged modules).",
    "level_text": "Partial proof: the symbol-level half of the round trip is a theorem for all sizes and contents; the data-level half is exploration with a specification oracle.",
    "unproved": ["encode_conformant: forall plans, decode_data (Encode.run plan input) = input (mode encoders not yet modelled)"]})

PROPS["C19"].update({"lean": ["DM.Props.C19"], "gens": ["c19", "c19p"],
    "explanation": PROPS["C19"]["explanation"] + " Theorem live_plans_le_36 (DM/Props/C19.lean): for every candidate list, the model of remove_hopeless_cases keeps at most 36 plans (pairwise distinct (start mode, current mode)) and only removes; the model is compared with the code on every call of remove_hopeless_cases recorded by the hook (sorted input and final list) during planning of the sweep's inputs. The per-iteration arithmetic (36 + 5*36 = 216 steps) is steps_per_iteration; that the loop runs len+1 times is checked by the counters, not proved.",
    "level_text": "Partial proof (pruning bound for every candidate list, model tied to the code call by call) + instrumented counters for the iteration count.",
    "unproved": ["optimize_iterations: every live plan reads exactly one character per step, so the loop ends after len + 1 iterations"]})

PROPS["C02"]["gens"] = ["c02", "c02p", "c02x"]
PROPS["C02"]["explanation"] += " Model correspondence: the Lean model of the whole data encoder (DM/Model/Encode.lean: main loop, maybe_switch_mode, the six mode encoders with all end-of-data branches, add_padding; every assertion / unreachable / capacity / underflow site an explicit panic outcome) is run on the plan the implementation used (hook) for every case of the sweep and must produce the same codewords and size, and on thousands of arbitrary mutated plans injected through the plan-override hook it must agree with the implementation including the cases where the implementation panics."
PROPS["C02"]["technique"] = "specification oracle (Lean reference decoder) on implementation output + Lean encoder model correspondence (real and injected plans) + padding theorem"

# planner model correspondence (DM/Model/Planner.lean), shared by the properties anchored in the planner
_PLANNER_NOTE = (" Planner model correspondence (gen c18m): the Lean model of the whole planner (DM/Model/Planner.lean: Frac in twelfths,"
    " the six per-mode plans with every end-of-data shortcut, GenericPlan, add_switches, remove_hopeless_cases, optimize with its step and"
    " live-plan counters; every assert / unwrap / underflow an explicit panic outcome) is run on the same (data, written, list, modes) as"
    " optimize() through the hook and must return the same plan, cost, step count and live maximum. The order sort_unstable leaves equal-cost"
    " plans in is not modelled: the hook logs the permutation of every sort, the model checks that it sorts its own candidate list and follows it.")
for _p in ("C13", "C18", "C19", "C11"):
    PROPS[_p]["gens"] = list(PROPS[_p]["gens"]) + ["c18m"]
    PROPS[_p]["explanation"] += _PLANNER_NOTE

_PLANNER_THMS = (" Theorems over the planner model (DM/Props/Planner.lean, for every message, list, mode set, written offset and every"
    " sequence of sort permutations): optimize_total - no assert!/unwrap/usize underflow/Frac debug assertion of the planner can fire and"
    " the loop ends within len+1 iterations; plan_modes_enabled - every entry of the returned plan names an enabled mode;"
    " plan_positions - positions never increase, stay within the message and end at 0; steps_linear - at most 216*(n+1)+5 step() calls;"
    " live_le_36 - at most 36 live plans after every iteration.")
for _p in ("C13", "C18", "C19", "C11"):
    PROPS[_p]["lean"] = list(PROPS[_p].get("lean") or []) + ["DM.Props.Planner"]
    PROPS[_p]["explanation"] += _PLANNER_THMS
PROPS["C19"]["level_text"] = ("Partial proof: the step bound 216*(n+1)+5 and the 36-live-plan bound are theorems about the planner model for all inputs"
    " (model tied to the code by correspondence on plan, cost, step counter and live maximum, and call by call for the pruning);"
    " the instrumented counters of the implementation are checked against the same bounds on adversarial long inputs.")
PROPS["C19"]["unproved"] = ["(the theorem is about the model; the implementation's counters are tied to it by correspondence only)"]
PROPS["C13"]["level_text"] = ("Partial proof: the planner half (the plan names only enabled modes) is a theorem about the planner model for all inputs;"
    " that the encoder latches exactly as planned and that end-of-data fallbacks stay within ASCII is exploration with the reference decoder as oracle.")
PROPS["C18"]["level_text"] = ("Partial proof: plan shape (enabled modes only, positions non-increasing ending at 0) and planner totality are theorems"
    " about the planner model; agreement of latches and predicted size with the encoder is exploration with oracle plus planner/encoder model correspondence.")
PROPS["C11"]["level_text"] = ("Partial proof: the planner never panics and always terminates (theorem over the planner model, all inputs);"
    " macro slicing never panics (C16 macro_total); the mode encoders are covered by encoder-model correspondence including injected plans; the rest is exploration under catch_unwind.")

# C19 is now a theorem about the model of the whole planner (not only of the pruning step)
PROPS["C19"]["level"] = "proof"
PROPS["C19"]["unproved"] = []
PROPS["C19"]["level_text"] = ("Proof: steps_linear (at most 216*(n+1)+5 calls of Plan::step for every message of n bytes, every symbol list, mode set and"
    " written offset) and live_le_36 / live_plans_le_36 (at most 36 plans alive after every iteration) are kernel-checked theorems about the Lean"
    " model of the whole planner; optimize_total shows the loop ends after at most n+1 iterations. The model is tied to optimize() by"
    " correspondence on the returned plan, its cost, the implementation's step counter and its live-plan maximum (hook counters), and call by"
    " call for remove_hopeless_cases; the instrumented counters are also checked against the bounds on adversarial long inputs.")
PROPS["C19"]["level_note"] = ("Trusted: Lean kernel, standard axioms, the correspondence harness and the counting hooks (planner_count_step at both call sites of"
    " step(), planner_note_live after pruning); the order sort_unstable_by_key leaves equal-cost plans in is an input of the model (logged permutation,"
    " validated by the model), so the theorems hold for every order the sort could produce. Wall-clock time per step is not modelled: each step is"
    " O(look-ahead) in the code; the property's bound is on the number of steps.")
PROPS["C19"]["technique"] = "Lean 4 theorems over a hand-written model of the whole planner (induction over the main loop with a live-plan invariant) + model/implementation correspondence incl. step and live-plan counters"

PROPS["C05"]["unproved"] = ["rs_decode_total (Reed-Solomon decoder: Levinson-Durbin / Chien / Bjorck-Pereyra index and divisor obligations; its debug assertions are algebraic identities of the recursion)"]
PROPS["C05"]["explanation"] = PROPS["C05"]["explanation"].replace("The string decoder and the Reed-Solomon decoder are decided",
    "decode_str_total - the same for the string decoder: the ECI span starts recorded while decoding are sorted and inside the output (eci_spans_in_range), so eci::convert never slices out of range, and the regenerated per-byte conversion tables cover every byte. The Reed-Solomon decoder is decided")

PROPS["C01"]["explanation"] += (" Data-level half, ASCII: ascii_roundtrip (DM/Props/C01.lean) - whenever the encoder model following the plan 'ASCII until the end' returns the data codewords"
    " of a symbol, the data decoder model returns exactly the message and the codewords fill the symbol (digit pairs, upper shift, pad codeword and 253-state randomised pads"
    " included), for every message and every symbol list. Both models are tied to the code by correspondence (encoder: real and injected plans; decoder: exhaustive-short and mutated streams).")
PROPS["C01"]["unproved"] = ["encode_conformant for the other five modes: forall plans, decode_data (Encode.run plan input) = input (proved for ASCII-only plans: ascii_roundtrip)"]
PROPS["C01"]["level_text"] = ("Partial proof: the symbol-level half of the round trip is a theorem for all sizes and contents, the data-level half is a theorem for ASCII encodation"
    " (all messages, all lists, all padding amounts); the data-level half for the other modes is exploration with a specification oracle.")

# C04 is now a theorem: decoder_complete over all well-formed scripts of the reference builder
PROPS["C04"].update({
    "lean": ["DM.Props.C04"], "level": "proof", "unproved": [],
    "explanation": ("Theorem decoder_complete (DM/Props/C04.lean): for every script of the independent reference builder (DM/Spec/Build.lean: any sequence of ASCII runs with or without digit"
        " packing, C40, Text, X12, EDIFACT and Base 256 runs with every termination form - UNLATCH, end of symbol, single trailing ASCII codeword after C40/Text/X12, at most two ASCII"
        " codewords after a complete EDIFACT group, Base 256 length 0 / 1 / 2 codewords - optional Macro 05/06 or FNC1 header, any amount of padding) that is well formed (WFScript: each run is"
        " legal in front of the codewords that follow it; decidable), the Lean model of decode_data returns exactly the bytes the script stands for. Proof: per run kind a segment lemma"
        " (the decoder's loop for that mode inverts the builder's packing: ASCII pairs and upper shift, the C40/Text value automaton on all 512 (charset, byte) pairs by kernel evaluation,"
        " X12 / C40 triple packing, EDIFACT 6-bit packing with the UNLATCH value in each of the four slots, Base 256 255-state randomisation by position with the three length forms), composed over the"
        " script, plus padding and header handling. The check evaluates WFScript on every script it generates (30 000 per quick run: all scripts on which builder and reference decoder agree are"
        " well formed), feeds the streams to the real decode_data, which must return the script's bytes, and compares the decoder model with decode_data on the same streams."),
    "level_text": ("Proof: decoder_complete is a kernel-checked theorem over the Lean model of decode_data for all well-formed scripts of the reference builder; the model is tied to the code by"
        " correspondence on the generated streams (and, for C05, on exhaustive-short and mutated streams); the real decoder is also run on every generated stream."),
    "level_note": ("Trusted: Lean kernel, standard axioms, DM/Spec/Build.lean + WFScript as the formal reading of 'built according to ISO/IEC 16022' (the builder was written independently of the crate and is"
        " cross-checked against the independent reference decoder DM/Spec/Stream.lean on every generated script), the correspondence harness for model = decode_data. Not covered by the builder:"
        " ECI designators, FNC1 / reader programming / structured append codewords inside the data, C40 runs whose last triple is padded with shift values."),
    "technique": "Lean 4 theorem over a hand-written decoder model and an independent reference builder (segment lemmas per mode, induction over the script) + model/implementation correspondence on builder-generated streams",
})

PROPS["C01"]["explanation"] += (" x12_roundtrip: the same for a message planned entirely in X12 (latch at the start, stay there), including the three end-of-data forms x12::encode chooses between from the space left"
    " in the symbol (run ends with the symbol; single trailing ASCII codeword without UNLATCH; UNLATCH + rest in ASCII + padding). For arbitrary injected plans the round trip does not hold"
    " (a switch planned inside the last two characters of an X12 run leaves a stale latch after set_ascii_until_end; shown by evaluating the models, DESIGN.md 0.6), so the data-level theorems are stated per plan shape.")
PROPS["C01"]["explanation"] += " b256_roundtrip: the same for a message planned entirely in Base 256 (one- and two-codeword length, length 0 = to the end of the symbol when the data ends with the symbol, 255-state randomisation by position)."
PROPS["C01"]["explanation"] += " edifact_roundtrip: the same for a message planned entirely in EDIFACT (characters 32..94): complete quadruples, then try_ascii_end (<= 4 characters as <= 2 ASCII codewords without UNLATCH when <= 2 codewords are left), the UNLATCH value in the next free slot (the proof derives the three codewords the decoder needs from the encoder's space tests) or the exact end of the symbol; the handle_end branch that writes buffered characters without UNLATCH is shown unreachable."
PROPS["C01"]["explanation"] += " c40_roundtrip / text_roundtrip: the same for a message planned entirely in C40 or Text: every byte value (basic and shift sets, upper shift), triples flushed as they fill, and every end-of-data branch of c40::handle_end (fill value 0 without UNLATCH; dropped value + UNLATCH + last character in ASCII; single trailing ASCII codeword without UNLATCH; fill with Shift 2 (+ Upper Shift) and UNLATCH if there is room; two trailing digits as an ASCII pair)."
PROPS["C01"]["unproved"] = ["encode_conformant for mixed plans produced by the optimiser (the data-level round trip is proved for each of the six single-mode plan shapes: ascii_, x12_, b256_, edifact_, c40_, text_roundtrip; it is false for arbitrary foreign plans, see DESIGN.md 0.6)"]
PROPS["C01"]["level_text"] = ("Partial proof: the symbol-level half of the round trip is a theorem for all sizes and contents; the data-level half is a theorem for each of the six single-mode plans"
    " (all messages, all symbol lists, every end-of-data form and all padding amounts); for mixed plans chosen by the optimiser it is exploration with a specification oracle.")

PROPS["C01"]["explanation"] += (" mixed_roundtrip (DM/Props/C01.lean): for every plan over ASCII, C40, Text, X12 and Base 256 in which no latch to a non-ASCII mode is scheduled for the last four"
    " characters, whatever the encoder model returns decodes to the message (invariant of the encoder's main loop - decoder model and encoder model in step - preserved by every mode encoder started at any"
    " position with any plan, including planned switches inside handle_end / write_length). The sweep reports how many of the optimiser's plans satisfy the side condition"
    " (input_distribution: roundtrip_theorem_*; quick run: 7973 of 9469 successful encodings by mixed_roundtrip / macro_roundtrip / fnc1_roundtrip, 822 more by the single-mode theorems,"
    " 612 mix EDIFACT with other modes, 62 have a late latch).")
PROPS["C01"]["unproved"] = ["data-level round trip for plans that mix EDIFACT with other modes or latch into a non-ASCII mode within the last four characters (7 % of the optimiser's plans in the sweep), and behind ECI designators"
    " (proved: mixed_roundtrip for all other plans, and the six single-mode plan shapes)"]
PROPS["C01"]["level_text"] = ("Partial proof: the symbol-level half of the round trip is a theorem for all sizes and contents; the data-level half is a theorem for every plan over ASCII/C40/Text/X12/Base 256"
    " without a late non-ASCII latch and for the six single-mode plans (all messages, all symbol lists, every end-of-data form, all padding); for the remaining plan shapes it is exploration with a specification oracle.")

PROPS["C16"]["explanation"] += (" Losslessness (DM/Props/C16.lean): macro05_lossless / macro06_lossless - for every message in the envelope the macro codeword is written, the body is handed to the encoder, and whatever"
    " the encoder model returns for the body under any plan covered by the round-trip theorem (no EDIFACT, no latch to a non-ASCII mode within the last four characters) the decoder model turns back into the whole"
    " original message, header and trailer included; gs1_roundtrip - the same behind FNC1 in first position.")
PROPS["C16"]["level_text"] = ("Partial proof: decision logic of macro compaction / FNC1 start and losslessness for all bodies and all plans covered by the round-trip theorem are theorems about the models"
    " (tied by correspondence); the remaining plan shapes (EDIFACT mixed with other modes, late latches) are exploration with a specification oracle.")
PROPS["C01"]["explanation"] += " The same holds behind an FNC1 or Macro 05/06 prefix codeword (MainRT.fnc1_roundtrip, macro_roundtrip; stated as losslessness in DM/Props/C16.lean)."

# ---- Reed-Solomon distance theorems (Lemmas/RSDist.lean, Props/C09.lean, Props/C03.lean) ----
PROPS["C09"]["lean"] = ["DM.Props.C09"]
PROPS["C09"]["explanation"] += " Theorems: valid_iff_reencode (zero syndromes in every interleaved block <=> re-encoding the data part reproduces the error part, i.e. the oracle is the property's own wording), valid_distance (two valid words differing in <= k codewords per block are equal: minimum distance k+1 of every block code, lengths <= 255), valid_fixed (a valid word passes the decoder unchanged)."
PROPS["C09"]["level_text"] = "Exploration with specification oracle (independent GF(256) syndromes) on words beyond the radius; the oracle's equivalence with the property's wording and the code's minimum distance are theorems."
PROPS["C09"]["unproved"] = ["decode_sound: RS.decode s r = ok c' -> Valid c' (needs correctness of the Levinson-Durbin recursion and of the Bjorck-Pereyra solver)"]
PROPS["C03"]["lean"] = ["DM.Props.C03"]
PROPS["C03"]["explanation"] += " Theorems: correction_unique (a valid word within floor(k/2) per block of the received word is the only such word, so an Ok answer that is valid and local is the original vector), decode_restores (the same, stated for the decoder model)."
PROPS["C03"]["level_text"] = "Exploration / fault enumeration of error patterns with model correspondence; uniqueness of the correction is a theorem, completeness of Levinson-Durbin is not proved."
PROPS["C03"]["unproved"] = ["decode_complete: <= floor(k/2) errors per block -> RS.decode answers ok (completeness of the Levinson-Durbin locator search incl. its singular case)", "decode_sound / locality (see C09)"]

# ---- string round trip (Lemmas/EciFrame.lean, Props/C14Str.lean) ----
PROPS["C14"]["lean"] = ["DM.Props.C14", "DM.Props.C14Str"]
PROPS["C14"]["explanation"] += " Data-level round trip (DM/Props/C14Str.lean): encode_str_roundtrip - whichever branch encode_str selects for a string (Latin-1 bytes without ECI if utf8_to_latin1 accepts it, otherwise its UTF-8 bytes behind 241,27), every successful run of the plan-driven encoder model decodes under the string decoder model to exactly the string's code points (latin1_string_roundtrip, utf8_string_roundtrip); eci_string_decode - behind any ECI designator up to 999999 the string decoder converts exactly the original bytes with that ECI's conversion. Proof: the decoder only appends to its ECI span list (mainLoop_frame), an ECI designator in ASCII mode is stepped over with the span recorded (eci_step, using C15's read_write_eci), then the encoder/decoder simulation of C01 (MainRT.run_decRun). Side conditions as in C01's mixed_roundtrip (no EDIFACT entry, no latch to a non-ASCII mode within the last four characters); messages that are a Macro 05/06 envelope are outside the theorem."
PROPS["C14"]["level_text"] = "Partial proof (Latin-1 helpers; encode_str -> decode_str round trip on the encoder/decoder models for admissible plans) + exploration with specification oracle, exhaustive over one-character strings."
PROPS["C14"]["unproved"] = ["string round trip for plans outside the side condition of mixed_roundtrip and for strings with a Macro 05/06 envelope; the planner-encoder coupling (the theorem is over every admissible plan, the optimiser's plans are checked against the side condition in the sweep)"]

# ---- pixel-level entry points around valid symbols (harness gen c05p) ----
PROPS["C05"]["gens"] = ["c05d", "c05r", "c05p"]

# ---- shape of every successful encoding (Props/C02Shape.lean) ----
PROPS["C02"]["lean"] = ["DM.Props.C02", "DM.Props.C02Shape"]
PROPS["C02"]["explanation"] += " Theorem run_shape (DM/Props/C02Shape.lean): for every plan and prefix, a successful run of the encoder model returns a symbol that is a member of the supplied list - the first one large enough for the codewords the mode encoders wrote -, exactly that symbol's number of data codewords, and after the encoders' codewords exactly the standard's padding (UNLATCH if needed, 129, 253-state randomised pads)."

# ---- C11: error classification (Lemmas/NoLE.lean, Props/C11.lean) ----
PROPS["C11"]["lean"] = PROPS["C11"]["lean"] + ["DM.Props.C11"]
PROPS["C11"]["explanation"] += " Theorem run_listEmpty_iff (DM/Props/C11.lean): the encoder model answers SymbolListEmpty if and only if the supplied list is empty - none of the ~25 functions below run (main loop, six mode encoders, end-of-data handlers) can produce that error (Lemmas/NoLE.lean); run_error_nonempty: every refusal on a non-empty list is something else."
PROPS["C11"]["level_text"] = ("Partial proof: the planner never panics and always terminates (theorem over the planner model, all inputs); the error is SymbolListEmpty iff the list is empty (theorem over the encoder model);"
    " macro slicing never panics (C16 macro_total); the mode encoders are covered by encoder-model correspondence including injected plans; the rest is exploration under catch_unwind.")

# ---- C13 / C18: segment structure of the encoder's output (Lemmas/PlanProv.lean, Lemmas/Trace.lean, Props/C13.lean) ----
_SEG_THMS = (" Encoder side (DM/Props/C13.lean, for every message, symbol list, prefix and every plan within the side condition of the round-trip theorem - no EDIFACT entry,"
    " no latch to a non-ASCII mode planned for the last four characters): run_segments - a successful run of the encoder model splits into segments, one per call of a mode"
    " encoder, such that at the start of every segment the decoder model run on the whole stream is at the top of its ASCII loop having produced exactly the characters in front"
    " of the segment (the segment starts are the positions in ASCII context; what follows the last segment is padding); latches_planned - a segment written in ASCII mode holds"
    " ASCII codewords only (no 230/231/238/239/240 inside it) and every other segment starts with the latch of a mode the plan names (plan provenance: the control triple"
    " (planned_switches, encodation, new_mode) is changed only by maybe_switch_mode, set_ascii_until_end and the main loop taking the latch - Lemmas/PlanProv.lean, valid for every plan, EDIFACT included);"
    " latches_enabled - combined with plan_modes_enabled: if the plan is the planner model's answer for a mode set, every latch at a segment start belongs to an enabled mode.")
for _p in ("C13", "C18"):
    PROPS[_p]["lean"] = list(PROPS[_p]["lean"]) + ["DM.Props.C13"]
    PROPS[_p]["explanation"] += _SEG_THMS
PROPS["C13"]["level_text"] = ("Partial proof: both halves are theorems about the models - the planner's plan names only enabled modes (all inputs), and the encoder latches only into modes"
    " the plan names, with no latch codeword inside an ASCII segment (all inputs, all plans within the round-trip side condition: 93 % of the optimiser's plans in the sweep);"
    " for EDIFACT-mixing plans, late latches and the 'final few characters' clause it is exploration with the reference decoder's mode trace as oracle.")
PROPS["C13"]["unproved"] = ["latches_planned for plans that use EDIFACT or latch into a non-ASCII mode within the last four characters; the clause 'ASCII carries only the final few characters when ASCII is disabled' (needs the planner-encoder coupling)"]
PROPS["C18"]["level_text"] = ("Partial proof: plan shape (enabled modes only, positions non-increasing ending at 0), planner totality, and 'every latch in the encoder's output is the latch of a planned mode'"
    " (segment theorem, plans within the round-trip side condition) are theorems about the models; that every planned non-ASCII mode with at least one character is latched, in plan order, and that the predicted size is met"
    " is exploration with oracle plus planner/encoder model correspondence.")
PROPS["C18"]["unproved"] = ["latch sequence = planned non-ASCII modes in order (proved: membership, latches_planned); planner_predicts_size"]

# ---- C10: the oracle is proved sound (Props/C10.lean) ----
PROPS["C10"]["lean"] = ["DM.Props.C10"]
PROPS["C10"]["explanation"] += (" Theorem search_sound (DM/Props/C10.lean): whenever the search answers, its script's stream has exactly the reported capacity, that capacity is a member of the"
    " supplied list, and the independent reference decoder maps the stream back to the whole message (FNC1 flag as requested) - a report 'a smaller symbol suffices' always carries a valid"
    " encoding in that symbol; completeness of the search is not claimed.")
PROPS["C10"]["level_text"] = ("Exploration with a witness-producing oracle whose soundness is a theorem (every report carries a stream of a listed smaller capacity that the reference decoder maps to the input);"
    " planner optimality itself is not proved and does not hold (DESIGN.md, C10 known findings).")
PROPS["C10"]["unproved"] = ["planner_optimal: no listed symbol of smaller capacity admits a conformant encoding (false for the pinned planner: see the known findings K-A, K-B*); completeness of the search"]

# ---- C17: path() itself is modelled (Model/Path.lean) and compared segment by segment ----
PROPS["C17"]["explanation"] += (" Model correspondence: DM/Model/Path.lean models Bitmap::path() itself - bits_to_edge_graph, edge_left with its hint, follow / can_step, the Hierholzer loop with the"
    " splice positions and the drained list of alternatives, compress_path - with the `expect` an explicit panic outcome; on every bitmap of the sweep the model must return exactly the"
    " implementation's segment list (M lines), so the certified checker is also run, implicitly, on the model's output.")
PROPS["C17"]["technique"] = "certified checker (Lean theorem: accepted => even-odd fill = bitmap) run on every implementation output + Lean model of path() compared segment by segment"

# ---- C18: the exact latch sequence (Lemmas/LatchSeq.lean, Props/C18.lean) ----
PROPS["C18"]["lean"] = list(PROPS["C18"]["lean"]) + ["DM.Props.C18"]
PROPS["C18"]["explanation"] += (" Latch sequence (DM/Props/C18.lean): latch_sequence_segments / latch_sequence - for every plan within the round-trip side condition whose positions never increase and lie within the"
    " message (both are theorems about the planner: latch_sequence_optimized discharges them with plan_positions), the latches at the segment starts of the encoder model's output are exactly"
    " plannedLatches plan: walk the entries with a positive position starting in ASCII mode, an entry of the current mode changes nothing, any other entry changes the mode and contributes its latch unless it is ASCII -"
    " 'the non-ASCII modes to which the plan assigns at least one character, in the same order'. Each call of a mode encoder pops entries of the current mode and at most one other entry; the end-game truncation"
    " (set_ascii_until_end) only drops entries that cause no latch. Both hypotheses are necessary (counterexamples in the file).")
PROPS["C18"]["level_text"] = ("Partial proof: plan shape (enabled modes only, positions non-increasing ending at 0), planner totality, and 'the latches in the encoder's output are exactly the planned non-ASCII mode"
    " changes, in plan order' (latch_sequence, for plans within the round-trip side condition) are theorems about the models; that the predicted size is met is exploration with oracle plus planner/encoder model correspondence.")
PROPS["C18"]["unproved"] = ["planner_predicts_size: the encoder never needs a larger symbol than the planner's cost predicts; latch_sequence for plans using EDIFACT or latching into a non-ASCII mode within the last four characters"]

# ---- C05: the Reed-Solomon decoder reaches no index / division / assertion panic site (Lemmas/RSTotal.lean) ----
PROPS["C05"]["explanation"] += (" rs_decode_panics_only_algebraic (DM/Props/C05.lean, proved in DM/Lemmas/RSTotal.lean with a weakest-precondition calculus over the do-notation model): for every symbol size and every"
    " codeword vector of the size's length the Reed-Solomon decoder model - syndromes, Levinson-Durbin incl. the singular case, Chien search, malfunction test, Bjorck-Pereyra, correction, the interleaving loop -"
    " reaches none of its index, slice, subtraction, division and assert! panic sites (loop invariant 1 <= v <= t, |w| = |y| = v; pivots, eps_v, sigma_m non-zero where divided by; Chien roots pairwise distinct and non-zero,"
    " so the divided differences and 1/z are defined; locations are non-zero, so log is defined); the only panic outcomes left are the debug re-checks of the Levinson-Durbin identities (3) and (4), which exist only in builds with debug assertions;"
    " the decoder terminates by construction and a success preserves the length (rs_decode_length); chien_search_total, levinson_durbin_panics_only_algebraic.")
PROPS["C05"]["level_text"] = ("Partial proof: the data decoder, the string decoder and the bitmap parser are total for all inputs; the Reed-Solomon decoder reaches none of its index / slice / subtraction / division / assert! panic sites"
    " for any word of the right length (theorems about the models, all inputs) - in release builds it therefore cannot panic; that its two debug re-checks of the Levinson-Durbin identities never fire is decided by model correspondence (checked profile) on crafted-syndrome and random words.")
PROPS["C05"]["unproved"] = ["ld_identities: the debug assertions re-checking equations (3) and (4) of the Levinson-Durbin recursion never fire (the algebraic correctness of the recursion incl. its singular case)"]

# ======== Reed-Solomon decoder: totality, soundness, completeness are theorems (RSTotal, LD*, RSSound*, BP*, C03*) ========
PROPS["C05"]["level"] = "proof"
PROPS["C05"]["unproved"] = []
PROPS["C05"]["explanation"] += (" rs_decode_total (DM/Props/C05.lean; DM/Lemmas/LDBase, LDCore, LDRegular, LDSingular, LDStep, LDTotal): equations (3) H_v y = e_{v-1} and (4) H_v w = h_v are invariants of the"
    " Levinson-Durbin recursion of the model - initial back substitution, regular step, and the singular step with its iterated shifts w^k, the lower-triangular Toeplitz system for gamma and the shifted sums of eq. (9),"
    " all over the field GF(256) derived from the regenerated tables - so the two debug assertions cannot fire: for every size and every word of the size's length the Reed-Solomon decoder model returns the corrected vector"
    " or one of TooManyErrors / ErrorsOutsideRange / Malfunction, and never any panic outcome.")
PROPS["C05"]["level_text"] = ("Proof: every decoding entry point is total on the models, for all inputs - decode_data_total, decode_str_total (with eci_spans_in_range), try_from_bits_total (with C08: every pixel array gets an answer),"
    " rs_decode_total (no index / slice / subtraction / division / assert! panic site is reachable and the debug re-checks of the Levinson-Durbin identities hold, in the regular and the singular case; loops bounded by construction);"
    " DataMatrix::decode is the composition. Every Rust panic site (overflow checks and debug assertions included) is an explicit outcome of the models, which are tied to the code by correspondence on exhaustive-short,"
    " grammar-aware mutated, crafted-syndrome, long-singular-jump and random inputs under catch_unwind in the checked profile (release profile in the thorough tier).")
PROPS["C05"]["level_note"] = ("Trusted: Lean kernel, standard axioms, the correspondence harness (catch_unwind; checked profile = overflow checks + debug assertions on); the models' transcription of every panic site"
    " (Appendix A of DESIGN.md) is what the correspondence checks. Hangs: the models' loops are structurally bounded (fuel that the theorems show is never exhausted); wall-clock behaviour of the code is observed, not proved.")
PROPS["C05"]["technique"] = "Lean 4 theorems over hand-written models with every panic site explicit (weakest-precondition calculus over the do-notation Reed-Solomon decoder, Levinson-Durbin algebra over GF(256)) + model/implementation correspondence"

PROPS["C09"]["lean"] = ["DM.Props.C09", "DM.Props.C09Sound"]
PROPS["C09"]["level"] = "proof"
PROPS["C09"]["unproved"] = []
PROPS["C09"]["explanation"] += (" decode_sound / decode_sound_reencode (DM/Props/C09Sound.lean; DM/Lemmas/RSSoundBase, RSSoundLD, RSSoundBlock, BPDefs, BPAlg, BPBridge, RSSoundLift): for every size and every word of the size's length,"
    " if the decoder model answers Ok, every interleaved block of its answer has zero syndromes, i.e. re-encoding the data part reproduces the error-correction part (the property's own wording, via valid_iff_reencode)."
    " Proof: after the locator search, the Chien search and the malfunction test the order-v recurrence with the returned locator holds on every window of the syndromes (recurrence_all_windows); the Chien roots are roots of the"
    " locator, so the power sums of the inverse roots obey the same recurrence; Bjorck-Pereyra solves the Vandermonde system exactly (bjorckPereyra_correct: Newton basis / divided differences, proved over any field and bridged to the list model);"
    " two sequences with the same monic order-v recurrence and the same first v terms agree (recurrence_extend); syndromes are linear in the corrections (synd_update); lifting from blocks to the interleaved word (scatter / strided).")
PROPS["C09"]["level_text"] = ("Proof: decode_sound - whenever the Reed-Solomon decoder model returns success for a word of any symbol size, the word it leaves behind is a valid codeword of every interleaved block (all inputs; kernel-checked);"
    " the model is tied to the code by correspondence on words within and beyond the radius, crafted syndromes (leading zeros, singular Hankel minors, one violated recurrence window, locations outside the block) and random words, and the"
    " independent table-free syndrome oracle is still evaluated on every Ok of the implementation.")
PROPS["C09"]["level_note"] = "Trusted: Lean kernel, standard axioms, Spec/GF256.lean + Spec/Table7.lean as the definition of the code, the correspondence harness for model = decode_error."
PROPS["C09"]["technique"] = "Lean 4 theorem over the decoder model (recurrence on all windows + Bjorck-Pereyra correctness + linearity of syndromes) + model/implementation correspondence + independent syndrome oracle on every Ok"

PROPS["C03"]["lean"] = ["DM.Props.C03", "DM.Props.C03Full", "DM.Props.C03Complete", "DM.Props.C03Single"]
PROPS["C03"]["level"] = "proof"
PROPS["C03"]["unproved"] = ["the last clause of the property, 'decoding the correspondingly damaged module matrix returns the original message', is the composition with C07/C08/C01 (pipeline_roundtrip) and the data-level round trip, which is proved only for the plans named under C01"]
PROPS["C03"]["explanation"] += (" decode_complete_unconditional (DM/Props/C03Full.lean; DM/Lemmas/RSLocator, LDReach, LDFlow, LDFlow2, BlockComplete, ChienSpec, BPShape, BPPure, BPCorrect, BPOne, CorrectParts, ErrPattern, BlocksAssemble, RSTot):"
    " for every size, every valid codeword vector and every received word that differs from it in at most floor(k/2) codewords of each interleaved block - any positions, data or error-correction part, any values - the decoder model"
    " answers Ok and returns exactly the original vector. Proof: the syndrome Hankel matrix of nu errors is non-singular at size nu and singular beyond (hankel_det_ne_zero / _eq_zero), the error locator is the unique monic order-nu"
    " recurrence (rec_true, rec_unique); the Levinson-Durbin recursion, whose invariants (3), (4) are theorems, reaches exactly v = nu - a singular jump never overshoots (step_below) - and stops there (loop_at_nu); the Chien search finds"
    " exactly the nu inverse locators, also through the degree-one shortcut (chien_finds_locators); the malfunction test passes; Bjorck-Pereyra returns the error values; the corrections land on the right codewords of the right block"
    " (144x144's unequal blocks included) and restore the word. decode_single_wrong_codeword: any single wrong codeword of any size is repaired.")
PROPS["C03"]["level_text"] = ("Proof: decode_complete_unconditional - all 48 sizes, all valid vectors, all error patterns of weight <= floor(k/2) per block are repaired exactly by the decoder model (kernel-checked, no hypotheses beyond the"
    " statement's); the model is tied to the code by correspondence on enumerated and sampled patterns in every region of every block, exactly-t patterns, bursts, patterns with long singular jumps.")
PROPS["C03"]["level_note"] = "Trusted: Lean kernel, standard axioms, Spec/GF256.lean + Spec/Table7.lean as the definition of the code, the correspondence harness for model = decode_error; encode_error (C06-proved) provides valid vectors."
PROPS["C03"]["technique"] = "Lean 4 theorem over the decoder model (Hankel / locator algebra, Levinson-Durbin reaches the error count, Chien, Bjorck-Pereyra, block assembly) + model/implementation correspondence on enumerated error patterns"

PROPS["C17"]["lean"] = ["DM.Props.C17", "DM.Props.C17b"]
PROPS["C17"]["level"] = "proof"
PROPS["C17"]["unproved"] = []
PROPS["C17"]["explanation"] += (" path_model_ok / path_model_fill (DM/Props/C17b.lean; DM/Lemmas/PathMicro, PathGraph, PathGraphImp, PathWalk, PathCompress): for every bitmap with a dark top-left module (dimensions within i16) the model of"
    " Bitmap::path() returns a path - the walk never meets the `expect` and never runs out of fuel - that the certified checker accepts, hence (checker_sound) is well formed and fills exactly the dark modules. Proof: the outline graph has"
    " exactly the boundary edges (bitsToEdgeGraph_spec; the closed form equals the transcribed loops, bitsToEdgeGraphImp_eq) and every grid node has even degree (even_degree); a walk from a node of a graph with all degrees even comes back"
    " to its start and removes one edge per step (walk_spec); splicing a closed walk at an alternative keeps a sequence of closed walks (euler_spec); when edge_left finds nothing every edge has been drawn exactly once (tours_spec);"
    " compress_path preserves the drawn unit edges, yields non-zero axis-parallel segments and closes every sub-path (compress_spec). The counterexample without a dark top-left module is an example in the file.")
PROPS["C17"]["level_text"] = ("Proof: path_model_fill - for every bitmap with a dark top-left module the path returned by the model of Bitmap::path() is well formed and its even-odd fill is exactly the bitmap (all bitmaps, kernel-checked);"
    " pixels_exact for the pixel iterator. The model is tied to the code by exact segment-by-segment correspondence on every bitmap of the sweep (all bitmaps up to 13 cells, random bitmaps up to 144x144 and 4200 wide, all symbol sizes),"
    " and the certified checker is still run on every path the implementation returns.")
PROPS["C17"]["level_note"] = "Trusted: Lean kernel, standard axioms, DM/Spec/Fill.lean as the semantics of relative path operators and the even-odd rule, the correspondence harness for model = path() (exact equality of outputs)."
PROPS["C17"]["technique"] = "Lean 4 theorem over the model of path() (even-degree outline graph, Hierholzer invariants, compress_path) + certified checker + exact model/implementation correspondence"
PROPS["C17"]["assumptions"] = ["bitmap dimensions fit i16 (documented precondition of path(); an explicit `overflow` outcome of the model)", "the top-left module is dark (as in the property)"]

PROPS["C01"]["explanation"] += (" mixed_roundtrip_E (DM/Props/C01.lean, DM/Lemmas/EdiGen.lean): the same for plans that end in an EDIFACT stretch (front ++ EDIFACT entries, the stretch's characters being EDIFACT characters) - the general EDIFACT"
    " encoder lemma from any position with every end-of-data form (ASCII end game, UNLATCH in the next free slot, exact fit), also behind FNC1 / Macro prefix codewords.")

# ======== session 4: planner / encoder coupling (Lemmas/Couple*.lean, Props/C18Couple.lean) ========
_COUPLE = (" Coupling (DM/Props/C18Couple.lean; DM/Lemmas/Couple, CoupleAscii, CoupleB256, CoupleX12, CoupleEdi, CoupleC40, CoupleReach, CoupleMain):"
    " predicted_size_suffices_planOK - if the planner model returns plan and cost for (body, prefix length, list, modes) and the plan satisfies the decidable side condition planOK"
    " (DM/Model/PlanSide.lean: no switch out of C40/Text scheduled at one of the last two positions of a message ending in two digits, except the switch to ASCII exactly in front of them),"
    " then the encoder model run on that plan either succeeds with a symbol no larger than every symbol the predicted cost fits, or answers TooMuchOrIllegalData while the predicted cost fits no listed symbol"
    " (or the list is empty / the message exceeds the theoretical limit: the two early exits) - for all messages, prefixes, lists, mode sets and all sort permutations;"
    " encoder_no_panic_planOK - under the same hypotheses the encoder model reaches none of its ~25 assertion / unreachable / index / underflow sites and does not run out of fuel."
    " Proof: a history invariant of optimize (every live plan is a chain of segments, each a fresh per-mode plan stepped k times and left at a SwitchPoint through switchCost / write_unlatch: CoupleReach.optimize_final),"
    " one pair of lemmas per mode (a segment that ends with a planned switch is priced at exactly 12 x the codewords the mode encoder writes, and the encoder leaves in the planned mode at the planned position;"
    " the segment that runs to the end of the data fits the symbol the final cost predicts - the raw count may exceed the cost by the trailing UNLATCH that the planner does not price, counterexamples recorded in the files),"
    " the C40/Text two-final-digits special case as its own lemma, and the composition along the switch list incl. main-loop fuel and the no-progress counter."
    " planOK is evaluated by the compiled driver on every plan the implementation uses (statistic S.planok in the evidence).")
for _p in ("C18", "C11"):
    PROPS[_p]["lean"] = list(PROPS[_p]["lean"]) + ["DM.Props.C18Couple"]
    PROPS[_p]["explanation"] += _COUPLE
PROPS["C18"]["level_text"] = ("Partial proof: plan shape (enabled modes only, positions non-increasing ending at 0) and planner totality for all inputs; 'the latches in the encoder's output are exactly the planned non-ASCII mode"
    " changes, in plan order' (latch_sequence, plans within the round-trip side condition PlanOK); 'the encoder never needs a larger symbol than predicted' (predicted_size_suffices_planOK, all inputs and configurations, plans within the"
    " decidable side condition planOK, which the sweep evaluates on every plan the implementation uses) - all theorems about the models, tied to the code by planner and encoder correspondence; outside the side conditions: oracle sweep.")
PROPS["C18"]["unproved"] = ["predicted_size_suffices without the side condition planOK (needs an optimality argument: the optimiser never schedules a switch from C40/Text to a non-ASCII mode directly in front of two final digits when the result fits); latch_sequence for plans using EDIFACT before the final stretch or latching into a non-ASCII mode within the last four characters; 'the planning API returns a plan for every encodable input' (false in general: C10 known findings)"]
PROPS["C11"]["level_text"] = ("Partial proof: the planner never panics and always terminates (all inputs); the encoder model reaches no panic site and does not loop on the planner's own plan (encoder_no_panic_planOK, all inputs and configurations,"
    " plans within the decidable side condition planOK evaluated on every plan of the sweep); the error is SymbolListEmpty iff the list is empty; macro slicing never panics - theorems about the models, tied to the code by correspondence;"
    " ECI writing, the string API glue and plans outside planOK: exploration under catch_unwind.")
PROPS["C11"]["unproved"] = ["encoder_no_panic without the side condition planOK; write_eci / encode_str glue (covered by the catch_unwind sweep only)"]
PROPS["C01"]["lean"] = list(PROPS["C01"]["lean"]) + ["DM.Props.C01Planner"]
PROPS["C01"]["explanation"] += (" planned_roundtrip (DM/Props/C01Planner.lean): planner, encoder and decoder models composed - if the planner model answers with a plan inside the two decidable side conditions"
    " (planOK of the coupling theorem, planOKEb of the round-trip theorem) and its predicted cost fits a listed symbol, then the encoder model run on that plan succeeds in a symbol no larger than predicted and the decoder model"
    " maps the stream back to the message: success of the encoder is a conclusion, no longer a hypothesis.")
# C10 is anchored in the planner: the known findings are instances of the pinned planner's behaviour, so the
# planner model correspondence is part of this check too (a planner that no longer behaves like the model is
# reported, with `no-failing-input-found` unless the oracle sweep also finds an input that now needs a larger symbol)
PROPS["C10"]["gens"] = list(PROPS["C10"]["gens"]) + ["c18m"]
PROPS["C10"]["explanation"] += _PLANNER_NOTE
# search mode of C10 (only when the planner correspondence is broken and the sweep found no failing input):
# gen c10d, judged by the planner model run with its own sort (driver request optdiff, DM/Model/PlannerAuto.lean)
PROPS["C10"]["search_gens"] = ["c10d"]
PROPS["C10"]["explanation"] += (" Search mode: when the planner correspondence is broken and the sweep has found no input that now needs a larger symbol, 600 000 (thorough: 2 000 000) further short and medium messages"
    " are planned by the implementation and by the planner model run with its own stable sort (DM/Model/PlannerAuto.lean); where the model's plan, written by the encoder model and confirmed by the reference decoder,"
    " needs a smaller symbol than the implementation used (or the implementation refused), the input is reported with that stream as the witness. The inputs of this generator on which the pinned planner itself loses"
    " against the model's tie-breaking are listed as known findings (K-C*).")

# planned corollaries (session 4): the plan is the planner model's answer, the encoder's success is a conclusion
for _p in ("C18", "C11"):
    PROPS[_p]["lean"] = list(PROPS[_p]["lean"]) + ["DM.Lemmas.CoupleGate", "DM.Lemmas.PlannedRun"]
    PROPS[_p]["explanation"] += (" gate_prediction_none (DM/Lemmas/CoupleGate.lean): every character costs at least 6 twelfths in every mode, so a message longer than max_capacity() has a predicted cost that fits no listed symbol -"
        " the early exit of codewords() is the 'TooMuch and nothing predicted' case; predicted_size_suffices_gate (DM/Lemmas/PlannedRun.lean) is the resulting three-case form: SymbolListEmpty on the empty list, success within the predicted symbol, or TooMuch with a prediction that fits nothing.")
PROPS["C16"]["lean"] = list(PROPS["C16"]["lean"]) + ["DM.Props.C16Planner"]
PROPS["C16"]["explanation"] += (" planned_message_roundtrip / planned_macro05_lossless / planned_macro06_lossless / planned_gs1_roundtrip (DM/Props/C16Planner.lean): with the plan the planner model returns for the body behind the header codeword"
    " (inside the two decidable side conditions planOK and planOKEb) and a prediction that fits, the encoder model succeeds in a symbol no larger than predicted and the decoder model re-creates the whole message, header and trailer included;"
    " macroPrefix_ok_cases classifies every answer of the prefix model (no header, 232, 236 with a Macro 05 envelope, 237 with a Macro 06 envelope - the converse direction for Macro 06 included).")
PROPS["C16"]["level_text"] = ("Partial proof: decision logic of macro compaction / FNC1 start for all messages; losslessness as a composition of planner, encoder and decoder models - on the planner model's own plan (inside the decidable side conditions"
    " planOK / planOKEb, evaluated on every plan of the sweep) the encoder model succeeds and the decoder model re-creates the enveloped message: theorems about the models, tied by correspondence; plans outside the side conditions: oracle sweep.")
PROPS["C14"]["lean"] = list(PROPS["C14"]["lean"]) + ["DM.Props.C14Planner"]
PROPS["C14"]["explanation"] += (" planned_encode_str_roundtrip, planned_latin1_string_roundtrip, planned_utf8_string_roundtrip, planned_eci_string_decode (DM/Props/C14Planner.lean): the same composition for the string API - whichever branch encode_str takes,"
    " with the planner model's plan for the bytes behind the prefix (none, or 241,27) inside the side conditions and a prediction that fits, the encoder model succeeds within the predicted symbol and the string decoder model returns the string's code points.")

# C13, second clause (session 4): every character is carried by an enabled mode or by the end-of-data ASCII fallback
PROPS["C13"]["lean"] = list(PROPS["C13"]["lean"]) + ["DM.Props.C13TailEnc", "DM.Props.C13TailRun", "DM.Props.C13Tail"]
PROPS["C13"]["explanation"] += (" tail_clause (DM/Props/C13Tail.lean, with C13TailDefs / C13TailEnc / C13TailRun): an instrumented copy of the main loop records (start, end, mode) of every call of a mode encoder and is the same run (traceLoop_fst);"
    " for the planner model's own plan (any message, prefix, list, mode set; inside the decidable side condition planOK) and a successful run there is a position q with at most four characters behind it such that the recorded calls tile the message,"
    " every call in front of q runs in the mode the plan assigns to its characters and that mode is enabled, and the characters from q on - at most 2 after C40/Text/X12, at most 4 after EDIFACT, none after ASCII/Base 256 (encodeMode_tail, for every plan) -"
    " are written by one ASCII call after set_ascii_until_end, which only follows a segment of an enabled C40/Text/X12/EDIFACT mode. Non-vacuity: X12 only, 'ABCD' -> X12 for 'ABC', ASCII fallback for 'D'.")
PROPS["C13"]["level_text"] = ("Partial proof: both clauses are theorems about the models - no latch into a mode the plan does not name and no latch codeword inside an ASCII segment (plans within the round-trip side condition), the plan names only enabled modes (all inputs),"
    " and every character is carried by the enabled mode the plan assigns to it or, for at most the last four characters after a C40/Text/X12/EDIFACT segment, by the end-of-data ASCII fallback (tail_clause: planner model's own plan, all inputs and configurations,"
    " inside the decidable side condition planOK evaluated on every plan of the sweep); outside the side conditions: reference decoder's mode trace as oracle.")
PROPS["C13"]["unproved"] = ["latches_planned for plans that use EDIFACT before the final stretch or latch into a non-ASCII mode within the last four characters; tail_clause without the side condition planOK"]

# C02 against the reference decoder (session 4): first conformance theorems
PROPS["C02"]["lean"] = list(PROPS["C02"]["lean"]) + ["DM.Props.C02Spec"]
PROPS["C02"]["explanation"] += (" Conformance theorems against the independent reference decoder itself (DM/Props/C02Spec.lean; toolkit DM/Lemmas/SpecStep, SpecAscii, SpecB256, SpecFuel): spec_ascii_roundtrip - for the pure ASCII plan (both plan forms),"
    " every message of bytes and every symbol list, a successful run of the encoder model yields a stream that DM.Spec.Stream.decode accepts and maps to the message, with no latch, an all-ASCII trace, exactly the symbol's number of data codewords and the padding"
    " position where the encoder's codewords end (none if the symbol is exactly full); the same behind FNC1 / Macro 05 / Macro 06 header codewords (the decoder re-creates header and trailer); spec_b256_roundtrip (+ _nil, _header) - the pure Base 256 plan with all three"
    " forms of the length field (to the end of the symbol, one codeword, two codewords) and the 255-state randomisation; spec_decode_finished - for every codeword list, an answer of the reference decoder comes from a run that reached a final state (its fuel always suffices: every step"
    " decreases 2 x codewords left + [mode != ASCII]), so the oracle never reports a truncated run. asciiLoop_specGen is stated for arbitrary plans, ready for the mixed-plan invariant.")
PROPS["C02"]["level_text"] = ("Partial proof: shape of every successful run (listed symbol, exact length, standard padding reached in ASCII mode) for all plans; conformance against the independent reference decoder as theorems for the pure ASCII and pure Base 256 plans"
    " incl. FNC1 / Macro headers, all length-field forms and padding (spec_ascii_roundtrip, spec_b256_roundtrip); for the other modes and mixed plans the reference decoder is the oracle on every stream of the sweep, and the encoder model is tied to the code by correspondence on real and injected plans.")
PROPS["C02"]["unproved"] = ["spec_roundtrip for C40 / Text / X12 / EDIFACT segments and mixed plans against the reference decoder (proved against the crate's decoder model: mixed_roundtrip_E)"]

# C02: per-mode conformance against the reference decoder + the mixed-plan frame; C10: what is true / false about plain ASCII
PROPS["C02"]["lean"] = list(PROPS["C02"]["lean"]) + ["DM.Props.C02SpecX12", "DM.Props.C02SpecEdi", "DM.Props.C02SpecC40", "DM.Props.C02SpecMixed"]
PROPS["C02"]["explanation"] += (" Per-mode theorems against the reference decoder (DM/Props/C02SpecX12, C02SpecEdi, C02SpecC40; toolkits DM/Lemmas/SpecX12(+Gen), SpecEdi(+Gen), SpecC40(+Enc)): spec_x12_roundtrip (+_header, _all: all three end-of-data forms),"
    " spec_edifact_roundtrip (+_header, _all: UNLATCH value in every slot, ASCII end game, exact fit), spec_c40_roundtrip / spec_text_roundtrip (all five forms of handle_end; the 640-case agreement of the crate's and the standard's C40/Text value automata, values_agree) -"
    " for the pure plan of each mode, every message the encoder accepts and every symbol list, the reference decoder accepts the stream and returns the message, with the latch, the per-byte mode trace and the padding position stated exactly;"
    " x12Encode_specGen and edifactEncode_specGen / gEnd_seg hold under arbitrary plans. Mixed plans (DM/Lemmas/SpecMain.lean, DM/Props/C02SpecMixed.lean): the main-loop invariant SMI against the reference decoder, the interface ModeStep, step_ascii and step_b256 for arbitrary plans,"
    " spec_frame (any plan, given ModeStep for the modes it uses) and spec_mixed_roundtrip - every plan over ASCII and Base 256, no side condition, behind no header / FNC1 / Macro 05 / Macro 06: the reference decoder accepts the stream and returns the message.")
PROPS["C02"]["level_text"] = ("Partial proof: shape of every successful run (listed symbol, exact length, standard padding reached in ASCII mode) for all plans; conformance against the independent reference decoder as theorems for the pure plan of each of the six modes"
    " (every end-of-data form, FNC1 / Macro headers for ASCII, Base 256, X12, EDIFACT) and for every mixed plan over ASCII and Base 256; for mixed plans that use the other modes the reference decoder is the oracle on every stream of the sweep"
    " (the frame spec_frame takes their per-mode step as hypothesis), and the encoder model is tied to the code by correspondence on real and injected plans.")
PROPS["C02"]["unproved"] = ["ModeStep for X12 / EDIFACT / C40 / Text inside mixed plans against the reference decoder (proved against the crate's decoder model: mixed_roundtrip_E)"]
PROPS["C10"]["lean"] = list(PROPS["C10"]["lean"]) + ["DM.Props.C10Ascii"]
PROPS["C10"]["explanation"] += (" DM/Props/C10Ascii.lean (helpers DM/Lemmas/C10Live, C10Pot, C10Prune, C10AB, C10Succ, C10Plan): plan_exists - with ASCII enabled the planner model always returns a plan (every mode set, every input, every sort order);"
    " ascii_only_cost, never_worse_than_ascii_ab - with only ASCII, or only ASCII and Base 256 enabled, the predicted cost is at most (for ASCII alone: exactly) the plain ASCII size, and with the coupling theorem the encoder model never refuses what plain ASCII fits and never uses a larger symbol"
    " (ascii_only_symbol, never_larger_symbol_ab); ascii_bound_false / refuted_cost / refuted_symbol - kernel-checked: with C40 or Text enabled the bound is false on the models (known finding K-D, replayed on the crate).")
PROPS["C10"]["level_text"] = ("Exploration with a witness-producing oracle whose soundness is a theorem; planner optimality does not hold (known findings K-A, K-B*, K-C*, K-D*); what is proved about the planner model: a plan is always returned when ASCII is enabled, and for mode sets within {ASCII, Base 256}"
    " the chosen symbol is never larger than plain ASCII needs (with the coupling theorem); that the same clause fails with C40 / Text enabled is a kernel-checked counterexample and a known finding.")

PROPS["C02"]["lean"] = list(PROPS["C02"]["lean"]) + ["DM.Props.C02SpecMixedX12"]
PROPS["C02"]["explanation"] += (" spec_mixed_roundtrip_abx (DM/Props/C02SpecMixedX12.lean, DM/Lemmas/SpecMainX12.lean: step_x12 discharges ModeStep for X12 with all three endings and planned switches): every plan over ASCII, Base 256 and X12 without a latch to a non-ASCII mode"
    " planned for the last four characters (the side condition is needed: a kernel-checked stale-latch counterexample is in the file), behind no header / FNC1 / Macro: the reference decoder accepts the stream and returns the message.")
PROPS["C02"]["unproved"] = ["ModeStep for EDIFACT / C40 / Text inside mixed plans against the reference decoder unless listed in the explanation (proved against the crate's decoder model: mixed_roundtrip_E)"]

# C02: mixed plans against the reference decoder (end of session 4)
PROPS["C02"]["lean"] = list(PROPS["C02"]["lean"]) + ["DM.Props.C02SpecMixedC40", "DM.Props.C02SpecMixed5", "DM.Props.C02SpecMixedEdi", "DM.Props.C02Planner"]
PROPS["C02"]["explanation"] += (" Mixed plans, all modes: step_c40 / step_text (DM/Lemmas/SpecC40Gen.lean, SpecMainC40.lean: the encoder analysis of C40Gen is reused through values_bridge) and step_x12 discharge ModeStep;"
    " spec_mixed_roundtrip_5 (DM/Props/C02SpecMixed5.lean) - for every plan within PlanOK (ASCII, Base 256, C40, Text, X12 in any order; no EDIFACT entry; no latch to a non-ASCII mode planned for the last four characters: the side condition of mixed_roundtrip, which"
    " covers 84 % of the optimiser's plans in the sweep), every message of bytes, every symbol list and each header (none, FNC1, Macro 05, Macro 06): the reference decoder accepts the stream and returns the message, no ECI, the first pad exactly where the encoder's codewords end;"
    " spec_mixed_roundtrip_abe (DM/Props/C02SpecMixedEdi.lean, DM/Lemmas/SpecMainEdi.lean) - plans over ASCII, Base 256 and EDIFACT within PlanOKE (EDIFACT as the final stretch over EDIFACT characters): UNLATCH group, ASCII end game and exact fit;"
    " planned_conformant (DM/Props/C02Planner.lean) - composed with the coupling theorem: a plan returned by the planner model inside the decidable side conditions planOK and PlanOK whose predicted cost fits makes the encoder model succeed within the predicted symbol"
    " with exactly its number of data codewords, and the reference decoder returns the message (header / trailer re-created for Macro). Each side condition is shown necessary by a kernel-checked stale-latch counterexample.")
PROPS["C02"]["level_text"] = ("Partial proof: shape of every successful run (listed symbol, exact length, standard padding reached in ASCII mode) for all plans; conformance against the independent reference decoder is a theorem for every plan within PlanOK (all modes but EDIFACT in any order,"
    " no late non-ASCII latch: 84 % of the optimiser's plans in the sweep), for ASCII / Base 256 / EDIFACT-final-stretch plans, for the pure plan of each of the six modes, behind no header / FNC1 / Macro 05 / 06, and composed with the planner model (planned_conformant);"
    " EDIFACT together with C40 / Text / X12 or left before the end, late latches and ECI prefixes: the reference decoder is the oracle on every stream of the sweep; the encoder model is tied to the code by correspondence on real and injected plans.")
PROPS["C02"]["unproved"] = ["spec round trip for plans that combine EDIFACT with C40 / Text / X12, leave EDIFACT before the end of the data, or latch into a non-ASCII mode within the last four characters; ECI prefix codewords"]

# C02: every plan within PlanOKE against the reference decoder
PROPS["C02"]["lean"] = list(PROPS["C02"]["lean"]) + ["DM.Props.C02SpecMixedE"]
PROPS["C02"]["explanation"] += (" spec_mixed_roundtrip_E / _Eb (DM/Props/C02SpecMixedE.lean, DM/Lemmas/SpecMainAll.lean: stepB_all dispatches on the mode - ASCII, Base 256, C40 / Text, X12 and EDIFACT as the final stretch - over the state invariant RInvAll):"
    " for every plan within PlanOKE (the executable planOKEb: EDIFACT only as the final stretch over EDIFACT characters, no latch to a non-ASCII mode planned for the last four characters - the side condition of mixed_roundtrip_E, 94 % of the optimiser's plans in the sweep),"
    " every message of bytes, every symbol list and each header, the reference decoder accepts the encoder model's stream and returns the message; planned_conformant_E composes it with the coupling theorem.")
PROPS["C02"]["level_text"] = ("Partial proof: shape of every successful run (listed symbol, exact length, standard padding reached in ASCII mode) for all plans; conformance against the independent reference decoder is a theorem for every plan within the decidable side condition PlanOKE"
    " (all six modes; EDIFACT only as the final stretch; no late non-ASCII latch: 94 % of the optimiser's plans in the sweep), behind no header / FNC1 / Macro 05 / 06, and composed with the planner model (planned_conformant_E: encoder success is a conclusion);"
    " EDIFACT left before the end of the data, late latches and ECI prefixes: the reference decoder is the oracle on every stream of the sweep; the encoder model is tied to the code by correspondence on real and injected plans.")
PROPS["C02"]["unproved"] = ["spec round trip for plans that leave EDIFACT before the end of the data or latch into a non-ASCII mode within the last four characters; ECI prefix codewords"]
