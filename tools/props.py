"""Per-property configuration of the orchestrator."""
import re

TRUSTED_BASE = [
    "Lean 4.33 kernel (leanchecker in the thorough tier)",
    "axioms: propext, Classical.choice, Quot.sound only (audited with #print axioms on every property theorem)",
    "hand-typed standard tables and reference semantics in lean/DM/Spec (definition of conformance)",
    "table dump + correspondence harness (harness/, tools/gen_tables.py): decide that the model speaks about this code",
    "rustc/cargo; the Lean compiler for the driver only (oracles and correspondence), not for any theorem",
]

def dump_sanity(d):
    """three sources must agree: hook values, public API observations, derived identities"""
    msgs = []
    for i, s in enumerate(d["sizes"]):
        if s["pub_data"] != s["data_cw"]:
            msgs.append("size %s: data_codewords() has %d entries, catalogue says %d" % (s["name"], s["pub_data"], s["data_cw"]))
        if s["pub_total"] != s["data_cw"] + s["blocks"] * s["ecc_per"]:
            msgs.append("size %s: codewords() has %d entries, catalogue says %d+%d*%d" % (s["name"], s["pub_total"], s["data_cw"], s["blocks"], s["ecc_per"]))
        if (s["bm_w"], s["bm_h"]) != (s["width"], s["height"]) or (s["bm0_w"], s["bm0_h"]) != (s["width"], s["height"]):
            msgs.append("size %s: bitmap is %dx%d, catalogue says %dx%d" % (s["name"], s["bm_w"], s["bm_h"], s["width"], s["height"]))
        if s["traversed"] != s["pub_total"]:
            msgs.append("size %s: traversal visits %d codewords, symbol has %d" % (s["name"], s["traversed"], s["pub_total"]))
    # Ord observed through the public impl vs the key (data_cw, w^2+h^2)
    key = [(s["data_cw"], s["width"] ** 2 + s["height"] ** 2) for s in d["sizes"]]
    for a in range(len(key)):
        for b in range(len(key)):
            exp = -1 if key[a] < key[b] else (1 if key[a] > key[b] else 0)
            if d["cmp"][a][b] != exp:
                msgs.append("Ord: cmp(%s,%s)=%d, key order says %d" % (d["sizes"][a]["name"], d["sizes"][b]["name"], d["cmp"][a][b], exp))
    return msgs

def _c12_nontrivial(r):
    # non-trivial: the request involves at least two distinct symbols or a bounded range
    parts = r.split()
    lst = parts[-2] if parts[0] in ("first", "upper") else parts[-1]
    return len(set(lst.split(","))) >= 2

NONTRIVIAL = {
    "C12": _c12_nontrivial,
}

def count_nontrivial(pid, reqs):
    f = NONTRIVIAL.get(pid, lambda r: True)
    seen = set()
    for r in reqs:
        if f(r):
            seen.add(r)
    return len(seen)

PROPS = {
    "C12": {
        "lean": ["DM.Props.C12"],
        "gens": ["c12"],
        "level": "proof",
        "exhaustive": False,
        "rule": "cases: white-lists (all singletons, all ordered pairs, random shuffled lists with repetitions), width/height filters for every bound 0..150 (inclusive/exclusive/unbounded, one side exhaustively, both sides sampled; thorough: full product), filter compositions, first_symbol_big_enough_for / encode() size choice for n = 0..max+1; non-trivial = distinct requests whose list holds >= 2 different symbols",
        "explanation": "Kernel-checked theorems over the catalogue table regenerated from the code (48 rows = ISO 16022 Table 7 + ISO 21471, module budget, dimension injectivity, Ord key injective, default = the 30 ISO sizes, every white-list iterates as the master order restricted to its members, filters = predicate, first-big-enough = minimal capacity); the model of SymbolList is tied to the code by exhaustive/sampled correspondence through the public API.",
        "assumptions": ["BTreeSet<SymbolSize> iterates in strictly increasing Ord order without duplicates (alloc)"],
        "level_text": "Proof: every part of the property is a kernel-checked theorem over the catalogue table regenerated from the code on each run (finite table facts by decide, list/filter/first-fit facts for all white-lists, ranges and requests by induction); the SymbolList model is tied to the code by correspondence through the public API.",
        "level_note": "Trusted: Lean kernel, axioms propext/Classical.choice/Quot.sound, the hand-typed ISO 16022 Table 7 / ISO 21471 rows in DM/Spec/Table7.lean (typed from memory of the standards), the dump/correspondence harness, BTreeSet semantics.",
        "technique": "Lean 4 theorems (decide over regenerated tables + induction) with model/implementation correspondence",
    },
}
