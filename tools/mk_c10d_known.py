#!/usr/bin/env python3
"""Baseline of the C10 search generator (gen c10d, driver request optdiff) on the pinned planner: run the whole
thorough stream (its first part is the quick stream), collect the inputs on which the planner model with its own
stable sort reaches a smaller symbol than the implementation, confirm each witness with the crate's own decoder and
print (or with --append write) known-finding entries K-C<n> identified by the exact case (modes, list, input).
Run on the unchanged tree only."""
import sys, os, subprocess, json, re
ROOT = os.path.dirname(os.path.dirname(os.path.abspath(__file__)))
W = os.path.join(ROOT, "work")
dmh = os.path.join(ROOT, "harness/target/debug/dmh")
drv = os.path.join(ROOT, "lean/.lake/build/bin/dmdrv")
env = dict(os.environ, VERIF_SEED="1", VERIF_TIER="thorough")
cases = os.path.join(W, "c10d_baseline.cases")
with open(cases, "wb") as f:
    subprocess.run([dmh, "gen", "c10d"], env=env, stdout=f, check=True)
reqs = [l[2:].rsplit(" => ", 1)[0] for l in open(cases) if l.startswith("O optdiff")]
P = os.cpu_count() or 4
chunk = (len(reqs) + P - 1) // P
procs = []
for k in range(P):
    pp = os.path.join(W, "c10d_baseline.%d" % k)
    open(pp, "w").write("\n".join(reqs[k * chunk:(k + 1) * chunk]) + "\n")
    procs.append((subprocess.Popen([drv], stdin=open(pp, "rb"), stdout=open(pp + ".got", "wb")), pp))
gots = []
for pr, pp in procs:
    pr.wait()
    g = open(pp + ".got").read().split("\n")
    if g and g[-1] == "": g.pop()
    gots += g
    os.remove(pp); os.remove(pp + ".got")
assert len(gots) == len(reqs), (len(gots), len(reqs))
known = [json.loads(l) for l in open(os.path.join(ROOT, "known_findings.jsonl")) if l.strip()]
n = len([k for k in known if k["id"].startswith("K-C")])
have = set(k["match"]["line_regex"] for k in known if k["id"].startswith("K-C"))
new = []
for q, g in zip(reqs, gots):
    if not g.startswith("fail:"):
        continue
    parts = q.split()
    modes, mask, inp, impl = parts[1], parts[2], parts[5], parts[6]
    rx = "optdiff %s %s 1 0 %s " % (modes, mask, inp)
    if rx in have:
        continue
    have.add(rx)
    wit = g.split("witness:")[1]
    r = subprocess.run([dmh, "ddata", wit], capture_output=True, text=True).stdout.strip()
    n += 1
    new.append({"property": "C10", "kind": "known", "id": "K-C%d" % n, "match": {"line_regex": rx},
                "what": "planner misses a shorter plan that the planner model finds with a different order of equal-cost candidates (search generator c10d): modes=%s list=%s input=%s: %s; witness stream %s decodes to the input with the crate's own decoder: %s"
                        % (modes, mask, inp, g.split(":witness")[0].replace("fail:", ""), wit, r == "ok:" + inp)})
for e in new:
    print(json.dumps(e))
print("cases", len(reqs), "failures", sum(1 for g in gots if g.startswith("fail:")), "new", len(new), file=sys.stderr)
if "--append" in sys.argv:
    with open(os.path.join(ROOT, "known_findings.jsonl"), "a") as f:
        for e in new:
            f.write(json.dumps(e) + "\n")
