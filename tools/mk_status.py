#!/usr/bin/env python3
"""Regenerate the machine-written tables of DESIGN.md (between the STATUS markers):
seeded mutations and which checks detect them (from seeded/*/meta.json), repaired defects and known
findings (from known_findings.jsonl), theorem counts (from evidence/*.json)."""
import json, os, glob, re, sys
ROOT = os.path.dirname(os.path.dirname(os.path.abspath(__file__)))
out = []
out.append("### 0.3 Repaired defects and known findings (from known_findings.jsonl)\n")
out.append("| id | kind | property (also) | commit | what |\n|---|---|---|---|---|")
collapsed = 0
extra = {}
maxkb = 0
for line in open(os.path.join(ROOT, "known_findings.jsonl")):
    line = line.strip()
    if not line: continue
    k = json.loads(line)
    m = re.match(r"K-B(\d+)$", k["id"])
    if m: maxkb = max(maxkb, int(m.group(1)))
    if m and int(m.group(1)) > 5 and int(m.group(1)) != 75:
        collapsed += 1      # instances of the thorough sweep: one summary row below
        continue
    mc = re.match(r"K-([CD])(\d+)$", k["id"])
    if mc and int(mc.group(2)) > 1:
        extra[mc.group(1)] = extra.get(mc.group(1), 0) + 1
        continue
    what = k["what"].replace("|", "\\|")
    out.append("| %s | %s | %s %s | %s | %s |" % (k["id"], k["kind"], k["property"], ("(" + ", ".join(k.get("also", [])) + ")") if k.get("also") else "", k.get("commit", "-"), what))
if collapsed:
    out.append("| K-B6 … K-B%d | known | C10  | - | %%d further instances of the same kind (the planner misses a shorter plan), each identified by its exact (modes, list, input) and found by the thorough sweep; every witness stream was confirmed to decode to the input with the crate's own decoder (tools/mk_c10_known.py); listed one per line in known_findings.jsonl |" % maxkb % collapsed)
if extra.get("C"):
    out.append("| K-C2 … K-C%d | known | C10  | - | %d further inputs of the search generator c10d (driver request optdiff) on which the planner model with its own stable sort reaches a smaller symbol than the pinned planner; listed so that the search mode, which only runs when the planner correspondence is broken, reports new inputs only |" % (extra["C"] + 1, extra["C"]))
if extra.get("D"):
    out.append("| K-D2 … K-D%d | known | C10  | - | %d further instances of K-D1 (other lengths / the full list / upper case with C40) from the fixed corpus |" % (extra["D"] + 1, extra["D"]))
out.append("\n### 0.4 Seeded mutations (from seeded/*/meta.json) and the checks that report them\n")
out.append("Each mutation was produced by a fresh sub-agent that saw only the property text and a scratch worktree; it compiles, passes the 167 tests, and its demonstration fails with it and passes without it (confirmed by tools/seed.py in a scratch worktree). `detected by` lists the quick checks that exit 1 with the mutation applied to /repo. Round 1 (suffix -1, -2) and round 2 (-3, -4; the agents were told what round 1 had changed and asked for a different site or mechanism). In round 2 six of the 38 mutations passed the quick check of their property when first tried (C05-3, C05-4, C06-3, C10-4, C16-3, C16-4: a Reed-Solomon error location exactly one position in front of the block; stray pixels after a complete symbol; a shortcut in the RS encoder's division that needs two non-zero data codewords followed by a zero - the F2-basis vectors of the C06 sweep can never trigger it, because for a single non-zero codeword the remainder's leading coefficient is a Gaussian binomial in 2 and never vanishes; a planner look-ahead threshold that matters for exactly seven digits; a Macro envelope nested in a Macro envelope; a Macro body that itself ends in RS EOT), and three more would have (C08-4 a clock track with inverted phase, C12-3 the builder's own default list, C17-4 bitmaps with more than 32767 vertices) had the generators not been extended after reading the report and before the confirmation run. None of them needed a new model, theorem or oracle - the inputs were missing, including for properties at level proof, whose theorems are about hand-written models and reach the code only through the correspondence. The generators were extended (words whose syndromes are those of errors at locations outside the shortened block; nested envelopes; pixel arrays around valid symbols with stray / missing pixels and wrong widths, gen c05p; whole finder / clock / alignment lines inverted, rotated, filled; data vectors crafted by an independent simulation of the division so that the remainder's leading coefficient vanishes before a zero codeword, sparse vectors; messages made of runs of one character class with every digit-run length 1..10; bitmaps up to 4200 modules wide; every documented entry point - DataMatrix::encode, encode_gs1, DataMatrixBuilder::encode with and without each option, data::encode_data, data::encodation_plan, the SymbolList API - compared with the builder path that the sweeps use, after an llvm-cov run of all quick generators showed that these wrappers were never executed while line coverage of the reachable code was otherwise complete) and all of them are now reported; their meta.json keeps the history.\n")
out.append("Round 3 (suffix -5, -6: 19 agents with the property text only; suffix -area*7, -area*8: eight agents asked to put both changes into glue code - builder setters, wrappers, option and prefix handling, the SymbolList API, bookkeeping helpers - because that is where round 3 found the blind spots). Of the 38 mutations of the first group, 34 were reported by the quick check of their own property when first tried; four were not (C12-6: `with_macros` rebuilt the builder from `Default` and dropped the caller's symbol list - every sweep called the setters in one fixed order, list before macros, on both the reference path and the compared path; C13-6: `encode_str` widened the caller's mode set with Base 256 on its UTF-8 branch - the string API was only exercised with all modes enabled; C03-5: the triangular solve of the Levinson-Durbin singular case wrong for jump widths m >= 2 - about one random full-weight pattern in 65 000 has such a jump in the small sizes the sweep concentrates on (it was reported by C05 through the debug assertion, not by C03); C10-5: the planner was told that no codeword had been written yet, which matters only behind an FNC1 / macro / ECI codeword - configurations the C10 oracle skipped; reported by C18), and one was reported without a failing input (C09-6: a recurrence of the locator left unchecked in the singular case; the model differed, but no word of the sweep made the decoder accept a non-codeword). Again no model, theorem or oracle was missing - inputs were. Added: the builder's four setters applied in every order, each preceded by a decoy value (gen c12 for the symbol pick, and as a further compared entry point in every encoder sweep); `DataMatrixBuilder::encode_str` / `DataMatrix::encode_str` under every option combination of the sweeps, compared with `encode_eci` on the same builder, and random CJK / kana / Latin-1 strings under random mode subsets in gen c14; error patterns within the radius whose linear complexity profile jumps by three or more, found by rejection sampling with an independent Berlekamp-Massey in the generator (430 000 patterns tried per quick run, 16 used, each on the zero and on a random codeword); syndromes of v < t genuine errors in which exactly one recurrence window is violated (window start v .. k-v-1, with emphasis on t-1, t and k-v-1: 990 words per quick run) - these give C09-6 199 concrete words on which Ok is answered for a non-codeword; the C10 search with an FNC1 or Macro header codeword in front (DM.Spec.Opt.searchH), which also surfaced three genuine sub-optimal encodings behind FNC1 (K-B220..222).\n")
out.append("Round 5 (suffix -11, -12; session 4): 19 agents with the property text, a scratch worktree and the list of sites used in earlier rounds; the column shows the first try, later re-tests are appended (see 0.9).\n")
out.append("| seeded | what was changed | needs | detected by (quick tier) |\n|---|---|---|---|")
for d in sorted(glob.glob(os.path.join(ROOT, "seeded", "*"))):
    mp = os.path.join(d, "meta.json")
    if not os.path.exists(mp): continue
    m = json.load(open(mp))
    conf = m.get("confirmation", {})
    det = conf.get("detected_by", [])
    lines = []
    for c, v in conf.get("checks", {}).items():
        if v["exit"] != 0:
            nf = any("no-failing-input-found" in l for l in v["lines"])
            lines.append(c + (" (no-failing-input-found)" if nf else ""))
    rt = m.get("retests", [])
    rts = ""
    if rt:
        last = {}
        for r in rt:
            for c, v in r["checks"].items():
                last[c] = v
        rts = "; re-tested after the extensions of session 4: " + ", ".join(
            c + (" reports it" + (" (no-failing-input-found)" if any("no-failing-input-found" in l for l in v["lines"]) else "") if v["exit"] != 0 else " does not report it")
            for c, v in last.items())
    out.append("| %s | %s | %s | %s |" % (os.path.basename(d), m.get("summary", "").replace("|", "\\|").replace("\n", " ")[:300],
               str(m.get("needs", "")).replace("|", "\\|").replace("\n", " ")[:250], (", ".join(lines) if lines else ("NOT DETECTED" if conf.get("confirmed") else "not confirmed")) + (" (first missed, see history)" if m.get("history") else "") + rts))
out.append("\n### 0.5 Theorem counts per property (from the last evidence files)\n")
out.append("| property | level | theorems checked | cases (quick) | non-trivial |\n|---|---|---|---|---|")
for p in sorted(glob.glob(os.path.join(ROOT, "evidence", "C*.json"))):
    e = json.load(open(p))
    c = e["coverage"]
    out.append("| %s | %s | %d/%d | %d | %d |" % (e["property_id"], e["level"], c.get("discharged", 0), c.get("obligations", 0), c.get("evaluations", 0), c.get("distinct_nontrivial", 0)))
text = "\n".join(out) + "\n"
p = os.path.join(ROOT, "DESIGN.md")
s = open(p).read()
a, b = "<!-- STATUS-TABLES-BEGIN -->", "<!-- STATUS-TABLES-END -->"
if a in s and b in s:
    s = s[:s.index(a) + len(a)] + "\n" + text + s[s.index(b):]
    open(p, "w").write(s)
    print("DESIGN.md tables updated")
else:
    print(text)
