#!/bin/sh
# run every quick check on the current tree (writes evidence/), print the summary lines
cd "$(dirname "$0")/.."
for p in C12 C06 C07 C08 C15 C17 C01 C02 C03 C04 C05 C09 C10 C11 C13 C14 C16 C18 C19; do
  ./check $p "$@" 2>&1 | grep -E "^\[C|^VIOLATION" 
done
