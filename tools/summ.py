#!/usr/bin/env python3
"""summ.py <tag>: summarise mismatches of work/<tag>.got vs expectations (debug aid)."""
import sys, collections
tag = sys.argv[1]
got = open('/verif/work/%s.got' % tag, errors='replace').read().split('\n')
req = open('/verif/work/%s.req' % tag, errors='replace').read().split('\n')
cases = [l for l in open('/verif/work/%s.cases' % tag, errors='replace').read().split('\n') if l and not l.startswith('#') and ' => ' in l]
c = collections.Counter(); ex = {}
for g, q, cl in zip(got, req, cases):
    e = cl.split(' => ', 1)[1]
    if g != e:
        k = ':'.join(g.split(':')[:3])[:90]
        if 'panic-expectedtocall' in k: k = 'fail:panic-expectedtocallmaybeswitchmode'
        c[k] += 1
        ex.setdefault(k, q[:int(sys.argv[2]) if len(sys.argv) > 2 else 200])
for k, v in c.most_common(40):
    print(v, k, '|', ex[k])
