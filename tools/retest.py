#!/usr/bin/env python3
"""retest.py <seeded id> <note> <check ids...>: apply a stored mutation to /repo, run the quick checks, undo it,
and record the outcome under "retest" in the mutation's meta.json (the first-try record stays untouched)."""
import sys, os, subprocess, json, re
sid, note, checks = sys.argv[1], sys.argv[2], sys.argv[3:]
d = "/verif/seeded/%s" % sid
env = dict(os.environ, CARGO_NET_OFFLINE="true", VERIF_EVIDENCE_DIR="/verif/work/mut_evidence")
assert subprocess.run(["git", "-C", "/repo", "status", "--porcelain"], stdout=subprocess.PIPE).stdout.strip() == b"", "repo not clean"
assert subprocess.run(["git", "-C", "/repo", "apply", d + "/patch.diff"]).returncode == 0
res = {}
try:
    for c in checks:
        p = subprocess.run(["./check", c], cwd="/verif", env=env, stdout=subprocess.PIPE, stderr=subprocess.STDOUT)
        out = p.stdout.decode("utf-8", "replace")
        res[c] = {"exit": p.returncode, "lines": [l for l in out.split("\n") if l.startswith("VIOLATION")],
                  "summary": [l for l in out.split("\n") if l.startswith("[")][-1:]}
        print(c, p.returncode, res[c]["lines"], res[c]["summary"])
finally:
    subprocess.run(["git", "-C", "/repo", "checkout", "--", "."])
m = json.load(open(d + "/meta.json"))
m.setdefault("retests", []).append({"note": note, "checks": res, "detected_by": [c for c, v in res.items() if v["exit"] != 0]})
json.dump(m, open(d + "/meta.json", "w"), indent=1)
