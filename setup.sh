#!/bin/sh
# MANIFEST.setup_cmd: build everything from files on disk, offline.
set -e
cd "$(dirname "$0")"
export CARGO_NET_OFFLINE=true
mkdir -p work evidence replays
(cd harness && cargo build --offline && cargo build --offline --release)
./harness/target/debug/dmh dump > work/dump.json
python3 tools/gen_tables.py work/dump.json lean/DM/Gen
(cd lean && lake build DM dmdrv)
