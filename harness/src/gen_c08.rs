//! Cases for C08: finder rendering (layout with tags, exhaustive) and strict parsing
//! (valid renderings, every single-module deviation, random and degenerate arrays).
use crate::gen_c07::{observed_layout, Tag};
use crate::util::*;
use datamatrix::placement::{BitmapConversionError, MatrixMap};
use datamatrix::{verif_hooks as vh, SymbolSize};
use std::io::Write;

fn err_name(e: &BitmapConversionError) -> &'static str {
    match e {
        BitmapConversionError::Alignment => "alignment",
        BitmapConversionError::Padding => "padding",
        BitmapConversionError::ZeroWidth => "zeroWidth",
        BitmapConversionError::DataSize => "dataSize",
        BitmapConversionError::SymbolSize => "symbolSize",
    }
}

/// run the parser; the answer also carries the property's own oracle: if the array is
/// accepted, re-rendering the parsed map must reproduce it
fn parse(bits: &[bool], width: usize) -> (String, String) {
    let b = bits.to_vec();
    let r = guarded(move || {
        let r = MatrixMap::<bool>::try_from_bits(&b, width);
        r.map(|(m, s)| {
            let bm = m.bitmap();
            let same = bm.bits() == &b[..] && bm.width() == width;
            // entries in index order through the rendered bitmap is circular; take them from
            // the codeword view plus the re-rendering flag
            (s, m.codewords(), same)
        })
    });
    match r {
        Ok(Ok((s, cw, same))) => (
            format!("ok:{}:{}", size_index(s), hex(&cw)),
            if same { "ok".into() } else { "fail:rerender-differs".into() },
        ),
        Ok(Err(e)) => (format!("err:{}", err_name(&e)), "ok".into()),
        Err(_) => ("panic".into(), "fail:panic".into()),
    }
}

fn render(s: SymbolSize, cw: &[u8]) -> (Vec<bool>, usize) {
    let m = MatrixMap::<bool>::new_with_codewords(cw, s);
    let bm = m.bitmap();
    (bm.bits().to_vec(), bm.width())
}

pub fn gen(out: &mut dyn Write, seed: u64, thorough: bool) {
    let sizes = all_sizes();
    let mut rng = Rng::new(seed ^ 0xC08);
    let mut n_dev = 0usize;
    let mut n_dev_fixed = 0usize;
    let mut n_pixels = 0usize;
    for (si, s) in sizes.iter().enumerate() {
        let s = *s;
        let inf = vh::size_info(s);
        let (bw, bh) = (inf.width, inf.height);
        let n = inf.num_data_codewords + inf.num_ecc_blocks * inf.num_ecc_per_block;
        // 1. layout with tags (exhaustive over all pixels of all sizes)
        let r = guarded(move || {
            let mut m = MatrixMap::<Tag>::new(s);
            let lay = observed_layout(&mut m);
            // tag every visited entry with its index + 2
            let mut k = 0usize;
            m.traverse_mut(|_, bits| {
                for (j, b) in bits.into_iter().enumerate() {
                    *b = Tag(lay[k][j] as u32 + 2);
                }
                k += 1;
            });
            let bm = m.bitmap();
            (bm.width(), bm.bits().iter().map(|t| t.0).collect::<Vec<u32>>())
        });
        match r {
            Ok((w, px)) => {
                n_pixels += px.len();
                writeln!(
                    out,
                    "P flayout {} => {}:{}",
                    si,
                    w,
                    px.iter().map(|x| x.to_string()).collect::<Vec<_>>().join(",")
                )
                .unwrap();
            }
            Err(_) => writeln!(out, "P flayout {} => panic", si).unwrap(),
        }
        // 2. valid renderings parse back (P: parse_render)
        let n_valid = if thorough { 6 } else { 2 };
        let mut base: Vec<u8> = vec![];
        for v in 0..n_valid {
            let cw: Vec<u8> = (0..n).map(|_| rng.byte()).collect();
            let (bits, w) = render(s, &cw);
            let (ans, orc) = parse(&bits, w);
            writeln!(out, "P parse {} {} => {}", w, pack_bits(&bits), ans).unwrap();
            writeln!(out, "O oracle {} => ok", orc).unwrap();
            if v == 0 {
                base = cw;
            }
        }
        // 3. single-module deviations of a valid rendering
        let (bits, w) = render(s, &base);
        let area = bw * bh;
        let exhaustive = thorough || area <= 700;
        let positions: Vec<usize> = if exhaustive {
            (0..area).collect()
        } else {
            // all border pixels of the symbol are fixed; sample them and interior ones
            let mut v: Vec<usize> = vec![];
            for _ in 0..60 {
                v.push(rng.below(area));
            }
            for _ in 0..20 {
                v.push(rng.below(bw)); // top row
                v.push((bh - 1) * bw + rng.below(bw)); // bottom row
                v.push(rng.below(bh) * bw); // left column
                v.push(rng.below(bh) * bw + bw - 1); // right column
            }
            // interior alignment bars: scan for pixels whose flip is rejected is not possible
            // without the answer; take columns/rows at region boundaries from the catalogue
            let rw = bw / (inf.extra_vertical_alignments + 1);
            let rh = bh / (inf.extra_horizontal_alignments + 1);
            for a in 1..=inf.extra_vertical_alignments {
                for _ in 0..6 {
                    v.push(rng.below(bh) * bw + a * rw);
                    v.push(rng.below(bh) * bw + a * rw - 1);
                }
            }
            for a in 1..=inf.extra_horizontal_alignments {
                for _ in 0..6 {
                    v.push((a * rh) * bw + rng.below(bw));
                    v.push((a * rh - 1) * bw + rng.below(bw));
                }
            }
            // the fixed corner modules
            v.push((bh - 2) * bw + bw - 2);
            v.push((bh - 2) * bw + bw - 3);
            v.push((bh - 3) * bw + bw - 2);
            v.push((bh - 3) * bw + bw - 3);
            v
        };
        for p in positions {
            let mut b2 = bits.clone();
            b2[p] = !b2[p];
            let (ans, orc) = parse(&b2, w);
            n_dev += 1;
            if ans.starts_with("err") {
                n_dev_fixed += 1;
            }
            writeln!(out, "M dev {} {} {} => {}", si, hex(&base), p, ans).unwrap();
            writeln!(out, "O oracle {} => ok", orc).unwrap();
        }
    }
    // 3a. whole-line deviations of a valid rendering: every finder / clock / alignment line (for small
    // symbols every row and every column) inverted as a whole (a clock track with the opposite phase, a
    // solid bar turned light), rotated by one module, set all dark, set all light
    let mut n_lines = 0usize;
    for (si, s) in sizes.iter().enumerate() {
        let inf = vh::size_info(*s);
        let n = inf.num_data_codewords + inf.num_ecc_blocks * inf.num_ecc_per_block;
        let cw: Vec<u8> = (0..n).map(|_| rng.byte()).collect();
        let (bits, w) = render(*s, &cw);
        let h = bits.len() / w;
        let rw = w / (inf.extra_vertical_alignments + 1);
        let rh = h / (inf.extra_horizontal_alignments + 1);
        let (rows, cols): (Vec<usize>, Vec<usize>) = if w * h <= (if thorough { 3000 } else { 700 }) {
            ((0..h).collect(), (0..w).collect())
        } else {
            let mut r = vec![0, 1, h - 2, h - 1];
            let mut c = vec![0, 1, w - 2, w - 1];
            for a in 1..=inf.extra_horizontal_alignments { r.push(a * rh - 1); r.push(a * rh); }
            for a in 1..=inf.extra_vertical_alignments { c.push(a * rw - 1); c.push(a * rw); }
            if thorough {
                for _ in 0..10 { r.push(rng.below(h)); c.push(rng.below(w)); }
            }
            (r, c)
        };
        let mut lines: Vec<Vec<usize>> = rows.iter().map(|r| (0..w).map(|j| r * w + j).collect()).collect();
        lines.extend(cols.iter().map(|c| (0..h).map(|i| i * w + c).collect::<Vec<usize>>()));
        for line in lines {
            for variant in 0..4 {
                let mut b = bits.clone();
                match variant {
                    0 => for p in &line { b[*p] = !bits[*p]; },
                    1 => for (q, p) in line.iter().enumerate() { b[*p] = bits[line[(q + 1) % line.len()]]; },
                    2 => for p in &line { b[*p] = true; },
                    _ => for p in &line { b[*p] = false; },
                }
                if b == bits { continue; }
                let (ans, orc) = parse(&b, w);
                writeln!(out, "P parse {} {} => {}", w, pack_bits(&b), ans).unwrap();
                writeln!(out, "O oracle {} => ok", orc).unwrap();
                n_lines += 1;
            }
        }
        let _ = si;
    }
    writeln!(out, "# whole_line_deviations {}", n_lines).unwrap();
    // 3b. a valid rendering followed by stray pixels / with pixels missing at the end / one more row
    for (si, s) in sizes.iter().enumerate() {
        let inf = vh::size_info(*s);
        let n = inf.num_data_codewords + inf.num_ecc_blocks * inf.num_ecc_per_block;
        let cw: Vec<u8> = (0..n).map(|_| rng.byte()).collect();
        let (bits, w) = render(*s, &cw);
        let mut variants: Vec<Vec<bool>> = vec![];
        for extra in [1usize, w / 2, w - 1, w] {
            let mut b = bits.clone();
            b.extend((0..extra).map(|i| i % 3 == 0));
            variants.push(b);
        }
        for missing in [1usize, w - 1, w] {
            variants.push(bits[..bits.len() - missing].to_vec());
        }
        for b in variants {
            let (ans, orc) = parse(&b, w);
            writeln!(out, "P parse {} {} => {}", w, pack_bits(&b), ans).unwrap();
            writeln!(out, "O oracle {} => ok", orc).unwrap();
        }
        let _ = si;
    }
    // 4. degenerate inputs: width 0, length not a multiple, unknown dimensions, constant arrays
    for len in [0usize, 1, 7, 100] {
        let bits = vec![true; len];
        let (ans, _) = parse(&bits, 0);
        writeln!(out, "P parse 0 {} => {}", pack_bits(&bits), ans).unwrap();
    }
    let max = if thorough { 60 } else { 40 };
    for w in 1..=max {
        for h in 0..=max {
            for fill in [false, true] {
                if !thorough && (w * h) % 3 == 1 && fill {
                    continue;
                }
                let bits = vec![fill; w * h];
                let (ans, orc) = parse(&bits, w);
                writeln!(out, "P parse {} {} => {}", w, pack_bits(&bits), ans).unwrap();
                writeln!(out, "O oracle {} => ok", orc).unwrap();
            }
        }
    }
    for _ in 0..(if thorough { 20000 } else { 3000 }) {
        let w = 1 + rng.below(50);
        let len = if rng.chance(1, 2) { w * rng.below(50) } else { rng.below(2500) };
        let bits: Vec<bool> = (0..len).map(|_| rng.chance(1, 2)).collect();
        let (ans, orc) = parse(&bits, w);
        writeln!(out, "P parse {} {} => {}", w, pack_bits(&bits), ans).unwrap();
        writeln!(out, "O oracle {} => ok", orc).unwrap();
    }
    // arrays with a correct frame but random interior (exercise interior bars / padding)
    for (si, s) in sizes.iter().enumerate() {
        let inf = vh::size_info(*s);
        let n = inf.num_data_codewords + inf.num_ecc_blocks * inf.num_ecc_per_block;
        let cw: Vec<u8> = (0..n).map(|_| rng.byte()).collect();
        let (mut bits, w) = render(*s, &cw);
        let h = bits.len() / w;
        for i in 1..h - 1 {
            for j in 1..w - 1 {
                if rng.chance(1, 40) {
                    bits[i * w + j] = !bits[i * w + j];
                }
            }
        }
        let (ans, orc) = parse(&bits, w);
        writeln!(out, "M parse {} {} => {}", w, pack_bits(&bits), ans).unwrap();
        writeln!(out, "O oracle {} => ok", orc).unwrap();
        let _ = si;
    }
    writeln!(out, "# pixels_in_layouts {}", n_pixels).unwrap();
    writeln!(out, "# single_module_deviations {}", n_dev).unwrap();
    writeln!(out, "# deviations_rejected {}", n_dev_fixed).unwrap();
}

/// C05 (and C08's strictness): the two pixel-level entry points, `MatrixMap::try_from_bits` and
/// `DataMatrix::decode`, on arrays *around* valid symbols: the exact rendering, stray pixels after the last
/// row, missing pixels, a wrong width, a few flipped modules, for every symbol size. Every case is
/// answered by the parser model and by the composition of the decoder models.
pub fn gen_c05p(out: &mut dyn Write, seed: u64, thorough: bool) {
    use datamatrix::DataMatrix;
    let sizes = all_sizes();
    let mut rng = Rng::new(seed ^ 0xC05B);
    let mut n = 0usize;
    let fulldec = |bits: &[bool], w: usize| -> String {
        let b = bits.to_vec();
        match guarded(move || DataMatrix::decode(&b, w)) {
            Ok(Ok(v)) => format!("ok:{}", hex(&v)),
            Ok(Err(datamatrix::DecodingError::DataDecoding(e))) => crate::gen_dec::derr(&e),
            Ok(Err(datamatrix::DecodingError::PixelConversion(_))) => "err:pixel".into(),
            Ok(Err(datamatrix::DecodingError::ErrorCorrection(_))) => "err:rs".into(),
            Err(_) => "panic".into(),
        }
    };
    for (si, s) in sizes.iter().enumerate() {
        let cap = vh::size_info(*s).num_data_codewords;
        let reps = if thorough { 6 } else { 2 };
        for r in 0..reps {
            // a message that fits: digits (two per codeword) or letters
            let len = if r % 2 == 0 { cap.min(1 + rng.below(cap)) } else { (2 * cap).min(2 + 2 * rng.below(cap)) };
            let data: Vec<u8> = (0..len).map(|i| if r % 2 == 0 { b'A' + (i % 26) as u8 } else { b'0' + (i % 10) as u8 }).collect();
            let d2 = data.clone();
            let s2 = *s;
            let dm = match guarded(move || DataMatrix::encode(&d2, s2)) {
                Ok(Ok(dm)) => dm,
                _ => continue,
            };
            let bm = dm.bitmap();
            let (bits, w) = (bm.bits().to_vec(), bm.width());
            let mut variants: Vec<(Vec<bool>, usize, &str)> = vec![(bits.clone(), w, "exact")];
            for extra in [1usize, w / 2, w - 1] {
                let mut b = bits.clone();
                b.extend((0..extra).map(|i| i % 2 == 0));
                variants.push((b, w, "stray_pixels"));
            }
            for missing in [1usize, w - 1, w] {
                variants.push((bits[..bits.len() - missing].to_vec(), w, "missing_pixels"));
            }
            variants.push((bits.clone(), w + 1, "wrong_width"));
            variants.push((bits.clone(), w - 1, "wrong_width"));
            let mut extra_row = bits.clone();
            extra_row.extend(std::iter::repeat(true).take(w));
            variants.push((extra_row, w, "extra_row"));
            let mut flipped = bits.clone();
            for _ in 0..(1 + rng.below(4)) {
                let p = rng.below(flipped.len());
                flipped[p] = !flipped[p];
            }
            variants.push((flipped, w, "flipped_modules"));
            for (b, w2, tag) in variants {
                let (ans, orc) = parse(&b, w2);
                writeln!(out, "P parse {} {} => {}", w2, pack_bits(&b), ans).unwrap();
                writeln!(out, "O oracle {} => ok", orc).unwrap();
                let a = fulldec(&b, w2);
                writeln!(out, "M fulldec {} {} => {}", w2, pack_bits(&b), a).unwrap();
                if a == "panic" {
                    writeln!(out, "O oracle fail:panic:DataMatrix::decode:{}:{}:{} => ok", si, tag, w2).unwrap();
                }
                n += 1;
            }
        }
    }
    writeln!(out, "# pixel_arrays_around_valid_symbols {}", n).unwrap();
}
