//! `dmh dump`: print every finite table of the crate as JSON (the "translator":
//! for a pure function over a finite domain the table is the function).
use crate::util::*;
use datamatrix::placement::MatrixMap;
use datamatrix::{data, verif_hooks as vh, DataMatrix, SymbolList, SymbolSize};

fn decode_one(eci: Option<u32>, b: u8) -> String {
    // ASCII-mode codewords for byte b, preceded by an ECI designator
    let mut cw = vec![];
    if let Some(e) = eci {
        cw.push(241);
        cw.push(e as u8 + 1);
    }
    if b < 128 {
        cw.push(b + 1);
    } else {
        cw.push(235);
        cw.push(b - 127);
    }
    match guarded(move || data::decode_str(&cw)) {
        Ok(Ok(s)) => {
            let cps: Vec<u32> = s.chars().map(|c| c as u32).collect();
            if cps.len() == 1 {
                format!("{}", cps[0])
            } else {
                "-3".to_string()
            }
        }
        Ok(Err(data::DataDecodingError::CharsetError)) => "-1".to_string(),
        Ok(Err(_)) => "-2".to_string(),
        Err(_) => "-9".to_string(),
    }
}

pub fn dump() {
    silence_panics();
    let sizes = all_sizes();
    let mut out = String::from("{\n");
    // catalogue
    out.push_str("\"sizes\": [\n");
    for (i, s) in sizes.iter().enumerate() {
        let inf = vh::size_info(*s);
        // public API observations
        let dm = DataMatrix::encode(b"", *s);
        let (pub_total, pub_data, bw, bh) = match dm {
            Ok(dm) => {
                let bm = dm.bitmap();
                (dm.codewords().len(), dm.data_codewords().len(), bm.width(), bm.height())
            }
            Err(_) => (0, 0, 0, 0),
        };
        let mm = MatrixMap::<bool>::new(*s);
        let bm0 = mm.bitmap();
        let content_cells = {
            // count via traverse: number of codewords visited
            let mut n = 0usize;
            mm.traverse(|_, _| n += 1);
            n
        };
        out.push_str(&format!(
            "{{\"name\":{},\"data_cw\":{},\"blocks\":{},\"ecc_per\":{},\"width\":{},\"height\":{},\"extra_v\":{},\"extra_h\":{},\"cap_max\":{},\"cap_min\":{},\"padding\":{},\"dmre\":{},\"square\":{},\"pub_total\":{},\"pub_data\":{},\"bm_w\":{},\"bm_h\":{},\"bm0_w\":{},\"bm0_h\":{},\"traversed\":{}}}{}\n",
            json_str(&format!("{:?}", s)),
            inf.num_data_codewords,
            inf.num_ecc_blocks,
            inf.num_ecc_per_block,
            inf.width,
            inf.height,
            inf.extra_vertical_alignments,
            inf.extra_horizontal_alignments,
            inf.capacity_max,
            inf.capacity_min,
            inf.has_padding_modules,
            s.is_dmre(),
            s.is_square(),
            pub_total,
            pub_data,
            bw,
            bh,
            bm0.width(),
            bm0.height(),
            content_cells,
            if i + 1 < sizes.len() { "," } else { "" }
        ));
    }
    out.push_str("],\n");
    let idxs = |l: SymbolList| json_list(l.iter().map(size_index));
    out.push_str(&format!("\"default_list\": {},\n", idxs(SymbolList::default())));
    out.push_str(&format!("\"all_list\": {},\n", idxs(SymbolList::all())));
    out.push_str(&format!(
        "\"extended_list\": {},\n",
        idxs(SymbolList::with_extended_rectangles())
    ));
    // Ord observed through the public PartialOrd impl: matrix of comparisons
    let mut cmp = vec![];
    for a in &sizes {
        let row: Vec<i32> = sizes
            .iter()
            .map(|b| match a.cmp(b) {
                std::cmp::Ordering::Less => -1,
                std::cmp::Ordering::Equal => 0,
                std::cmp::Ordering::Greater => 1,
            })
            .collect();
        cmp.push(json_list(row));
    }
    out.push_str(&format!("\"cmp\": [{}],\n", cmp.join(",")));
    // generator polynomials
    let gens: Vec<String> = vh::errorcode::generator_polynomials()
        .iter()
        .map(|g| json_list(g.iter()))
        .collect();
    out.push_str(&format!("\"generators\": [{}],\n", gens.join(",")));
    let (log, alog) = vh::errorcode::log_tables();
    out.push_str(&format!("\"log\": {},\n", json_list(log.iter())));
    out.push_str(&format!("\"alog\": {},\n", json_list(alog.iter())));
    // decoder tables
    let t = vh::decodation::c40_tables();
    let names = ["base_c40", "shift3_c40", "base_text", "shift3_text", "shift2"];
    for (n, tab) in names.iter().zip(t.iter()) {
        out.push_str(&format!("\"{}\": {},\n", n, json_list(tab.iter())));
    }
    // character sets, observed through the public string decoder
    for (name, eci) in [
        ("cs_default", None),
        ("cs_eci3", Some(3u32)),
        ("cs_eci11", Some(11)),
        ("cs_eci13", Some(13)),
        ("cs_eci26", Some(26)),
        ("cs_eci27", Some(27)),
    ] {
        let v: Vec<String> = (0..=255u8).map(|b| decode_one(eci, b)).collect();
        out.push_str(&format!("\"{}\": [{}],\n", name, v.join(",")));
    }
    // latin1 helpers
    let l2u: Vec<String> = (0..=255u8)
        .map(|b| match data::latin1_to_utf8(&[b]) {
            Some(s) => {
                let c: Vec<char> = s.chars().collect();
                if c.len() == 1 {
                    format!("{}", c[0] as u32)
                } else {
                    "-3".into()
                }
            }
            None => "-1".into(),
        })
        .collect();
    out.push_str(&format!("\"latin1_to_utf8\": [{}],\n", l2u.join(",")));
    // utf8_to_latin1 on every scalar value: list of (cp, byte) where defined
    let mut u2l = vec![];
    for cp in 0..=0x10FFFFu32 {
        if let Some(c) = char::from_u32(cp) {
            let mut buf = [0u8; 4];
            let s = c.encode_utf8(&mut buf);
            if let Some(v) = data::utf8_to_latin1(s) {
                if v.len() == 1 {
                    u2l.push(format!("[{},{}]", cp, v[0]));
                } else {
                    u2l.push(format!("[{},-3]", cp));
                }
            }
        }
    }
    out.push_str(&format!("\"utf8_to_latin1\": [{}],\n", u2l.join(",")));
    let _ = SymbolSize::Square10;
    out.push_str("\"version\": 1\n}\n");
    print!("{}", out);
}
