//! Sweeps over (input, configuration) for the encoder-side properties.
use crate::enc::*;
use crate::util::*;
use datamatrix::data;
use datamatrix::DataMatrix;
use std::collections::BTreeMap;
use std::io::Write;

pub struct Opts {
    pub flags: &'static str,
    pub n_random: usize,
    pub short_len: usize,
    pub short_cfgs: usize,
    pub with_eci: bool,
    pub with_empty: bool,   // empty mode set / empty list (C11)
    pub macro_pct: usize,
    pub roundtrip: bool,    // C01: decode through pixels and directly
    pub long_inputs: bool,
    pub ascii_enabled_only: bool,
}

use datamatrix::verif_hooks as vh;

fn note(h: &mut BTreeMap<String, usize>, k: &str) {
    *h.entry(k.to_string()).or_insert(0) += 1;
}

fn emit_case(out: &mut dyn Write, o: &Opts, c: &Case, hist: &mut BTreeMap<String, usize>) {
    progress(&format!("{:?}", c));
    let oc = run_case(c);
    writeln!(out, "{}", case_line(o.flags, c, &oc.resp)).unwrap();
    if o.flags.contains('r') && o.flags.contains('a') && c.modes != 0 {
        // C02: the Lean model of the encoder, run on the plan the implementation used
        if let Some(l) = encrun_line(c, &oc) {
            writeln!(out, "{}", l).unwrap();
        }
    }
    if (o.flags.contains('p') || o.flags.contains('t')) && oc.dm.is_some() && oc.plan != "-" && !oc.plan.is_empty() {
        // statistic: does the plan the implementation used satisfy the decidable side condition of the
        // planner / encoder coupling theorems (DM/Props/C18Couple.lean)? evaluated by the Lean driver
        let (d, m, f) = (c.data.clone(), c.macros, c.fnc1);
        if let Ok((_, body)) = crate::util::guarded(move || vh::macro_prefix(&d, m, f)) {
            writeln!(out, "S planok {} {} => -", if body.is_empty() { "-".to_string() } else { hex(&body) }, oc.plan).unwrap();
        }
    }
    if oc.api_checked > 0 {
        *hist.entry("public_entry_points_compared".into()).or_insert(0) += oc.api_checked;
    }
    if let Some(a) = &oc.api {
        writeln!(out, "O oracle fail:public-entry-point-differs-from-builder:{}:{} => ok", a, case_line(o.flags, c, "-").replace(' ', "_")).unwrap();
    }
    if oc.panicked {
        note(hist, "outcome_panic");
    } else if oc.dm.is_none() {
        note(hist, "outcome_err");
    } else {
        note(hist, "outcome_ok");
        // coverage of the Lean theorem mixed_roundtrip (DM/Props/C01.lean): no prefix codewords
        // (macro / FNC1 / ECI) and a plan without EDIFACT and without a latch to a non-ASCII mode
        // scheduled for the last four characters
        // (macro / FNC1 prefix codewords are covered by macro_roundtrip / fnc1_roundtrip; ECI designators are not)
        let shaped = c.eci.is_some();
        let prefixed = c.fnc1 || (c.macros && vh::macro_prefix(&c.data, true, false).0.len() > 0);
        let mut late = false;
        let mut edi = false;
        let mut single = true;
        let mut first: Option<char> = None;
        for e in oc.plan.split(',') {
            if e == "-" || e.is_empty() { continue; }
            let m = e.chars().last().unwrap();
            let at: usize = e[..e.len() - 1].parse().unwrap_or(0);
            if m == 'E' { edi = true; }
            if m != 'A' && at > 0 && at <= 4 { late = true; }
            match first { None => first = Some(m), Some(f) => if f != m { single = false; } }
        }
        // mixed_roundtrip_E: EDIFACT only as the final stretch (front ++ EDIFACT entries), first EDIFACT
        // position > 4, the stretch's characters EDIFACT characters
        let edi_tail = edi && !late && {
            let ents: Vec<(usize, char)> = oc.plan.split(',').filter(|e| *e != "-" && !e.is_empty())
                .map(|e| (e[..e.len() - 1].parse().unwrap_or(0), e.chars().last().unwrap())).collect();
            let first = ents.iter().position(|e| e.1 == 'E').unwrap();
            let body_len = vh::macro_prefix(&c.data, c.macros, c.fnc1).1.len();
            let body = vh::macro_prefix(&c.data, c.macros, c.fnc1).1;
            ents[first..].iter().all(|e| e.1 == 'E') && ents[first].0 > 4 && ents[first].0 <= body_len
                && body[body_len - ents[first].0..].iter().all(|b| (32..=94).contains(b))
        };
        if shaped {
            note(hist, "roundtrip_theorem_not_applicable_eci");
        } else if edi_tail {
            note(hist, "roundtrip_theorem_covers_plan_edifact_tail");
        } else if !edi && !late {
            note(hist, "roundtrip_theorem_covers_plan");
        } else if single && !prefixed {
            note(hist, "roundtrip_theorem_covers_plan_single_mode");
        } else if edi {
            note(hist, "roundtrip_theorem_excludes_plan_edifact_mixed");
        } else {
            note(hist, "roundtrip_theorem_excludes_plan_late_latch");
        }
    }
    if o.roundtrip {
        if let Some(dm) = &oc.dm {
            // (1) data codewords directly
            let dc = dm.data_codewords().to_vec();
            let direct = guarded(move || data::decode_data(&dc));
            let a1 = match direct {
                Ok(Ok(v)) => hex(&v),
                Ok(Err(e)) => crate::gen_dec::derr(&e),
                Err(_) => "panic".into(),
            };
            let expect = if c.eci.is_some() { "err:ECICode".to_string() } else { hex(&c.data) };
            writeln!(out, "O eq {} {} => ok", expect, a1).unwrap();
            // (2) through the module matrix, finder pattern included
            let bm = dm.bitmap();
            let (bits, w) = (bm.bits().to_vec(), bm.width());
            let px = guarded(move || DataMatrix::decode(&bits, w));
            let a2 = match px {
                Ok(Ok(v)) => hex(&v),
                Ok(Err(datamatrix::DecodingError::DataDecoding(e))) => crate::gen_dec::derr(&e),
                Ok(Err(datamatrix::DecodingError::PixelConversion(_))) => "err:pixel".into(),
                Ok(Err(datamatrix::DecodingError::ErrorCorrection(_))) => "err:rs".into(),
                Err(_) => "panic".into(),
            };
            writeln!(out, "O eq {} {} => ok", expect, a2).unwrap();
            // the whole decoding pipeline against the composition of the Lean models, also with a
            // few damaged modules
            if bm.bits().len() <= 1300 {
                let a2m = a2.replace("err:ECICode", "err:ECICode");
                writeln!(out, "M fulldec {} {} => {}", bm.width(), pack_bits(bm.bits()), if a2m.starts_with("err") || a2m == "panic" { a2m.clone() } else { format!("ok:{}", a2m) }).unwrap();
                let mut dmg = bm.bits().to_vec();
                let n = dmg.len();
                let k = 1 + (c.data.len() + c.modes as usize) % 6;
                for q in 0..k {
                    let p = (q * 7919 + c.data.len() * 31 + 13) % n;
                    dmg[p] = !dmg[p];
                }
                let w2 = bm.width();
                let d2 = dmg.clone();
                let r = guarded(move || DataMatrix::decode(&d2, w2));
                let a3 = match r {
                    Ok(Ok(v)) => format!("ok:{}", hex(&v)),
                    Ok(Err(datamatrix::DecodingError::DataDecoding(e))) => crate::gen_dec::derr(&e),
                    Ok(Err(datamatrix::DecodingError::PixelConversion(_))) => "err:pixel".into(),
                    Ok(Err(datamatrix::DecodingError::ErrorCorrection(_))) => "err:rs".into(),
                    Err(_) => "panic".into(),
                };
                writeln!(out, "M fulldec {} {} => {}", w2, pack_bits(&dmg), a3).unwrap();
            }
        }
    }
}

pub fn sweep(out: &mut dyn Write, seed: u64, o: &Opts) {
    let mut rng = Rng::new(seed);
    let mut hist: BTreeMap<String, usize> = BTreeMap::new();
    let mut lens: BTreeMap<usize, usize> = BTreeMap::new();
    // 0. fixed corpus: regression inputs of the repository's tests and past minimised failures
    let corpus: Vec<(&[u8], u8)> = vec![
        (b"", 63),
        (b"A", 63),
        (b"12", 63),
        (b"123", 63),
        (b"Hello, World!", 63),
        (b"ABCDEFGH12345678", 63),
        (b"AIMAIMAIM", 63),
        (b"AIMAIMAIMAIMAIMAIM", 2),
        (b"01034531200000111719112510ABCD1234\x1D2110", 63),
        (b"[)>\x1E05\x1D", 63),
        (b"[)>\x1E05\x1DHELLO WORLD", 63),
        (b"[)>\x1E05\x1DHELLO WORLD\x1E\x04", 63),
        (b"[)>\x1E06\x1D11\x1E\x04", 63),
        (b"\xFAaaa", 48),
        (b"ab*de", 62),
        (b"1234567890123", 2),
        (b"a1", 4),
        // found by the proof attempt never_worse_than_ascii (session 4): a Text / C40 plan made "unbeatable" by runs of
        // at most six digits between base-set characters never offers a switch; plain ASCII is shorter (known finding K-D)
        (b"aaaaaaaaa123456a123456a123456a123456a123456a", 63),
        (b"aaaaaaaaa123456a123456a123456a123456a123456a123456a123456a123456a", 63),
        (b"AAAAAAAAA123456A123456A123456A123456A123456A", 3),
        (b"aaaaaaaaa123456a123456a123456a123456a", 63),
    ];
    for (d, m) in corpus {
        for mask in [default_mask(), (1u64 << 48) - 1] {
            for (mac, f) in [(true, false), (false, false), (true, true)] {
                let c = Case { data: d.to_vec(), modes: m, mask, macros: mac, fnc1: f, eci: None };
                if o.ascii_enabled_only && c.modes & 1 == 0 { continue; }
                emit_case(out, o, &c, &mut hist);
            }
        }
    }
    // 0b. boundary inputs: Base256 runs around the 1-/2-byte length field limits (249/250, 1555),
    // with and without a following run in another mode, single symbols that are exactly full
    for l in [1usize, 2, 248, 249, 250, 251, 252, 499, 500, 501, 750, 1000, 1553, 1554, 1555, 1556] {
        for tail in [&b""[..], b"AB", b"123456", b"a"] {
            for modes in [63u8, 32, 33, 48] {
                if o.ascii_enabled_only && modes & 1 == 0 { continue; }
                let mut d: Vec<u8> = (0..l).map(|i| 0x80 + (i % 0x7f) as u8).collect();
                d.extend_from_slice(tail);
                for mask in [default_mask(), (1u64 << 48) - 1, tight_single(&mut rng, d.len() * 2 / 2)] {
                    let c = Case { data: d.clone(), modes, mask, macros: true, fnc1: false, eci: None };
                    emit_case(out, o, &c, &mut hist);
                }
            }
        }
    }
    // 0c. a Base256 run at the length-field boundary followed by digit tails of every length, so that
    // the total lands exactly on (and just beyond) symbol capacities
    for l in [249usize, 250, 251] {
        for k in 0..64 {
            for first_other in [false, true] {
                let mut d: Vec<u8> = (0..l).map(|_| 0xC8u8).collect();
                if first_other {
                    d[l - 1] = b'!';
                }
                d.extend(std::iter::repeat(b'7').take(2 * k));
                for mask in [default_mask(), (1u64 << 48) - 1] {
                    let c = Case { data: d.clone(), modes: 63, mask, macros: true, fnc1: false, eci: None };
                    emit_case(out, o, &c, &mut hist);
                }
            }
        }
    }
    // 0d. the early "bigger than the theoretical limit" exit (twice the data capacity of the largest listed
    // symbol) from both sides, with and without a prefix codeword: digit / letter bodies whose length is within
    // a few characters of that limit, plain, inside a Macro 05 / 06 envelope (the envelope's nine characters
    // are not encoded: the limit applies to the body), behind FNC1 and behind an ECI designator, for
    // single-symbol lists of every small size and for the largest symbol
    {
        let sizes = all_sizes();
        let mut n_gate = 0usize;
        let mut targets: Vec<(u64, usize)> = vec![];
        for (i, sz) in sizes.iter().enumerate() {
            let cap = vh::size_info(*sz).num_data_codewords;
            if cap <= 12 || i == 23 {
                targets.push((1u64 << i, cap));
            }
        }
        targets.push(((1u64 << 48) - 1, 1558));
        for (mask, cap) in targets {
            let lens: Vec<usize> = if cap > 100 {
                vec![2 * cap - 11, 2 * cap - 9, 2 * cap - 2, 2 * cap]
            } else {
                ((2 * cap).saturating_sub(12)..=2 * cap + 2).collect()
            };
            for l in lens {
                for kind in 0..5usize {
                    if cap > 100 && kind >= 3 { continue; }
                    let body: Vec<u8> = (0..l).map(|i| if kind == 4 { b'A' + (i % 26) as u8 } else { b'0' + (i % 10) as u8 }).collect();
                    let (data, macros, fnc1, eci): (Vec<u8>, bool, bool, Option<u32>) = match kind {
                        0 => (body, true, false, None),
                        1 => { let mut d = b"[)>\x1E05\x1D".to_vec(); d.extend_from_slice(&body); d.extend_from_slice(b"\x1E\x04"); (d, true, false, None) }
                        2 => { let mut d = b"[)>\x1E06\x1D".to_vec(); d.extend_from_slice(&body); d.extend_from_slice(b"\x1E\x04"); (d, l % 2 == 0, false, None) }
                        3 => (body, true, true, None),
                        _ => (body, true, false, if o.flags.contains('o') { None } else { Some(26) }),
                    };
                    let c = Case { data, modes: if kind == 4 { 63 } else { [63u8, 1, 3][l % 3] }, mask, macros, fnc1, eci };
                    if o.ascii_enabled_only && c.modes & 1 == 0 { continue; }
                    emit_case(out, o, &c, &mut hist);
                    n_gate += 1;
                }
            }
        }
        hist.insert("capacity_gate_cases".into(), n_gate);
    }
    // 0e. long messages whose optimal plan has very many segments (a few bytes >= 128, then a few digits, repeated;
    // alternating short runs of letter classes): whatever is done once per segment on "the rest of the message"
    // adds up to quadratic work here (C19 counts all planning done for one message), and the segment bookkeeping
    // of planner and encoder is exercised hundreds of times in one run
    if o.long_inputs {
        for (a, b) in [(2usize, 4usize), (3, 6), (4, 8), (1, 2)] {
            for total in [600usize, 1200, 1746] {
                let mut d: Vec<u8> = vec![];
                let mut k = 0usize;
                while d.len() + a + b <= total {
                    for i in 0..a { d.push(0x80 + ((k * 7 + i * 13) % 0x7f) as u8); }
                    for i in 0..b { d.push(b'0' + ((k + i) % 10) as u8); }
                    k += 1;
                }
                for mask in [default_mask(), (1u64 << 48) - 1] {
                    let c = Case { data: d.clone(), modes: 63, mask, macros: true, fnc1: false, eci: None };
                    emit_case(out, o, &c, &mut hist);
                }
            }
        }
        for run in [3usize, 5, 7] {
            let d: Vec<u8> = (0..1500).map(|i| { let r = (i / run) % 3; let j = (i % 26) as u8; if r == 0 { b'A' + j } else if r == 1 { b'a' + j } else { b'0' + j % 10 } }).collect();
            let c = Case { data: d, modes: 63, mask: (1u64 << 48) - 1, macros: true, fnc1: false, eci: None };
            emit_case(out, o, &c, &mut hist);
        }
        note(&mut hist, "many_segment_long_inputs");
    }
    // 1. exhaustive short strings over the class alphabet x sampled configurations
    if o.short_len > 0 {
        let strs = short_strings(o.short_len);
        for s in &strs {
            for k in 0..o.short_cfgs {
                let modes = if k == 0 { 63 } else { gen_modes(&mut rng) };
                if o.ascii_enabled_only && modes & 1 == 0 { continue; }
                let mask = match k % 3 {
                    0 => default_mask(),
                    1 => tight_single(&mut rng, s.len()),
                    _ => gen_mask(&mut rng, &mut hist),
                };
                let c = Case { data: s.clone(), modes, mask, macros: rng.chance(3, 4), fnc1: rng.chance(1, 8), eci: None };
                emit_case(out, o, &c, &mut hist);
            }
        }
        note(&mut hist, "short_strings_exhaustive_upto");
        hist.insert("short_strings_exhaustive_upto".into(), o.short_len);
        hist.insert("short_strings".into(), strs.len());
    }
    // 1b. exhaustive strings over the class-boundary bytes (0x7F/0x80, '/'..':', '@'..'[', ...)
    if o.short_len > 0 {
        let bl = if o.short_len >= 5 || o.flags.contains('o') { 3 } else { 2 };
        let strs = boundary_strings(bl);
        for s in &strs {
            for k in 0..2 {
                let modes = if k == 0 { 63 } else { gen_modes(&mut rng) };
                if o.ascii_enabled_only && modes & 1 == 0 { continue; }
                let mask = if k == 0 { default_mask() } else { tight_single(&mut rng, s.len()) };
                let c = Case { data: s.clone(), modes, mask, macros: true, fnc1: false, eci: None };
                emit_case(out, o, &c, &mut hist);
            }
            // the same bytes inside a longer ASCII context
            let mut d = b"AB".to_vec();
            d.extend_from_slice(s);
            d.extend_from_slice(b"cd");
            let c = Case { data: d, modes: 63, mask: default_mask(), macros: true, fnc1: false, eci: None };
            emit_case(out, o, &c, &mut hist);
        }
        hist.insert("boundary_strings".into(), strs.len());
    }
    // 2. structured random inputs
    for _ in 0..o.n_random {
        let mut len = gen_len(&mut rng);
        if !o.long_inputs {
            len = len.min(400);
        }
        let mut d = gen_data(&mut rng, len, &mut hist);
        if rng.below(100) < o.macro_pct {
            d = macro_shape(&mut rng, &d, &mut hist);
        }
        *lens.entry(match d.len() { 0 => 0, 1..=4 => 4, 5..=12 => 12, 13..=60 => 60, 61..=300 => 300, 301..=1600 => 1600, _ => 3200 }).or_insert(0) += 1;
        let mut modes = gen_modes(&mut rng);
        if o.ascii_enabled_only {
            modes |= 1;
        }
        let mut mask = if rng.chance(1, 4) { tight_single(&mut rng, d.len()) } else { gen_mask(&mut rng, &mut hist) };
        if o.with_empty {
            if rng.chance(1, 25) { modes = 0; }
            if rng.chance(1, 25) { mask = 0; }
        } else if mask == 0 {
            mask = default_mask();
        }
        let eci = if o.with_eci && rng.chance(1, 5) {
            Some(*rng.pick(&[0u32, 3, 26, 126, 127, 128, 16382, 16383, 16384, 999999, 123456]))
        } else {
            None
        };
        let fnc1 = rng.chance(1, 10);
        let c = Case { data: d, modes, mask, macros: rng.chance(3, 4), fnc1, eci };
        note(&mut hist, &format!("modes_{}", if modes == 63 { "all".to_string() } else if modes & 1 == 0 { "no_ascii".to_string() } else if modes.count_ones() == 1 { "single".to_string() } else { "subset".to_string() }));
        emit_case(out, o, &c, &mut hist);
    }
    // 3. run-structured inputs (own random stream, so that the case set above is unchanged): two to four
    // runs of one character class each with run lengths around the planner's look-ahead thresholds, and
    // systematically a digit run of every length 1..=10 between two runs of other classes
    {
        let mut r2 = Rng::new(seed ^ 0x5255_4E53);
        let classes: [&[u8]; 8] = [
            b"ABCDEFGHIJKLMNOPQRSTUVWXYZ",
            b"abcdefghijklmnopqrstuvwxyz",
            b"0123456789",
            b" ",
            b"*>\r",
            b"!\"#$%&'()+,-./:;<=?@[\\]^_",
            b"\x80\xC8\xFF\xE9",
            b"`{|}~\x7f\x00\x1d",
        ];
        let run = |cl: usize, len: usize, off: usize| -> Vec<u8> { (0..len).map(|i| classes[cl][(i + off) % classes[cl].len()]).collect() };
        let mut emit_runs = |d: Vec<u8>, modes: u8, mask: u64, out: &mut dyn Write, hist: &mut BTreeMap<String, usize>| {
            if o.ascii_enabled_only && modes & 1 == 0 { return; }
            let c = Case { data: d, modes, mask, macros: true, fnc1: false, eci: None };
            note(hist, "run_structured");
            emit_case(out, o, &c, hist);
        };
        for a in [0usize, 1, 4, 6] {
            for b in [0usize, 1, 4, 6] {
                for digits in 1..=10usize {
                    for (la, lb) in [(9usize, 4usize), (3, 2)] {
                        let mut d = run(a, la, 0);
                        d.extend(run(2, digits, 1));
                        d.extend(run(b, lb, 22));
                        emit_runs(d, 63, default_mask(), out, &mut hist);
                    }
                }
            }
        }
        let lens_pick = [1usize, 2, 3, 4, 5, 6, 7, 8, 9, 10, 12, 13];
        let n_runs = if o.n_random >= 100000 { 20000 } else { 4000 };
        for _ in 0..n_runs {
            let k = 2 + r2.below(3);
            let mut d = vec![];
            let mut prev = usize::MAX;
            for _ in 0..k {
                let mut cl = r2.below(classes.len());
                if cl == prev { cl = (cl + 1) % classes.len(); }
                prev = cl;
                let len = *r2.pick(&lens_pick);
                let off = if r2.chance(1, 2) { 0 } else { r2.below(7) };
                d.extend(run(cl, len, off));
            }
            let modes = if r2.chance(3, 4) { 63 } else { gen_modes(&mut r2) };
            let mask = match r2.below(4) { 0 | 1 => default_mask(), 2 => tight_single(&mut r2, d.len()), _ => (1u64 << 48) - 1 };
            emit_runs(d, if modes == 0 { 63 } else { modes }, mask, out, &mut hist);
        }
        // every ordered pair of classes under the mode subsets that force a direct transition between two
        // non-ASCII modes (no ASCII detour available), and C40/Text-friendly runs that end in one character
        // which needs a shift or an upper shift, in symbols that are exactly full
        let mut r3 = Rng::new(seed ^ 0x5052_5332);
        for modes in [6u8, 7, 14, 15, 38, 39, 62, 63, 12, 10, 24, 48, 33, 3, 5, 9, 17] {
            for a in 0..classes.len() {
                for b in 0..classes.len() {
                    if a == b { continue; }
                    for (la, lb) in [(9usize, 9usize), (4, 12)] {
                        let mut d = run(a, la, 0);
                        d.extend(run(b, lb, 3));
                        emit_runs(d, modes, default_mask(), out, &mut hist);
                    }
                }
            }
        }
        let n_tail = if o.n_random >= 100000 { 8000 } else { 1500 };
        for _ in 0..n_tail {
            let cl = *r3.pick(&[0usize, 1, 2, 3, 5]);
            let len = 2 + r3.below(14);
            let mut d = run(cl, len, r3.below(5));
            if r3.chance(1, 3) {
                d.extend(run(*r3.pick(&[0usize, 1, 2]), 1 + r3.below(5), 0));
            }
            d.push(*r3.pick(&[0x80u8, 0xC1, 0xE4, 0xFF, 0x7F, b'!', b'_', b'`', 0x1D, 0x00]));
            let modes = *r3.pick(&[2u8, 4, 6, 22, 62, 63, 3, 5, 18, 20]);
            let mask = if r3.chance(2, 3) { tight_single(&mut r3, d.len()) } else { default_mask() };
            emit_runs(d, modes, mask, out, &mut hist);
        }
    }
    for (k, v) in &hist {
        writeln!(out, "# {} {}", k, v).unwrap();
    }
    for (k, v) in &lens {
        writeln!(out, "# len_le_{} {}", k, v).unwrap();
    }
}

pub fn gen(out: &mut dyn Write, which: &str, seed: u64, thorough: bool) {
    let t = thorough;
    let o = match which {
        "c02" => Opts { flags: "ra", n_random: if t { 200000 } else { 12000 }, short_len: if t { 5 } else { 3 }, short_cfgs: 3,
            with_eci: true, with_empty: false, macro_pct: 8, roundtrip: false, long_inputs: true, ascii_enabled_only: false },
        "c01" => Opts { flags: "r", n_random: if t { 150000 } else { 8000 }, short_len: if t { 5 } else { 3 }, short_cfgs: 2,
            with_eci: false, with_empty: false, macro_pct: 10, roundtrip: true, long_inputs: true, ascii_enabled_only: false },
        "c13" => Opts { flags: "m", n_random: if t { 200000 } else { 12000 }, short_len: if t { 5 } else { 4 }, short_cfgs: 3,
            with_eci: false, with_empty: false, macro_pct: 3, roundtrip: false, long_inputs: true, ascii_enabled_only: false },
        "c16" => Opts { flags: "ar", n_random: if t { 200000 } else { 12000 }, short_len: 0, short_cfgs: 0,
            with_eci: false, with_empty: false, macro_pct: 80, roundtrip: true, long_inputs: false, ascii_enabled_only: false },
        "c18" => Opts { flags: "p", n_random: if t { 200000 } else { 12000 }, short_len: if t { 5 } else { 4 }, short_cfgs: 3,
            with_eci: false, with_empty: false, macro_pct: 3, roundtrip: false, long_inputs: true, ascii_enabled_only: false },
        "c19" => Opts { flags: "k", n_random: if t { 100000 } else { 6000 }, short_len: 3, short_cfgs: 2,
            with_eci: false, with_empty: false, macro_pct: 3, roundtrip: false, long_inputs: true, ascii_enabled_only: false },
        "c10" => Opts { flags: "o", n_random: if t { 150000 } else { 9000 }, short_len: if t { 5 } else { 4 }, short_cfgs: 3,
            with_eci: false, with_empty: false, macro_pct: 0, roundtrip: false, long_inputs: true, ascii_enabled_only: false },
        "c11" => Opts { flags: "t", n_random: if t { 300000 } else { 15000 }, short_len: if t { 5 } else { 4 }, short_cfgs: 3,
            with_eci: true, with_empty: true, macro_pct: 10, roundtrip: false, long_inputs: true, ascii_enabled_only: false },
        _ => panic!("unknown sweep"),
    };
    // C10 compares with a list of known planner sub-optimalities identified by input: its case set
    // is deterministic (independent of VERIF_SEED) so that the list stays exact
    let seed = if which == "c10" { 1 } else { seed };
    sweep(out, seed ^ 0xE0C, &o);
}

/// model correspondence for the parts of the encoder around the mode encoders:
/// `macro_prefix` (C16) and `add_padding` (C02), through the hooks
pub fn gen_prefix(out: &mut dyn Write, which: &str, seed: u64, thorough: bool) {
    use datamatrix::verif_hooks as vh;
    let mut rng = Rng::new(seed ^ 0x9F1);
    let mut hist: BTreeMap<String, usize> = BTreeMap::new();
    if which == "c16m" {
        let mut bodies: Vec<Vec<u8>> = vec![vec![], vec![b'A'], vec![0x1E], vec![0x04], vec![0x1E, 0x04], b"01".to_vec()];
        // bodies that look like an envelope themselves
        for inner in [HEAD05, HEAD06] {
            for mid in [&b""[..], b"A", b"ABCDEF"] {
                for trail in [&b""[..], &TRAIL[..]] {
                    let mut b = inner.to_vec();
                    b.extend_from_slice(mid);
                    b.extend_from_slice(trail);
                    bodies.push(b);
                }
            }
        }
        bodies.push([&b"AB"[..], &TRAIL[..]].concat());
        bodies.push([&TRAIL[..], &TRAIL[..]].concat());
        for _ in 0..(if thorough { 20000 } else { 2000 }) {
            let n = rng.below(12);
            bodies.push(gen_data(&mut rng, n, &mut hist));
        }
        for body in &bodies {
            // every shape: proper envelope, each head truncated by 1..6, partial / missing trailer, bare pieces
            let mut shapes: Vec<Vec<u8>> = vec![body.clone()];
            for head in [HEAD05, HEAD06] {
                for cut in 0..=6 {
                    for trail in [&TRAIL[..], &TRAIL[..1], &TRAIL[1..], &b""[..]] {
                        let mut v = head[..head.len() - cut].to_vec();
                        v.extend_from_slice(body);
                        v.extend_from_slice(trail);
                        shapes.push(v);
                    }
                }
            }
            for d in shapes {
                for (m, f) in [(true, false), (true, true), (false, false), (false, true)] {
                    let d2 = d.clone();
                    let r = guarded(move || vh::macro_prefix(&d2, m, f));
                    let ans = match r {
                        Ok((cw, body)) => format!("ok:{}:{}", hex(&cw), hex(&body)),
                        Err(_) => "panic".into(),
                    };
                    writeln!(out, "P mprefix {} {} {} => {}", m as u8, f as u8, hex(&d), ans).unwrap();
                }
            }
        }
    } else {
        // add_padding: every size x every prefix length 0..=capacity (thorough) / sampled (quick), both modes
        let sizes = all_sizes();
        for (si, s) in sizes.iter().enumerate() {
            let cap = vh::size_info(*s).num_data_codewords;
            let lens: Vec<usize> = if thorough || cap <= 40 {
                (0..=cap).collect()
            } else {
                let mut v: Vec<usize> = vec![0, 1, 2, cap - 3, cap - 2, cap - 1, cap];
                for _ in 0..12 {
                    v.push(rng.below(cap + 1));
                }
                v
            };
            for l in lens {
                for ascii in [true, false] {
                    let pre: Vec<u8> = (0..l).map(|_| 1 + rng.below(128) as u8).collect();
                    let p2 = pre.clone();
                    let s2 = *s;
                    let r = guarded(move || vh::add_padding(&p2, ascii, s2));
                    let ans = match r {
                        Ok(v) => hex(&v),
                        Err(_) => "panic".into(),
                    };
                    writeln!(out, "P apad {} {} {} => {}", si, ascii as u8, hex(&pre), ans).unwrap();
                }
            }
        }
    }
}

/// C19: every call of `remove_hopeless_cases` during planning, recorded by the hook, against the
/// Lean model of the pruning (`DM/Model/Prune.lean`)
pub fn gen_prune(out: &mut dyn Write, seed: u64, thorough: bool) {
    use datamatrix::verif_hooks as vh;
    let mut rng = Rng::new(seed ^ 0x9C19);
    let mut hist: BTreeMap<String, usize> = BTreeMap::new();
    let fmt = |l: &Vec<vh::PlanRecord>, full: bool| -> String {
        if l.is_empty() {
            return "-".into();
        }
        l.iter()
            .map(|p| {
                if full {
                    format!(
                        "{}.{}.{}.{}",
                        p.start,
                        p.current,
                        p.cost,
                        p.switch_cost.iter().map(|c| c.map(|x| x.to_string()).unwrap_or("-".into())).collect::<Vec<_>>().join("/")
                    )
                } else {
                    format!("{}.{}.{}", p.start, p.current, p.cost)
                }
            })
            .collect::<Vec<_>>()
            .join(";")
    };
    let mut calls = 0usize;
    let mut maxlen = 0usize;
    let n = if thorough { 6000 } else { 500 };
    for k in 0..n {
        let len = if k % 10 == 0 { 60 + rng.below(200) } else { rng.below(40) };
        let d = gen_data(&mut rng, len, &mut hist);
        let modes = gen_modes(&mut rng);
        let mask = gen_mask(&mut rng, &mut hist);
        vh::prune_log_enable(true);
        let d2 = d.clone();
        let _ = guarded(move || datamatrix::data::encodation_plan(&d2, &list_from_mask(if mask == 0 { default_mask() } else { mask }), modes_from_bits(modes)));
        let log = vh::prune_log_take();
        vh::prune_log_enable(false);
        let mut it = log.into_iter();
        while let (Some((false, sorted)), Some((true, fin))) = (it.next(), it.next()) {
            calls += 1;
            maxlen = maxlen.max(sorted.len());
            // keep the case file small: every call for short inputs, every 7th for long ones
            if len <= 40 || calls % 7 == 0 {
                writeln!(out, "M prune {} => {}", fmt(&sorted, true), fmt(&fin, false)).unwrap();
            }
        }
    }
    writeln!(out, "# prune_calls_recorded {}", calls).unwrap();
    writeln!(out, "# longest_candidate_list {}", maxlen).unwrap();
}

/// encoder model vs implementation on *arbitrary* plans (plan-injection hook): mutated versions of
/// the optimiser's plan, including plans the encoder cannot follow (assertions, unreachable!())
pub fn gen_badplans(out: &mut dyn Write, seed: u64, thorough: bool) {
    use datamatrix::verif_hooks as vh;
    let mut rng = Rng::new(seed ^ 0xBAD);
    let mut hist: BTreeMap<String, usize> = BTreeMap::new();
    let n = if thorough { 80000 } else { 6000 };
    let mut outcomes: BTreeMap<String, usize> = BTreeMap::new();
    for _ in 0..n {
        let len = gen_len(&mut rng).min(60);
        let d = gen_data(&mut rng, len, &mut hist);
        let modes = gen_modes(&mut rng) | 1;
        let mask = if rng.chance(1, 3) { tight_single(&mut rng, d.len()) } else { gen_mask(&mut rng, &mut hist) };
        let mask = if mask == 0 { default_mask() } else { mask };
        let c = Case { data: d.clone(), modes, mask, macros: false, fnc1: false, eci: None };
        // the real plan first
        let base = run_case(&c);
        let mut plan: Vec<(usize, datamatrix::EncodationType)> = vec![];
        if base.plan != "noplan" && base.plan != "-" {
            for t in base.plan.split(',') {
                let (num, m) = t.split_at(t.len() - 1);
                plan.push((num.parse().unwrap(), mode_from_char(m.chars().next().unwrap()).unwrap()));
            }
        }
        // mutate
        let k = 1 + rng.below(3);
        for _ in 0..k {
            match rng.below(6) {
                0 if !plan.is_empty() => { let i = rng.below(plan.len()); plan[i].1 = *rng.pick(&MODES); }
                1 if !plan.is_empty() => { let i = rng.below(plan.len()); plan[i].0 = plan[i].0.saturating_sub(1 + rng.below(2)); }
                2 if !plan.is_empty() => { let i = rng.below(plan.len()); plan[i].0 += 1 + rng.below(2); }
                3 => { let at = rng.below(d.len() + 1); let i = rng.below(plan.len() + 1); plan.insert(i, (at, *rng.pick(&MODES))); }
                4 if plan.len() > 1 => { let i = rng.below(plan.len()); plan.remove(i); }
                _ => { plan.sort_by(|a, b| b.0.cmp(&a.0)); }
            }
        }
        vh::set_plan_override(Some(plan.clone()));
        let mut oc = run_case(&c);
        vh::set_plan_override(None);
        oc.plan = plan_str(&Some(plan));
        let kind = if oc.panicked { "panic" } else if oc.dm.is_some() { "ok" } else { "err" };
        *outcomes.entry(kind.to_string()).or_insert(0) += 1;
        if let Some(l) = encrun_line(&c, &oc) {
            writeln!(out, "{}", l).unwrap();
        }
    }
    for (k, v) in &outcomes {
        writeln!(out, "# badplan_outcome_{} {}", k, v).unwrap();
    }
}

/// planner model vs implementation: `optimize(data, written, Ascii, list, modes)` through the hook,
/// with the permutation each `sort_unstable_by_key` applied (the model does not fix the order of
/// equal-cost plans; it checks the permutation sorts its own candidate list and follows it)
/// Search mode of C10 (run only when the planner correspondence is broken): many short and medium messages over
/// printable alphabets in the configurations people use (all modes, default / full list; some mode subsets and
/// single-size lists), each judged by the Lean driver against the planner *model* run with its own sort
/// (request `optdiff`): a refusal or a larger symbol than the model's plan needs is a failing input, and the
/// answer carries the model's stream as the witness.
pub fn gen_optdiff(out: &mut dyn Write, seed: u64, thorough: bool) {
    let mut rng = Rng::new(seed ^ 0x10D1FF);
    let mut hist: BTreeMap<String, usize> = BTreeMap::new();
    let n: usize = std::env::var("VERIF_C10D_N").ok().and_then(|v| v.parse().ok()).unwrap_or(if thorough { 2_000_000 } else { 600_000 });
    let alphabets: [&[u8]; 5] = [
        b"ABCDEFGHIJKLMNOPQRSTUVWXYZabcdefghijklmnopqrstuvwxyz0123456789",
        b"ABCDEFGHIJKLMNOPQRSTUVWXYZabcdefghijklmnopqrstuvwxyz0123456789 .,-/:*>\r",
        b"ABCDEFGHIJKLMNOPQRSTUVWXYZ0123456789 ",
        b"abcdefghijklmnopqrstuvwxyz0123456789 ",
        b" !\"#$%&'()*+,-./0123456789:;<=>?@ABCDEFGHIJKLMNOPQRSTUVWXYZ[\\]^_`abcdefghijklmnopqrstuvwxyz{|}~",
    ];
    for k in 0..n {
        let len = match k % 8 { 0 => 2 + rng.below(8), 7 => 40 + rng.below(40), _ => 8 + rng.below(32) };
        let d: Vec<u8> = if k % 6 == 5 {
            gen_data(&mut rng, len, &mut hist)
        } else {
            // runs of one class: the planner's decisions depend on run lengths
            let al = alphabets[rng.below(alphabets.len())];
            let mut v = Vec::with_capacity(len);
            while v.len() < len {
                let run = 1 + rng.below(9);
                let class = rng.below(4);
                for _ in 0..run {
                    if v.len() >= len { break; }
                    let ch = loop {
                        let c = al[rng.below(al.len())];
                        let ok = match class { 0 => c.is_ascii_uppercase(), 1 => c.is_ascii_lowercase(), 2 => c.is_ascii_digit(), _ => true };
                        if ok || !al.iter().any(|x| match class { 0 => x.is_ascii_uppercase(), 1 => x.is_ascii_lowercase(), 2 => x.is_ascii_digit(), _ => true }) { break c; }
                    };
                    v.push(ch);
                }
            }
            v
        };
        let modes: u8 = if rng.chance(3, 4) { 63 } else { gen_modes(&mut rng) };
        let mask = match rng.below(8) { 0 => (1u64 << 48) - 1, 1 => tight_single(&mut rng, d.len()), _ => default_mask() };
        let c = Case { data: d, modes, mask, macros: true, fnc1: false, eci: None };
        // the plain entry point only (no wrappers, no error codewords): this loop has to be fast
        let (d2, m2, l2) = (c.data.clone(), c.modes, c.mask);
        let r = guarded(move || data::encode_data(&d2, &list_from_mask(l2), None, modes_from_bits(m2), true));
        let impl_ans = match r { Ok(Ok((_, size))) => format!("s{}", size_index(size)), Ok(Err(_)) => "err".to_string(), Err(_) => continue };
        writeln!(out, "O optdiff {} {} 1 0 {} {} => ok", c.modes, mask_hex(c.mask), if c.data.is_empty() { "-".to_string() } else { hex(&c.data) }, impl_ans).unwrap();
    }
    writeln!(out, "# optdiff_cases {}", n).unwrap();
}

pub fn gen_planner(out: &mut dyn Write, seed: u64, thorough: bool) {
    use datamatrix::verif_hooks as vh;
    let mut rng = Rng::new(seed ^ 0x18A);
    let mut hist: BTreeMap<String, usize> = BTreeMap::new();
    let n = if thorough { 40000 } else { 2500 };
    let mut outcomes: BTreeMap<String, usize> = BTreeMap::new();
    let mut calls = 0usize;
    for k in 0..n {
        let len = match k % 16 {
            0 => 40 + rng.below(80),
            1 => rng.below(4),
            _ => rng.below(30),
        };
        let mut d = gen_data(&mut rng, len, &mut hist);
        if k % 97 == 5 {
            // long inputs: Base256 runs around the 250-byte length field switch, long alternations
            let n = if thorough && k % 970 == 5 { 1540 + rng.below(40) } else { 230 + rng.below(60) };
            d = match rng.below(3) {
                0 => (0..n).map(|_| 128 + rng.below(128) as u8).collect(),
                1 => (0..n).map(|i| [b'A', b'a', b'1', b'*', 0xE9, b' '][(i / (1 + k % 4)) % 6]).collect(),
                _ => gen_data(&mut rng, n, &mut hist),
            };
            *hist.entry("planner_long_inputs".into()).or_default() += 1;
        }
        if k % 5 == 0 && !d.is_empty() {
            // end-of-data situations: digit pairs and short native tails
            let t = [&b"12"[..], b"7", b"AB", b"A", b"ab1", b"\xC8", b"A12", b"1234"][rng.below(8)];
            d.extend_from_slice(t);
        }
        let modes = gen_modes(&mut rng);
        let mask = gen_mask(&mut rng, &mut hist);
        let mask = if mask == 0 { default_mask() } else { mask };
        let written = match rng.below(6) {
            0 => 1 + rng.below(4),
            1 => rng.below(60),
            2 => {
                // land the message near a capacity of the list
                let caps: Vec<usize> = list_from_mask(mask).iter().map(|s| vh::size_info(s).num_data_codewords).collect();
                let c = caps[rng.below(caps.len())];
                c.saturating_sub(d.len() / 2 + rng.below(4))
            }
            _ => 0,
        };
        let (line, kind, ncalls) = planner_line(modes, mask, written, &d);
        *outcomes.entry(kind.into()).or_default() += 1;
        calls += ncalls;
        writeln!(out, "{}", line).unwrap();
    }
    for (k, v) in &outcomes {
        writeln!(out, "# planner_outcome_{} {}", k, v).unwrap();
    }
    writeln!(out, "# planner_prune_calls {}", calls).unwrap();
    for (k, v) in &hist {
        writeln!(out, "# {} {}", k, v).unwrap();
    }
}

/// one planner-model correspondence line (also used to replay a single case: `dmh opt ..`)
pub fn planner_line(modes: u8, mask: u64, written: usize, d: &[u8]) -> (String, &'static str, usize) {
    use datamatrix::verif_hooks as vh;
    let list = list_from_mask(mask);
    let d2 = d.to_vec();
    vh::prune_log_enable(true);
    let _ = vh::prune_perm_take();
    let r = guarded(move || vh::optimize(&d2, written, datamatrix::EncodationType::Ascii, &list, modes_from_bits(modes)));
    let perms = vh::prune_perm_take();
    let _ = vh::prune_log_take();
    vh::prune_log_enable(false);
    let tr = vh::planner_trace();
    let ps = if perms.is_empty() {
        "_".to_string()
    } else {
        perms
            .iter()
            .map(|p| if p.is_empty() { "-".to_string() } else { p.iter().map(|i| i.to_string()).collect::<Vec<_>>().join(",") })
            .collect::<Vec<_>>()
            .join("|")
    };
    let (ans, kind) = match r {
        Ok(Some(p)) => (format!("{}:{}:{}:{}", plan_str(&Some(p)), tr.chosen_cost_ceil_12.unwrap_or(0), tr.steps, tr.max_live), "plan"),
        Ok(None) => (format!("none:{}:{}", tr.steps, tr.max_live), "none"),
        Err(_) => ("panic".to_string(), "panic"),
    };
    (format!("M optimize {} {} {} {} {} => {}", modes, mask_hex(mask), written, hex(d), ps, ans), kind, perms.len())
}
