//! Small helpers: PRNG, hex, JSON string escaping, name tables.
use datamatrix::{EncodationType, SymbolList, SymbolSize};
use flagset::FlagSet;

#[derive(Clone)]
pub struct Rng(pub u64);

impl Rng {
    pub fn new(seed: u64) -> Self {
        Rng(seed.wrapping_mul(0x9E3779B97F4A7C15) ^ 0xD1B54A32D192ED03)
    }
    pub fn next(&mut self) -> u64 {
        // xorshift64*
        let mut x = self.0;
        if x == 0 {
            x = 0x2545F4914F6CDD1D;
        }
        x ^= x >> 12;
        x ^= x << 25;
        x ^= x >> 27;
        self.0 = x;
        x.wrapping_mul(0x2545F4914F6CDD1D)
    }
    pub fn below(&mut self, n: usize) -> usize {
        if n == 0 {
            0
        } else {
            (self.next() >> 11) as usize % n
        }
    }
    pub fn chance(&mut self, num: usize, den: usize) -> bool {
        self.below(den) < num
    }
    pub fn pick<'a, T>(&mut self, xs: &'a [T]) -> &'a T {
        &xs[self.below(xs.len())]
    }
    pub fn byte(&mut self) -> u8 {
        (self.next() >> 24) as u8
    }
}

pub fn hex(b: &[u8]) -> String {
    if b.is_empty() {
        return "-".to_string();
    }
    let mut s = String::with_capacity(b.len() * 2);
    for x in b {
        s.push_str(&format!("{:02x}", x));
    }
    s
}

pub fn unhex(s: &str) -> Vec<u8> {
    if s == "-" {
        return vec![];
    }
    let b = s.as_bytes();
    let v = |c: u8| -> u8 {
        match c {
            b'0'..=b'9' => c - b'0',
            b'a'..=b'f' => c - b'a' + 10,
            b'A'..=b'F' => c - b'A' + 10,
            _ => 0,
        }
    };
    b.chunks(2).map(|p| v(p[0]) * 16 + v(p[1])).collect()
}

pub fn all_sizes() -> Vec<SymbolSize> {
    datamatrix::verif_hooks::symbol_sizes().to_vec()
}

pub fn size_index(s: SymbolSize) -> usize {
    all_sizes().iter().position(|x| *x == s).unwrap()
}

/// Symbol list from a 48-bit mask over SYMBOL_SIZES order.
pub fn list_from_mask(mask: u64) -> SymbolList {
    let sizes = all_sizes();
    SymbolList::with_whitelist(
        sizes
            .iter()
            .enumerate()
            .filter(|(i, _)| mask >> i & 1 == 1)
            .map(|(_, s)| *s),
    )
}

pub fn mask_of_list(l: &SymbolList) -> u64 {
    let mut m = 0u64;
    for s in l.iter() {
        m |= 1 << size_index(s);
    }
    m
}

pub const MODES: [EncodationType; 6] = [
    EncodationType::Ascii,
    EncodationType::C40,
    EncodationType::Text,
    EncodationType::X12,
    EncodationType::Edifact,
    EncodationType::Base256,
];

/// Mode set from the crate's own bit values (Ascii=1, C40=2, Text=4, X12=8, Edifact=16, Base256=32).
pub fn modes_from_bits(bits: u8) -> FlagSet<EncodationType> {
    FlagSet::<EncodationType>::new_truncated(bits)
}

pub fn mode_char(m: EncodationType) -> char {
    match m {
        EncodationType::Ascii => 'A',
        EncodationType::C40 => 'C',
        EncodationType::Text => 'T',
        EncodationType::X12 => 'X',
        EncodationType::Edifact => 'E',
        EncodationType::Base256 => 'B',
    }
}

pub fn mode_from_char(c: char) -> Option<EncodationType> {
    Some(match c {
        'A' => EncodationType::Ascii,
        'C' => EncodationType::C40,
        'T' => EncodationType::Text,
        'X' => EncodationType::X12,
        'E' => EncodationType::Edifact,
        'B' => EncodationType::Base256,
        _ => return None,
    })
}

pub fn json_str(s: &str) -> String {
    let mut o = String::from("\"");
    for c in s.chars() {
        match c {
            '"' => o.push_str("\\\""),
            '\\' => o.push_str("\\\\"),
            c if (c as u32) < 0x20 => o.push_str(&format!("\\u{:04x}", c as u32)),
            c => o.push(c),
        }
    }
    o.push('"');
    o
}

pub fn json_list<T: std::fmt::Display>(xs: impl IntoIterator<Item = T>) -> String {
    let v: Vec<String> = xs.into_iter().map(|x| x.to_string()).collect();
    format!("[{}]", v.join(","))
}

/// Run a closure, catching panics; the panic message is returned as Err.
pub fn guarded<T>(f: impl FnOnce() -> T + std::panic::UnwindSafe) -> Result<T, String> {
    match std::panic::catch_unwind(f) {
        Ok(v) => Ok(v),
        Err(e) => {
            let msg = if let Some(s) = e.downcast_ref::<&str>() {
                s.to_string()
            } else if let Some(s) = e.downcast_ref::<String>() {
                s.clone()
            } else {
                "?".to_string()
            };
            Err(msg)
        }
    }
}

pub fn silence_panics() {
    std::panic::set_hook(Box::new(|_| {}));
}

/// bits packed as "<n>:<hex>", four bits per hex digit, first bit = most significant of the first digit
pub fn pack_bits(bits: &[bool]) -> String {
    let mut s = format!("{}:", bits.len());
    for ch in bits.chunks(4) {
        let mut v = 0u8;
        for k in 0..4 {
            v <<= 1;
            if k < ch.len() && ch[k] {
                v |= 1;
            }
        }
        s.push(char::from_digit(v as u32, 16).unwrap());
    }
    s
}

pub fn unpack_bits(s: &str) -> Vec<bool> {
    let (n, h) = s.split_once(':').unwrap();
    let n: usize = n.parse().unwrap();
    let mut out = Vec::with_capacity(n);
    for c in h.chars() {
        let v = c.to_digit(16).unwrap();
        for k in (0..4).rev() {
            if out.len() < n {
                out.push(v >> k & 1 == 1);
            }
        }
    }
    out
}
