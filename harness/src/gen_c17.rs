//! Cases for C17: vector path, pixel iterator and unicode rendering of bitmaps.
use crate::util::*;
use datamatrix::placement::{Bitmap, PathSegment};
use datamatrix::{DataMatrix, SymbolList};
use std::io::Write;

fn seg_str(p: &[PathSegment]) -> String {
    if p.is_empty() {
        return "-".into();
    }
    p.iter()
        .map(|s| match s {
            PathSegment::Move(dx, dy) => format!("m{}:{}", dx, dy),
            PathSegment::Horizontal(d) => format!("h{}", d),
            PathSegment::Vertical(d) => format!("v{}", d),
            PathSegment::Close => "z".into(),
        })
        .collect::<Vec<_>>()
        .join(".")
}

fn emit(out: &mut dyn Write, bits: &[bool], w: usize, all: bool) {
    let b = bits.to_vec();
    let r = guarded(move || {
        let bm = Bitmap::new(b, w);
        let path = bm.path();
        let px: Vec<(usize, usize)> = bm.pixels().collect();
        let uni = bm.unicode();
        (seg_str(&path), px, uni)
    });
    let packed = pack_bits(bits);
    match r {
        Ok((path, px, uni)) => {
            writeln!(out, "O path {} {} {} => ok", w, packed, path).unwrap();
            // the Lean model of path() (edge graph, Hierholzer walks with the splice bookkeeping, compress_path)
            // must return the very same segments
            writeln!(out, "M pathm {} {} => {}", w, packed, path).unwrap();
            if all {
                let pxs = if px.is_empty() { "-".to_string() } else { px.iter().map(|(x, y)| format!("{}:{}", x, y)).collect::<Vec<_>>().join(",") };
                writeln!(out, "P pixels {} {} => {}", w, packed, pxs).unwrap();
                writeln!(out, "P unicode {} {} => {}", w, packed, hex(uni.as_bytes())).unwrap();
            }
        }
        Err(_) => {
            writeln!(out, "O oracle fail:panic:path:{}:{} => ok", w, packed).unwrap();
            writeln!(out, "M pathm {} {} => panic", w, packed).unwrap();
        }
    }
}

pub fn gen(out: &mut dyn Write, seed: u64, thorough: bool) {
    let mut rng = Rng::new(seed ^ 0xC17);
    // 1. exhaustive: every w x h bitmap with a dark top-left module up to `cells` cells
    let cells = if thorough { 20 } else { 13 };
    let mut n_ex = 0usize;
    for w in 1..=cells {
        for h in 1..=cells / w {
            let n = w * h;
            for m in 0..(1u32 << (n - 1)) {
                let mut bits = vec![true];
                for k in 0..n - 1 {
                    bits.push(m >> k & 1 == 1);
                }
                emit(out, &bits, w, n <= 9);
                n_ex += 1;
            }
        }
    }
    // 2. random bitmaps of various densities (holes, diagonal contacts, nested islands)
    for _ in 0..(if thorough { 20000 } else { 1500 }) {
        let bw = rng.chance(1, 6);
        let w = 1 + rng.below(if bw { 144 } else { 30 });
        let bh = rng.chance(1, 6);
        let h = 1 + rng.below(if bh { 144 } else { 30 });
        let dens = 1 + rng.below(9);
        let mut bits: Vec<bool> = (0..w * h).map(|_| rng.below(10) < dens).collect();
        bits[0] = true;
        emit(out, &bits, w, rng.chance(1, 10));
    }
    // nested rings
    for k in 1..=(if thorough { 20 } else { 8 }) {
        let n = 2 * k + 1;
        let mut bits = vec![false; n * n];
        for i in 0..n {
            for j in 0..n {
                let ring = i.min(j).min(n - 1 - i).min(n - 1 - j);
                bits[i * n + j] = ring % 2 == 0;
            }
        }
        emit(out, &bits, n, true);
    }
    // 3. every symbol size, encoded data
    let sizes = all_sizes();
    for (si, s) in sizes.iter().enumerate() {
        for _ in 0..(if thorough { 5 } else { 1 }) {
            let len = rng.below(8);
            let data: Vec<u8> = (0..len).map(|_| b'0' + rng.below(10) as u8).collect();
            if let Ok(dm) = DataMatrix::encode(&data, *s) {
                let bm = dm.bitmap();
                emit(out, bm.bits(), bm.width(), si < 12);
            }
        }
    }
    // 4. bitmaps larger than the largest symbol (the documented precondition is only that width + 1 and
    // height + 1 fit an i16): big squares, long strips, a symbol scaled by two
    {
        let mut big: Vec<(Vec<bool>, usize)> = vec![];
        big.push((vec![true; 181 * 181], 181));
        let mut b: Vec<bool> = (0..200 * 200).map(|_| rng.below(10) < 4).collect();
        b[0] = true;
        big.push((b, 200));
        let mut b: Vec<bool> = (0..8 * 4200).map(|_| rng.below(10) < 5).collect();
        b[0] = true;
        big.push((b.clone(), 4200));
        big.push((b, 8));
        if !thorough {
            // (the scaled symbol only in the thorough tier: 82 944 cells)
        } else if let Ok(dm) = DataMatrix::encode(b"0123456789", sizes[23]) {
            let bm = dm.bitmap();
            let (w, h) = (bm.width(), bm.height());
            let mut sc = vec![false; 4 * w * h];
            for i in 0..2 * h {
                for j in 0..2 * w {
                    sc[i * 2 * w + j] = bm.bits()[(i / 2) * w + j / 2];
                }
            }
            big.push((sc, 2 * w));
        }
        if thorough {
            for _ in 0..20 {
                let w = 150 + rng.below(200);
                let h = 150 + rng.below(200);
                let dens = 1 + rng.below(9);
                let mut b: Vec<bool> = (0..w * h).map(|_| rng.below(10) < dens).collect();
                b[0] = true;
                big.push((b, w));
            }
        }
        let n_big = big.len();
        for (b, w) in big {
            emit(out, &b, w, false);
        }
        writeln!(out, "# bitmaps_beyond_144x144 {}", n_big).unwrap();
    }
    let _ = SymbolList::default();
    writeln!(out, "# exhaustive_bitmaps {}", n_ex).unwrap();
    writeln!(out, "# exhaustive_up_to_cells {}", cells).unwrap();
}
