//! Shared machinery for all encoder-side properties: structured input / configuration
//! generators, running one case against the real crate, formatting the answer.
use crate::util::*;
use datamatrix::data::DataEncodingError;
use datamatrix::{verif_hooks as vh, DataMatrix, DataMatrixBuilder, EncodationType};
use std::collections::BTreeMap;

#[derive(Clone, Debug)]
pub struct Case {
    pub data: Vec<u8>,
    pub modes: u8,
    pub mask: u64,
    pub macros: bool,
    pub fnc1: bool,
    pub eci: Option<u32>,
}

pub struct Outcome {
    pub resp: String,
    pub plan: String,
    pub dm: Option<DataMatrix>,
    pub panicked: bool,
    /// a public entry point that answered differently from the builder path (name:answer:expected)
    pub api: Option<String>,
    pub api_checked: usize,
}

fn sig_dm(r: &Result<Result<DataMatrix, DataEncodingError>, String>) -> String {
    match r {
        Ok(Ok(dm)) => format!("ok:{}:{}:{}", size_index(dm.size), dm.data_codewords().len(), hex(dm.codewords())),
        Ok(Err(DataEncodingError::TooMuchOrIllegalData)) => "err:TooMuchOrIllegalData".into(),
        Ok(Err(DataEncodingError::SymbolListEmpty)) => "err:SymbolListEmpty".into(),
        Err(_) => "panic".into(),
    }
}

/// The documented entry points (`DataMatrix::encode`, `encode_gs1`, `DataMatrixBuilder::encode`,
/// `data::encode_data`, `data::encodation_plan`, `Default for DataMatrixBuilder`) must answer like the
/// builder path used for the sweep, with the options they stand for.
fn api_wrappers(c: &Case, reference: &Result<Result<DataMatrix, DataEncodingError>, String>, plan: &str) -> (Option<String>, usize) {
    let want = sig_dm(reference);
    let mut n = 0usize;
    let mut bad: Option<String> = None;
    let mut cmp = |name: &str, got: String, want: &str| {
        n += 1;
        if got != want && bad.is_none() {
            bad = Some(format!("{}:{}:{}", name, got, want));
        }
    };
    let list = || list_from_mask(c.mask);
    if c.eci.is_none() {
        let c2 = c.clone();
        let l = list();
        let r = guarded(move || {
            DataMatrixBuilder::default()
                .with_symbol_list(l)
                .with_macros(c2.macros)
                .with_encodation_types(modes_from_bits(c2.modes))
                .with_fnc1_start(c2.fnc1)
                .encode(&c2.data)
        });
        cmp("builder_encode", sig_dm(&r), &want);
        if c.modes == 63 && c.macros {
            let c2 = c.clone();
            let l = list();
            if c.fnc1 {
                let r = guarded(move || DataMatrix::encode_gs1(&c2.data, l));
                cmp("encode_gs1", sig_dm(&r), &want);
            } else {
                let r = guarded(move || DataMatrix::encode(&c2.data, l));
                cmp("encode", sig_dm(&r), &want);
            }
        }
    }
    if c.eci.is_none() {
        // the builder with only the non-default options set: its defaults are all modes, the default
        // symbol list (the 30 sizes of ISO/IEC 16022), macros on, no FNC1 start
        let c2 = c.clone();
        let l = list();
        let r = guarded(move || {
            let mut b = DataMatrixBuilder::new();
            if c2.mask != default_mask() { b = b.with_symbol_list(l); }
            if c2.modes != 63 { b = b.with_encodation_types(modes_from_bits(c2.modes)); }
            if !c2.macros { b = b.with_macros(false); }
            if c2.fnc1 { b = b.with_fnc1_start(true); }
            b.encode(&c2.data)
        });
        cmp("builder_defaults", sig_dm(&r), &want);
    }
    if c.eci.is_none() {
        // the builder's setters in a case-dependent order, each option first set to another value and then
        // to the wanted one: a setter changes its own option and nothing else, and the last call wins
        let c2 = c.clone();
        let l = list();
        let h = c.data.iter().fold((c.modes as usize) * 31 + (c.mask % 1009) as usize, |a, b| a.wrapping_mul(131).wrapping_add(*b as usize));
        let r = guarded(move || {
            let mut order = [0usize, 1, 2, 3];
            let mut k = h % 24;
            for i in 0..3 {
                let j = i + k % (4 - i);
                k /= 4 - i;
                order.swap(i, j);
            }
            let mut b = if h / 24 % 2 == 0 { DataMatrixBuilder::new() } else { DataMatrixBuilder::default() };
            let decoy = h / 48 % 3 != 0;
            for o in order {
                b = match o {
                    0 => {
                        if decoy { b = b.with_symbol_list(datamatrix::SymbolSize::Square144); }
                        b.with_symbol_list(l.clone())
                    }
                    1 => {
                        if decoy { b = b.with_encodation_types(modes_from_bits((c2.modes ^ 63) | 1)); }
                        b.with_encodation_types(modes_from_bits(c2.modes))
                    }
                    2 => {
                        if decoy { b = b.with_macros(!c2.macros); }
                        b.with_macros(c2.macros)
                    }
                    _ => {
                        if decoy { b = b.with_fnc1_start(!c2.fnc1); }
                        b.with_fnc1_start(c2.fnc1)
                    }
                };
            }
            b.encode(&c2.data)
        });
        cmp("builder_setter_order", sig_dm(&r), &want);
    }
    if c.eci.is_none() && c.data.len() <= 40 {
        // the string API with the same options: the message read as a string (bytes below 0x80 as they
        // are, 0x80..0xBF as Latin-1 supplement characters, 0xC0.. as CJK ideographs) must be encoded as
        // its Latin-1 bytes without ECI, or as its UTF-8 bytes behind the UTF-8 ECI, with exactly the
        // caller's symbol list, mode set and flags
        let st: String = c.data.iter().map(|&b| match b {
            0..=0x7F => b as char,
            0x80..=0xBF => char::from_u32(0xA0 + (b as u32 - 0x80) % 0x60).unwrap(),
            _ => char::from_u32(0x4E00 + b as u32).unwrap(),
        }).collect();
        let mk = {
            let (modes, mask, macros, fnc1) = (c.modes, c.mask, c.macros, c.fnc1);
            move || DataMatrixBuilder::new()
                .with_encodation_types(modes_from_bits(modes))
                .with_symbol_list(list_from_mask(mask))
                .with_macros(macros)
                .with_fnc1_start(fnc1)
        };
        let st2 = st.clone();
        let mk2 = mk.clone();
        let got = guarded(move || mk2().encode_str(&st2));
        let st3 = st.clone();
        let exp = guarded(move || match datamatrix::data::utf8_to_latin1(&st3) {
            Some(l1) => mk().encode_eci(&l1, None),
            None => mk().encode_eci(st3.as_bytes(), Some(26)),
        });
        cmp("builder_encode_str", sig_dm(&got), &sig_dm(&exp));
        // the reference itself must be what the property says: Latin-1 exactly for printable ISO-8859-1
        let printable = st.chars().all(|ch| (0x20..=0x7E).contains(&(ch as u32)) || (0xA0..=0xFF).contains(&(ch as u32)));
        let is_l1 = datamatrix::data::utf8_to_latin1(&st).is_some();
        cmp("utf8_to_latin1_domain", format!("{}", is_l1), &format!("{}", printable));
        if c.modes == 63 && c.macros && !c.fnc1 {
            let st4 = st.clone();
            let l = list();
            let got = guarded(move || DataMatrix::encode_str(&st4, l));
            cmp("encode_str", sig_dm(&got), &sig_dm(&exp));
        }
    }
    if !c.fnc1 {
        let c2 = c.clone();
        let l = list();
        let r = guarded(move || datamatrix::data::encode_data(&c2.data, &l, c2.eci, modes_from_bits(c2.modes), c2.macros));
        let got = match &r {
            Ok(Ok((cw, size))) => format!("ok:{}:{}", size_index(*size), hex(cw)),
            Ok(Err(DataEncodingError::TooMuchOrIllegalData)) => "err:TooMuchOrIllegalData".into(),
            Ok(Err(DataEncodingError::SymbolListEmpty)) => "err:SymbolListEmpty".into(),
            Err(_) => "panic".into(),
        };
        let want2 = match reference {
            Ok(Ok(dm)) => format!("ok:{}:{}", size_index(dm.size), hex(dm.data_codewords())),
            _ => want.clone(),
        };
        cmp("data_encode_data", got, &want2);
    }
    // the planning API on a message without prefix codewords: the plan the encoder followed
    if let Ok(Ok(_)) = reference {
        let no_prefix = c.eci.is_none() && !c.fnc1 && {
            let (d, m) = (c.data.clone(), c.macros);
            guarded(move || vh::macro_prefix(&d, m, false)).map(|(cw, _)| cw.is_empty()).unwrap_or(false)
        };
        if no_prefix {
            let c2 = c.clone();
            let l = list();
            let r = guarded(move || datamatrix::data::encodation_plan(&c2.data, &l, modes_from_bits(c2.modes)));
            let got = match r {
                Ok(Some(p)) => plan_str(&Some(p)),
                Ok(None) => "none".into(),
                Err(_) => "panic".into(),
            };
            cmp("encodation_plan", got, plan);
        }
    }
    (bad, n)
}

pub fn mask_hex(mask: u64) -> String {
    format!("{:012x}", mask)
}

pub fn plan_str(p: &Option<Vec<(usize, EncodationType)>>) -> String {
    match p {
        Some(p) if !p.is_empty() => p
            .iter()
            .map(|(n, m)| format!("{}{}", n, mode_char(*m)))
            .collect::<Vec<_>>()
            .join(","),
        _ => "-".into(),
    }
}

pub fn run_case(c: &Case) -> Outcome {
    let c2 = c.clone();
    vh::set_planner_step_cap(2_000_000);
    let _ = vh::last_plan();
    let _ = vh::planner_totals();
    let r = guarded(move || {
        DataMatrixBuilder::new()
            .with_encodation_types(modes_from_bits(c2.modes))
            .with_symbol_list(list_from_mask(c2.mask))
            .with_macros(c2.macros)
            .with_fnc1_start(c2.fnc1)
            .encode_eci(&c2.data, c2.eci)
    });
    let plan = vh::last_plan();
    let mut tr = vh::planner_trace();
    // all planning done for this one message: an encoder that calls optimize() more than once must
    // still stay within the linear bound (the per-call trace is reset by every optimize())
    let (_opt_calls, total_steps) = vh::planner_totals();
    tr.steps = tr.steps.max(total_steps);
    // every documented entry point, on all short cases and a sample of the long ones
    let (api, api_checked) = if c.data.len() <= 48 || c.data.len() % 8 == 3 {
        let a = api_wrappers(c, &r, &plan_str(&plan));
        let _ = vh::last_plan();
        a
    } else {
        (None, 0)
    };
    match r {
        Ok(Ok(dm)) => {
            let resp = format!(
                "ok:{}:{}:{}:{}:{}:{}:{}",
                size_index(dm.size),
                dm.data_codewords().len(),
                hex(dm.codewords()),
                plan_str(&plan),
                tr.steps,
                tr.max_live,
                tr.chosen_cost_ceil_12.unwrap_or(0)
            );
            Outcome { resp, plan: plan_str(&plan), dm: Some(dm), panicked: false, api, api_checked }
        }
        Ok(Err(DataEncodingError::TooMuchOrIllegalData)) => {
            Outcome { resp: "err:TooMuchOrIllegalData".into(), plan: plan.as_ref().map(|_| plan_str(&plan)).unwrap_or("noplan".into()), dm: None, panicked: false, api, api_checked }
        }
        Ok(Err(DataEncodingError::SymbolListEmpty)) => {
            Outcome { resp: "err:SymbolListEmpty".into(), plan: "noplan".into(), dm: None, panicked: false, api, api_checked }
        }
        Err(msg) => {
            let m: String = msg.chars().filter(|c| c.is_ascii_alphanumeric()).take(40).collect();
            Outcome { resp: format!("panic-{}", m), plan: plan.as_ref().map(|_| plan_str(&plan)).unwrap_or("noplan".into()), dm: None, panicked: true, api, api_checked }
        }
    }
}

/// the encoder-model correspondence line for a case: prefix codewords (FNC1 / macro / ECI), body,
/// the plan the implementation used, and the implementation's answer
pub fn encrun_line(c: &Case, oc: &Outcome) -> Option<String> {
    let (d, m, f) = (c.data.clone(), c.macros, c.fnc1);
    let (mut pre, body) = guarded(move || vh::macro_prefix(&d, m, f)).ok()?;
    if let Some(e) = c.eci {
        // the designator as the crate writes it
        let dm = guarded(move || DataMatrixBuilder::new().with_symbol_list(datamatrix::SymbolList::all()).encode_eci(b"", Some(e))).ok()?.ok()?;
        let used = if e <= 126 { 2 } else if e <= 16382 { 3 } else { 4 };
        pre.extend_from_slice(&dm.data_codewords()[..used]);
    }
    let ans = match &oc.dm {
        Some(dm) => format!("ok:{}:{}", size_index(dm.size), hex(dm.data_codewords())),
        None => if oc.panicked { "panic".to_string() } else { oc.resp.clone() },
    };
    Some(format!("M encrun {} {} {} {} => {}", mask_hex(c.mask), hex(&pre), hex(&body), oc.plan, ans))
}

pub fn case_line(flags: &str, c: &Case, resp: &str) -> String {
    format!(
        "O enc {} {} {} {} {} {} {} {} => ok",
        flags,
        c.modes,
        mask_hex(c.mask),
        c.macros as u8,
        c.fnc1 as u8,
        c.eci.map(|e| e.to_string()).unwrap_or("-".into()),
        hex(&c.data),
        resp
    )
}

// ---------------------------------------------------------------- inputs

pub const CLASSES: [&str; 10] =
    ["digit", "upper", "lower", "space", "x12sp", "punct", "high", "ctrl", "alnum", "any"];

fn class_byte(rng: &mut Rng, class: usize) -> u8 {
    match class {
        0 => b'0' + rng.below(10) as u8,
        1 => b'A' + rng.below(26) as u8,
        2 => b'a' + rng.below(26) as u8,
        3 => b' ',
        4 => *rng.pick(&[13u8, 42, 62]),
        5 => *rng.pick(&[33u8, 34, 40, 44, 46, 47, 58, 59, 63, 64, 91, 93, 94, 95, 96, 123, 126, 127]),
        6 => 128 + rng.below(128) as u8,
        7 => rng.below(32) as u8,
        8 => *rng.pick(b"0123456789ABCDEFGHIJKLMNOPQRSTUVWXYZ"),
        _ => rng.byte(),
    }
}

pub fn gen_len(rng: &mut Rng) -> usize {
    match rng.below(100) {
        0..=34 => rng.below(13),
        35..=69 => 12 + rng.below(50),
        70..=86 => 60 + rng.below(240),
        87..=96 => 300 + rng.below(1300),
        _ => 1500 + rng.below(1700),
    }
}

/// runs of byte classes; `hist` receives the class of each run
pub fn gen_data(rng: &mut Rng, len: usize, hist: &mut BTreeMap<String, usize>) -> Vec<u8> {
    let mut d = Vec::with_capacity(len);
    while d.len() < len {
        let class = match rng.below(20) {
            0..=4 => 0,
            5..=7 => 1,
            8..=9 => 2,
            10 => 3,
            11 => 4,
            12..=13 => 5,
            14..=15 => 6,
            16 => 7,
            17..=18 => 8,
            _ => 9,
        };
        *hist.entry(format!("run_{}", CLASSES[class])).or_insert(0) += 1;
        let maxrun = if rng.chance(1, 5) { 40 } else { 6 };
        let run = 1 + rng.below(maxrun);
        for _ in 0..run {
            if d.len() < len {
                d.push(class_byte(rng, class));
            }
        }
    }
    d
}

pub const HEAD05: &[u8] = b"[)>\x1E05\x1D";
pub const HEAD06: &[u8] = b"[)>\x1E06\x1D";
pub const TRAIL: &[u8] = b"\x1E\x04";

/// wrap a body into one of the macro envelope shapes (proper, and all the near misses)
pub fn macro_shape(rng: &mut Rng, body: &[u8], hist: &mut BTreeMap<String, usize>) -> Vec<u8> {
    let head = if rng.chance(1, 2) { HEAD05 } else { HEAD06 };
    // one time in three the body itself looks like (part of) an envelope: a second header of either kind in
    // front, a trailer at its end, just a header, just a trailer
    let nested: Vec<u8>;
    let body = if rng.chance(1, 3) {
        let inner = if rng.chance(1, 2) { HEAD05 } else { HEAD06 };
        let k = rng.below(6);
        *hist.entry(format!("macro_body_{}", ["head_body", "body_trail", "head_body_trail", "only_head", "only_trail", "head_trail"][k])).or_insert(0) += 1;
        let mut b = vec![];
        if k == 0 || k == 2 || k == 3 || k == 5 { b.extend_from_slice(inner); }
        if k <= 2 { b.extend_from_slice(body); }
        if k == 1 || k == 2 || k == 4 || k == 5 { b.extend_from_slice(TRAIL); }
        nested = b;
        &nested[..]
    } else {
        body
    };
    let kind = rng.below(9);
    let name = ["proper", "proper", "proper", "head_only", "trail_only", "head_trunc", "trail_partial", "bare_head", "head_trail_only"][kind];
    *hist.entry(format!("macro_{}", name)).or_insert(0) += 1;
    let mut v = vec![];
    match kind {
        0..=2 => {
            v.extend_from_slice(head);
            v.extend_from_slice(body);
            v.extend_from_slice(TRAIL);
        }
        3 => {
            v.extend_from_slice(head);
            v.extend_from_slice(body);
        }
        4 => {
            v.extend_from_slice(body);
            v.extend_from_slice(TRAIL);
        }
        5 => {
            let cut = 1 + rng.below(6);
            v.extend_from_slice(&head[..head.len() - cut]);
            v.extend_from_slice(body);
            v.extend_from_slice(TRAIL);
        }
        6 => {
            v.extend_from_slice(head);
            v.extend_from_slice(body);
            v.push(if rng.chance(1, 2) { 0x1E } else { 0x04 });
        }
        7 => {
            v.extend_from_slice(head);
        }
        _ => {
            v.extend_from_slice(head);
            v.extend_from_slice(TRAIL);
        }
    }
    v
}

pub fn gen_modes(rng: &mut Rng) -> u8 {
    let single = [1u8, 2, 4, 8, 16, 32];
    match rng.below(100) {
        0..=29 => 63,
        30..=44 => 1 + rng.below(63) as u8,
        45..=59 => *rng.pick(&single),
        60..=69 => *rng.pick(&single) | *rng.pick(&single),
        70..=79 => 62,
        80..=94 => 1 | *rng.pick(&single),
        _ => 62 & (1 + rng.below(63) as u8),
    }
}

pub fn default_mask() -> u64 {
    mask_of_list(&datamatrix::SymbolList::default())
}

pub fn gen_mask(rng: &mut Rng, hist: &mut BTreeMap<String, usize>) -> u64 {
    let all: u64 = (1u64 << 48) - 1;
    let (name, m) = match rng.below(100) {
        0..=34 => ("default", default_mask()),
        35..=49 => ("all", all),
        50..=69 => ("single", 1u64 << rng.below(48)),
        70..=84 => ("random", rng.next() & all),
        85..=94 => ("pair", (1u64 << rng.below(48)) | (1u64 << rng.below(48))),
        _ => ("sparse", rng.next() & rng.next() & rng.next() & all),
    };
    *hist.entry(format!("list_{}", name)).or_insert(0) += 1;
    m
}

/// a single-size list into which the data is likely to just fit (drives end-of-data branches)
pub fn tight_single(rng: &mut Rng, data_len: usize) -> u64 {
    let sizes = all_sizes();
    let mut cands: Vec<usize> = vec![];
    for (i, s) in sizes.iter().enumerate() {
        let n = vh::size_info(*s).num_data_codewords;
        if n * 2 + 2 >= data_len && n <= data_len + 4 {
            cands.push(i);
        }
    }
    if cands.is_empty() {
        1u64 << rng.below(48)
    } else {
        1u64 << *rng.pick(&cands)
    }
}

pub const ALPHABET: [u8; 8] = [b'1', b'A', b'a', b' ', b'*', b'!', 200, 10];

/// all strings over ALPHABET of length <= max_len
pub fn short_strings(max_len: usize) -> Vec<Vec<u8>> {
    let mut out = vec![vec![]];
    let mut cur: Vec<Vec<u8>> = vec![vec![]];
    for _ in 0..max_len {
        let mut next = vec![];
        for s in &cur {
            for a in ALPHABET {
                let mut t = s.clone();
                t.push(a);
                next.push(t);
            }
        }
        out.extend(next.iter().cloned());
        cur = next;
    }
    out
}

/// bytes at the boundaries of the character classes of the six modes
pub const BOUNDARY: [u8; 22] = [0x7F, 0x80, 0xFF, 0x1F, 0x20, b'/', b'0', b'9', b':', b'@', b'A', b'Z', b'[', b'`', b'a', b'z', b'{', 94, 95, 13, 42, 62];

/// all strings over BOUNDARY of length <= max_len
pub fn boundary_strings(max_len: usize) -> Vec<Vec<u8>> {
    let mut out = vec![];
    let mut cur: Vec<Vec<u8>> = vec![vec![]];
    for _ in 0..max_len {
        let mut next = vec![];
        for s in &cur {
            for a in BOUNDARY {
                let mut t = s.clone();
                t.push(a);
                next.push(t);
            }
        }
        out.extend(next.iter().cloned());
        cur = next;
    }
    out
}

pub fn progress(case: &str) {
    if let Ok(p) = std::env::var("VERIF_PROGRESS") {
        let _ = std::fs::write(p, case);
    }
}
