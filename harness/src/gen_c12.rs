//! Correspondence cases for C12 (symbol catalogue, lists, filters).
use crate::util::*;
use datamatrix::{verif_hooks as vh, DataMatrix, DataMatrixBuilder, EncodationType, SymbolList, SymbolSize};
use std::io::Write;
use std::ops::Bound;

fn fmt_list(l: &SymbolList) -> String {
    let v: Vec<String> = l.iter().map(|s| size_index(s).to_string()).collect();
    if v.is_empty() {
        "-".into()
    } else {
        v.join(",")
    }
}

fn fmt_idx(v: &[usize]) -> String {
    if v.is_empty() {
        "-".into()
    } else {
        v.iter().map(|x| x.to_string()).collect::<Vec<_>>().join(",")
    }
}

fn bound_str(b: &Bound<usize>) -> String {
    match b {
        Bound::Unbounded => "u".into(),
        Bound::Included(n) => format!("i{}", n),
        Bound::Excluded(n) => format!("e{}", n),
    }
}

fn all_bounds(max: usize) -> Vec<Bound<usize>> {
    let mut v = vec![Bound::Unbounded];
    for n in 0..=max {
        v.push(Bound::Included(n));
        v.push(Bound::Excluded(n));
    }
    v
}

pub fn gen(out: &mut dyn Write, seed: u64, thorough: bool) {
    let sizes = all_sizes();
    let mut rng = Rng::new(seed);
    let wl = |idx: &[usize]| SymbolList::with_whitelist(idx.iter().map(|i| sizes[*i]));
    // white-lists: singletons, ordered pairs, random shuffled lists with repetitions
    let mut lists: Vec<Vec<usize>> = vec![vec![]];
    for i in 0..sizes.len() {
        lists.push(vec![i]);
    }
    for i in 0..sizes.len() {
        for j in 0..sizes.len() {
            if i != j {
                lists.push(vec![i, j]);
            }
        }
    }
    let n_rand = if thorough { 20000 } else { 2000 };
    for _ in 0..n_rand {
        let big = rng.chance(1, 4);
        let n = 1 + rng.below(if big { 48 } else { 8 });
        let mut v = vec![];
        for _ in 0..n {
            v.push(rng.below(sizes.len()));
        }
        lists.push(v);
    }
    for l in &lists {
        let sl = wl(l);
        writeln!(out, "P list {} => {}", fmt_idx(l), fmt_list(&sl)).unwrap();
    }
    // extend(): same as whitelist of the concatenation
    for _ in 0..200 {
        let a: Vec<usize> = (0..rng.below(5)).map(|_| rng.below(48)).collect();
        let b: Vec<usize> = (0..rng.below(5)).map(|_| rng.below(48)).collect();
        let mut sl = wl(&a);
        sl.extend(b.iter().map(|i| sizes[*i]));
        let mut ab = a.clone();
        ab.extend(b.iter());
        writeln!(out, "P list {} => {}", fmt_idx(&ab), fmt_list(&sl)).unwrap();
        // ... and the list extended in place behaves like that white-list everywhere it is used: the symbol picked
        // for n lowercase letters (ASCII only) and for 2n digits (the early capacity exit), the capacity accessors
        if !ab.is_empty() {
            let caps: Vec<usize> = ab.iter().map(|i| vh::size_info(sizes[*i]).num_data_codewords).collect();
            let maxcw = *caps.iter().max().unwrap();
            let mut ns: Vec<usize> = caps.iter().flat_map(|c| [c.saturating_sub(1), *c, c + 1]).collect();
            ns.push(maxcw / 2 + 1);
            ns.sort(); ns.dedup();
            for n in ns {
                if n > 400 { continue; }
                for data in [vec![b'a'; n], vec![b'7'; 2 * n]] {
                    let sl2 = sl.clone();
                    let r = guarded(move || DataMatrixBuilder::new().with_symbol_list(sl2).with_encodation_types(EncodationType::Ascii).encode(&data));
                    let ans = match r { Ok(Ok(dm)) => size_index(dm.size).to_string(), Ok(Err(_)) => "none".into(), Err(_) => "panic".into() };
                    writeln!(out, "P first {} {} => {}", fmt_idx(&ab), n, ans).unwrap();
                }
            }
            writeln!(out, "M maxcap {} => {}", fmt_idx(&ab), vh::max_capacity(&sl)).unwrap();
        }
    }
    // filters
    let bounds = all_bounds(150);
    let base_lists: Vec<Vec<usize>> = vec![
        (0..48).collect(),
        SymbolList::default().iter().map(size_index).collect(),
    ];
    for base in &base_lists {
        for kind in ["w", "h"] {
            let emit = |lo: &Bound<usize>, hi: &Bound<usize>, out: &mut dyn Write| {
                let sl = wl(base);
                let (lo2, hi2) = (*lo, *hi);
                let r = guarded(move || if kind == "w" {
                    sl.enforce_width_in((lo2, hi2))
                } else {
                    sl.enforce_height_in((lo2, hi2))
                });
                writeln!(
                    out,
                    "P filt {} {} {} {} => {}",
                    kind,
                    bound_str(lo),
                    bound_str(hi),
                    fmt_idx(base),
                    match &r { Ok(l) => fmt_list(l), Err(_) => "panic".to_string() }
                )
                .unwrap();
            };
            // the ends of the integer range as bounds ("every range")
            for big in [usize::MAX, usize::MAX - 1, u32::MAX as usize, u16::MAX as usize + 1, 256] {
                for b in [Bound::Included(big), Bound::Excluded(big)] {
                    for other in [Bound::Unbounded, Bound::Included(0), Bound::Included(20), Bound::Excluded(8), Bound::Included(big), Bound::Excluded(big)] {
                        emit(&other, &b, out);
                        emit(&b, &other, out);
                    }
                }
            }
            if thorough {
                for lo in &bounds {
                    for hi in &bounds {
                        emit(lo, hi, out);
                    }
                }
            } else {
                for b in &bounds {
                    emit(b, &Bound::Unbounded, out);
                    emit(&Bound::Unbounded, b, out);
                }
                for _ in 0..3000 {
                    let lo = *rng.pick(&bounds);
                    let hi = *rng.pick(&bounds);
                    emit(&lo, &hi, out);
                }
            }
        }
        let sl = wl(base);
        writeln!(out, "P filt sq u u {} => {}", fmt_idx(base), fmt_list(&sl.clone().enforce_square())).unwrap();
        writeln!(out, "P filt rect u u {} => {}", fmt_idx(base), fmt_list(&sl.enforce_rectangular())).unwrap();
    }
    // composition of filters on random lists
    for _ in 0..(if thorough { 20000 } else { 2000 }) {
        let base: Vec<usize> = (0..48).filter(|_| rng.chance(2, 3)).collect();
        let lo1 = *rng.pick(&bounds);
        let hi1 = *rng.pick(&bounds);
        let lo2 = *rng.pick(&bounds);
        let hi2 = *rng.pick(&bounds);
        let shape = rng.below(3);
        let mut sl = wl(&base).enforce_width_in((lo1, hi1)).enforce_height_in((lo2, hi2));
        if shape == 1 {
            sl = sl.enforce_square();
        } else if shape == 2 {
            sl = sl.enforce_rectangular();
        }
        writeln!(
            out,
            "P comp {} {} {} {} {} {} => {}",
            bound_str(&lo1),
            bound_str(&hi1),
            bound_str(&lo2),
            bound_str(&hi2),
            shape,
            fmt_idx(&base),
            fmt_list(&sl)
        )
        .unwrap();
    }
    // first_symbol_big_enough_for / max_capacity / upper_limit
    let mut probe_lists: Vec<Vec<usize>> = base_lists.clone();
    probe_lists.push(vec![]);
    for i in 0..48 {
        probe_lists.push(vec![i]);
    }
    for _ in 0..(if thorough { 2000 } else { 200 }) {
        probe_lists.push((0..48).filter(|_| rng.chance(1, 4)).collect());
    }
    for l in &probe_lists {
        let sl = wl(l);
        let mut ns: Vec<usize> = (0..=40).collect();
        ns.extend((41..1600).step_by(if thorough { 1 } else { 13 }));
        ns.extend([1555, 1556, 1557, 1558, 1559, 3116, 3117, 100000]);
        for n in ns {
            let r = vh::first_symbol_big_enough_for(&sl, n);
            writeln!(
                out,
                "P first {} {} => {}",
                fmt_idx(l),
                n,
                r.map(|s| size_index(s).to_string()).unwrap_or("none".into())
            )
            .unwrap();
            let u = vh::upper_limit_for_number_of_codewords(&sl, n);
            writeln!(
                out,
                "M upper {} {} => {}",
                fmt_idx(l),
                n,
                u.map(|s| s.to_string()).unwrap_or("none".into())
            )
            .unwrap();
        }
        writeln!(out, "M maxcap {} => {}", fmt_idx(l), vh::max_capacity(&sl)).unwrap();
    }
    // the remaining list API: `contains`, `IntoIterator`, `From<[SymbolSize; N]>` against `iter()`
    let mut api_checks = 0usize;
    for l in &probe_lists {
        let sl = wl(l);
        let members: Vec<usize> = sl.iter().map(size_index).collect();
        let mut ok = true;
        for (i, s) in sizes.iter().enumerate() {
            ok &= sl.contains(s) == members.contains(&i);
        }
        let owned: Vec<usize> = sl.clone().into_iter().map(size_index).collect();
        ok &= owned == members;
        if l.len() == 3 {
            let arr = [sizes[l[0]], sizes[l[1]], sizes[l[2]]];
            let from: SymbolList = arr.into();
            ok &= from.iter().map(size_index).collect::<Vec<_>>() == members;
        }
        if l.len() == 1 {
            let from: SymbolList = sizes[l[0]].into();
            ok &= from.iter().map(size_index).collect::<Vec<_>>() == members;
        }
        api_checks += 1;
        writeln!(out, "O oracle {} => ok", if ok { "ok".to_string() } else { format!("fail:symbol-list-api:{}", fmt_idx(l)) }).unwrap();
    }
    writeln!(out, "# symbol_list_api_checks {}", api_checks).unwrap();
    // the symbol picked for an encoding: ASCII-only encoder on n lowercase letters needs n codewords
    for l in &probe_lists {
        if l.is_empty() {
            continue;
        }
        let sl = wl(l);
        let maxcw = l.iter().map(|i| vh::size_info(sizes[*i]).num_data_codewords).max().unwrap();
        let mut ns: Vec<usize> = (0..=maxcw.min(30)).collect();
        ns.extend((31..=maxcw + 1).step_by(if thorough { 3 } else { 37 }));
        ns.push(maxcw);
        ns.push(maxcw + 1);
        for n in ns {
            let data = vec![b'a'; n];
            let sl2 = sl.clone();
            let r = guarded(move || {
                DataMatrixBuilder::new()
                    .with_symbol_list(sl2)
                    .with_encodation_types(EncodationType::Ascii)
                    .encode(&data)
            });
            let ans = match r {
                Ok(Ok(dm)) => size_index(dm.size).to_string(),
                Ok(Err(_)) => "none".into(),
                Err(_) => "panic".into(),
            };
            writeln!(out, "P first {} {} => {}", fmt_idx(l), n, ans).unwrap();
            // the same request with 2n digits (two digits per ASCII codeword): exercises the
            // early "bigger than the theoretical limit" exit against the capacity table
            let data = vec![b'7'; 2 * n];
            let sl2 = sl.clone();
            let r = guarded(move || {
                DataMatrixBuilder::new()
                    .with_symbol_list(sl2)
                    .with_encodation_types(EncodationType::Ascii)
                    .encode(&data)
            });
            let ans = match r {
                Ok(Ok(dm)) => size_index(dm.size).to_string(),
                Ok(Err(_)) => "none".into(),
                Err(_) => "panic".into(),
            };
            writeln!(out, "P first {} {} => {}", fmt_idx(l), n, ans).unwrap();
            // the same request as a Macro 05 / 06 message: header and trailer (nine characters) cost one codeword,
            // then 2(n-1) digits; the first symbol that holds n codewords must be picked
            if n >= 1 && (n <= 12 || n % 5 == 0 || n + 2 >= maxcw) {
                for head in [&b"[)>\x1E05\x1D"[..], b"[)>\x1E06\x1D"] {
                    let mut data = head.to_vec();
                    data.extend(std::iter::repeat(b'7').take(2 * (n - 1)));
                    data.extend_from_slice(b"\x1E\x04");
                    let sl2 = sl.clone();
                    let r = guarded(move || {
                        DataMatrixBuilder::new()
                            .with_symbol_list(sl2)
                            .with_encodation_types(EncodationType::Ascii)
                            .encode(&data)
                    });
                    let ans = match r {
                        Ok(Ok(dm)) => size_index(dm.size).to_string(),
                        Ok(Err(_)) => "none".into(),
                        Err(_) => "panic".into(),
                    };
                    writeln!(out, "P first {} {} => {}", fmt_idx(l), n, ans).unwrap();
                }
            }
        }
    }
    // the symbol list survives every other builder setter, in every call order: all 24 orders of the four
    // setters (list, modes = ASCII only, macros, FNC1 start), with and without a decoy value set first
    {
        let mut n_orders = 0usize;
        for (li, l) in probe_lists.iter().enumerate() {
            if l.is_empty() || li % 3 != 0 && !thorough {
                continue;
            }
            let sl = wl(l);
            let maxcw = l.iter().map(|i| vh::size_info(sizes[*i]).num_data_codewords).max().unwrap();
            for perm in 0..24usize {
                let n = [1usize, 3, 9, 20, maxcw / 2, maxcw.saturating_sub(1), maxcw][(perm + li) % 7].min(maxcw);
                let fnc1 = perm % 5 == 2;
                let macros = perm % 2 == 0;
                let decoy = perm % 3 != 1;
                let data = vec![b'a'; n];
                let sl2 = sl.clone();
                let r = guarded(move || {
                    let mut order = [0usize, 1, 2, 3];
                    let mut k = perm;
                    for i in 0..3 {
                        let j = i + k % (4 - i);
                        k /= 4 - i;
                        order.swap(i, j);
                    }
                    let mut b = DataMatrixBuilder::new();
                    for o in order {
                        b = match o {
                            0 => {
                                if decoy { b = b.with_symbol_list(SymbolList::default()); }
                                b.with_symbol_list(sl2.clone())
                            }
                            1 => {
                                if decoy { b = b.with_encodation_types(EncodationType::all()); }
                                b.with_encodation_types(EncodationType::Ascii)
                            }
                            2 => {
                                if decoy { b = b.with_macros(!macros); }
                                b.with_macros(macros)
                            }
                            _ => {
                                if decoy { b = b.with_fnc1_start(!fnc1); }
                                b.with_fnc1_start(fnc1)
                            }
                        };
                    }
                    b.encode(&data)
                });
                let ans = match r {
                    Ok(Ok(dm)) => size_index(dm.size).to_string(),
                    Ok(Err(_)) => "none".into(),
                    Err(_) => "panic".into(),
                };
                n_orders += 1;
                // n ASCII codewords, one more for the FNC1 codeword
                writeln!(out, "P first {} {} => {}", fmt_idx(l), n + fnc1 as usize, ans).unwrap();
            }
        }
        writeln!(out, "# builder_setter_orders {}", n_orders).unwrap();
    }
    // an empty list stays empty on its way through the builder and the wrappers: nothing may be picked
    {
        let empties: Vec<(&str, SymbolList)> = vec![
            ("whitelist", SymbolList::with_whitelist(Vec::<SymbolSize>::new())),
            ("square+rect", SymbolList::default().enforce_square().enforce_rectangular()),
            ("width-gap", SymbolList::with_extended_rectangles().enforce_width_in(11..12)),
            ("height-none", SymbolList::default().enforce_height_in(145..)),
        ];
        let mut n_empty = 0usize;
        for (_, e) in &empties {
            for n in [0usize, 1, 3, 50] {
                for variant in 0..6usize {
                    let data = vec![b'a'; n];
                    let e2 = e.clone();
                    let r = guarded(move || match variant {
                        0 => DataMatrix::encode(&data, e2).map(|d| d.size),
                        1 => DataMatrix::encode_gs1(&data, e2).map(|d| d.size),
                        2 => DataMatrix::encode_str("aaa", e2).map(|d| d.size),
                        3 => DataMatrixBuilder::new().with_symbol_list(e2).encode(&data).map(|d| d.size),
                        4 => DataMatrixBuilder::new().with_symbol_list(SymbolSize::Square20).with_symbol_list(e2).with_macros(false).encode(&data).map(|d| d.size),
                        _ => datamatrix::data::encode_data(&data, &e2, None, EncodationType::all(), true).map(|d| d.1),
                    });
                    let ans = match r {
                        Ok(Ok(sz)) => size_index(sz).to_string(),
                        Ok(Err(datamatrix::data::DataEncodingError::SymbolListEmpty)) => "none".into(),
                        Ok(Err(_)) => "wrong-error".into(),
                        Err(_) => "panic".into(),
                    };
                    n_empty += 1;
                    writeln!(out, "P first - {} => {}", n, ans).unwrap();
                }
            }
        }
        writeln!(out, "# empty_list_entry_points {}", n_empty).unwrap();
    }
    // the builder's own default list (no `with_symbol_list`): must behave as the standard's 30 sizes
    {
        // (that `SymbolList::default()` is exactly the 30 sizes of ISO/IEC 16022 is checked above and proved in C12)
        let std30: Vec<usize> = SymbolList::default().iter().map(size_index).collect();
        let mut ns: Vec<usize> = (0..=120).collect();
        ns.extend((121..=1560).step_by(if thorough { 1 } else { 29 }));
        for n in ns {
            let data = vec![b'a'; n];
            let r = guarded(move || DataMatrixBuilder::new().with_encodation_types(EncodationType::Ascii).encode(&data));
            let ans = match r {
                Ok(Ok(dm)) => size_index(dm.size).to_string(),
                Ok(Err(_)) => "none".into(),
                Err(_) => "panic".into(),
            };
            writeln!(out, "P first {} {} => {}", fmt_idx(&std30), n, ans).unwrap();
            let data = vec![b'a'; n];
            let r = guarded(move || DataMatrixBuilder::default().with_encodation_types(EncodationType::Ascii).encode(&data));
            let ans = match r {
                Ok(Ok(dm)) => size_index(dm.size).to_string(),
                Ok(Err(_)) => "none".into(),
                Err(_) => "panic".into(),
            };
            writeln!(out, "P first {} {} => {}", fmt_idx(&std30), n, ans).unwrap();
        }
    }
    let _ = SymbolSize::Square10;
}
