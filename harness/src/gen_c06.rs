//! Cases for C06: `encode_error` on an F2-basis of every data space and on random vectors.
use crate::util::*;
use datamatrix::{errorcode, verif_hooks as vh};
use std::io::Write;

/// independent GF(256) arithmetic (polynomial 0x12D), carry-less
fn gf_mul(mut a: u8, mut b: u8) -> u8 {
    let mut r = 0u8;
    while a != 0 {
        if a & 1 == 1 {
            r ^= b;
        }
        let hi = b & 0x80 != 0;
        b <<= 1;
        if hi {
            b ^= 0x2D;
        }
        a >>= 1;
    }
    r
}

fn gf_inv(a: u8) -> u8 {
    let mut r = 1u8;
    let mut b = a;
    let mut e = 254u32;
    while e > 0 {
        if e & 1 == 1 {
            r = gf_mul(r, b);
        }
        b = gf_mul(b, b);
        e >>= 1;
    }
    r
}

pub fn gen(out: &mut dyn Write, seed: u64, thorough: bool) {
    let sizes = all_sizes();
    let mut rng = Rng::new(seed ^ 0xC06);
    let mut n_basis = 0usize;
    let mut n_rand = 0usize;
    let mut emit = |out: &mut dyn Write, si: usize, data: Vec<u8>| {
        let s = sizes[si];
        let d2 = data.clone();
        let r = guarded(move || errorcode::encode_error(&d2, s));
        let ans = match r {
            Ok(ecc) => hex(&ecc),
            Err(_) => "panic".into(),
        };
        // P: the model answer is the unique RS remainder (theorem encode_error_conformant)
        writeln!(out, "P ecc {} {} => {}", si, hex(&data), ans).unwrap();
        // O: the spec's syndromes of the implementation's own output
        writeln!(out, "O rs {} {} {} => ok", si, hex(&data), ans).unwrap();
    };
    for (si, s) in sizes.iter().enumerate() {
        let n = vh::size_info(*s).num_data_codewords;
        // zero vector
        emit(out, si, vec![0; n]);
        let all_basis = thorough || n <= 24;
        let picks: Vec<(usize, u8)> = if all_basis {
            (0..n).flat_map(|p| (0..8).map(move |b| (p, 1u8 << b))).collect()
        } else {
            let mut v: Vec<(usize, u8)> = vec![(0, 1), (0, 128), (n - 1, 1), (n - 1, 128)];
            for _ in 0..28 {
                v.push((rng.below(n), 1u8 << rng.below(8)));
            }
            v
        };
        for (p, v) in picks {
            let mut d = vec![0u8; n];
            d[p] = v;
            emit(out, si, d);
            n_basis += 1;
        }
        for _ in 0..(if thorough { 40 } else { 6 }) {
            let d: Vec<u8> = (0..n).map(|_| rng.byte()).collect();
            emit(out, si, d);
            n_rand += 1;
        }
        // structured: all 255, alternating
        emit(out, si, vec![255; n]);
        emit(out, si, (0..n).map(|i| (i * 37 % 256) as u8).collect());
    }
    // crafted: the division's remainder gets a zero leading coefficient right before a zero data
    // codeword (for a single non-zero codeword this cannot happen: the leading coefficient of
    // x^j mod g is a Gaussian binomial in 2, non-zero for every block length below 255), with an own
    // simulation of the division; sparse vectors; all vectors [a, b, 0] of 10x10 (thorough) / a sample
    let mut n_crafted = 0usize;
    for (si, s) in sizes.iter().enumerate() {
        let inf = vh::size_info(*s);
        let (n, blocks, k) = (inf.num_data_codewords, inf.num_ecc_blocks, inf.num_ecc_per_block);
        // generator polynomial prod_{i=1..k} (X + 2^i), highest coefficient first
        let mut g = vec![1u8];
        let mut root = 1u8;
        for _ in 0..k {
            root = gf_mul(root, 2);
            let mut next = vec![0u8; g.len() + 1];
            for (d, c) in g.iter().enumerate() {
                next[d] ^= *c;
                next[d + 1] ^= gf_mul(*c, root);
            }
            g = next;
        }
        let step = |ecc: &mut Vec<u8>, a: u8| {
            let kk = ecc[0] ^ a;
            for j in 0..k {
                let nxt = if j + 1 < k { ecc[j + 1] } else { 0 };
                ecc[j] = nxt ^ gf_mul(kk, g[j + 1]);
            }
        };
        for rep in 0..(if thorough { 12 } else { 3 }) {
            let b = rng.below(blocks);
            let len_b = (n - b + blocks - 1) / blocks;
            if len_b < 3 {
                continue;
            }
            let start = rng.below(len_b - 2);
            let mut ecc = vec![0u8; k];
            let mut d = vec![0u8; n];
            // some random codewords of the block first
            let lead = if rep % 2 == 0 { 1 } else { 1 + rng.below(len_b - 2 - start).min(6) };
            let mut q = start;
            for _ in 0..lead {
                if q + 2 >= len_b { break; }
                let a = 1 + rng.below(255) as u8;
                d[b + q * blocks] = a;
                step(&mut ecc, a);
                q += 1;
            }
            if q + 1 >= len_b || g[1] == 0 {
                continue;
            }
            // the codeword that makes the next leading coefficient vanish, then zeros
            let a = ecc[0] ^ gf_mul(if k > 1 { ecc[1] } else { 0 }, gf_inv(g[1]));
            d[b + q * blocks] = a;
            emit(out, si, d);
            n_crafted += 1;
        }
        // sparse vectors: two to four non-zero codewords
        for _ in 0..(if thorough { 30 } else { 4 }) {
            let mut d = vec![0u8; n];
            for _ in 0..(2 + rng.below(3)) {
                d[rng.below(n)] = 1 + rng.below(255) as u8;
            }
            emit(out, si, d);
            n_crafted += 1;
        }
    }
    {
        let pairs: Vec<(u8, u8)> = if thorough {
            (0..=255u8).flat_map(|a| (0..=255u8).map(move |b| (a, b))).collect()
        } else {
            (0..3000).map(|_| (rng.byte(), rng.byte())).collect()
        };
        for (a, b) in pairs {
            emit(out, 0, vec![a, b, 0]);
            n_crafted += 1;
        }
    }
    writeln!(out, "# crafted_zero_leading_coefficient_and_sparse {}", n_crafted).unwrap();
    writeln!(out, "# basis_vectors {}", n_basis).unwrap();
    writeln!(out, "# random_vectors {}", n_rand).unwrap();
    // wrong length must panic (documented), model: error
    for (si, s) in sizes.iter().enumerate().take(6) {
        let n = vh::size_info(*s).num_data_codewords;
        for len in [0, n - 1, n + 1] {
            let d = vec![1u8; len];
            let s2 = *s;
            let d2 = d.clone();
            let r = guarded(move || errorcode::encode_error(&d2, s2));
            let ans = match r {
                Ok(ecc) => hex(&ecc),
                Err(_) => "panic".into(),
            };
            writeln!(out, "M ecc {} {} => {}", si, hex(&d), ans).unwrap();
        }
    }
}
