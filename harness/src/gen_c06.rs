//! Cases for C06: `encode_error` on an F2-basis of every data space and on random vectors.
use crate::util::*;
use datamatrix::{errorcode, verif_hooks as vh};
use std::io::Write;

pub fn gen(out: &mut dyn Write, seed: u64, thorough: bool) {
    let sizes = all_sizes();
    let mut rng = Rng::new(seed ^ 0xC06);
    let mut n_basis = 0usize;
    let mut n_rand = 0usize;
    let mut emit = |out: &mut dyn Write, si: usize, data: Vec<u8>| {
        let s = sizes[si];
        let d2 = data.clone();
        let r = guarded(move || errorcode::encode_error(&d2, s));
        let ans = match r {
            Ok(ecc) => hex(&ecc),
            Err(_) => "panic".into(),
        };
        // P: the model answer is the unique RS remainder (theorem encode_error_conformant)
        writeln!(out, "P ecc {} {} => {}", si, hex(&data), ans).unwrap();
        // O: the spec's syndromes of the implementation's own output
        writeln!(out, "O rs {} {} {} => ok", si, hex(&data), ans).unwrap();
    };
    for (si, s) in sizes.iter().enumerate() {
        let n = vh::size_info(*s).num_data_codewords;
        // zero vector
        emit(out, si, vec![0; n]);
        let all_basis = thorough || n <= 24;
        let picks: Vec<(usize, u8)> = if all_basis {
            (0..n).flat_map(|p| (0..8).map(move |b| (p, 1u8 << b))).collect()
        } else {
            let mut v: Vec<(usize, u8)> = vec![(0, 1), (0, 128), (n - 1, 1), (n - 1, 128)];
            for _ in 0..28 {
                v.push((rng.below(n), 1u8 << rng.below(8)));
            }
            v
        };
        for (p, v) in picks {
            let mut d = vec![0u8; n];
            d[p] = v;
            emit(out, si, d);
            n_basis += 1;
        }
        for _ in 0..(if thorough { 40 } else { 6 }) {
            let d: Vec<u8> = (0..n).map(|_| rng.byte()).collect();
            emit(out, si, d);
            n_rand += 1;
        }
        // structured: all 255, alternating
        emit(out, si, vec![255; n]);
        emit(out, si, (0..n).map(|i| (i * 37 % 256) as u8).collect());
    }
    writeln!(out, "# basis_vectors {}", n_basis).unwrap();
    writeln!(out, "# random_vectors {}", n_rand).unwrap();
    // wrong length must panic (documented), model: error
    for (si, s) in sizes.iter().enumerate().take(6) {
        let n = vh::size_info(*s).num_data_codewords;
        for len in [0, n - 1, n + 1] {
            let d = vec![1u8; len];
            let s2 = *s;
            let d2 = d.clone();
            let r = guarded(move || errorcode::encode_error(&d2, s2));
            let ans = match r {
                Ok(ecc) => hex(&ecc),
                Err(_) => "panic".into(),
            };
            writeln!(out, "M ecc {} {} => {}", si, hex(&d), ans).unwrap();
        }
    }
}
