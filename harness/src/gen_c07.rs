//! Cases for C07: the (codeword, bit) -> module map of every size, observed through the public
//! `traverse_mut` (the position of a reference inside the entry vector is its address offset).
use crate::util::*;
use datamatrix::placement::{Bit, MatrixMap};
use datamatrix::verif_hooks as vh;
use std::io::Write;

#[derive(Clone, Copy, PartialEq, Debug)]
pub struct Tag(pub u32);

impl Bit for Tag {
    const LOW: Self = Tag(0);
    const HIGH: Self = Tag(1);
}

/// (index octets in codeword order) via address arithmetic
pub fn observed_layout<B: Bit>(m: &mut MatrixMap<B>) -> Vec<[usize; 8]> {
    let mut addrs: Vec<(usize, [usize; 8])> = vec![];
    m.traverse_mut(|cw, bits| {
        let mut a = [0usize; 8];
        for (k, b) in bits.into_iter().enumerate() {
            a[k] = b as *mut B as usize;
        }
        addrs.push((cw, a));
    });
    let base = addrs.iter().flat_map(|(_, a)| a.iter().copied()).min().unwrap_or(0);
    let sz = std::mem::size_of::<B>();
    let mut out = vec![[0usize; 8]; addrs.len()];
    for (pos, (cw, a)) in addrs.iter().enumerate() {
        // the callback must be invoked with consecutive codeword indices
        let slot = if *cw < out.len() { *cw } else { pos };
        for k in 0..8 {
            out[slot][k] = (a[k] - base) / sz;
        }
    }
    out
}

fn fmt_layout(l: &[[usize; 8]]) -> String {
    if l.is_empty() {
        return "-".into();
    }
    l.iter()
        .map(|o| o.iter().map(|x| x.to_string()).collect::<Vec<_>>().join(","))
        .collect::<Vec<_>>()
        .join(";")
}

/// entries of a bool map: visited cells through traverse_mut, the (possibly) unvisited
/// lower-right 2x2 cells through the rendered bitmap
pub fn observed_entries(m: &mut MatrixMap<bool>, w: usize, h: usize) -> Vec<u8> {
    let mut e = vec![2u8; w * h];
    let lay = observed_layout(m);
    let mut vals: Vec<[bool; 8]> = vec![];
    m.traverse(|_, bits| vals.push(bits));
    for (o, v) in lay.iter().zip(vals.iter()) {
        for k in 0..8 {
            if o[k] < e.len() {
                e[o[k]] = v[k] as u8;
            }
        }
    }
    let bm = m.bitmap();
    let (bw, bh) = (bm.width(), bm.height());
    let bits = bm.bits();
    for (r, c) in [(h - 2, w - 2), (h - 2, w - 1), (h - 1, w - 2), (h - 1, w - 1)] {
        if e[r * w + c] == 2 {
            // pixel of the last region: offset from the lower right corner
            let pr = bh - 1 - (h - r);
            let pc = bw - 1 - (w - c);
            e[r * w + c] = bits[pr * bw + pc] as u8;
        }
    }
    e
}

pub fn gen(out: &mut dyn Write, seed: u64, thorough: bool) {
    let sizes = all_sizes();
    let mut rng = Rng::new(seed ^ 0xC07);
    let mut pairs = 0usize;
    for (si, s) in sizes.iter().enumerate() {
        let s = *s;
        let inf = vh::size_info(s);
        let w = inf.width - 2 - 2 * inf.extra_vertical_alignments;
        let h = inf.height - 2 - 2 * inf.extra_horizontal_alignments;
        // 1. tags: the complete map, exhaustively
        let r = guarded(move || {
            let mut m = MatrixMap::<Tag>::new(s);
            observed_layout(&mut m)
        });
        match r {
            Ok(l) => {
                pairs += l.len() * 8;
                writeln!(out, "P layout {} => {}", si, fmt_layout(&l)).unwrap();
            }
            Err(_) => writeln!(out, "P layout {} => panic", si).unwrap(),
        }
        // 2. bool instance: new_with_codewords on unit vectors (bit order) and random vectors
        let n = inf.num_data_codewords + inf.num_ecc_blocks * inf.num_ecc_per_block;
        // the model's list-based write is quadratic: scale the number of vectors with the size
        let budget = if thorough { 40000 / n } else { 3000 / n };
        let mut vecs: Vec<Vec<u8>> = if budget >= 8 { vec![vec![0; n], vec![255; n]] } else { vec![] };
        let units = if thorough { (n * 8).min(budget.max(2)) } else { 24.min(n * 8).min(budget.max(2)) };
        for u in 0..units {
            let (p, b) = if thorough && units == n * 8 { (u / 8, u % 8) } else { (rng.below(n), rng.below(8)) };
            let mut v = vec![0u8; n];
            v[p] = 1 << b;
            vecs.push(v);
        }
        for _ in 0..(if thorough { 20.min(budget.max(1)) } else { 4.min(budget.max(1)) }) {
            vecs.push((0..n).map(|_| rng.byte()).collect());
        }
        for v in vecs {
            let v2 = v.clone();
            let r = guarded(move || {
                let mut m = MatrixMap::<bool>::new_with_codewords(&v2, s);
                let e = observed_entries(&mut m, w, h);
                let back = m.codewords();
                (e, back)
            });
            match r {
                Ok((e, back)) => {
                    let es: String = e.iter().map(|b| char::from(b'0' + *b)).collect();
                    writeln!(out, "P write {} {} => {}", si, hex(&v), es).unwrap();
                    writeln!(out, "O eq {} {} => ok", hex(&v), hex(&back)).unwrap();
                }
                Err(_) => writeln!(out, "P write {} {} => panic", si, hex(&v)).unwrap(),
            }
        }
        // too short data: documented panic
        if si < 4 {
            let v = vec![0u8; n - 1];
            let v2 = v.clone();
            let r = guarded(move || MatrixMap::<bool>::new_with_codewords(&v2, s).codewords());
            writeln!(out, "M write {} {} => {}", si, hex(&v), if r.is_ok() { "ok?" } else { "panic" }).unwrap();
        }
    }
    writeln!(out, "# codeword_bit_pairs {}", pairs).unwrap();
}
