#![allow(dead_code)]
mod dump;
mod enc;
mod gen_enc;
mod gen_dec;
mod gen_c17;
mod gen_rs;
mod gen_c06;
mod gen_c07;
mod gen_c08;
mod gen_c12;
mod util;

use std::io::Write;

fn main() {
    let args: Vec<String> = std::env::args().collect();
    let seed: u64 = std::env::var("VERIF_SEED").ok().and_then(|s| s.parse().ok()).unwrap_or(1);
    let thorough = std::env::var("VERIF_TIER").map(|t| t == "thorough").unwrap_or(false);
    util::silence_panics();
    let stdout = std::io::stdout();
    let mut out = std::io::BufWriter::with_capacity(1 << 20, stdout.lock());
    match args.get(1).map(|s| s.as_str()) {
        Some("dump") => {
            drop(out);
            dump::dump();
            return;
        }
        Some("opt") => {
            // dmh opt <modes> <maskhex> <written> <datahex>: one planner case with its sort permutations
            let d = if args[5] == "-" { vec![] } else { util::unhex(&args[5]) };
            let (line, _, _) = gen_enc::planner_line(args[2].parse().unwrap(), u64::from_str_radix(&args[3], 16).unwrap(), args[4].parse().unwrap(), &d);
            writeln!(out, "{}", line).unwrap();
        }
        Some("ddata") => {
            writeln!(out, "{}", gen_dec::ddata(&util::unhex(&args[2]))).unwrap();
        }
        Some("enc") => {
            // dmh enc <modes> <maskhex> <macro> <fnc1> <eci|-> <inputhex>: replay one encoder case
            let c = enc::Case {
                modes: args[2].parse().unwrap(),
                mask: u64::from_str_radix(&args[3], 16).unwrap(),
                macros: args[4] == "1",
                fnc1: args[5] == "1",
                eci: if args[6] == "-" { None } else { Some(args[6].parse().unwrap()) },
                data: util::unhex(&args[7]),
            };
            let o = enc::run_case(&c);
            writeln!(out, "{}", o.resp).unwrap();
        }
        Some("gen") => match args.get(2).map(|s| s.as_str()) {
            Some("c12") => gen_c12::gen(&mut out, seed, thorough),
            Some(w @ ("c01" | "c02" | "c10" | "c13" | "c16" | "c18" | "c19" | "c11")) => gen_enc::gen(&mut out, w, seed, thorough),
            Some("c05d") => gen_dec::gen_c05(&mut out, seed, thorough),
            Some("c14") => gen_dec::gen_c14(&mut out, seed, thorough),
            Some("c17") => gen_c17::gen(&mut out, seed, thorough),
            Some(w @ ("c03" | "c09" | "c05r")) => gen_rs::gen(&mut out, w, seed, thorough),
            Some("c04") => gen_dec::gen_c04(&mut out, seed, thorough),
            Some("c15") => gen_dec::gen_c15(&mut out, seed, thorough),
            Some(w @ ("c16m" | "c02p")) => gen_enc::gen_prefix(&mut out, w, seed, thorough),
            Some("c19p") => gen_enc::gen_prune(&mut out, seed, thorough),
            Some("c02x") => gen_enc::gen_badplans(&mut out, seed, thorough),
            Some("c18m") => gen_enc::gen_planner(&mut out, seed, thorough),
            Some("c10d") => gen_enc::gen_optdiff(&mut out, seed, thorough),
            Some("c08") => gen_c08::gen(&mut out, seed, thorough),
            Some("c05p") => gen_c08::gen_c05p(&mut out, seed, thorough),
            Some("c07") => gen_c07::gen(&mut out, seed, thorough),
            Some("c06") => gen_c06::gen(&mut out, seed, thorough),
            _ => {
                eprintln!("unknown generator");
                std::process::exit(2);
            }
        },
        _ => {
            eprintln!("usage: dmh <dump|gen <prop>|serve>");
            std::process::exit(2);
        }
    }
    out.flush().unwrap();
}
