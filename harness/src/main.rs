#![allow(dead_code)]
mod dump;
mod gen_c06;
mod gen_c07;
mod gen_c08;
mod gen_c12;
mod util;

use std::io::Write;

fn main() {
    let args: Vec<String> = std::env::args().collect();
    let seed: u64 = std::env::var("VERIF_SEED").ok().and_then(|s| s.parse().ok()).unwrap_or(1);
    let thorough = std::env::var("VERIF_TIER").map(|t| t == "thorough").unwrap_or(false);
    util::silence_panics();
    let stdout = std::io::stdout();
    let mut out = std::io::BufWriter::with_capacity(1 << 20, stdout.lock());
    match args.get(1).map(|s| s.as_str()) {
        Some("dump") => {
            drop(out);
            dump::dump();
            return;
        }
        Some("gen") => match args.get(2).map(|s| s.as_str()) {
            Some("c12") => gen_c12::gen(&mut out, seed, thorough),
            Some("c08") => gen_c08::gen(&mut out, seed, thorough),
            Some("c07") => gen_c07::gen(&mut out, seed, thorough),
            Some("c06") => gen_c06::gen(&mut out, seed, thorough),
            _ => {
                eprintln!("unknown generator");
                std::process::exit(2);
            }
        },
        _ => {
            eprintln!("usage: dmh <dump|gen <prop>|serve>");
            std::process::exit(2);
        }
    }
    out.flush().unwrap();
}
