//! Cases for the Reed-Solomon decoder: C03 (guaranteed correction), C09 (success means
//! codeword), C05 (never panics).
use crate::util::*;
use datamatrix::errorcode::{decode_error, encode_error, ErrorDecodingError};
use datamatrix::verif_hooks as vh;
use std::collections::BTreeMap;
use std::io::Write;

/// independent GF(256) arithmetic (polynomial 0x12D), carry-less
fn gf_mul(mut a: u8, mut b: u8) -> u8 {
    let mut r = 0u8;
    while a != 0 {
        if a & 1 == 1 {
            r ^= b;
        }
        let hi = b & 0x80 != 0;
        b <<= 1;
        if hi {
            b ^= 0x2D;
        }
        a >>= 1;
    }
    r
}

/// powers of 2 and discrete logarithms, derived once from the carry-less multiplication above
fn tables() -> &'static ([u8; 510], [u8; 256]) {
    static T: std::sync::OnceLock<([u8; 510], [u8; 256])> = std::sync::OnceLock::new();
    T.get_or_init(|| {
        let mut exp = [0u8; 510];
        let mut log = [0u8; 256];
        let mut r = 1u8;
        for i in 0..510 {
            exp[i] = r;
            if i < 255 {
                log[r as usize] = i as u8;
            }
            r = gf_mul(r, 2);
        }
        (exp, log)
    })
}

fn gf_pow2(n: usize) -> u8 {
    tables().0[n % 255]
}

/// table-based product (same function as `gf_mul`, used where many products are needed)
fn gf_mul_t(a: u8, b: u8) -> u8 {
    if a == 0 || b == 0 {
        return 0;
    }
    let (exp, log) = tables();
    exp[log[a as usize] as usize + log[b as usize] as usize]
}

fn gf_inv(a: u8) -> u8 {
    // a^254
    let mut r = 1u8;
    let mut b = a;
    let mut e = 254u32;
    while e > 0 {
        if e & 1 == 1 {
            r = gf_mul(r, b);
        }
        b = gf_mul(b, b);
        e >>= 1;
    }
    r
}

/// the word supported on the last k positions of a block (X^0 .. X^{k-1}) whose syndromes
/// S_j = w(2^{j+1}), j = 0..k-1, are the given ones (Vandermonde system, Gaussian elimination)
fn word_with_syndromes(syn: &[u8]) -> Vec<u8> {
    let k = syn.len();
    let mut m: Vec<Vec<u8>> = (0..k)
        .map(|j| {
            let a = gf_pow2(j + 1);
            let mut row = Vec::with_capacity(k + 1);
            let mut p = 1u8;
            for _ in 0..k {
                row.push(p);
                p = gf_mul(p, a);
            }
            row.push(syn[j]);
            row
        })
        .collect();
    for c in 0..k {
        let piv = (c..k).find(|r| m[*r][c] != 0).unwrap();
        m.swap(c, piv);
        let inv = gf_inv(m[c][c]);
        for x in c..=k {
            m[c][x] = gf_mul(m[c][x], inv);
        }
        for r in 0..k {
            if r != c && m[r][c] != 0 {
                let f = m[r][c];
                for x in c..=k {
                    let v = gf_mul(f, m[c][x]);
                    m[r][x] ^= v;
                }
            }
        }
    }
    (0..k).map(|d| m[d][k]).collect()
}

/// Linear complexity profile of a syndrome sequence (Berlekamp-Massey over GF(256), independent of the
/// crate): the lengths L_1..L_n.  A leading Hankel minor H_v is non-singular exactly when v is a
/// value of the profile, so a step from L to L' > L + 1 means that H_{L+1} .. H_{L'-1} are singular:
/// the locator search has to take the "singular case" with jump width m = L' - L - 1.
fn max_profile_jump(syn: &[u8]) -> usize {
    let n = syn.len();
    let mut c = vec![0u8; n + 1];
    let mut b = vec![0u8; n + 1];
    c[0] = 1;
    b[0] = 1;
    let (mut l, mut m, mut bb) = (0usize, 1usize, 1u8);
    let mut max_jump = 0usize;
    for i in 0..n {
        let mut d = syn[i];
        for j in 1..=l {
            d ^= gf_mul_t(c[j], syn[i - j]);
        }
        if d == 0 {
            m += 1;
        } else if 2 * l <= i {
            let t = c.clone();
            let f = gf_mul_t(d, gf_inv(bb));
            for j in 0..=n - m {
                let v = gf_mul_t(f, b[j]);
                c[j + m] ^= v;
            }
            let nl = i + 1 - l;
            if l > 0 && nl > l { max_jump = max_jump.max(nl - l); }
            l = nl;
            b = t;
            bb = d;
            m = 1;
        } else {
            let f = gf_mul_t(d, gf_inv(bb));
            for j in 0..=n - m {
                let v = gf_mul_t(f, b[j]);
                c[j + m] ^= v;
            }
            m += 1;
        }
    }
    max_jump
}

/// syndromes S_j = e(2^{j+1}), j = 0..k-1, of an error pattern given as (position in the block, value),
/// block length n (position 0 is the coefficient of X^{n-1})
fn syndromes_of(errs: &[(usize, u8)], n: usize, k: usize) -> Vec<u8> {
    (0..k)
        .map(|j| {
            let mut s = 0u8;
            for (p, v) in errs {
                let x = gf_pow2((n - 1 - p) * (j + 1) % 255);
                s ^= gf_mul_t(*v, x);
            }
            s
        })
        .collect()
}

pub fn rsdec(si: usize, word: &[u8]) -> String {
    let sizes = all_sizes();
    let s = sizes[si];
    let mut w = word.to_vec();
    let r = guarded(move || {
        let r = decode_error(&mut w, s);
        (r, w)
    });
    match r {
        Ok((Ok(()), w)) => format!("ok:{}", hex(&w)),
        Ok((Err(ErrorDecodingError::TooManyErrors), _)) => "err:TooManyErrors".into(),
        Ok((Err(ErrorDecodingError::ErrorsOutsideRange), _)) => "err:ErrorsOutsideRange".into(),
        Ok((Err(ErrorDecodingError::Malfunction), _)) => "err:Malfunction".into(),
        Err(_) => "panic".into(),
    }
}

struct SizeGeom {
    n_data: usize,
    blocks: usize,
    k: usize,
    total: usize,
}

fn geom(si: usize) -> SizeGeom {
    let inf = vh::size_info(all_sizes()[si]);
    SizeGeom {
        n_data: inf.num_data_codewords,
        blocks: inf.num_ecc_blocks,
        k: inf.num_ecc_per_block,
        total: inf.num_data_codewords + inf.num_ecc_blocks * inf.num_ecc_per_block,
    }
}

/// indices (into the full codeword vector) of block b: data part then error part
fn block_indices(g: &SizeGeom, b: usize) -> Vec<usize> {
    let mut v: Vec<usize> = (b..g.n_data).step_by(g.blocks).collect();
    v.extend((b..g.blocks * g.k).step_by(g.blocks).map(|i| g.n_data + i));
    v
}

fn codeword(rng: &mut Rng, si: usize, zero: bool) -> Vec<u8> {
    let g = geom(si);
    let data: Vec<u8> = if zero { vec![0; g.n_data] } else { (0..g.n_data).map(|_| rng.byte()).collect() };
    let ecc = encode_error(&data, all_sizes()[si]);
    let mut c = data;
    c.extend(ecc);
    c
}

fn emit_within(out: &mut dyn Write, hist: &mut BTreeMap<String, usize>, si: usize, c: &[u8], errs: &[(usize, u8)], tag: &str) {
    let mut w = c.to_vec();
    for (p, v) in errs {
        w[*p] ^= *v;
    }
    let ans = rsdec(si, &w);
    *hist.entry(format!("within_{}", tag)).or_insert(0) += 1;
    // C03: the decoder must succeed and restore the codeword
    writeln!(out, "O eq ok:{} {} => ok", hex(c), ans).unwrap();
    writeln!(out, "M rsdec {} {} => {}", si, hex(&w), ans).unwrap();
}

fn emit_any(out: &mut dyn Write, hist: &mut BTreeMap<String, usize>, si: usize, w: &[u8], tag: &str) {
    let ans = rsdec(si, w);
    let kind = ans.split(':').take(2).collect::<Vec<_>>().join("_");
    *hist.entry(format!("{}_{}", tag, if ans.starts_with("ok") { "ok".to_string() } else { kind })).or_insert(0) += 1;
    writeln!(out, "M rsdec {} {} => {}", si, hex(w), ans).unwrap();
    if ans == "panic" {
        writeln!(out, "O oracle fail:panic:decode_error:{}:{} => ok", si, hex(w)).unwrap();
    }
    if let Some(h) = ans.strip_prefix("ok:") {
        // C09: whatever is left behind on success must be a codeword of every block
        writeln!(out, "O rscw {} {} => ok", si, h).unwrap();
    }
}

/// random error pattern with at most `maxw` errors in each block
fn pattern(rng: &mut Rng, g: &SizeGeom, maxw: usize, region: usize) -> Vec<(usize, u8)> {
    let mut errs = vec![];
    for b in 0..g.blocks {
        let idx = block_indices(g, b);
        let nd = (g.n_data - b + g.blocks - 1) / g.blocks;
        let w = rng.below(maxw + 1);
        let mut used = std::collections::BTreeSet::new();
        for _ in 0..w {
            let p = match region {
                0 => rng.below(idx.len()),
                1 => rng.below(nd),
                2 => nd + rng.below(idx.len() - nd),
                _ => idx.len() - 1 - rng.below(3.min(idx.len())),
            };
            if used.insert(p) {
                errs.push((idx[p], 1 + rng.below(255) as u8));
            }
        }
    }
    errs
}

pub fn gen(out: &mut dyn Write, which: &str, seed: u64, thorough: bool) {
    let mut rng = Rng::new(seed ^ 0x125);
    let mut hist: BTreeMap<String, usize> = BTreeMap::new();
    let n_sizes = 48;
    let do_within = which == "c03" || which == "c05r";
    let do_beyond = which == "c09" || which == "c05r";
    // past failures first
    for (si, w) in [(0usize, vec![0u8, 0, 0, 0, 0, 1, 6, 8]), (0, vec![0, 0, 0, 0, 0, 1, 12, 32])] {
        emit_any(out, &mut hist, si, &w, "corpus");
    }
    {
        let g = geom(38);
        let mut w = vec![0u8; g.total];
        w[205] = 1;
        emit_within(out, &mut hist, 38, &vec![0u8; g.total], &[(205, 1)], "corpus");
        w[205] = 0;
        let last = g.total - 1;
        emit_within(out, &mut hist, 38, &vec![0u8; g.total], &[(last, 1)], "corpus");
    }
    if do_within {
        // every single error position of every block of every size (zero codeword: by linearity of
        // the syndromes the decoder's corrections depend on the error only), values 1 and random
        for si in 0..n_sizes {
            let g = geom(si);
            let zero = vec![0u8; g.total];
            let step = if thorough { 1 } else { (g.total / 40).max(1) };
            for p in (0..g.total).step_by(step).chain([g.total - 1, g.n_data, g.n_data - 1]) {
                let v = if rng.chance(1, 2) { 1 } else { 1 + rng.below(255) as u8 };
                emit_within(out, &mut hist, si, &zero, &[(p, v)], "single");
            }
            // random codewords with <= t errors per block in all regions
            let t = g.k / 2;
            let reps = if thorough { 40 } else { 6 };
            for r in 0..reps {
                let c = codeword(&mut rng, si, r % 3 == 0);
                let region = r % 4;
                let errs = pattern(&mut rng, &g, t, region);
                emit_within(out, &mut hist, si, &c, &errs, ["any", "data", "ec", "tail"][region]);
                // exactly t errors in every block
                let mut full = vec![];
                for b in 0..g.blocks {
                    let idx = block_indices(&g, b);
                    let mut used = std::collections::BTreeSet::new();
                    while used.len() < t {
                        used.insert(rng.below(idx.len()));
                    }
                    for p in used {
                        full.push((idx[p], 1 + rng.below(255) as u8));
                    }
                }
                emit_within(out, &mut hist, si, &c, &full, "exactly_t");
                // burst of t consecutive codewords of one block
                let b = rng.below(g.blocks);
                let idx = block_indices(&g, b);
                let start = rng.below(idx.len() - t + 1);
                let burst: Vec<(usize, u8)> = (start..start + t).map(|p| (idx[p], 1 + rng.below(255) as u8)).collect();
                emit_within(out, &mut hist, si, &c, &burst, "burst");
            }
        }
        // many exactly-t patterns on small sizes: about 1 in 257 has a singular leading Hankel
        // minor, which drives the "singular case" of the Levinson-Durbin recursion
        for _ in 0..(if thorough { 60000 } else { 6000 }) {
            let si = *rng.pick(&[0usize, 1, 2, 3, 4, 5, 6, 7, 8]);
            let g = geom(si);
            let t = g.k / 2;
            let zero = vec![0u8; g.total];
            let mut used = std::collections::BTreeSet::new();
            let w = if rng.chance(1, 4) { 1 + rng.below(t) } else { t };
            while used.len() < w {
                used.insert(rng.below(g.total));
            }
            let errs: Vec<(usize, u8)> = used.into_iter().map(|p| (p, 1 + rng.below(255) as u8)).collect();
            emit_within(out, &mut hist, si, &zero, &errs, "small_exactly_t");
        }
        // patterns within the radius whose syndromes make two or more consecutive leading Hankel minors
        // singular (a step of 3 or more in the linear complexity profile, found by rejection sampling with an
        // independent Berlekamp-Massey): the locator search has to jump by m >= 2, which needs the general
        // form of the singular-case update (the triangular solve for gamma, the shifted sums of eq. (9))
        {
            let mut found = 0usize;
            let mut tried = 0usize;
            for &(si, tries) in &[(2usize, 120000usize), (3, 120000), (4, 100000), (5, 80000), (8, 60000), (9, 40000), (12, 30000), (15, 20000), (20, 12000), (21, 12000), (23, 12000), (38, 6000), (47, 4000)] {
                let g = geom(si);
                let t = g.k / 2;
                if t < 4 {
                    continue;
                }
                let zero = vec![0u8; g.total];
                let mut hits = 0usize;
                let tries = if thorough { tries * 6 } else { tries };
                for _ in 0..tries {
                    if hits >= (if thorough { 12 } else { 3 }) {
                        break;
                    }
                    tried += 1;
                    let b = rng.below(g.blocks);
                    let idx = block_indices(&g, b);
                    let n = idx.len();
                    let w = if rng.chance(1, 3) { 4 + rng.below(t - 3) } else { t };
                    let mut used = std::collections::BTreeSet::new();
                    while used.len() < w {
                        used.insert(rng.below(n));
                    }
                    let errs: Vec<(usize, u8)> = used.into_iter().map(|p| (p, 1 + rng.below(255) as u8)).collect();
                    let syn = syndromes_of(&errs, n, g.k);
                    if max_profile_jump(&syn) >= 3 {
                        hits += 1;
                        found += 1;
                        let full: Vec<(usize, u8)> = errs.iter().map(|(p, v)| (idx[*p], *v)).collect();
                        emit_within(out, &mut hist, si, &zero, &full, "long_singular_jump");
                        let c = codeword(&mut rng, si, false);
                        emit_within(out, &mut hist, si, &c, &full, "long_singular_jump");
                    }
                }
            }
            hist.insert("long_singular_jump_patterns_tried".into(), tried);
            hist.insert("long_singular_jump_patterns_found".into(), found);
        }
        // patterns within the radius whose first z syndromes vanish: z + 1 errors at arbitrary positions of one
        // block with values proportional to 1 / (X_i * prod_{l != i} (X_i + X_l)) (X_i the locator), so that
        // sum e_i X_i^j = 0 for j = 1..z. The locator search then starts behind z leading zero syndromes and its
        // initial solve H_v w = h_v has v = z + 1 unknowns (random values give this with probability 2^-8z).
        {
            let mut n_lz = 0usize;
            for &si in &[0usize, 1, 2, 3, 5, 8, 9, 12, 15, 20, 23, 24, 30, 38, 40, 47] {
                let g = geom(si);
                let t = g.k / 2;
                for z in 1..t {
                    for rep in 0..(if thorough { 6 } else { 2 }) {
                        let b = rng.below(g.blocks);
                        let idx = block_indices(&g, b);
                        let n = idx.len();
                        let w = z + 1;
                        if w > n { continue; }
                        let mut used = std::collections::BTreeSet::new();
                        while used.len() < w {
                            used.insert(rng.below(n));
                        }
                        let pos: Vec<usize> = used.into_iter().collect();
                        let xs: Vec<u8> = pos.iter().map(|p| gf_pow2((n - 1 - p) % 255)).collect();
                        let c0 = 1 + rng.below(255) as u8;
                        let errs: Vec<(usize, u8)> = (0..w).map(|i| {
                            let mut d = xs[i];
                            for l in 0..w {
                                if l != i { d = gf_mul_t(d, xs[i] ^ xs[l]); }
                            }
                            (pos[i], gf_mul_t(c0, gf_inv(d)))
                        }).collect();
                        let syn = syndromes_of(&errs, n, g.k);
                        if !(syn[..z].iter().all(|s| *s == 0) && syn[z] != 0) {
                            *hist.entry("leading_zero_within_construction_failed".into()).or_insert(0) += 1;
                            continue;
                        }
                        n_lz += 1;
                        let full: Vec<(usize, u8)> = errs.iter().map(|(p, v)| (idx[*p], *v)).collect();
                        if rep % 2 == 0 {
                            let zero = vec![0u8; g.total];
                            emit_within(out, &mut hist, si, &zero, &full, "leading_zero_syndromes");
                        } else {
                            let c = codeword(&mut rng, si, false);
                            emit_within(out, &mut hist, si, &c, &full, "leading_zero_syndromes");
                        }
                    }
                }
            }
            hist.insert("leading_zero_within_patterns".into(), n_lz);
        }
        // all double errors of 10x10 (thorough) / a sample (quick)
        let g = geom(0);
        let zero = vec![0u8; g.total];
        for p in 0..g.total {
            for q in p + 1..g.total {
                let vals: Vec<(u8, u8)> = if thorough {
                    (1..=255u8).step_by(9).flat_map(|a| (1..=255u8).step_by(31).map(move |b| (a, b))).collect()
                } else {
                    vec![(1, 1), (1 + rng.below(255) as u8, 1 + rng.below(255) as u8)]
                };
                for (a, b) in vals {
                    emit_within(out, &mut hist, 0, &zero, &[(p, a), (q, b)], "double_10x10");
                }
            }
        }
    }
    if do_beyond {
        for si in 0..n_sizes {
            let g = geom(si);
            let t = g.k / 2;
            let reps = if thorough { 60 } else { 8 };
            for r in 0..reps {
                let c = codeword(&mut rng, si, r % 2 == 0);
                // t+1 .. t+3 errors in one block, others clean
                let b = rng.below(g.blocks);
                let idx = block_indices(&g, b);
                let w = (t + 1 + rng.below(3)).min(idx.len());
                let mut used = std::collections::BTreeSet::new();
                while used.len() < w {
                    used.insert(rng.below(idx.len()));
                }
                let mut x = c.clone();
                for p in used {
                    x[idx[p]] ^= 1 + rng.below(255) as u8;
                }
                emit_any(out, &mut hist, si, &x, "beyond");
                // heavy damage
                let mut y = c.clone();
                for _ in 0..(g.total / 3 + 1) {
                    let p = rng.below(g.total);
                    y[p] = rng.byte();
                }
                emit_any(out, &mut hist, si, &y, "heavy");
                // random word
                let z: Vec<u8> = (0..g.total).map(|_| rng.byte()).collect();
                emit_any(out, &mut hist, si, &z, "random");
                // words whose first j syndromes vanish: coefficients of prod_{i=1..j} (X + 2^i)
                // placed at the end of block 0
                let j = 1 + rng.below(g.k - 1);
                let mut poly = vec![1u8];
                for i in 1..=j {
                    let a = gf_pow2(i);
                    let mut next = vec![0u8; poly.len() + 1];
                    for (d, c) in poly.iter().enumerate() {
                        next[d + 1] ^= *c;
                        next[d] ^= gf_mul(*c, a);
                    }
                    poly = next;
                }
                let idx0 = block_indices(&g, 0);
                if poly.len() <= idx0.len() {
                    let mut wz = vec![0u8; g.total];
                    // poly[d] is the coefficient of X^d; X^0 is the last codeword of the block
                    for (d, c) in poly.iter().enumerate() {
                        wz[idx0[idx0.len() - 1 - d]] = *c;
                    }
                    emit_any(out, &mut hist, si, &wz, "leading_zero_syndromes");
                }
                // all-zero word with a single non-zero codeword anywhere (correctable, but the
                // result must also be a codeword)
                let mut u = vec![0u8; g.total];
                u[rng.below(g.total)] = 1 + rng.below(255) as u8;
                emit_any(out, &mut hist, si, &u, "unit");
            }
        }
        // words with crafted syndrome sequences: generated by a short linear recurrence for the first
        // m syndromes and arbitrary afterwards (looks like v errors, then deviates), leading zeros,
        // singular Hankel minors - the corner cases of the locator search and the malfunction test
        for _ in 0..(if thorough { 60000 } else { 6000 }) {
            let si = *rng.pick(&[0usize, 1, 2, 3, 4, 5, 6, 7, 8, 9, 12, 24, 38]);
            let g = geom(si);
            let k = g.k;
            let t = k / 2;
            let v = 1 + rng.below(t);
            let conn: Vec<u8> = (0..v).map(|_| rng.byte()).collect();
            let m = (v + 1 + rng.below(k)).min(k);
            let zeros = if rng.chance(1, 4) { rng.below(t + 1) } else { 0 };
            let mut syn: Vec<u8> = vec![];
            for j in 0..k {
                let val = if j < zeros {
                    0
                } else if j < zeros + v {
                    if rng.chance(1, 6) { 0 } else { rng.byte() }
                } else if j < m {
                    let mut a = 0u8;
                    for (q, c) in conn.iter().enumerate() {
                        a ^= gf_mul(*c, syn[j - 1 - q]);
                    }
                    a
                } else if rng.chance(1, 3) {
                    // keep following the recurrence after one deviation
                    let mut a = 0u8;
                    for (q, c) in conn.iter().enumerate() {
                        a ^= gf_mul(*c, syn[j - 1 - q]);
                    }
                    a
                } else {
                    rng.byte()
                };
                syn.push(val);
            }
            let p = word_with_syndromes(&syn);
            let idx0 = block_indices(&g, 0);
            let mut wz = if rng.chance(1, 2) { vec![0u8; g.total] } else { codeword(&mut rng, si, false) };
            for (d, c) in p.iter().enumerate() {
                wz[idx0[idx0.len() - 1 - d]] ^= *c;
            }
            emit_any(out, &mut hist, si, &wz, "crafted_syndromes");
        }
        // the syndromes of v < t genuine errors in which exactly ONE of the recurrences
        //   S_{j+v} = a_{v-1} S_{j+v-1} + ... + a_0 S_j      (x^v + a_{v-1} x^{v-1} + ... + a_0 = prod (x - X_i))
        // is violated: genuine up to index j0+v-1, S_{j0+v} off by a non-zero amount, and from there on continued
        // by the recurrence itself. The locator of the v errors explains every window of v+1 syndromes but the one
        // starting at j0; the locator search is responsible for j0 = v .. t-1, the malfunction test for
        // j0 = t .. k-v-1. Whoever skips one window returns Ok with a word that is not a codeword.
        {
            let mut n_dev = 0usize;
            for &si in &[1usize, 2, 3, 4, 5, 8, 9, 12, 24, 25, 38] {
                let g = geom(si);
                let (k, t) = (g.k, g.k / 2);
                if t < 2 {
                    continue;
                }
                let reps = if thorough { 600 } else { 90 };
                for r in 0..reps {
                    let b = rng.below(g.blocks);
                    let idx = block_indices(&g, b);
                    let n = idx.len();
                    let v = if r % 3 == 0 { 1 } else { 1 + rng.below(t - 1) };
                    if k < 2 * v + 1 {
                        continue;
                    }
                    let mut used = std::collections::BTreeSet::new();
                    while used.len() < v {
                        used.insert(rng.below(n));
                    }
                    let errs: Vec<(usize, u8)> = used.into_iter().map(|p| (p, 1 + rng.below(255) as u8)).collect();
                    // characteristic polynomial prod (x + X_i), a[d] = coefficient of x^d, a[v] = 1
                    let mut a = vec![1u8];
                    for (p, _) in &errs {
                        let x = gf_pow2(n - 1 - p);
                        let mut next = vec![0u8; a.len() + 1];
                        for (d, c) in a.iter().enumerate() {
                            next[d + 1] ^= *c;
                            next[d] ^= gf_mul_t(*c, x);
                        }
                        a = next;
                    }
                    let mut syn = syndromes_of(&errs, n, k);
                    // window start j0 in v .. k-v-1
                    let j0 = match r % 6 {
                        0 => t - 1,
                        1 => t,
                        2 => k - v - 1,
                        3 => v,
                        _ => v + rng.below(k - 2 * v),
                    }
                    .clamp(v.min(k - v - 1), k - v - 1);
                    let delta = 1 + rng.below(255) as u8;
                    for j in j0..k - v {
                        let mut rec = 0u8;
                        for i in 0..v {
                            rec ^= gf_mul_t(a[i], syn[j + i]);
                        }
                        syn[j + v] = if j == j0 { rec ^ delta } else { rec };
                    }
                    let p = word_with_syndromes(&syn);
                    let mut wz = if r % 2 == 0 { vec![0u8; g.total] } else { codeword(&mut rng, si, false) };
                    for (d, c) in p.iter().enumerate() {
                        wz[idx[n - 1 - d]] ^= *c;
                    }
                    n_dev += 1;
                    emit_any(out, &mut hist, si, &wz, "one_recurrence_off");
                }
            }
            hist.insert("one_recurrence_off_words".into(), n_dev);
        }
        // error patterns with locations outside the (shortened) block: a word whose syndromes are those of
        // v <= t errors at exponents i_1..i_v of which at least one is >= n (the block length). The locator
        // search succeeds, the Chien search finds all roots, and the correction step has to notice that a
        // location lies in front of the block (exactly at x^n, one further, at x^254, anywhere).
        for si in 0..n_sizes {
            let g = geom(si);
            let t = g.k / 2;
            for b in 0..g.blocks {
                let idx = block_indices(&g, b);
                let n = idx.len();
                let mut outside: Vec<usize> = vec![n, n + 1, 254, n + (254 - n) / 2];
                for _ in 0..(if thorough { 12 } else { 2 }) {
                    outside.push(n + rng.below(255 - n));
                }
                for (q, &io) in outside.iter().enumerate() {
                    if io > 254 {
                        continue;
                    }
                    // number of additional in-range errors
                    let extra = match q % 3 { 0 => 0, 1 => rng.below(t), _ => t - 1 };
                    let mut exps = std::collections::BTreeSet::new();
                    exps.insert(io);
                    if q % 4 == 3 && t >= 2 {
                        // two locations outside
                        exps.insert(n + rng.below(255 - n));
                    }
                    while exps.len() < (1 + extra).min(t) {
                        exps.insert(rng.below(n));
                    }
                    let locs: Vec<(u8, u8)> = exps.iter().map(|&i| (gf_pow2(i), 1 + rng.below(255) as u8)).collect();
                    let syn: Vec<u8> = (0..g.k)
                        .map(|j| {
                            let mut s = 0u8;
                            for (x, y) in &locs {
                                let mut p = *y;
                                for _ in 0..=j {
                                    p = gf_mul(p, *x);
                                }
                                s ^= p;
                            }
                            s
                        })
                        .collect();
                    let p = word_with_syndromes(&syn);
                    let mut wz = if q % 2 == 0 { vec![0u8; g.total] } else { codeword(&mut rng, si, false) };
                    for (d, c) in p.iter().enumerate() {
                        wz[idx[n - 1 - d]] ^= *c;
                    }
                    emit_any(out, &mut hist, si, &wz, "virtual_location");
                }
            }
        }
        // small sizes: many random words (the chance of a miscorrection is highest there)
        for _ in 0..(if thorough { 300000 } else { 20000 }) {
            let si = *rng.pick(&[0usize, 1, 2, 3, 4, 8, 24]);
            let g = geom(si);
            let z: Vec<u8> = (0..g.total).map(|_| rng.byte()).collect();
            emit_any(out, &mut hist, si, &z, "random_small");
        }
    }
    for (k, v) in &hist {
        writeln!(out, "# {} {}", k, v).unwrap();
    }
}
