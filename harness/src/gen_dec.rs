//! Decoder-side sweeps: C05 (data decoder totality), C15 (ECI), C14 (string API), C04 (streams
//! produced by the Lean reference builder).
use crate::enc::*;
use crate::util::*;
use datamatrix::data::{self, DataDecodingError};
use datamatrix::{verif_hooks as vh, DataMatrixBuilder, SymbolList};
use std::collections::BTreeMap;
use std::io::Write;

pub fn derr(e: &DataDecodingError) -> String {
    match e {
        DataDecodingError::UnexpectedCharacter(_, c) => format!("err:UnexpectedCharacter:{}", c),
        DataDecodingError::NotImplemented(_) => "err:NotImplemented".into(),
        DataDecodingError::UnexpectedEnd => "err:UnexpectedEnd".into(),
        DataDecodingError::CharsetError => "err:CharsetError".into(),
        DataDecodingError::ECICode => "err:ECICode".into(),
    }
}

pub fn ddata(cw: &[u8]) -> String {
    let c = cw.to_vec();
    match guarded(move || data::decode_data(&c)) {
        Ok(Ok(v)) => format!("ok:{}", hex(&v)),
        Ok(Err(e)) => derr(&e),
        Err(_) => "panic".into(),
    }
}

pub fn dstr(cw: &[u8]) -> String {
    let c = cw.to_vec();
    match guarded(move || data::decode_str(&c)) {
        Ok(Ok(s)) => format!("ok:{}", hex(s.as_bytes())),
        Ok(Err(e)) => derr(&e),
        Err(_) => "panic".into(),
    }
}

fn reci(cw: &[u8]) -> String {
    let c = cw.to_vec();
    match guarded(move || vh::decodation::read_eci(&c)) {
        Ok(Ok((used, eci))) => format!("ok:{}:{}", used, eci),
        Ok(Err(e)) => derr(&e),
        Err(_) => "panic".into(),
    }
}

fn emit(out: &mut dyn Write, hist: &mut BTreeMap<String, usize>, cw: &[u8], also_str: bool) {
    let a = ddata(cw);
    let kind = a.split(':').take(2).collect::<Vec<_>>().join(":");
    *hist.entry(format!("ddata_{}", if a.starts_with("ok") { "ok".to_string() } else { kind })).or_insert(0) += 1;
    writeln!(out, "M ddata {} => {}", hex(cw), a).unwrap();
    if a == "panic" {
        writeln!(out, "O oracle fail:panic:decode_data:{} => ok", hex(cw)).unwrap();
    }
    if also_str {
        let b = dstr(cw);
        writeln!(out, "M dstr {} => {}", hex(cw), b).unwrap();
        if b == "panic" {
            writeln!(out, "O oracle fail:panic:decode_str:{} => ok", hex(cw)).unwrap();
        }
    }
}

/// a valid stream from the real encoder
fn valid_stream(rng: &mut Rng, hist: &mut BTreeMap<String, usize>) -> Vec<u8> {
    loop {
        let len = gen_len(rng).min(120);
        let d = gen_data(rng, len, hist);
        let modes = gen_modes(rng) | 1;
        let eci = if rng.chance(1, 6) { Some(*rng.pick(&[0u32, 3, 11, 13, 26, 27, 127, 16383, 999999])) } else { None };
        let r = guarded(move || {
            DataMatrixBuilder::new()
                .with_encodation_types(modes_from_bits(modes))
                .with_symbol_list(SymbolList::all())
                .encode_eci(&d, eci)
        });
        if let Ok(Ok(dm)) = r {
            return dm.data_codewords().to_vec();
        }
    }
}

fn mutate(rng: &mut Rng, cw: &mut Vec<u8>) -> &'static str {
    let special = [0u8, 1, 128, 129, 130, 229, 230, 231, 232, 233, 234, 235, 236, 237, 238, 239, 240, 241, 242, 253, 254, 255];
    if cw.is_empty() {
        cw.push(rng.byte());
        return "push";
    }
    let i = rng.below(cw.len());
    match rng.below(12) {
        0 => { cw[i] = rng.byte(); "random_byte" }
        1 => { cw[i] = *rng.pick(&special); "special_byte" }
        2 => { cw.truncate(i); "truncate" }
        3 => { cw.insert(i, *rng.pick(&special)); "insert_special" }
        4 => { cw[i] = 0; if i + 1 < cw.len() { cw[i + 1] = 0; } "pair_00" }
        5 => { cw[i] = 255; if i + 1 < cw.len() { cw[i + 1] = 255; } "pair_ff" }
        6 => { cw.insert(i, 241); cw.insert(i + 1, *rng.pick(&[0u8, 1, 127, 128, 191, 192, 207, 208, 255])); cw.insert(i + 2, *rng.pick(&[0u8, 1, 254, 255])); cw.insert(i + 3, *rng.pick(&[0u8, 1, 254, 255])); "eci_designator" }
        7 => { cw.push(235); "upper_shift_at_end" }
        8 => { let l = *rng.pick(&[230u8, 231, 238, 239, 240]); cw.insert(i, l); "insert_latch" }
        9 => { cw.insert(i, 254); "insert_unlatch" }
        10 => { cw.push(rng.byte()); "append" }
        _ => { let j = rng.below(cw.len()); cw.swap(i, j); "swap" }
    }
}

pub fn gen_c05(out: &mut dyn Write, seed: u64, thorough: bool) {
    let mut rng = Rng::new(seed ^ 0xC05);
    let mut hist: BTreeMap<String, usize> = BTreeMap::new();
    // past failures first
    for cw in [vec![241u8, 192, 1, 0], vec![230, 0, 0], vec![238, 0, 0], vec![239, 0, 0], vec![241, 12, 235, 0x61], vec![241, 14, 235, 0x7c]] {
        emit(out, &mut hist, &cw, true);
    }
    // exhaustive: all streams of length <= 2
    emit(out, &mut hist, &[], true);
    for a in 0..=255u8 {
        emit(out, &mut hist, &[a], true);
    }
    for a in 0..=255u8 {
        for b in 0..=255u8 {
            emit(out, &mut hist, &[a, b], false);
        }
    }
    hist.insert("exhaustive_len_le_2".into(), 65793);
    // every latch / header followed by interesting triples
    let interesting = [0u8, 1, 2, 30, 31, 32, 39, 40, 100, 128, 129, 230, 235, 241, 253, 254, 255];
    for l in [230u8, 231, 235, 236, 237, 238, 239, 240, 241, 232] {
        for a in interesting {
            for b in interesting {
                for c in interesting {
                    emit(out, &mut hist, &[l, a, b, c], true);
                }
            }
        }
    }
    // ECI 11 / 13 / 3 / 26 / 27 followed by every byte in ASCII encodation
    for e in [3u8, 11, 13, 26, 27, 0, 4, 30, 100] {
        for b in 0..=255u8 {
            let mut cw = vec![241, e + 1];
            if b < 128 { cw.push(b + 1) } else { cw.push(235); cw.push(b - 127) }
            emit(out, &mut hist, &cw, true);
        }
    }
    // Base 256 fields with one- and two-codeword length (and length 0 = to the end), built here with an
    // independent 255-state randomisation, complete and cut short by 1..6 codewords and at random places,
    // with a declared length one too large / too small, followed by padding or an ASCII codeword
    {
        let rand255 = |v: u8, pos1: usize| -> u8 { ((v as usize + (149 * pos1) % 255 + 1) % 256) as u8 };
        let mut n_b256 = 0usize;
        for n in [0usize, 1, 2, 3, 248, 249, 250, 251, 252, 300, 499, 500, 501, 749, 750, 1000, 1554, 1555] {
            for prefix in [&[][..], &[66u8][..], &[142u8, 66][..]] {
                for form in 0..4usize {
                    // 0: exact explicit length, 1: length 0 (to the end), 2: declared length n+1, 3: declared n-1
                    let declared = match form { 0 => n, 1 => 0, 2 => n + 1, _ => n.saturating_sub(1) };
                    if form != 1 && (declared == 0 || declared > 1555) { continue; }
                    let mut field: Vec<u8> = vec![];
                    if declared <= 249 { field.push(declared as u8); } else { field.push((declared / 250 + 249) as u8); field.push((declared % 250) as u8); }
                    field.extend((0..n).map(|i| (i * 7 + 128) as u8));
                    let mut cw: Vec<u8> = prefix.to_vec();
                    cw.push(231);
                    for v in field {
                        let pos1 = cw.len() + 1;
                        cw.push(rand255(v, pos1));
                    }
                    let mut variants: Vec<Vec<u8>> = vec![cw.clone()];
                    for cut in 1..=6usize {
                        if cw.len() > cut { variants.push(cw[..cw.len() - cut].to_vec()); }
                    }
                    for _ in 0..2 {
                        variants.push(cw[..rng.below(cw.len() + 1)].to_vec());
                    }
                    let mut padded = cw.clone();
                    padded.push(129);
                    variants.push(padded);
                    let mut tail = cw.clone();
                    tail.push(66);
                    variants.push(tail);
                    for v in variants {
                        n_b256 += 1;
                        emit(out, &mut hist, &v, n <= 3 || form == 0);
                    }
                }
            }
        }
        hist.insert("base256_field_streams".into(), n_b256);
    }
    // grammar-aware mutations of valid streams
    let n = if thorough { 400000 } else { 30000 };
    for _ in 0..n {
        let mut cw = valid_stream(&mut rng, &mut hist);
        let k = 1 + rng.below(3);
        for _ in 0..k {
            let m = mutate(&mut rng, &mut cw);
            *hist.entry(format!("mut_{}", m)).or_insert(0) += 1;
        }
        emit(out, &mut hist, &cw, true);
    }
    // raw random bytes
    for _ in 0..(if thorough { 400000 } else { 30000 }) {
        let big = rng.chance(1, 10);
        let len = rng.below(if big { 400 } else { 24 });
        let cw: Vec<u8> = (0..len).map(|_| if rng.chance(1, 3) { *rng.pick(&interesting) } else { rng.byte() }).collect();
        emit(out, &mut hist, &cw, true);
    }
    for (k, v) in &hist {
        if !k.starts_with("run_") && !k.starts_with("list_") {
            writeln!(out, "# {} {}", k, v).unwrap();
        }
    }
}

pub fn gen_c15(out: &mut dyn Write, seed: u64, thorough: bool) {
    let mut rng = Rng::new(seed ^ 0xC15);
    // designators written for ECI numbers, read back by the hook and by the model
    let mut ns: Vec<u32> = (0..=20000).collect();
    if thorough {
        ns = (0..=999_999).collect();
    } else {
        ns.extend((20000..=999_999).step_by(97));
        ns.extend([126, 127, 128, 16382, 16383, 16384, 999_998, 999_999]);
        for _ in 0..5000 {
            ns.push(rng.below(1_000_000) as u32);
        }
    }
    let n_eci = ns.len();
    for n in ns {
        let r = guarded(move || DataMatrixBuilder::new().with_symbol_list(SymbolList::all()).encode_eci(b"", Some(n)));
        let ans = match r {
            Ok(Ok(dm)) => {
                let d = dm.data_codewords();
                // 241, designator, then padding: cut at the pad
                let used = if n <= 126 { 2 } else if n <= 16382 { 3 } else { 4 };
                let des = &d[..used.min(d.len())];
                let back = reci(&des[1..]);
                format!("{}:{}", hex(des), back)
            }
            Ok(Err(_)) => "err".into(),
            Err(_) => "panic".into(),
        };
        writeln!(out, "P weci {} => {}", n, ans).unwrap();
    }
    // out of range ECI numbers must not be encodable silently: documented panic
    // reading: all 1- and 2-codeword designators, 3-codeword sampled (thorough: all)
    for a in 0..=255u8 {
        writeln!(out, "P reci {} => {}", hex(&[a]), reci(&[a])).unwrap();
        for b in 0..=255u8 {
            writeln!(out, "P reci {} => {}", hex(&[a, b]), reci(&[a, b])).unwrap();
        }
    }
    let mut n3 = 0usize;
    if thorough {
        for a in 180..=215u8 {
            for b in 0..=255u8 {
                for c in 0..=255u8 {
                    writeln!(out, "P reci {} => {}", hex(&[a, b, c]), reci(&[a, b, c])).unwrap();
                    n3 += 1;
                }
            }
        }
    } else {
        for _ in 0..60000 {
            let a = 185 + rng.below(30) as u8;
            let rb = rng.byte();
            let b = *rng.pick(&[0u8, 1, 2, 100, 253, 254, 255, rb]);
            let rc = rng.byte();
            let c = *rng.pick(&[0u8, 1, 2, 100, 253, 254, 255, rc]);
            writeln!(out, "P reci {} => {}", hex(&[a, b, c]), reci(&[a, b, c])).unwrap();
            n3 += 1;
        }
    }
    // character sets: every byte under every supported ECI through the public string decoder
    for e in [3u8, 11, 13, 26, 27] {
        for b in 0..=255u8 {
            let mut cw = vec![241, e + 1];
            if b < 128 { cw.push(b + 1) } else { cw.push(235); cw.push(b - 127) }
            writeln!(out, "P cs {} {} => {}", e, b, dstr(&cw)).unwrap();
        }
    }
    // default interpretation (no ECI)
    for b in 0..=255u8 {
        let cw = if b < 128 { vec![b + 1] } else { vec![235, b - 127] };
        writeln!(out, "P cs 0 {} => {}", b, dstr(&cw)).unwrap();
    }
    // UTF-8 / ASCII pass-through on multi-byte sequences (valid and invalid)
    let seqs: Vec<Vec<u8>> = vec![
        "é".as_bytes().to_vec(), "€".as_bytes().to_vec(), "🥸".as_bytes().to_vec(), vec![0xC0, 0x80], vec![0xED, 0xA0, 0x80],
        vec![0xF4, 0x90, 0x80, 0x80], vec![0xE2, 0x82], vec![0x80], vec![0xFF], b"plain".to_vec(), vec![0x7F, 0x00, 0x1F],
    ];
    // special scalar values (byte order mark, non-characters, separators, the ends of the planes) at the start,
    // in the middle and at the end of a UTF-8 / ASCII section: "exactly the valid sequences, passed through unchanged"
    let mut seqs = seqs;
    for cp in [0xFEFFu32, 0xFFFE, 0xFFFF, 0x0, 0x7F, 0x80, 0x85, 0xA0, 0xAD, 0x2028, 0x2029, 0x200B, 0xD7FF, 0xE000, 0xFDD0, 0x1FFFE, 0x10FFFF] {
        let c = char::from_u32(cp).unwrap();
        seqs.push(format!("{}abc", c).into_bytes());
        seqs.push(format!("ab{}c", c).into_bytes());
        seqs.push(format!("abc{}", c).into_bytes());
        seqs.push(format!("{}", c).into_bytes());
        seqs.push(format!("{}{}", c, c).into_bytes());
    }
    for e in [26u8, 27] {
        for s in &seqs {
            let mut cw = vec![241, e + 1, 231];
            // Base256 with explicit length, randomised
            let mut body = vec![s.len() as u8];
            body.extend_from_slice(s);
            for (k, b) in body.iter().enumerate() {
                let pos = 3 + k + 1;
                let r = ((149 * pos) % 255 + 1) as u16;
                cw.push(((*b as u16 + r) % 256) as u8);
            }
            writeln!(out, "P dstr {} => {}", hex(&cw), dstr(&cw)).unwrap();
        }
    }
    for s in &seqs {
        if s.len() > 6 || s.iter().any(|b| *b == 0) { continue; }
        // two sections: ASCII text under ECI 3, then the sequence at the start of a later UTF-8 section
        let mut cw = vec![241u8, 4, b'x' + 1, 241, 27];
        for b in s { if *b < 128 { cw.push(*b + 1) } else { cw.push(235); cw.push(*b - 127) } }
        cw.push(b'y' + 1);
        writeln!(out, "P dstr {} => {}", hex(&cw), dstr(&cw)).unwrap();
    }
    for _ in 0..(if thorough { 50000 } else { 5000 }) {
        let e = *rng.pick(&[3u8, 11, 13, 26, 27]);
        let len = 1 + rng.below(6);
        let mut cw = vec![241, e + 1];
        for _ in 0..len {
            let b = if e == 26 && rng.chance(1, 2) { *rng.pick(&[0xC3u8, 0xA9, 0xE2, 0x82, 0xAC, 0xF0, 0x9F, 0xA5, 0xB8, 0x41]) } else { rng.byte() };
            if b < 128 { cw.push(b + 1) } else { cw.push(235); cw.push(b - 127) }
        }
        writeln!(out, "P dstr {} => {}", hex(&cw), dstr(&cw)).unwrap();
    }
    writeln!(out, "# eci_numbers {}", n_eci).unwrap();
    writeln!(out, "# designators_1_2_codewords {}", 256 + 65536).unwrap();
    writeln!(out, "# designators_3_codewords {}", n3).unwrap();
    writeln!(out, "# charset_bytes {}", 6 * 256).unwrap();
}

fn rand_char(rng: &mut Rng) -> char {
    loop {
        let cp = match rng.below(20) {
            0..=7 => 0x20 + rng.below(0x5F) as u32,
            8..=10 => 0xA0 + rng.below(0x60) as u32,
            11 => rng.below(0x20) as u32,
            12 => 0x7F + rng.below(0x21) as u32,
            13..=15 => 0x100 + rng.below(0x2F00) as u32,
            16..=17 => 0x3000 + rng.below(0xD000) as u32,
            _ => 0x10000 + rng.below(0x100000) as u32,
        };
        if let Some(c) = char::from_u32(cp) {
            return c;
        }
    }
}

pub fn gen_c14(out: &mut dyn Write, seed: u64, thorough: bool) {
    let mut rng = Rng::new(seed ^ 0xC14);
    let enc = |s: &str| -> Result<Vec<u8>, String> {
        let s2 = s.to_string();
        match guarded(move || datamatrix::DataMatrix::encode_str(&s2, SymbolList::all())) {
            Ok(Ok(dm)) => Ok(dm.data_codewords().to_vec()),
            Ok(Err(e)) => Err(format!("err:{:?}", e)),
            Err(_) => Err("panic".into()),
        }
    };
    // 1. every scalar value as a one-character string (exhaustive), reported per block of 4096
    let mut block_fail: Option<String> = None;
    let mut n_scalars = 0usize;
    for cp in 0..=0x10FFFFu32 {
        if let Some(c) = char::from_u32(cp) {
            n_scalars += 1;
            let s = c.to_string();
            match enc(&s) {
                Ok(cw) => {
                    let back = dstr(&cw);
                    let want = format!("ok:{}", hex(s.as_bytes()));
                    let latin = (0x20..=0x7E).contains(&cp) || (0xA0..=0xFF).contains(&cp);
                    let has_eci = cw.contains(&241) && cw[0] == 241;
                    if back != want && block_fail.is_none() {
                        block_fail = Some(format!("fail:U+{:04X}:decoded:{}", cp, back));
                    }
                    if latin == has_eci && block_fail.is_none() {
                        block_fail = Some(format!("fail:U+{:04X}:eci-choice", cp));
                    }
                    // full oracle lines for the BMP low range and a sample elsewhere
                    if cp < 0x0400 || cp % 4099 == 0 {
                        writeln!(out, "O strchk {} {} => ok", hex(s.as_bytes()), hex(&cw)).unwrap();
                    }
                }
                Err(e) => {
                    if block_fail.is_none() {
                        block_fail = Some(format!("fail:U+{:04X}:{}", cp, e));
                    }
                }
            }
        }
        if cp % 4096 == 4095 {
            writeln!(out, "O oracle {} => ok", block_fail.take().unwrap_or("ok".into())).unwrap();
        }
    }
    // 1b. special scalar values in context: byte order mark / noncharacters / C0, C1 controls / soft hyphen /
    // the ends of the planes and of the surrogate gap, at the start, in the middle and at the end of Latin-1
    // and non-Latin-1 text, and as the body of a Macro envelope
    {
        let specials: [u32; 22] = [0xFEFF, 0xFFFE, 0xFFFF, 0x0000, 0x0009, 0x000A, 0x001F, 0x007F, 0x0080, 0x009F, 0x00A0, 0x00AD,
            0x00FF, 0x0100, 0x07FF, 0x0800, 0xD7FF, 0xE000, 0xFFFD, 0x10000, 0x10FFFF, 0x0301];
        let mut n_special = 0usize;
        for cp in specials {
            let c = char::from_u32(cp).unwrap();
            let mut strs: Vec<String> = vec![];
            for ctx in ["abc", "äöü", "λμν", "12", ""] {
                strs.push(format!("{}{}", c, ctx));
                strs.push(format!("{}{}", ctx, c));
                let k = ctx.chars().count() / 2;
                let (a, b): (String, String) = (ctx.chars().take(k).collect(), ctx.chars().skip(k).collect());
                strs.push(format!("{}{}{}", a, c, b));
                strs.push(format!("{}{}{}{}", c, ctx, c, c));
            }
            for head in ["[)>\x1E05\x1D", "[)>\x1E06\x1D"] {
                strs.push(format!("{}{}\x1E\x04", head, c));
                strs.push(format!("{}{}AB\x1E\x04", head, c));
                strs.push(format!("{}AB{}\x1E\x04", head, c));
            }
            for st in strs {
                match enc(&st) {
                    Ok(cw) => {
                        // the encoder's stream under the string decoder model, and the crate's own decode_str
                        writeln!(out, "O strchk {} {} => ok", hex(st.as_bytes()), hex(&cw)).unwrap();
                        let back = dstr(&cw);
                        let want = format!("ok:{}", hex(st.as_bytes()));
                        writeln!(out, "O oracle {} => ok", if back == want { "ok".to_string() } else { format!("fail:decode_str:{}:returned:{}", hex(st.as_bytes()), back) }).unwrap();
                    }
                    Err(e) => writeln!(out, "O oracle fail:encode_str:{}:{} => ok", e, hex(st.as_bytes())).unwrap(),
                }
                n_special += 1;
            }
        }
        writeln!(out, "# special_scalar_strings {}", n_special).unwrap();
    }
    // 1c. long strings whose bytes form one Base 256 field at the boundaries of its length forms (249 / 250 bytes,
    // the maximum of 1555 bytes that exactly fills 144x144), on the Latin-1 branch and on the UTF-8 branch
    {
        let mut cases: Vec<String> = vec![];
        for n in [248usize, 249, 250, 251, 252, 500, 1553, 1554, 1555] {
            cases.push("\u{e9}".repeat(n));
            cases.push((0..n).map(|i| ['\u{e9}', '\u{fc}', '\u{df}', '\u{c0}'][i % 4]).collect());
        }
        for n in [123usize, 124, 125, 126, 250, 774, 775, 776] {
            cases.push("\u{3bb}".repeat(n));
        }
        // macro strings whose body itself ends with (or consists of) the trailer / header bytes, Latin-1 and UTF-8 bodies
        for head in ["[)>\x1E05\x1D", "[)>\x1E06\x1D"] {
            for body in ["abc\x1E\x04", "\x1E\x04", "\x1E\x04\x1E\x04", "[)>\x1E05\x1Dx\x1E\x04", "\u{3bb}\x1E\x04", "\u{e9}\x1E\x04", "a\x1E", "\x04", "\u{1F600}z\x1E\x04"] {
                cases.push(format!("{}{}\x1E\x04", head, body));
            }
        }
        for st in cases {
            match enc(&st) {
                Ok(cw) => {
                    writeln!(out, "O strchk {} {} => ok", hex(st.as_bytes()), hex(&cw)).unwrap();
                    let back = dstr(&cw);
                    let want = format!("ok:{}", hex(st.as_bytes()));
                    writeln!(out, "O oracle {} => ok", if back == want { "ok".to_string() } else { format!("fail:decode_str:long-string-{}:returned:{}", st.chars().count(), &back[..back.len().min(60)]) }).unwrap();
                }
                Err(e) => writeln!(out, "O oracle fail:encode_str:{}:long-string-of-{}-chars-{}-bytes => ok", e, st.chars().count(), st.len()).unwrap(),
            }
        }
    }
    // 2. random strings over scalar classes, some in macro shape
    let n = if thorough { 200000 } else { 20000 };
    for _ in 0..n {
        let long = rng.chance(1, 8);
        let len = rng.below(if long { 60 } else { 10 });
        let latin_only = rng.chance(1, 3);
        let mut s: String = (0..len)
            .map(|_| if latin_only { char::from_u32(*rng.pick(&[0x20 + rng.0 as u32 % 0x5F, 0xA0 + (rng.0 >> 8) as u32 % 0x60])).unwrap() } else { rand_char(&mut rng) })
            .collect();
        if rng.chance(1, 4) {
            // macro envelope; half of the bodies are plain alphanumeric text (drives the C40 / Text /
            // EDIFACT end-of-data branches inside the envelope)
            if rng.chance(1, 2) {
                let n = 4 + rng.below(18);
                let class = rng.below(4);
                s = (0..n)
                    .map(|_| match class {
                        0 => (b'a' + rng.below(26) as u8) as char,
                        1 => (b'A' + rng.below(26) as u8) as char,
                        2 => *rng.pick(&['A', 'Z', '0', '9', ' ', '*', '>']),
                        _ => *rng.pick(&['a', 'b', '1', '2', 'Q', ' ', '-']),
                    })
                    .collect();
            }
            let head = if rng.chance(1, 2) { "[)>\x1E05\x1D" } else { "[)>\x1E06\x1D" };
            s = match rng.below(4) {
                0 | 1 => format!("{}{}\x1E\x04", head, s),
                2 => format!("{}{}", head, s),
                _ => format!("{}\x1E\x04", s),
            };
        }
        match enc(&s) {
            Ok(cw) => {
                writeln!(out, "O strchk {} {} => ok", hex(s.as_bytes()), hex(&cw)).unwrap();
                writeln!(out, "O eq ok:{} {} => ok", hex(s.as_bytes()), dstr(&cw)).unwrap();
                writeln!(out, "M dstr {} => {}", hex(&cw), dstr(&cw)).unwrap();
            }
            Err(e) => {
                // too long for the largest symbol is the only legitimate refusal
                let ok = e.contains("TooMuch") && s.len() > 700;
                writeln!(out, "O oracle {} => ok", if ok { "ok".to_string() } else { format!("fail:encode_str:{}:{}", e, hex(s.as_bytes())) }).unwrap();
            }
        }
    }
    // 2b. the string API through the builder with options (mode subsets, symbol lists, macro flag): the same
    // ECI choice, the caller's options untouched (compared with encode_eci on the same builder), round trip
    {
        let n = if thorough { 60000 } else { 6000 };
        let mut n_opt = 0usize;
        for _ in 0..n {
            let len = 1 + rng.below(24);
            let class = rng.below(4);
            let st: String = (0..len)
                .map(|_| match class {
                    0 => char::from_u32(*rng.pick(&[0x20 + rng.0 as u32 % 0x5F, 0xA0 + (rng.0 >> 8) as u32 % 0x60])).unwrap(),
                    1 => char::from_u32(0x4E00 + rng.below(0x5000) as u32).unwrap(),
                    2 => if rng.chance(1, 3) { char::from_u32(0x3040 + rng.below(0xC0) as u32).unwrap() } else { (b'a' + rng.below(26) as u8) as char },
                    _ => rand_char(&mut rng),
                })
                .collect();
            let modes = if rng.chance(1, 4) { 63u8 } else { 1 + rng.below(63) as u8 };
            let all = rng.chance(1, 2);
            let macros = rng.chance(1, 2);
            let mk = move || {
                datamatrix::DataMatrixBuilder::new()
                    .with_encodation_types(modes_from_bits(modes))
                    .with_symbol_list(if all { SymbolList::all() } else { SymbolList::default() })
                    .with_macros(macros)
            };
            let sig = |r: &Result<Result<datamatrix::DataMatrix, datamatrix::data::DataEncodingError>, String>| match r {
                Ok(Ok(dm)) => format!("ok:{}:{}", size_index(dm.size), hex(dm.data_codewords())),
                Ok(Err(e)) => format!("err:{:?}", e),
                Err(_) => "panic".to_string(),
            };
            let s2 = st.clone();
            let got = guarded(move || mk().encode_str(&s2));
            let s3 = st.clone();
            let exp = guarded(move || match data::utf8_to_latin1(&s3) {
                Some(l1) => mk().encode_eci(&l1, None),
                None => mk().encode_eci(s3.as_bytes(), Some(26)),
            });
            n_opt += 1;
            writeln!(out, "O eq {} {} => ok", sig(&exp), sig(&got)).unwrap();
            if let Ok(Ok(dm)) = &got {
                let cw = dm.data_codewords().to_vec();
                writeln!(out, "O strchk {} {} => ok", hex(st.as_bytes()), hex(&cw)).unwrap();
                writeln!(out, "O eq ok:{} {} => ok", hex(st.as_bytes()), dstr(&cw)).unwrap();
            }
        }
        writeln!(out, "# builder_option_strings {}", n_opt).unwrap();
    }
    // 3. the Latin-1 helpers on random byte strings / strings
    for _ in 0..(if thorough { 50000 } else { 5000 }) {
        let len = rng.below(12);
        let b: Vec<u8> = (0..len).map(|_| if rng.chance(1, 12) { rng.byte() } else { *rng.pick(&[0x20 + (rng.0 as u8 % 0x5F), 0xA0 + ((rng.0 >> 9) as u8 % 0x60)]) }).collect();
        let r = data::latin1_to_utf8(&b);
        writeln!(out, "M l2u {} => {}", hex(&b), r.as_ref().map(|s| format!("ok:{}", hex(s.as_bytes()))).unwrap_or("none".into())).unwrap();
        if let Some(s) = r {
            let back = data::utf8_to_latin1(&s);
            writeln!(out, "O eq {} {} => ok", hex(&b), back.map(|v| hex(&v)).unwrap_or("none".into())).unwrap();
        }
        let s: String = (0..len).map(|_| rand_char(&mut rng)).collect();
        let r = data::utf8_to_latin1(&s);
        writeln!(out, "M u2l {} => {}", hex(s.as_bytes()), r.map(|v| format!("ok:{}", hex(&v))).unwrap_or("none".into())).unwrap();
    }
    writeln!(out, "# scalar_values_exhaustive {}", n_scalars).unwrap();
    writeln!(out, "# random_strings {}", n).unwrap();
}

/// C04: streams produced by the Lean reference builder (file named by VERIF_STREAMS, lines
/// "<cwhex> <byteshex> <selfcheck>"); the crate's decoder must return exactly the bytes.
pub fn gen_c04(out: &mut dyn Write, _seed: u64, _thorough: bool) {
    let path = std::env::var("VERIF_STREAMS").expect("VERIF_STREAMS");
    let text = std::fs::read_to_string(path).expect("streams file");
    let mut used = 0usize;
    let mut dropped = 0usize;
    let mut wf = 0usize;
    let mut outside = 0usize;
    let mut hist: BTreeMap<String, usize> = BTreeMap::new();
    for line in text.lines() {
        let parts: Vec<&str> = line.split(' ').collect();
        if parts.len() != 4 {
            continue;
        }
        // fourth field: the script satisfies the hypothesis of the Lean theorem decoder_complete
        if parts[3] == "wf" {
            wf += 1;
        }
        if parts[2] != "ok" {
            dropped += 1;
            if parts[3] == "wf" {
                // the reference decoder disagrees with the builder on a script the theorem covers
                writeln!(out, "O eq ok:{} spec-self-check-failed-on-wf-script => ok", parts[1]).unwrap();
            }
            continue;
        }
        if parts[3] != "wf" {
            outside += 1;
        }
        used += 1;
        let cw = unhex(parts[0]);
        let a = ddata(&cw);
        writeln!(out, "O eq ok:{} {} => ok", parts[1], a).unwrap();
        writeln!(out, "M ddata {} => {}", parts[0], a).unwrap();
        // which latches occur (distribution)
        for (c, name) in [(230u8, "c40"), (231, "base256"), (238, "x12"), (239, "text"), (240, "edifact"), (236, "macro05"), (237, "macro06"), (232, "fnc1")] {
            if cw.contains(&c) {
                *hist.entry(format!("streams_with_{}", name)).or_insert(0) += 1;
            }
        }
        *hist.entry(format!("len_le_{}", match cw.len() { 0..=5 => 5, 6..=12 => 12, 13..=30 => 30, 31..=80 => 80, 81..=300 => 300, _ => 1558 })).or_insert(0) += 1;
    }
    writeln!(out, "# legal_streams {}", used).unwrap();
    writeln!(out, "# dropped_by_spec_self_check {}", dropped).unwrap();
    writeln!(out, "# scripts_satisfying_WFScript {}", wf).unwrap();
    writeln!(out, "# used_streams_outside_WFScript {}", outside).unwrap();
    for (k, v) in &hist {
        writeln!(out, "# {} {}", k, v).unwrap();
    }
}
