import DM.Props.C12
