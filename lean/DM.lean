import DM.Props.C12
import DM.Props.C06
import DM.Props.C07
import DM.Props.C08
import DM.Props.C17
import DM.Props.C15
import DM.Props.C05
