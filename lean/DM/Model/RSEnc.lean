import DM.Model.GF
import DM.Model.Symbol
/-
Model of `errorcode/mod.rs`: `generator`, `ecc_block`, `encode_error`.
-/
namespace DM.Model
open DM.Gen

/-- `generator(len)`: first polynomial with `len + 1` coefficients; `none` = the `expect` panic. -/
def generator (k : Nat) : Option (List Nat) := generators.find? fun g => g.length - 1 == k

/-- one iteration of the loop in `ecc_block` (the register without its constant last cell) -/
def eccStep (gt : List Nat) (ecc : List Nat) (a : Nat) : List Nat :=
  let f := gadd (ecc.headD 0) a
  List.zipWith (fun e gj => gadd e (gmul f gj)) (ecc.tail ++ [0]) gt

/-- `ecc_block`: the first `k` cells of the register after all data was shifted in. -/
def eccBlock (g : List Nat) (data : List Nat) : List Nat :=
  data.foldl (eccStep g.tail) (List.replicate (g.length - 1) 0)

/-- `(start..l.len()).step_by(stride).map(|i| l[i])` -/
def strided (l : List Nat) (start stride : Nat) : List Nat :=
  (List.range ((l.length - start + stride - 1) / stride)).map fun m => l.getD (start + m * stride) 0

inductive EncErr where
  | wrongLength
  | noGenerator
  deriving DecidableEq, Repr

/-- `encode_error`; both errors are panics in the crate. -/
def encodeError (s : Sym) (data : List Nat) : Except EncErr (List Nat) :=
  let r := row s
  if data.length ≠ r.dataCw then .error .wrongLength else
  match generator r.eccPer with
  | none => .error .noGenerator
  | some g =>
    let eccs := (List.range r.blocks).map fun b => eccBlock g (strided data b r.blocks)
    .ok ((List.range (r.eccPer * r.blocks)).map fun j => (eccs.getD (j % r.blocks) []).getD (j / r.blocks) 0)

end DM.Model
