/-
Model of `GenericDataEncoder::write_eci` (`encodation/mod.rs`).
-/
namespace DM.Model

/-- `write_eci(c)`: the codewords pushed; `none` = `panic!("illegal ECI code …")` -/
def writeEci (c : Nat) : Option (List Nat) :=
  if c ≤ 126 then some [241, (c + 1) % 256]
  else if c ≤ 16382 then
    let c := c - 127
    some [241, (c / 254 + 128) % 256, (c % 254 + 1) % 256]
  else if c ≤ 999999 then
    let c := c - 16383
    some [241, (c / 64516 + 192) % 256, ((c / 254) % 254 + 1) % 256, (c % 254 + 1) % 256]
  else none

end DM.Model
