import DM.Model.Finder
import DM.Model.Placement
/-
Array-backed implementations for compiled code (the driver), each proved equal to the
list-based model definition and installed with `@[csimp]`. The kernel never sees them.
-/
namespace DM.Model

def tryFromBitsFast (bits : List Bool) (width : Nat) : Except ConvErr (List Bool × Sym) :=
  if width = 0 then .error .zeroWidth
  else if bits.length % width ≠ 0 then .error .dataSize
  else
    match sizeByDims width (bits.length / width) with
    | none => .error .symbolSize
    | some s =>
      let arr := bits.toArray
      if !(alignChecks s).all (fun q => arr.getD q.1 false == q.2) then .error .alignment
      else
        let entries := (takes s).map fun p => arr.getD p false
        let earr := entries.toArray
        if !(padChecks s).all (fun q => earr.getD q.1 false == q.2) then .error .padding
        else .ok (entries, s)

@[csimp] theorem tryFromBits_eq_fast : @tryFromBits = @tryFromBitsFast := by
  funext bits width
  unfold tryFromBits tryFromBitsFast
  simp only [toArray_getD]
  rfl

def readCodewordsFast (entries : List Bool) (layout : List (List Nat)) : List Nat :=
  let arr := entries.toArray
  layout.map fun idxs =>
    idxs.foldl (fun c i => (c * 2 % 256) ||| (if arr.getD i false then 1 else 0)) 0

@[csimp] theorem readCodewords_eq_fast : @readCodewords = @readCodewordsFast := by
  funext entries layout
  unfold readCodewords readCodewordsFast readCodeword
  simp only [toArray_getD]

end DM.Model
