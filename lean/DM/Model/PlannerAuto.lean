import DM.Model.Planner
/-!
The planner model with its own sort: `Plan.optimize` takes, for every call of `remove_hopeless_cases`, the
permutation the implementation's `sort_unstable_by_key` produced. Here the permutations are computed by a stable
insertion sort of the candidate costs, which gives an *independent* run of the planner model (equal-cost plans may
be ordered differently from the implementation, every other step is the same). Used only by the driver, as the
reference in the search for a failing input when the planner correspondence is broken (C10): the plan it
returns is run through the encoder model and the reference decoder, so every report carries a valid stream.
-/
namespace DM.Model.Plan

def insIdx (costs : Array Nat) (i : Nat) : List Nat → List Nat
  | [] => [i]
  | j :: t => if costs[i]! < costs[j]! then i :: j :: t else j :: insIdx costs i t

/-- stable sort of the candidate indices by cost -/
def sortPerm (cands : List GPlan) : List Nat :=
  let costs := (cands.map GPlan.cost).toArray
  (List.range cands.length).foldl (fun acc i => insIdx costs i acc) []

def autoPerms (data : List Nat) (written modes : Nat) : Nat → Nat → List GPlan → List (List Nat) → List (List Nat)
  | 0, _, _, acc => acc.reverse
  | f + 1, it, plans, acc =>
    if data.length < it then acc.reverse else
    match iteratePlans (data.length - it) (it == 0) modes plans [] 0 false with
    | .error _ => acc.reverse
    | .ok (cands, _, atEnd) =>
      let perm := sortPerm cands
      match removeHopelessPlans cands perm with
      | .error _ => (perm :: acc).reverse
      | .ok live =>
        if live.isEmpty || atEnd then (perm :: acc).reverse
        else autoPerms data written modes f (it + 1) live (perm :: acc)

def permsFor (data : List Nat) (written : Nat) (list : List Sym) (modes : Nat) : List (List Nat) :=
  let ctx : Ctx := { data, pos := 0, written, list }
  let start : GPlan := { extra := 0, switches := [(data.length, .ascii)], plan := newPlan .ascii ctx }
  if enabledMode modes .ascii then autoPerms data written modes (data.length + 3) 0 [start] []
  else match start.addSwitches data.length true modes with
    | .error _ => []
    | .ok (sw, _) => autoPerms data written modes (data.length + 3) (if data.isEmpty then 0 else 1) sw []

/-- the planner model run with its own stable sort -/
def optimizeAuto (data : List Nat) (written : Nat) (list : List Sym) (modes : Nat) : R Outcome :=
  optimize data written list modes (permsFor data written list modes)

end DM.Model.Plan
