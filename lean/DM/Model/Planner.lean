import DM.Model.Symbol
import DM.Model.Encode
/-
Model of the mode planner (`encodation/planner/*.rs`): `Frac`, the six per-mode plans
(`AsciiPlan`, `C40LikePlan` for C40 and Text, `X12Plan`, `EdifactPlan`, `Base256Plan`),
`GenericPlan` with `add_switches`, `remove_hopeless_cases` and `optimize`.

Costs are `Frac` numerators (twelfths of a codeword). The order in which
`sort_unstable_by_key` leaves plans of equal cost is not modelled: `optimize` takes, for every
call of `remove_hopeless_cases`, the permutation the implementation produced (logged by the
hook) and checks that it sorts the model's own candidate list by cost.

Panic sites (`assert!`, `unwrap`, `usize` underflow, `Frac` debug assertions) are explicit.
-/
namespace DM.Model.Plan
open DM.Model.Enc (EMode isDigit asciiSize)

inductive PErr where
  | panic (site : String)
  | badPerm
  | fuel
  deriving Repr, DecidableEq

abbrev R := Except PErr

/-- `Context`: position in the data, codewords written so far -/
structure Ctx where
  data : List Nat
  pos : Nat
  written : Nat
  list : List Sym
  deriving Repr

def Ctx.rest (c : Ctx) : List Nat := c.data.drop c.pos
def Ctx.hasMore (c : Ctx) : Bool := c.pos < c.data.length
def Ctx.charsLeft (c : Ctx) : Nat := c.data.length - c.pos
def Ctx.write (c : Ctx) (n : Nat) : Ctx := { c with written := c.written + n }
def Ctx.eat (c : Ctx) : Ctx := { c with pos := c.pos + 1 }
def Ctx.peek (c : Ctx) : Nat := c.data.getD c.pos 0
/-- `symbol_size_left(extra)` -/
def Ctx.sizeLeft (c : Ctx) (extra : Nat) : Option Nat :=
  match firstBigEnough c.list (c.written + extra) with
  | some s => some (dataCw s - (c.written + extra))
  | none => none

/-- `Frac::ceil` on numerators -/
def ceil12 (c : Nat) : Nat := if c % 12 = 0 then c else c + (12 - c % 12)

/-- `Frac::new(num, denum)`; the `debug_assert!(denum > 0 && DENUM % denum == 0)` -/
def frac (num denum : Nat) : R Nat :=
  if denum = 0 ∨ 12 % denum ≠ 0 then .error (.panic "Frac: bad denominator") else .ok (num * (12 / denum))

structure StepResult where
  «end» : Bool
  unbeatable : Bool

/-! ### per-mode plans -/

structure AsciiP where
  ctx : Ctx
  digitsAhead : Nat
  cost : Nat
  deriving Repr

structure C40P where
  ctx : Ctx
  text : Bool
  values : Nat
  unbeatableReads : Nat
  ch : Nat
  twoDigitAsciiEnd : Bool
  cost : Nat
  deriving Repr

structure X12P where
  ctx : Ctx
  values : Nat
  asciiEnd : Option Nat
  cost : Nat
  deriving Repr

structure EdiP where
  ctx : Ctx
  written : Nat
  asciiEnd : Option Nat
  cost : Nat
  deriving Repr

structure B256P where
  ctx : Ctx
  written : Nat
  cost : Nat
  deriving Repr

inductive PlanImpl where
  | ascii (p : AsciiP)
  | c40 (p : C40P)       -- C40 and Text
  | x12 (p : X12P)
  | edifact (p : EdiP)
  | base256 (p : B256P)
  deriving Repr

def PlanImpl.mode : PlanImpl → EMode
  | .ascii _ => .ascii
  | .c40 p => if p.text then .text else .c40
  | .x12 _ => .x12
  | .edifact _ => .edifact
  | .base256 _ => .base256

/-- `EncodationType::index()` -/
def modeIndex : EMode → Nat
  | .ascii => 0 | .base256 => 1 | .edifact => 2 | .x12 => 3 | .c40 => 4 | .text => 5

/-! #### ASCII -/

def asciiStep (p : AsciiP) : R (AsciiP × StepResult) :=
  let p :=
    if p.digitsAhead = 0 then
      let digits := (p.ctx.rest.takeWhile isDigit).length
      let ahead := (digits / 2) * 2
      { p with digitsAhead := ahead, ctx := p.ctx.write (ahead / 2) }
    else p
  let unbeatable := p.digitsAhead > 0
  let end_ := !p.ctx.hasMore
  if end_ then .ok (p, { «end» := end_, unbeatable })
  else
    let ch := p.ctx.peek
    let ctx := p.ctx.eat
    if p.digitsAhead > 0 then
      if !isDigit ch then .error (.panic "assert ch.is_ascii_digit()")
      else .ok ({ p with ctx := ctx, digitsAhead := p.digitsAhead - 1, cost := p.cost + 6 }, { «end» := end_, unbeatable })
    else if ch ≤ 127 then .ok ({ p with ctx := ctx.write 1, cost := p.cost + 12 }, { «end» := end_, unbeatable })
    else .ok ({ p with ctx := ctx.write 2, cost := p.cost + 24 }, { «end» := end_, unbeatable })

/-! #### C40 / Text -/

def c40InBase (text : Bool) (ch : Nat) : Bool :=
  ch == 32 || isDigit ch || (if text then (97 ≤ ch && ch ≤ 122) else (65 ≤ ch && ch ≤ 90))

/-- `val_size` -/
def c40ValSize (text : Bool) (ch : Nat) : Nat :=
  let lo := if ch ≥ 128 then ch - 128 else ch
  (if ch ≥ 128 then 2 else 0) + (if c40InBase text lo then 1 else 2)

/-- `unbeatable_strike` -/
def unbeatableStrike (nice : Nat → Bool) (rest : List Nat) : Nat :=
  let rec go : List Nat → Nat → Nat → Nat
    | [], _, reads => reads
    | ch :: t, cd, reads =>
      if !nice ch then reads
      else
        let reads := reads + 1
        if isDigit ch then
          let cd := cd + 1
          if cd = 7 then reads - cd else go t cd reads
        else go t 0 reads
  (go rest 0 0 / 3) * 3

/-- "are the only remaining characters two ascii digits?"; `none` = `symbol_size_left(1)?` -/
def c40TwoDigit (p : C40P) : Option C40P :=
  match p.ctx.rest with
  | [a, b] =>
    if isDigit a && isDigit b then
      match p.ctx.sizeLeft 1 with
      | none => none
      | some spaceLeft =>
        if spaceLeft = 1 then
          some { p with twoDigitAsciiEnd := decide (spaceLeft ≤ 1), unbeatableReads := 2, ctx := p.ctx.write 2 }
        else if spaceLeft = 0 then
          some { p with twoDigitAsciiEnd := decide (spaceLeft ≤ 1), unbeatableReads := 2, ctx := p.ctx.write 1 }
        else some { p with twoDigitAsciiEnd := decide (spaceLeft ≤ 1) }
    else some p
  | _ => some p

/-- "count number of base set characters coming" -/
def c40Strike (p : C40P) : C40P :=
  if !p.twoDigitAsciiEnd then
    let u := unbeatableStrike (c40InBase p.text) p.ctx.rest
    { p with unbeatableReads := u, ctx := p.ctx.write ((u / 3) * 2) }
  else p

/-- the look-ahead at a value boundary (first block of `step`) -/
def c40Init (p : C40P) : Option C40P :=
  if p.values = 0 ∧ p.unbeatableReads = 0 then (c40TwoDigit p).map c40Strike else some p

/-- `while self.values >= 3 { .. }` (at most two rounds: `values ≤ 2 + 4`) -/
def c40Flush (unbeatable : Bool) : Nat → C40P → C40P
  | 0, p => p
  | f + 1, p =>
    if p.values ≥ 3 then
      c40Flush unbeatable f { p with cost := p.cost + 24, ctx := if !unbeatable then p.ctx.write 2 else p.ctx, values := p.values - 3 }
    else p

def c40Step (p : C40P) : Option (C40P × StepResult) :=
  match c40Init p with
  | none => none
  | some p =>
    let unbeatable := p.unbeatableReads > 0
    let end_ := !p.ctx.hasMore
    if end_ then some (p, { «end» := end_, unbeatable })
    else
      let ch := p.ctx.peek
      let p := { p with ch := ch, ctx := p.ctx.eat }
      let p :=
        if p.unbeatableReads > 0 then
          let p := if !p.twoDigitAsciiEnd ∨ p.values = 0 then { p with values := p.values + 1 } else p
          { p with unbeatableReads := p.unbeatableReads - 1 }
        else { p with values := p.values + c40ValSize p.text ch }
      some (c40Flush unbeatable 3 p, { «end» := end_, unbeatable })

def c40Cost (p : C40P) : Nat :=
  if p.ctx.hasMore then p.cost + 2 * p.values * 4      -- Frac::new(2·values, 3)
  else
    let extra :=
      if p.values = 2 then
        (if (p.ctx.sizeLeft 2).getD 0 = 0 then 2 else 3)
      else if p.values = 1 then
        let spaceLeft := (p.ctx.sizeLeft 1).getD 0
        let asz := asciiSize [p.ch]
        if spaceLeft = 0 then (if asz = 1 then 1 else 1 + asz) else 1 + asz
      else 0
    p.cost + extra * 12

def c40SwitchCost (p : C40P) : Nat := if p.values = 0 then p.cost + 12 else p.cost + 36

def c40Unlatch (p : C40P) : R Ctx :=
  if p.values > 0 then
    if p.values > 2 then .error (.panic "assert values <= 2") else .ok ((p.ctx.write 2).write 1)
  else .ok (p.ctx.write 1)

/-! #### X12 -/

def isNativeX12 (ch : Nat) : Bool := ch == 13 || ch == 42 || ch == 62 || ch == 32 || isDigit ch || (65 ≤ ch && ch ≤ 90)

/-- the end-of-data look-ahead of `X12Plan::step`; `.ok none` = `symbol_size_left(..)?` -/
def x12Init (p : X12P) : R (Option X12P) :=
  if p.values = 0 ∧ p.ctx.charsLeft ≤ 2 ∧ p.asciiEnd.isNone then
    let asz := asciiSize p.ctx.rest
    match frac asz p.ctx.charsLeft with
    | .error e =>
      -- `Frac::new` is reached on every path below that does not return early
      if asz = 1 then
        match p.ctx.sizeLeft asz with
        | none => .ok none
        | some _ => .error e
      else .error e
    | .ok f =>
      if asz = 1 then
        match p.ctx.sizeLeft asz with
        | none => .ok none
        | some spaceLeft =>
          if spaceLeft = 1 then .ok (some { p with cost := p.cost + 12, asciiEnd := some f })
          else if spaceLeft = 0 then .ok (some { p with asciiEnd := some f })
          else .ok (some { p with cost := p.cost + 12, asciiEnd := some f })
      else .ok (some { p with cost := p.cost + 12, asciiEnd := some f })
  else .ok (some p)

/-- `None` of the Rust function = `.ok none` -/
def x12Step (p : X12P) : R (Option (X12P × StepResult)) :=
  let end_ := !p.ctx.hasMore
  if end_ then .ok (some (p, { «end» := end_, unbeatable := p.asciiEnd.isSome }))
  else
    match x12Init p with
    | .error e => .error e
    | .ok none => .ok none
    | .ok (some p) =>
      match p.asciiEnd with
      | none =>
        if !isNativeX12 p.ctx.peek then .ok none
        else
          let p := { p with ctx := p.ctx.eat, cost := p.cost + 8, values := (p.values + 1) % 3 }
          let p := if p.values = 0 then { p with ctx := p.ctx.write 2 } else p
          .ok (some (p, { «end» := end_, unbeatable := p.asciiEnd.isSome }))
      | some portion =>
        let p := { p with ctx := p.ctx.eat, cost := p.cost + portion }
        .ok (some (p, { «end» := end_, unbeatable := p.asciiEnd.isSome }))

def x12Unlatch (p : X12P) : R Ctx :=
  if p.values ≠ 0 then .error (.panic "assert_eq!(values, 0)")
  else if p.asciiEnd.isSome then .error (.panic "assert!(ascii_end.is_none())")
  else .ok (p.ctx.write 1)

/-! #### EDIFACT -/

def ediEncodable (ch : Nat) : Bool := 32 ≤ ch && ch ≤ 94

/-- the end-of-data look-ahead of `EdifactPlan::step` -/
def ediInit (p : EdiP) : R (Option EdiP) :=
  if p.written = 0 ∧ p.ctx.charsLeft ≤ 4 ∧ p.asciiEnd.isNone then
    let asz := asciiSize p.ctx.rest
    if asz ≤ 2 then
      match p.ctx.sizeLeft asz with
      | none => .ok none
      | some spaceLeft =>
        if spaceLeft + asz ≤ 2 then
          match frac asz p.ctx.charsLeft with
          | .error e => .error e
          | .ok f => .ok (some { p with asciiEnd := some f })
        else .ok (some p)
    else .ok (some p)
  else .ok (some p)

def ediStep (p : EdiP) : R (Option (EdiP × StepResult)) :=
  let end_ := !p.ctx.hasMore
  if end_ then .ok (some (p, { «end» := end_, unbeatable := p.asciiEnd.isSome }))
  else
    match ediInit p with
    | .error e => .error e
    | .ok none => .ok none
    | .ok (some p) =>
      match p.asciiEnd with
      | some portion =>
        .ok (some ({ p with ctx := p.ctx.eat, cost := p.cost + portion }, { «end» := end_, unbeatable := true }))
      | none =>
        if !ediEncodable p.ctx.peek then .ok none
        else
          let p := { p with ctx := p.ctx.eat, cost := p.cost + 9, written := (p.written + 1) % 4 }
          let p := if p.written = 0 then { p with ctx := p.ctx.write 3 } else p
          .ok (some (p, { «end» := end_, unbeatable := false }))

def ediSwitchCost (p : EdiP) : Nat := if p.written = 3 then ceil12 p.cost else ceil12 (p.cost + 9)

def ediUnlatch (p : EdiP) : R Ctx :=
  if p.asciiEnd.isSome then .error (.panic "assert!(ascii_end.is_none())")
  else .ok (p.ctx.write (min (p.written + 1) 3))

/-! #### Base 256 -/

def b256New (ctx : Ctx) : B256P := { ctx := ctx.write 1, written := 0, cost := 12 }

def b256Step (p : B256P) : Option (B256P × StepResult) :=
  let end_ := !p.ctx.hasMore
  if end_ then some (p, { «end» := end_, unbeatable := false })
  else
    let p := { p with ctx := p.ctx.eat.write 1, written := p.written + 1, cost := p.cost + 12 }
    if p.written = 1556 then none else some (p, { «end» := end_, unbeatable := false })

def b256Cost (p : B256P) : Nat :=
  if !p.ctx.hasMore then
    let left := (p.ctx.sizeLeft 0).getD 1
    if left > 0 ∧ p.written ≥ 250 then p.cost + 12 else p.cost
  else p.cost

def b256SwitchCost (p : B256P) : Nat := if p.written ≥ 250 then p.cost + 12 else p.cost

def b256Unlatch (p : B256P) : Ctx := if p.written ≥ 250 then p.ctx.write 1 else p.ctx

/-! ### `GenericPlan` -/

structure GPlan where
  extra : Nat
  switches : List (Nat × EMode)
  plan : PlanImpl
  deriving Repr

def GPlan.current (g : GPlan) : EMode := g.plan.mode
def GPlan.startMode (g : GPlan) : EMode := (g.switches.headD (0, .ascii)).2

def GPlan.cost (g : GPlan) : Nat :=
  g.extra + match g.plan with
    | .ascii p => p.cost
    | .c40 p => c40Cost p
    | .x12 p => p.cost
    | .edifact p => p.cost
    | .base256 p => b256Cost p

def GPlan.switchCost (g : GPlan) : Option Nat :=
  match g.plan with
  | .ascii p => some (ceil12 p.cost + g.extra)
  | .c40 p => some (c40SwitchCost p + g.extra)
  | .x12 p => if p.values = 0 then some (p.cost + 12 + g.extra) else none
  | .edifact p => some (ediSwitchCost p + g.extra)
  | .base256 p => some (b256SwitchCost p + g.extra)

/-- `cost_for_switching_to(other)` -/
def GPlan.costForSwitchingTo (g : GPlan) (other : EMode) : Option Nat :=
  if g.current = other then some g.cost
  else match other with
    | .ascii => g.switchCost
    | .base256 => g.switchCost.map (· + 24)
    | _ => g.switchCost.map (· + 12)

def GPlan.unlatch (g : GPlan) : R Ctx :=
  match g.plan with
  | .ascii p => if p.digitsAhead ≠ 0 then .error (.panic "assert_eq!(digits_ahead, 0)") else .ok p.ctx
  | .c40 p => c40Unlatch p
  | .x12 p => x12Unlatch p
  | .edifact p => ediUnlatch p
  | .base256 p => .ok (b256Unlatch p)

/-- `step()`: `.ok none` = the plan cannot continue -/
def GPlan.step (g : GPlan) : R (Option (GPlan × StepResult)) :=
  match g.plan with
  | .ascii p =>
    match asciiStep p with
    | .error e => .error e
    | .ok (p, r) => .ok (some ({ g with plan := .ascii p }, r))
  | .c40 p =>
    match c40Step p with
    | none => .ok none
    | some (p, r) => .ok (some ({ g with plan := .c40 p }, r))
  | .x12 p =>
    match x12Step p with
    | .error e => .error e
    | .ok none => .ok none
    | .ok (some (p, r)) => .ok (some ({ g with plan := .x12 p }, r))
  | .edifact p =>
    match ediStep p with
    | .error e => .error e
    | .ok none => .ok none
    | .ok (some (p, r)) => .ok (some ({ g with plan := .edifact p }, r))
  | .base256 p =>
    match b256Step p with
    | none => .ok none
    | some (p, r) => .ok (some ({ g with plan := .base256 p }, r))

def newPlan (m : EMode) (ctx : Ctx) : PlanImpl :=
  match m with
  | .ascii => .ascii { ctx, digitsAhead := 0, cost := 0 }
  | .c40 => .c40 { ctx, text := false, values := 0, unbeatableReads := 0, ch := 0, twoDigitAsciiEnd := false, cost := 0 }
  | .text => .c40 { ctx, text := true, values := 0, unbeatableReads := 0, ch := 0, twoDigitAsciiEnd := false, cost := 0 }
  | .x12 => .x12 { ctx, values := 0, asciiEnd := none, cost := 0 }
  | .edifact => .edifact { ctx, written := 0, asciiEnd := none, cost := 0 }
  | .base256 => .base256 (b256New ctx)

def modeBit : EMode → Nat
  | .ascii => 1 | .c40 => 2 | .text => 4 | .x12 => 8 | .edifact => 16 | .base256 => 32

def enabledMode (modes : Nat) (m : EMode) : Bool := modes / modeBit m % 2 == 1

def switchTargets : List (EMode × Nat) :=
  [(EMode.ascii, 0), (.base256, 1), (.edifact, 1), (.x12, 1), (.text, 1), (.c40, 1)]

/-- the six `add_switch!` blocks of `add_switches`, in source order -/
def addSwitchesGo (g : GPlan) (restLen : Nat) (asStart : Bool) (modes : Nat) (asciiCost : Nat) (ctx : Ctx) :
    List (EMode × Nat) → List GPlan → Nat → R (List GPlan × Nat)
  | [], acc, n => .ok (acc.reverse, n)
  | (m, costExtra) :: t, acc, n =>
    if g.current ≠ m ∧ enabledMode modes m then
      let switches := if asStart then [(restLen, m)] else g.switches ++ [(restLen, m)]
      let cand : GPlan := { extra := asciiCost + costExtra * 12, switches, plan := newPlan m (ctx.write costExtra) }
      match cand.step with
      | .error e => .error e
      | .ok none => addSwitchesGo g restLen asStart modes asciiCost ctx t acc (n + 1)
      | .ok (some (c, _)) => addSwitchesGo g restLen asStart modes asciiCost ctx t (c :: acc) (n + 1)
    else addSwitchesGo g restLen asStart modes asciiCost ctx t acc n

/-- `add_switches`: returns the new plans (in push order) and the number of `step()` calls -/
def GPlan.addSwitches (g : GPlan) (restLen : Nat) (asStart : Bool) (modes : Nat) : R (List GPlan × Nat) :=
  match g.switchCost with
  | none => .ok ([], 0)
  | some asciiCost =>
    match g.unlatch with
    | .error e => .error e
    | .ok ctx =>
      if asStart ∧ g.switches.length ≠ 1 then
        -- the assertion sits inside the macro: it only fires if some switch is added
        if (switchTargets.any fun t => g.current ≠ t.1 && enabledMode modes t.1) then
          .error (.panic "assert_eq!(self.switches.len(), 1)")
        else .ok ([], 0)
      else addSwitchesGo g restLen asStart modes asciiCost ctx switchTargets [] 0

/-! ### `remove_hopeless_cases` on plans (same algorithm as `DM/Model/Prune.lean`) -/

def dedupPlans : List GPlan → List Nat → List GPlan
  | [], _ => []
  | p :: ps, seen =>
    let k := modeIndex p.startMode * 6 + modeIndex p.current
    if seen.contains k then dedupPlans ps seen else p :: dedupPlans ps (k :: seen)

def dominancePlans (first : GPlan) : List GPlan → List GPlan × Bool
  | [] => ([], false)
  | second :: rest =>
    match first.costForSwitchingTo second.current with
    | some firstCost =>
      let (kept, unc) := dominancePlans first rest
      if firstCost < second.cost then (kept, unc) else (second :: kept, unc)
    | none => (second :: rest, true)

def phase2Plans : Nat → List GPlan → List GPlan → List GPlan
  | 0, pre, l => pre ++ l
  | f + 1, pre, l =>
    match l with
    | first :: rest =>
      if rest.isEmpty then pre ++ l
      else
        let (kept, unc) := dominancePlans first rest
        if unc then phase2Plans f (pre ++ [first]) kept else pre ++ first :: kept
    | [] => pre

/-- apply the logged permutation (position i of the sorted list = index `perm[i]` of the
candidate list) and check that it is a permutation which sorts by cost -/
def applyPerm (cands : List GPlan) (perm : List Nat) : R (List GPlan) :=
  if perm.length ≠ cands.length then .error .badPerm
  else if !(perm.all (· < cands.length)) ∨ !perm.Nodup then .error .badPerm
  else
    let sorted := perm.filterMap fun i => cands[i]?
    let costs := sorted.map GPlan.cost
    if (costs.zip costs.tail).all (fun (a, b) => a ≤ b) then .ok sorted else .error .badPerm

def removeHopelessPlans (cands : List GPlan) (perm : List Nat) : R (List GPlan) :=
  match applyPerm cands perm with
  | .error e => .error e
  | .ok sorted =>
    let l := dedupPlans sorted []
    .ok (phase2Plans l.length [] l)

/-! ### `optimize` -/

structure Outcome where
  plan : Option (List (Nat × EMode))
  cost12 : Nat
  steps : Nat
  maxLive : Nat
  deriving Repr

/-- one pass of the `for mut plan in plans.drain(0..)` loop -/
def iteratePlans (restChars : Nat) (useAsStart : Bool) (modes : Nat) :
    List GPlan → List GPlan → Nat → Bool → R (List GPlan × Nat × Bool)
  | [], acc, steps, atEnd => .ok (acc, steps, atEnd)
  | plan :: rest, acc, steps, atEnd =>
    match plan.step with
    | .error e => .error e
    | .ok none =>
      match plan.addSwitches restChars useAsStart modes with
      | .error e => .error e
      | .ok (sw, n) => iteratePlans restChars useAsStart modes rest (acc ++ sw) (steps + 1 + n) atEnd
    | .ok (some (stepped, result)) =>
      let acc := acc ++ [stepped]
      let r : R (List GPlan × Nat) :=
        if !result.unbeatable ∧ !result.end then plan.addSwitches restChars useAsStart modes else .ok ([], 0)
      match r with
      | .error e => .error e
      | .ok (sw, n) =>
        let atEnd' := atEnd || result.end
        if result.end ≠ atEnd' then .error (.panic "assert_eq!(result.end, at_end)")
        else iteratePlans restChars useAsStart modes rest (acc ++ sw) (steps + 1 + n) atEnd'

def maxIndex (sw : List (Nat × EMode)) : Nat := (sw.map fun e => modeIndex e.2).foldl max 0

/-- `min_by_key`: the first minimum -/
def pickBest : List GPlan → Option GPlan
  | [] => none
  | p :: ps =>
    let key := fun (g : GPlan) => (ceil12 g.cost, maxIndex g.switches, g.switches.length)
    let lt := fun (a b : Nat × Nat × Nat) => a.1 < b.1 || (a.1 == b.1 && (a.2.1 < b.2.1 || (a.2.1 == b.2.1 && a.2.2 < b.2.2)))
    some (ps.foldl (fun best g => if lt (key g) (key best) then g else best) p)

def optLoop (data : List Nat) (written : Nat) (modes : Nat) :
    Nat → Nat → List GPlan → List (List Nat) → Nat → Nat → R Outcome
  | 0, _, _, _, _, _ => .error .fuel
  | f + 1, iteration, plans, perms, steps, maxLive =>
    if data.length < iteration then .error (.panic "data.len() - iteration")
    else
      let restChars := data.length - iteration
      match iteratePlans restChars (iteration == 0) modes plans [] steps false with
      | .error e => .error e
      | .ok (cands, steps, atEnd) =>
        match perms with
        | [] => .error .badPerm
        | perm :: perms =>
          match removeHopelessPlans cands perm with
          | .error e => .error e
          | .ok live =>
            let maxLive := max maxLive live.length
            if live.isEmpty then .ok { plan := none, cost12 := 0, steps, maxLive }
            else if atEnd then
              match pickBest live with
              | none => .error (.panic "min_by_key().unwrap()")
              | some best =>
                let sw := best.switches ++ [(0, best.current)]
                let sw := if written = 0 ∧ sw.head? = some (data.length, EMode.ascii) then sw.tail else sw
                .ok { plan := some sw, cost12 := ceil12 best.cost, steps, maxLive }
            else optLoop data written modes f (iteration + 1) live perms steps maxLive

/-- `optimize(data, written, Ascii, list, enabled)` with the logged sort permutations -/
def optimize (data : List Nat) (written : Nat) (list : List Sym) (modes : Nat) (perms : List (List Nat)) : R Outcome :=
  let ctx : Ctx := { data, pos := 0, written, list }
  let start : GPlan := { extra := 0, switches := [(data.length, .ascii)], plan := newPlan .ascii ctx }
  if enabledMode modes .ascii then
    optLoop data written modes (data.length + 3) 0 [start] perms 0 0
  else
    match start.addSwitches data.length true modes with
    | .error e => .error e
    | .ok (sw, n) => optLoop data written modes (data.length + 3) (if data.isEmpty then 0 else 1) sw perms n 0

end DM.Model.Plan
