import DM.Gen.GF
/-
Model of `errorcode/galois.rs`: GF(256) arithmetic through the LOG / ANTI_LOG tables
(regenerated from the code) exactly as `impl Mul/Div for GF` does it.
-/
namespace DM.Model
open DM.Gen

@[inline] def byteAt (t i : Nat) : Nat := (t >>> (8 * i)) &&& 255

/-- `ANTI_LOG[i]` -/
def alog (i : Nat) : Nat := byteAt ALOGP i
/-- `LOG[a]` -/
def glog (a : Nat) : Nat := byteAt LOGP a

/-- `impl Add for GF` (and `Sub`, `Neg` is the identity). -/
abbrev gadd (a b : Nat) : Nat := a ^^^ b

/-- `impl Mul<GF> for GF`. -/
def gmul (a b : Nat) : Nat :=
  if a = 0 ∨ b = 0 then 0 else alog ((glog a + glog b) % 255)

/-- `impl Div for GF`; `none` is the `assert_ne!(rhs.0, 0)` panic. -/
def gdiv (a b : Nat) : Option Nat :=
  if b = 0 then none
  else if a = 0 then some 0
  else
    let ia := glog a
    let ib := glog b
    some (alog (if ia < ib then ia + 255 - ib else ia - ib))

/-- `GF::primitive_power(i)` for `i : u8` (index 255 is out of bounds: `none`). -/
def primitivePower (i : Nat) : Option Nat := if i < alogLen then some (alog i) else none

/-- `GF::primitive_powers()`: cycle through ANTI_LOG. -/
def primitivePowerCyc (i : Nat) : Nat := alog (i % 255)

/-- `GF::log`; `none` is the `assert!(self != GF(0))` panic. -/
def glogChecked (a : Nat) : Option Nat := if a = 0 then none else some (glog a)

end DM.Model
