import DM.Gen.GF
import DM.Model.Basic
/-
Model of `errorcode/galois.rs`: GF(256) arithmetic through the LOG / ANTI_LOG tables
(regenerated from the code) exactly as `impl Mul/Div for GF` does it.
-/
namespace DM.Model
open DM.Gen

@[inline] def byteAt (t i : Nat) : Nat := (t >>> (8 * i)) &&& 255

/-- `ANTI_LOG[i]` -/
def alog (i : Nat) : Nat := byteAt ALOGP i
/-- `LOG[a]` -/
def glog (a : Nat) : Nat := byteAt LOGP a

/-! ### array-backed table access for compiled code (`@[csimp]`, proved equal) -/

def alogTable : Array Nat := ((List.range 255).map (byteAt ALOGP)).toArray
def glogTable : Array Nat := ((List.range 256).map (byteAt LOGP)).toArray

def alogFast (i : Nat) : Nat := alogTable.getD i 0
def glogFast (a : Nat) : Nat := glogTable.getD a 0

theorem byteAt_zero_of_lt (t n i : Nat) (ht : t < 2 ^ (8 * n)) (hi : n ≤ i) : byteAt t i = 0 := by
  unfold byteAt
  have : t >>> (8 * i) = 0 := by
    rw [Nat.shiftRight_eq_div_pow]
    apply Nat.div_eq_of_lt
    calc t < 2 ^ (8 * n) := ht
      _ ≤ 2 ^ (8 * i) := Nat.pow_le_pow_right (by omega) (by omega)
  rw [this]; rfl

theorem table_getD (t n i : Nat) (ht : t < 2 ^ (8 * n)) :
    (((List.range n).map (byteAt t)).toArray).getD i 0 = byteAt t i := by
  rw [toArray_getD, List.getD_eq_getElem?_getD, List.getElem?_map]
  by_cases hi : i < n
  · rw [List.getElem?_range hi]; rfl
  · have : (List.range n)[i]? = none := by
      rw [List.getElem?_eq_none]; simp; omega
    rw [this]
    simp [byteAt_zero_of_lt t n i ht (by omega)]

theorem ALOGP_lt : ALOGP < 2 ^ (8 * 255) := by decide +kernel
theorem LOGP_lt : LOGP < 2 ^ (8 * 256) := by decide +kernel

@[csimp] theorem alog_eq_fast : @alog = @alogFast := by
  funext i
  unfold alog alogFast alogTable
  exact (table_getD ALOGP 255 i ALOGP_lt).symm

@[csimp] theorem glog_eq_fast : @glog = @glogFast := by
  funext a
  unfold glog glogFast glogTable
  exact (table_getD LOGP 256 a LOGP_lt).symm


/-- `impl Add for GF` (and `Sub`, `Neg` is the identity). -/
abbrev gadd (a b : Nat) : Nat := a ^^^ b

/-- `impl Mul<GF> for GF`. -/
def gmul (a b : Nat) : Nat :=
  if a = 0 ∨ b = 0 then 0 else alog ((glog a + glog b) % 255)

/-- `impl Div for GF`; `none` is the `assert_ne!(rhs.0, 0)` panic. -/
def gdiv (a b : Nat) : Option Nat :=
  if b = 0 then none
  else if a = 0 then some 0
  else
    let ia := glog a
    let ib := glog b
    some (alog (if ia < ib then ia + 255 - ib else ia - ib))

/-- `GF::primitive_power(i)` for `i : u8` (index 255 is out of bounds: `none`). -/
def primitivePower (i : Nat) : Option Nat := if i < alogLen then some (alog i) else none

/-- `GF::primitive_powers()`: cycle through ANTI_LOG. -/
def primitivePowerCyc (i : Nat) : Nat := alog (i % 255)

/-- `GF::log`; `none` is the `assert!(self != GF(0))` panic. -/
def glogChecked (a : Nat) : Option Nat := if a = 0 then none else some (glog a)

end DM.Model
