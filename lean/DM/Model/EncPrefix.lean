import DM.Model.Symbol
import DM.Model.Eci
/-
Model of the parts of `GenericDataEncoder` that run before and after the mode encoders:
`with_size` (FNC1 start), `use_macro_if_possible`, `write_eci`, `add_padding`
(`encodation/mod.rs`). The mode encoders themselves are not modelled here.
-/
namespace DM.Model

def HEAD05 : List Nat := [91, 41, 62, 30, 48, 53, 29]
def HEAD06 : List Nat := [91, 41, 62, 30, 48, 54, 29]
def TRAIL : List Nat := [30, 4]

def endsWith (l s : List Nat) : Bool := s.length ≤ l.length && l.drop (l.length - s.length) == s
def startsWith (l s : List Nat) : Bool := l.take s.length == s

inductive PrefixResult where
  | ok (codewords : List Nat) (body : List Nat)
  | panic        -- `&self.data[head.len()..self.data.len() - MACRO_TRAIL.len()]` out of order
  deriving Repr, DecidableEq

/-- `with_size(data, .., start_with_fnc1)` followed by `use_macro_if_possible()` if `useMacros` -/
def macroPrefix (data : List Nat) (useMacros fnc1 : Bool) : PrefixResult :=
  let cw : List Nat := if fnc1 then [232] else []
  if !useMacros then .ok cw data
  else if !cw.isEmpty || !endsWith data TRAIL then .ok cw data
  else if startsWith data HEAD05 then
    if 7 ≤ data.length - 2 then .ok (cw ++ [236]) ((data.take (data.length - 2)).drop 7) else .panic
  else if startsWith data HEAD06 then
    if 7 ≤ data.length - 2 then .ok (cw ++ [237]) ((data.take (data.length - 2)).drop 7) else .panic
  else .ok cw data

/-- `add_padding(size)` on the codewords written so far; `ascii` = the encoder is in ASCII mode.
`none` = `size.num_data_codewords() - self.codewords.len()` underflows (cannot happen for the size
returned by `symbol_for`). -/
def addPadding (cw : List Nat) (ascii : Bool) (cap : Nat) : Option (List Nat) :=
  if cap < cw.length then none
  else
    let left := cap - cw.length
    if left = 0 then some cw
    else
      let (cw, left) := if !ascii then (cw ++ [254], left - 1) else (cw, left)
      let (cw, left) := if left > 0 then (cw ++ [129], left - 1) else (cw, left)
      some ((List.range left).foldl (fun acc _ =>
        let pos := acc.length + 1
        let tmp := 129 + ((149 * pos) % 253 + 1)
        acc ++ [if tmp ≤ 254 then tmp else tmp - 254]) cw)

end DM.Model
