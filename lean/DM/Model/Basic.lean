/-
Shared helpers of the models.
-/
namespace DM.Model

/-- a sequence of stores `e[p] = v` in order (stores out of range are ignored by `List.set`;
the models only produce in-range stores, see the `…_lt` facts in the proofs) -/
def setAll {α : Type} (e : List α) (as : List (Nat × α)) : List α :=
  as.foldl (fun e q => e.set q.1 q.2) e

/-- array-backed implementation of `setAll` for compiled code -/
def setAllFast {α : Type} (e : List α) (as : List (Nat × α)) : List α :=
  (as.foldl (fun (arr : Array α) q => arr.setIfInBounds q.1 q.2) e.toArray).toList

theorem setAllFast_aux {α : Type} (as : List (Nat × α)) (arr : Array α) :
    (as.foldl (fun (arr : Array α) q => arr.setIfInBounds q.1 q.2) arr).toList
      = as.foldl (fun e q => e.set q.1 q.2) arr.toList := by
  induction as generalizing arr with
  | nil => rfl
  | cons a as ih =>
    simp only [List.foldl_cons]
    rw [ih]
    simp

@[csimp] theorem setAll_eq_fast : @setAll = @setAllFast := by
  funext α e as
  unfold setAll setAllFast
  rw [setAllFast_aux]

end DM.Model

namespace DM.Model

theorem toArray_getD {α : Type} (l : List α) (i : Nat) (d : α) : l.toArray.getD i d = l.getD i d := by
  simp [Array.getD, List.getD_eq_getElem?_getD]
  split <;> simp_all

end DM.Model
