import DM.Gen.Tables
/-
Model of `decodation/mod.rs` (`decode_parts`, the mode decoders, `read_eci`,
`decode_data`) and `decodation/eci.rs` (`convert`, `convert_chunk`).

Every Rust panic site (u8/u16 arithmetic overflow, slice / table indexing, `unwrap`) is an
explicit `.panic` outcome. Codewords are natural numbers below 256.
-/
namespace DM.Model.Dec
open DM.Gen

inductive DErr where
  | unexpectedChar (c : Nat)
  | notImplemented
  | unexpectedEnd
  | charset
  | eciCode
  | panic (site : String)
  | fuel
  deriving Repr, DecidableEq

inductive DMode | ascii | c40 | text | x12 | edifact | base256
  deriving Repr, DecidableEq

/-- decoder state: remaining codewords, number of codewords eaten (`Reader.1`), output, ECI spans -/
structure DSt where
  rest : List Nat
  eaten : Nat
  out : List Nat
  ecis : List (Nat × Nat)
  deriving Repr

abbrev R := Except DErr

/-- u8 addition with overflow check -/
def addU8 (site : String) (a b : Nat) : R Nat :=
  if a + b ≤ 255 then .ok (a + b) else .error (.panic site)

/-- `derandomize_253_state(ch, pos)` -/
def derand253 (ch pos : Nat) : Nat :=
  let r := (149 * pos) % 253 + 1
  if ch ≥ r + 1 then ch - r else ch + 254 - r

/-- `derandomize_255_state(ch, pos)` -/
def derand255 (ch pos : Nat) : Nat :=
  let r := (149 * pos) % 255 + 1
  if ch ≥ r then ch - r else ch + 256 - r

/-- `read_eci`: returns (ECI number, codewords consumed) -/
def readEci : List Nat → R (Nat × Nat)
  | [] => .error .unexpectedEnd
  | c1 :: t =>
    if 1 ≤ c1 ∧ c1 ≤ 127 then .ok (c1 - 1, 1)
    else if 128 ≤ c1 ∧ c1 ≤ 191 then
      match t with
      | [] => .error .unexpectedEnd
      | c2 :: _ =>
        if 1 ≤ c2 ∧ c2 ≤ 254 then .ok ((c1 - 128) * 254 + (c2 - 1) + 127, 2)
        else .error (.unexpectedChar c2)
    else if 192 ≤ c1 ∧ c1 ≤ 207 then
      match t with
      | [] => .error .unexpectedEnd
      | c2 :: t2 =>
        if ¬ (1 ≤ c2 ∧ c2 ≤ 254) then .error (.unexpectedChar c2)
        else match t2 with
          | [] => .error .unexpectedEnd
          | c3 :: _ =>
            if ¬ (1 ≤ c3 ∧ c3 ≤ 254) then .error (.unexpectedChar c3)
            else .ok ((c1 - 192) * 64516 + (c2 - 1) * 254 + (c3 - 1) + 16383, 3)
    else .error (.unexpectedChar c1)

/-- the padding area after the first PAD: every codeword must de-randomise to 129 -/
def checkPads : List Nat → Nat → R Nat
  | [], eaten => .ok eaten
  | ch :: t, eaten =>
    let d := derand253 ch (eaten + 1)
    if d ≠ 129 then .error (.unexpectedChar d) else checkPads t (eaten + 1)

/-- `decode_ascii`: returns the state and the next mode. `skip` counts the designator
codewords of an ECI still to be passed over (`read_eci` returns the advanced reader). -/
def decodeAscii : List Nat → Nat → List Nat → List (Nat × Nat) → Bool → Nat → R (DSt × DMode)
  | [], eaten, out, ecis, upper, skip =>
    if skip ≠ 0 then .error (.panic "read_eci consumed more than available")
    else if upper then .error .unexpectedEnd else .ok ({ rest := [], eaten, out, ecis }, .ascii)
  | ch :: t, eaten, out, ecis, upper, skip =>
    if skip ≠ 0 then decodeAscii t (eaten + 1) out ecis upper (skip - 1)
    else if upper ∧ ¬ (1 ≤ ch ∧ ch ≤ 128) then .error (.unexpectedChar ch)
    else if 1 ≤ ch ∧ ch ≤ 128 then
      if upper then
        match addU8 "ascii upper shift ch + 127" ch 127 with
        | .error e => .error e
        | .ok v => decodeAscii t (eaten + 1) (out ++ [v]) ecis false 0
      else decodeAscii t (eaten + 1) (out ++ [ch - 1]) ecis false 0
    else if ch = 129 then
      match checkPads t (eaten + 1) with
      | .error e => .error e
      | .ok e => .ok ({ rest := [], eaten := e, out, ecis }, .ascii)
    else if 130 ≤ ch ∧ ch ≤ 229 then
      let d := ch - 130
      decodeAscii t (eaten + 1) (out ++ [48 + d / 10, 48 + d % 10]) ecis false 0
    else if ch = 230 then .ok ({ rest := t, eaten := eaten + 1, out, ecis }, .c40)
    else if ch = 231 then .ok ({ rest := t, eaten := eaten + 1, out, ecis }, .base256)
    else if ch = 232 then decodeAscii t (eaten + 1) (out ++ [29]) ecis false 0
    else if ch = 233 then .error .notImplemented
    else if ch = 234 then .error .notImplemented
    else if ch = 235 then decodeAscii t (eaten + 1) out ecis true 0
    else if ch = 238 then .ok ({ rest := t, eaten := eaten + 1, out, ecis }, .x12)
    else if ch = 239 then .ok ({ rest := t, eaten := eaten + 1, out, ecis }, .text)
    else if ch = 240 then .ok ({ rest := t, eaten := eaten + 1, out, ecis }, .edifact)
    else if ch = 241 then
      match readEci t with
      | .error e => .error e
      | .ok (eci, used) => decodeAscii t (eaten + 1) out (ecis ++ [(out.length, eci)]) false used
    else .error (.unexpectedChar ch)

/-- `decode_base256` -/
def decodeBase256 (rest : List Nat) (eaten : Nat) (out : List Nat) : R (List Nat × Nat × List Nat) :=
  match rest with
  | [] => .error .unexpectedEnd
  | c1 :: t =>
    let d1 := derand255 c1 (eaten + 1)
    let hdr : R (Nat × List Nat × Nat) :=
      if d1 = 0 then .ok (t.length, t, eaten + 1)
      else if d1 < 250 then .ok (d1, t, eaten + 1)
      else match t with
        | [] => .error .unexpectedEnd
        | c2 :: t2 => .ok (250 * (d1 - 249) + derand255 c2 (eaten + 2), t2, eaten + 2)
    match hdr with
    | .error e => .error e
    | .ok (len, body, eaten) =>
      if body.length < len then .error .unexpectedEnd
      else
        let bytes := (List.range len).map fun k => derand255 (body.getD k 0) (eaten + k + 1)
        .ok (body.drop len, eaten + len, out ++ bytes)

/-- `dec_edifcat_char` -/
def decEdifactChar (v : Nat) : Nat := if v / 32 % 2 = 1 then v else v + 64

/-- `decode_edifact` -/
def decodeEdifact : Nat → List Nat → Nat → List Nat → List Nat × Nat × List Nat
  | 0, rest, eaten, out => (rest, eaten, out)
  | f + 1, rest, eaten, out =>
    match rest with
    | a :: b :: c :: t =>
      let v1 := a / 4
      if v1 = 31 then (b :: c :: t, eaten + 1, out)
      else
        let out := out ++ [decEdifactChar v1]
        let v2 := (a % 4) * 16 + b / 16
        if v2 = 31 then (c :: t, eaten + 2, out)
        else
          let out := out ++ [decEdifactChar v2]
          let v3 := (b % 16) * 4 + c / 64
          if v3 = 31 then (t, eaten + 3, out)
          else
            let out := out ++ [decEdifactChar v3]
            let v4 := c % 64
            if v4 = 31 then (t, eaten + 3, out)
            else decodeEdifact f t (eaten + 3) (out ++ [decEdifactChar v4])
    | _ => (rest, eaten, out)       -- at most two codewords left: rest is ASCII

/-- `decode_c40_tuple` -/
def c40Tuple (a b : Nat) : Nat × Nat × Nat :=
  let full := (a * 256 + b + 65535) % 65536     -- wrapping subtraction of 1 on u16
  (full / 1600, (full % 1600) / 40, full % 40)

/-- `dec_x12_val` -/
def decX12 (v : Nat) : R Nat :=
  if v = 0 then .ok 13 else if v = 1 then .ok 42 else if v = 2 then .ok 62 else if v = 3 then .ok 32
  else if v ≤ 13 then .ok (48 + (v - 4)) else if v ≤ 39 then .ok (65 + (v - 14))
  else .error (.unexpectedChar v)

/-- `decode_x12` -/
def decodeX12 : List Nat → Nat → List Nat → R (List Nat × Nat × List Nat)
  | a :: b :: t, eaten, out =>
    if a = 254 then
      -- `break`, then the "single UNLATCH at end of data" test after the loop applies as well
      if t.isEmpty ∧ b = 254 then .ok ([], eaten + 2, out) else .ok (b :: t, eaten + 1, out)
    else
      let (c1, c2, c3) := c40Tuple a b
      match decX12 c1, decX12 c2, decX12 c3 with
      | .ok x1, .ok x2, .ok x3 => decodeX12 t (eaten + 2) (out ++ [x1, x2, x3])
      | .error e, _, _ => .error e
      | _, .error e, _ => .error e
      | _, _, .error e => .error e
  | [a], eaten, out => if a = 254 then .ok ([], eaten + 1, out) else .ok ([a], eaten, out)
  | [], eaten, out => .ok ([], eaten, out)

/-- shift / upper-shift state of a C40/Text run -/
structure CSt where
  shift : Nat
  upper : Bool

def tableGet (site : String) (tab : List Nat) (i : Nat) : R Nat :=
  match tab[i]? with
  | some v => .ok v
  | none => .error (.panic site)

/-- one C40/Text value: new state and possibly an output byte -/
def c40Value (base shift3 : List Nat) (st : CSt) (v : Nat) : R (CSt × Option Nat) :=
  let emit (b : Nat) : R (CSt × Option Nat) :=
    if st.upper then
      match addU8 "c40 upper shift + 128" b 128 with
      | .error e => .error e
      | .ok x => .ok ({ shift := 0, upper := false }, some x)
    else .ok ({ shift := 0, upper := false }, some b)
  if st.shift = 0 then
    if v ≤ 2 then .ok ({ st with shift := v + 1 }, none)
    else if v ≤ 39 then
      match tableGet "map_base[ch - 3]" base (v - 3) with
      | .error e => .error e
      | .ok b => emit b
    else .error (.unexpectedChar v)
  else if st.shift = 1 then
    if v ≤ 31 then emit v else .error (.unexpectedChar v)
  else if st.shift = 2 then
    if v ≤ 26 then
      match tableGet "SHIFT2[ch]" shift2 v with
      | .error e => .error e
      | .ok b => emit b
    else if v = 27 then .error .notImplemented
    else if v = 30 then .ok ({ shift := 0, upper := true }, none)
    else .error (.unexpectedChar v)
  else
    if v ≤ 31 then
      match tableGet "map_shift3[ch]" shift3 v with
      | .error e => .error e
      | .ok b => emit b
    else .error (.unexpectedChar v)

def c40Values (base shift3 : List Nat) : List Nat → CSt → List Nat → R (CSt × List Nat)
  | [], st, out => .ok (st, out)
  | v :: vs, st, out =>
    match c40Value base shift3 st v with
    | .error e => .error e
    | .ok (st', some b) => c40Values base shift3 vs st' (out ++ [b])
    | .ok (st', none) => c40Values base shift3 vs st' out

/-- `decode_c40_like` -/
def decodeC40 (base shift3 : List Nat) : List Nat → Nat → List Nat → CSt → R (List Nat × Nat × List Nat)
  | a :: b :: t, eaten, out, st =>
    if a = 254 then
      if t.isEmpty ∧ b = 254 then .ok ([], eaten + 2, out) else .ok (b :: t, eaten + 1, out)
    else
      let (c1, c2, c3) := c40Tuple a b
      match c40Values base shift3 [c1, c2, c3] st out with
      | .error e => .error e
      | .ok (st', out') => decodeC40 base shift3 t (eaten + 2) out' st'
  | [a], eaten, out, _ => if a = 254 then .ok ([], eaten + 1, out) else .ok ([a], eaten, out)
  | [], eaten, out, _ => .ok ([], eaten, out)

/-- the `while !data.is_empty()` loop of `decode_parts` -/
def mainLoop : Nat → DMode → DSt → R DSt
  | 0, _, _ => .error .fuel
  | f + 1, mode, st =>
    if st.rest.isEmpty then .ok st
    else
      match mode with
      | .ascii =>
        match decodeAscii st.rest st.eaten st.out st.ecis false 0 with
        | .error e => .error e
        | .ok (st', m) => mainLoop f m st'
      | .base256 =>
        match decodeBase256 st.rest st.eaten st.out with
        | .error e => .error e
        | .ok (r, e, o) => mainLoop f .ascii { st with rest := r, eaten := e, out := o }
      | .x12 =>
        match decodeX12 st.rest st.eaten st.out with
        | .error e => .error e
        | .ok (r, e, o) => mainLoop f .ascii { st with rest := r, eaten := e, out := o }
      | .edifact =>
        let (r, e, o) := decodeEdifact st.rest.length st.rest st.eaten st.out
        mainLoop f .ascii { st with rest := r, eaten := e, out := o }
      | .c40 =>
        match decodeC40 baseC40 shift3C40 st.rest st.eaten st.out { shift := 0, upper := false } with
        | .error e => .error e
        | .ok (r, e, o) => mainLoop f .ascii { st with rest := r, eaten := e, out := o }
      | .text =>
        match decodeC40 baseText shift3Text st.rest st.eaten st.out { shift := 0, upper := false } with
        | .error e => .error e
        | .ok (r, e, o) => mainLoop f .ascii { st with rest := r, eaten := e, out := o }

def macroHead05 : List Nat := [91, 41, 62, 30, 48, 53, 29]
def macroHead06 : List Nat := [91, 41, 62, 30, 48, 54, 29]
def macroTrail : List Nat := [30, 4]

structure Parts where
  output : List Nat
  ecis : List (Nat × Nat)
  fnc1 : Bool
  deriving Repr

/-- `decode_parts(data, raw)` -/
def decodeParts (data : List Nat) (raw : Bool) : R Parts :=
  let (out0, data1, eaten1, mac) : List Nat × List Nat × Nat × Bool :=
    match data with
    | 236 :: t => (macroHead05, t, 1, true)
    | 237 :: t => (macroHead06, t, 1, true)
    | _ => ([], data, 0, false)
  let ecis0 : List (Nat × Nat) := if !raw && mac then [(0, 26), (out0.length, 0)] else []
  let (fnc1, data2, eaten2) : Bool × List Nat × Nat :=
    match data1 with
    | 232 :: t => (true, t, eaten1 + 1)
    | _ => (false, data1, eaten1)
  match mainLoop (2 * data2.length + 2) .ascii { rest := data2, eaten := eaten2, out := out0, ecis := ecis0 } with
  | .error e => .error e
  | .ok st =>
    if mac then
      let ecis := if st.ecis.isEmpty then st.ecis else st.ecis ++ [(st.out.length, 26)]
      .ok { output := st.out ++ macroTrail, ecis := ecis, fnc1 := fnc1 }
    else .ok { output := st.out, ecis := st.ecis, fnc1 := fnc1 }

/-- `decode_data` -/
def decodeData (data : List Nat) : R (List Nat) :=
  match decodeParts data true with
  | .error e => .error e
  | .ok p => if p.ecis.isEmpty then .ok p.output else .error .eciCode

end DM.Model.Dec

namespace DM.Model.Dec
open DM.Gen

/-- one byte through a regenerated per-byte conversion table
(code point, -1 = CharsetError, anything else = the table saw a panic / other error) -/
def tableChar (tab : List Int) (b : Nat) : R Nat :=
  match tab[b]? with
  | some v => if v ≥ 0 then .ok v.toNat else if v = -1 then .error .charset else .error (.panic "charset table")
  | none => .error (.panic "byte out of table")

def mapChars (tab : List Int) : List Nat → R (List Nat)
  | [] => .ok []
  | b :: t =>
    match tableChar tab b with
    | .error e => .error e
    | .ok c =>
      match mapChars tab t with
      | .error e => .error e
      | .ok cs => .ok (c :: cs)

/-- `core::str::from_utf8`: the code points of a well-formed UTF-8 sequence -/
def utf8Decode (bytes : List Nat) : Option (List Nat) :=
  match String.fromUTF8? (ByteArray.mk (bytes.map fun b => b.toUInt8).toArray) with
  | some s => some (s.toList.map Char.toNat)
  | none => none

/-- `convert_chunk`: code points of one chunk under the given ECI -/
def convertChunk (bytes : List Nat) (eci : Nat) : R (List Nat) :=
  if eci = 0 ∨ eci = 3 then mapChars latin1ToUtf8 bytes
  else if eci = 11 then mapChars csEci11 bytes
  else if eci = 13 then mapChars csEci13 bytes
  else if eci = 26 then
    match utf8Decode bytes with
    | some cps => .ok cps
    | none => .error .charset
  else if eci = 27 then
    if bytes.all (· < 128) then .ok bytes else .error .charset
  else .error .notImplemented

/-- `eci::convert`: `raw[i..j]` for consecutive span starts; out-of-order spans are a slice panic -/
def convertSpans (raw : List Nat) : List (Nat × Nat) → R (List Nat)
  | (i, eci) :: (j, e2) :: rest =>
    if i > j ∨ j > raw.length then .error (.panic "raw[i..j]")
    else
      match convertChunk ((raw.drop i).take (j - i)) eci with
      | .error e => .error e
      | .ok cps =>
        match convertSpans raw ((j, e2) :: rest) with
        | .error e => .error e
        | .ok more => .ok (cps ++ more)
  | _ => .ok []

def convert (raw : List Nat) (ecis : List (Nat × Nat)) : R (List Nat) :=
  convertSpans raw ([(0, 0)] ++ ecis ++ [(raw.length, 0)])

/-- `decode_str`: the code points of the resulting string -/
def decodeStr (data : List Nat) : R (List Nat) :=
  match decodeParts data false with
  | .error e => .error e
  | .ok p => convert p.output p.ecis

end DM.Model.Dec
