import DM.Model.Encode
/-!
The decidable side condition of the planner / encoder coupling theorems (`DM/Lemmas/CoupleMain.lean`,
`DM/Props/C18Couple.lean`), kept in a file of its own without proof imports so that the compiled driver can
evaluate it on every plan the implementation uses (request `planok`).
-/
namespace DM.Model.PlanSide
open DM.Model.Enc

/-- the last two characters of the message are digits and `r ∈ {1, 2}` characters remain: the
situation in which `c40::handle_end` ends the encodation in ASCII whatever the plan says -/
def lateDigits (body : List Nat) (r : Nat) : Bool :=
  (r == 1 || r == 2) && decide (2 ≤ body.length) && isDigit (body.getD (body.length - 2) 0) &&
    isDigit (body.getD (body.length - 1) 0)

/-- the condition on an entry `e` of the plan and the entries `t` after it: a C40 / Text segment is not
ended by a switch at one of the last two positions of a message that ends with two digits — except by
the switch to ASCII exactly two characters before the end, as the last switch of the plan -/
def headOK (body : List Nat) (e : Nat × EMode) (t : List (Nat × EMode)) : Bool :=
  match t with
  | [] => true
  | (r, m') :: t' =>
    !(e.2 == .c40 || e.2 == .text) || !lateDigits body r || (r == 2 && m' == .ascii && t' == [(0, .ascii)])

/-- **The decidable side condition on the returned plan** (`NoLateC40Switch`) -/
def planOK (body : List Nat) : List (Nat × EMode) → Bool
  | [] => true
  | e :: t => headOK body e t && planOK body t

end DM.Model.PlanSide
