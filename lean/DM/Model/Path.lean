/-
Model of `placement/path.rs`: `Bitmap::path()` — the outline of the dark modules as an edge
graph, its decomposition into closed walks (Hierholzer's algorithm with the splice positions and
the "alternatives" bookkeeping of the Rust code), and `compress_path`.

Coordinates are `Int` (the Rust code uses `i16`; a bitmap whose width or height + 1 does not fit
`i16` makes `bits_to_edge_graph` panic by a documented precondition, which is an explicit outcome
here).  `expect("must exist because `pos` was valid")` is an explicit panic outcome; the loops take
fuel (number of edges + 2), running out of it is the outcome `fuel`.

`bitsToEdgeGraphImp` transcribes the loops of `bits_to_edge_graph`; the model uses the closed form
`bitsToEdgeGraph`, proved equal to it for all inputs in `DM/Lemmas/PathGraphImp.lean`
(`bitsToEdgeGraphImp_eq`).  `DM/Props/C17b.lean` proves that `path` never fails and that its
result passes the certified checker (`path_model_ok`).
-/
namespace DM.Model.Path

inductive Dir | up | down | right | left
  deriving DecidableEq, Repr

def Dir.flip : Dir → Dir
  | .up => .down | .down => .up | .right => .left | .left => .right

structure Pos where
  i : Int
  j : Int
  dir : Dir
  deriving Repr

def Pos.endNode (p : Pos) : Int × Int :=
  match p.dir with
  | .up | .left => (p.i, p.j)
  | .down => (p.i + 1, p.j)
  | .right => (p.i, p.j + 1)

def Pos.flip (p : Pos) : Pos := { p with dir := p.dir.flip }
def Pos.startNode (p : Pos) : Int × Int := p.flip.endNode

def Pos.straight (p : Pos) : Pos :=
  match p.dir with
  | .up => { p with i := p.i - 1 }
  | .down => { p with i := p.i + 1 }
  | .right => { p with j := p.j + 1 }
  | .left => { p with j := p.j - 1 }

def Pos.turnLeft (p : Pos) : Pos :=
  match p.dir with
  | .up => { i := p.i, j := p.j - 1, dir := .left }
  | .down => { i := p.i + 1, j := p.j, dir := .right }
  | .right => { i := p.i - 1, j := p.j + 1, dir := .up }
  | .left => { i := p.i, j := p.j, dir := .down }

def Pos.turnRight (p : Pos) : Pos :=
  match p.dir with
  | .up => { i := p.i, j := p.j, dir := .right }
  | .down => { i := p.i + 1, j := p.j - 1, dir := .left }
  | .right => { i := p.i, j := p.j + 1, dir := .down }
  | .left => { i := p.i - 1, j := p.j, dir := .up }

/-- `Graph`: per cell of the (height+1) x (width+1) grid, whether its left / top edge is present -/
structure Graph where
  leftE : Array Bool
  topE : Array Bool
  width : Nat
  height : Nat
  hint : Nat

def Graph.hasCell (g : Graph) (i j : Int) : Bool := 0 ≤ i && i ≤ g.height && 0 ≤ j && j ≤ g.width
def Graph.idx (g : Graph) (i j : Int) : Nat := i.toNat * (g.width + 1) + j.toNat
def Graph.left (g : Graph) (i j : Int) : Bool := g.hasCell i j && g.leftE.getD (g.idx i j) false
def Graph.top (g : Graph) (i j : Int) : Bool := g.hasCell i j && g.topE.getD (g.idx i j) false

def Graph.hasEdge (g : Graph) (p : Pos) : Bool :=
  match p.dir with
  | .left | .right => g.top p.i p.j
  | .up | .down => g.left p.i p.j

def Graph.removeEdge (g : Graph) (p : Pos) : Graph :=
  if g.hasCell p.i p.j then
    match p.dir with
    | .left | .right => { g with topE := g.topE.setIfInBounds (g.idx p.i p.j) false }
    | .up | .down => { g with leftE := g.leftE.setIfInBounds (g.idx p.i p.j) false }
  else g

/-- `follow`: first of straight / left / right that is an edge, and whether there was another -/
def Graph.follow (g : Graph) (p : Pos) : Option Pos × Bool :=
  let c := [p.straight, p.turnLeft, p.turnRight].filter g.hasEdge
  (c.head?, c.length ≥ 2)

def Graph.canStep (g : Graph) (p : Pos) : Option Pos :=
  ([p.straight, p.turnLeft, p.turnRight].filter g.hasEdge).head?

/-- `edge_left`: the first cell at or after the hint that still has an edge -/
def Graph.edgeLeft (g : Graph) : Option Pos × Graph :=
  let n := g.leftE.size
  let rec go (fuel idx : Nat) : Option Nat :=
    match fuel with
    | 0 => none
    | f + 1 => if idx ≥ n then none else if g.leftE.getD idx false || g.topE.getD idx false then some idx else go f (idx + 1)
  match go (n + 1 - g.hint) g.hint with
  | some idx =>
    (some { i := ((idx / (g.width + 1) : Nat) : Int), j := ((idx % (g.width + 1) : Nat) : Int),
            dir := if g.topE.getD idx false then .right else .up }, { g with hint := idx })
  | none => (none, { g with hint := n })

/-- is the module in row `i`, column `j` dark (light outside the `height` x `width` symbol) -/
def darkAt (bits : Array Bool) (width height i j : Nat) : Bool :=
  decide (i < height) && decide (j < width) && bits.getD (i * width + j) false

/-- `bits_to_edge_graph` (without the i16 test), the loops of the Rust code literally;
`bitsToEdgeGraph` below is the closed form that the rest of the model uses -/
def bitsToEdgeGraphImp (bits : Array Bool) (width height : Nat) : Graph := Id.run do
  let n := (width + 1) * (height + 1)
  let mut l := Array.replicate n false
  let mut t := Array.replicate n false
  let mut hint : Option Nat := none
  for i in [0:height] do
    for j in [0:width] do
      let idx := i * width + j
      if bits.getD idx false then
        let cell := i * (width + 1) + j
        if hint.isNone then hint := some cell
        if j == 0 || !bits.getD (idx - 1) false then l := l.setIfInBounds cell true
        if i == 0 || !bits.getD (idx - width) false then t := t.setIfInBounds cell true
        if j == width - 1 || !bits.getD (idx + 1) false then l := l.setIfInBounds (cell + 1) true
        if i == height - 1 || !bits.getD (idx + width) false then t := t.setIfInBounds (cell + (width + 1)) true
  return { leftE := l, topE := t, width := width, height := height, hint := hint.getD n }

/-- `bits_to_edge_graph` in closed form: the left (top) edge of cell (i, j) of the
(height+1) x (width+1) grid is present iff the modules on its two sides differ; the scan hint is
the cell of the first dark module in row-major order -/
def bitsToEdgeGraph (bits : Array Bool) (width height : Nat) : Graph :=
  let n := (width + 1) * (height + 1)
  { leftE := Array.ofFn (n := n) fun k =>
      let i := k.val / (width + 1)
      let j := k.val % (width + 1)
      (decide (0 < j) && darkAt bits width height i (j - 1)) != darkAt bits width height i j
    topE := Array.ofFn (n := n) fun k =>
      let i := k.val / (width + 1)
      let j := k.val % (width + 1)
      (decide (0 < i) && darkAt bits width height (i - 1) j) != darkAt bits width height i j
    width := width
    height := height
    hint :=
      match (List.range (width * height)).find? (fun idx => bits.getD idx false) with
      | some idx => idx / width * (width + 1) + idx % width
      | none => n }

inductive Micro
  | jump (n : Int × Int)
  | step (n : Int × Int)

inductive Seg
  | m (dx dy : Int)
  | h (d : Int)
  | v (d : Int)
  | z
  deriving Repr, DecidableEq

inductive PErr | expect | fuel | overflow
  deriving Repr, DecidableEq

/-- the walk "until we find the start node again" -/
def walk : Nat → Graph → Pos → Int × Int → Nat → List (Nat × Pos) → Array Micro →
    Except PErr (Graph × Pos × Nat × List (Nat × Pos) × Array Micro)
  | 0, _, _, _, _, _, _ => .error .fuel
  | f + 1, g, pos, start, insert, alts, loc =>
    let (np, had) := g.follow pos
    let alts := if had then alts ++ [(insert, pos)] else alts
    match np with
    | none => .error .expect
    | some pos =>
      let g := g.removeEdge pos
      let e := pos.endNode
      let loc := loc.push (.step e)
      if e == start then .ok (g, pos, insert, alts, loc)
      else walk f g pos start (insert + 1) alts loc

/-- splice `loc` into `els` at position `at` -/
def splice (els : Array Micro) (at_ : Nat) (loc : Array Micro) : Array Micro :=
  (els.extract 0 at_) ++ loc ++ (els.extract at_ els.size)

/-- the `'euler` loop: one closed walk, then continue from the first alternative that still has an edge -/
def euler : Nat → Nat → Graph → Pos → Nat → Array Micro → Except PErr (Graph × Array Micro)
  | 0, _, _, _, _, _ => .error .fuel
  | f + 1, wf, g, pos, insert, els =>
    let insertPos := insert
    let g := g.removeEdge pos
    let start := pos.startNode
    let loc : Array Micro := #[.step pos.endNode]
    let insert := insert + 1
    -- the first step may already close the walk only if the edge is a loop, which cannot happen on a grid;
    -- the Rust code does not test it either
    match walk wf g pos start insert [] loc with
    | .error e => .error e
    | .ok (g, _, _, alts, loc) =>
      let els := splice els insertPos loc
      -- `alternatives.drain(..)`: the first alternative from which a step is possible; the rest is dropped
      match alts.findSome? (fun (a : Nat × Pos) => (g.canStep a.2).map fun np => (a.1, np)) with
      | some (idx, np) => euler f wf g np idx els
      | none => .ok (g, els)

/-- the outer loop: a new Eulerian tour for every remaining component -/
def tours : Nat → Nat → Graph → Pos → Nat → Array Micro → Except PErr (Array Micro)
  | 0, _, _, _, _, _ => .error .fuel
  | f + 1, wf, g, pos, insert, els =>
    match euler wf wf g pos insert els with
    | .error e => .error e
    | .ok (g, els) =>
      match g.edgeLeft with
      | (some np, g) =>
        let els := els.push (.jump np.startNode)
        tours f wf g np els.size els
      | (none, _) => .ok els

/-- `compress_path` -/
def compress (ms : List Micro) : List Seg :=
  let rec go (ms : List Micro) (pos : Int × Int) (wip : Option Seg) (acc : Array Seg) : Array Seg :=
    match ms with
    | [] => acc.push .z      -- the pending segment is dropped: `Close` draws it
    | .step (i, j) :: rest =>
      match wip with
      | some (.h m) =>
        if i == pos.1 then go rest (i, j) (some (.h (m + (j - pos.2)))) acc
        else go rest (i, j) (some (.v (i - pos.1))) (acc.push (.h m))
      | some (.v m) =>
        if j == pos.2 then go rest (i, j) (some (.v (m + (i - pos.1)))) acc
        else go rest (i, j) (some (if i == pos.1 then .h (j - pos.2) else .v (i - pos.1))) (acc.push (.v m))
      | other =>
        let acc := match other with | some s => acc.push s | none => acc
        go rest (i, j) (some (if i == pos.1 then .h (j - pos.2) else .v (i - pos.1))) acc
    | .jump (i, j) :: rest =>
      go rest (i, j) none ((acc.push .z).push (.m (j - pos.2) (i - pos.1)))
  (go ms (0, 0) none #[]).toList

/-- `Bitmap::path()` for a bitmap given as row-major bits and width (`width > 0`, `bits.length` a
multiple of it: preconditions of `Bitmap::new`) -/
def path (bits : List Bool) (width : Nat) : Except PErr (List Seg) :=
  let height := if width = 0 then 0 else bits.length / width
  if width + 1 > 32767 ∨ height + 1 > 32767 then .error .overflow else
  let g := bitsToEdgeGraph bits.toArray width height
  match g.edgeLeft with
  | (none, _) => .ok []
  | (some pos, g) =>
    let nEdges := 2 * (width + 1) * (height + 1) + 2
    match tours nEdges nEdges g pos 0 #[] with
    | .error e => .error e
    | .ok els => .ok (compress els.toList)

end DM.Model.Path
