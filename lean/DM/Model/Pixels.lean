/-
Model of `Bitmap::pixels` and `Bitmap::unicode` (`placement.rs`).
-/
namespace DM.Model

/-- `pixels()`: `(i % w, i / w)` for every HIGH bit, in index order -/
def pixels (bits : List Bool) (w : Nat) : List (Nat × Nat) :=
  (bits.zipIdx.filter fun p => p.1).map fun p => (p.2 % w, p.2 / w)

/-- `unicode()`: one character per two rows, one-module border, newline after each line -/
def unicode (bits : List Bool) (w : Nat) : List Char :=
  let height := bits.length / w
  let get := fun (i j : Nat) =>
    if i < 1 ∨ i ≥ 1 + height ∨ j < 1 ∨ j ≥ 1 + w then 0
    else if bits.getD ((i - 1) * w + (j - 1)) false then 1 else 0
  let chars := [' ', '▄', '▀', '█']
  (List.range ((height + 2 + 1) / 2)).flatMap fun r =>
    let i := 2 * r
    ((List.range (w + 2)).map fun j => chars.getD (get i j * 2 + get (i + 1) j) ' ') ++ ['\n']

end DM.Model
