import DM.Model.GF
import DM.Model.Symbol
import DM.Model.RSEnc
/-
Model of `errorcode/decoding/{mod.rs, syndrome_based.rs}`: syndromes
(`primitive_element_evaluation`), Levinson–Durbin locator search, Chien search,
Björck–Pereyra error values, `decode_gen`, `decode`.

Every panic site of the Rust code (slice indexing, `usize` subtraction, division by zero,
`assert!`, `debug_assert!`) is an explicit `.panic` outcome; the model describes the build
with overflow checks and debug assertions.
-/
namespace DM.Model.RS

inductive RErr where
  | tooManyErrors
  | errorsOutsideRange
  | malfunction
  | panic (site : String)
  deriving Repr, DecidableEq

abbrev R := Except RErr

def at' (site : String) (l : List Nat) (i : Nat) : R Nat :=
  match l[i]? with
  | some v => .ok v
  | none => .error (.panic site)

def div' (site : String) (a b : Nat) : R Nat :=
  match gdiv a b with
  | some v => .ok v
  | none => .error (.panic site)

def sub' (site : String) (a b : Nat) : R Nat :=
  if b ≤ a then .ok (a - b) else .error (.panic site)

/-- `l[a..=b]`; panics like the slice expression when out of range -/
def slice (site : String) (l : List Nat) (a b : Nat) : R (List Nat) :=
  if a ≤ b + 1 ∧ b < l.length then .ok ((l.drop a).take (b + 1 - a)) else .error (.panic site)

/-- `dot(a, b)` with its `debug_assert_eq!(a.len(), b.len())` -/
def dot (a b : List Nat) : R Nat :=
  if a.length ≠ b.length then .error (.panic "dot: length mismatch")
  else .ok ((List.zipWith gmul a b).foldl gadd 0)

/-- `primitive_element_evaluation(c, out)` for `out.len() = k`: S_j = Σ_i c_rev[i]·x^{i(j+1)} -/
def syndromes (received : List Nat) (k : Nat) : List Nat :=
  let rev := received.reverse
  (List.range k).map fun j =>
    ((List.range rev.length).map fun i => gmul (rev.getD i 0) (alog ((i * (j + 1)) % 255))).foldl gadd 0

/-- `chien_search(c)`: roots of Σ_j c[len-1-j]·X^j; 0 first if the constant term vanishes -/
def chienSearch (c : List Nat) : R (List Nat) :=
  if c.isEmpty then .ok []
  else
    let zero : List Nat := if c.getLast? = some 0 then [0] else []
    if c.length = 2 then
      let c0 := c.getD 0 0
      let c1 := c.getD 1 0
      if c1 ≠ 0 ∧ c0 ≠ 0 then
        match div' "chien: -c[1]/c[0]" c1 c0 with
        | .ok r => .ok (zero ++ [r])
        | .error e => .error e
      else .ok zero
    else
      let rev := c.reverse
      let roots := (List.range 255).filter fun i =>
        ((List.range rev.length).map fun j => gmul (rev.getD j 0) (alog ((j * i) % 255))).foldl gadd 0 == 0
      .ok (zero ++ roots.map alog)

/-- solve the lower right triangular system for the initial `w` -/
def ldInitW (syn : List Nat) (v : Nat) : R (List Nat) := do
  let s ← slice "syn[v..=2v-1]" syn v (2 * v - 1)
  let mut w := s.reverse
  let pivot ← at' "syn[v-1]" syn (v - 1)
  for i in List.range v do
    let mut acc ← at' "w[v-1-i]" w (v - 1 - i)
    for j in (List.range v).filter (fun j => j ≥ v - i) do
      let wj ← at' "w[j]" w j
      let s ← at' "syn[i+j]" syn (i + j)
      acc := gadd acc (gmul s wj)
    let q ← div' "w /= syn[v-1]" acc pivot
    w := w.set (v - 1 - i) q
  return w

/-- the debug assertions at the end of each iteration: equations (3) and (4) -/
def ldCheck (syn w y : List Nat) (v : Nat) : R Unit := do
  if w.length ≠ v then throw (.panic "debug_assert w.len() == v")
  if y.length ≠ v then throw (.panic "debug_assert y.len() == v")
  for i in List.range v do
    let mut row := 0
    for j in List.range v do
      let s ← at' "eq3 syn[i+j]" syn (i + j)
      row := gadd row (gmul s (y.getD j 0))
    if row ≠ (if i = v - 1 then 1 else 0) then throw (.panic "debug_assert eq (3)")
  for i in List.range v do
    let mut row := 0
    for j in List.range v do
      let s ← at' "eq4 syn[i+j]" syn (i + j)
      row := gadd row (gmul s (w.getD j 0))
    let target ← at' "eq4 syn[v+i]" syn (v + i)
    if row ≠ target then throw (.panic "debug_assert eq (4)")

structure LDSt where
  v : Nat
  w : List Nat
  y : List Nat

/-- one iteration of the `while v < t` loop; `none` = `break` -/
def ldStep (syn : List Nat) (t : Nat) (st : LDSt) : R (Option LDSt) := do
  let v := st.v
  let w := st.w
  let y := st.y
  let tmp := w ++ [1]
  let epsV ← dot (← slice "syn[v..=2v]" syn v (2 * v)) tmp
  if epsV ≠ 0 then
    -- the regular case
    let w1 := 0 :: w
    let w2 := (List.zipWith (fun wi yi => gadd wi (gmul epsV yi)) (w1.take v) y) ++ w1.drop (min v y.length)
    let beta ← div' "beta / eps_v" (← dot (← slice "syn[v+1..=2v+1]" syn (v + 1) (2 * v + 1)) tmp) epsV
    let gamma ← dot (← slice "syn[v..=2v-1]" syn v (2 * v - 1)) y
    let bg := gadd beta gamma
    let w3 := (List.zipWith (fun wi ti => gadd wi (gmul bg ti)) w2 tmp) ++ w2.drop tmp.length
    let epsInv ← div' "1 / eps_v" 1 epsV
    let y1 := (List.zipWith (fun _ ti => gmul ti epsInv) y tmp) ++ y.drop tmp.length
    let y2 := y1 ++ [epsInv]
    let st' : LDSt := { v := v + 1, w := w3, y := y2 }
    ldCheck syn st'.w st'.y st'.v
    return some st'
  else
    -- the singular case
    let mut found : Option (Nat × Nat) := none
    for i in (List.range (t - v)).filter (· ≥ 1) do
      if found.isNone then
        let sigmaI ← dot (← slice "syn[v+i..=2v+i]" syn (v + i) (2 * v + i)) tmp
        if sigmaI ≠ 0 then found := some (i, sigmaI)
    match found with
    | none => return none
    | some (m, sigmaM) =>
      let n := m + v
      let mut sigma := [sigmaM]
      for k in (List.range (2 * m + 1)).filter (· ≥ m + 1) do
        sigma := sigma ++ [← dot (← slice "syn[v+k..=2v+k]" syn (v + k) (2 * v + k)) tmp]
      if sigma.length ≠ m + 1 then throw (.panic "debug_assert sigma.len()")
      -- iterate w^k
      let mut tk := w
      for k in List.range (m + 1) do
        let s2 ← at' "syn[2v+k]" syn (2 * v + k)
        let rho := gadd s2 (← dot (← slice "syn[v..=2v-1]" syn v (2 * v - 1)) tk)
        let eta ← at' "tmp[v-1]" tk (v - 1)
        let shifted := 0 :: tk.dropLast
        tk := (List.range shifted.length).map fun i =>
          if i < y.length ∧ i < w.length then
            gadd (shifted.getD i 0) (gadd (gmul rho (y.getD i 0)) (gmul eta (w.getD i 0)))
          else shifted.getD i 0
      -- update y
      let sInv ← div' "1 / sigma_m" 1 sigmaM
      if w.length > n then throw (.panic "y[w.len()]")
      let y' := (List.range (n + 1)).map fun i =>
        if i < w.length then gmul (w.getD i 0) sInv else if i = w.length then sInv else 0
      -- gamma
      let mut gam : List Nat := []
      for i in List.range (m + 1) do
        let s3 ← at' "syn[n+v+1+i]" syn (n + v + 1 + i)
        gam := gam ++ [gadd s3 (← dot (← slice "syn[v+i..=2v-1+i]" syn (v + i) (2 * v - 1 + i)) tk)]
      let sigma0 ← at' "sigma[0]" sigma 0
      for i in List.range (m + 1) do
        let mut gi ← at' "gamma[i]" gam i
        for j in List.range i do
          let sg ← at' "sigma[i-j]" sigma (i - j)
          gi := gadd gi (gmul sg (gam.getD j 0))
        gam := gam.set i (← div' "gamma / sigma[0]" gi sigma0)
      -- update w
      let mut tw := tk ++ List.replicate (n + 1 - tk.length) 0
      for (i, gi) in gam.zipIdx.map (fun p => (p.2, p.1)) do
        let off ← sub' "m - i" m i
        if off > tw.length then throw (.panic "tmp[m-i..]")
        tw := (List.range tw.length).map fun q =>
          if q ≥ off ∧ q - off < w.length then gadd (tw.getD q 0) (gmul gi (w.getD (q - off) 0)) else tw.getD q 0
        if off + v ≥ tw.length then throw (.panic "tmp[m-i+v]")
        tw := tw.set (off + v) (gadd (tw.getD (off + v) 0) gi)
      let st' : LDSt := { v := n + 1, w := tw, y := y' }
      ldCheck syn st'.w st'.y st'.v
      return some st'

def ldLoop (syn : List Nat) (t : Nat) : Nat → LDSt → R LDSt
  | 0, st => .ok st
  | f + 1, st =>
    if st.v < t then
      match ldStep syn t st with
      | .error e => .error e
      | .ok none => .ok st
      | .ok (some st') => ldLoop syn t f st'
    else .ok st

/-- `find_inv_error_locations_levinson_durbin` -/
def levinsonDurbin (syn : List Nat) : R (List Nat) := do
  let t := syn.length / 2
  let v := (syn.takeWhile (· == 0)).length + 1
  if v > t then throw .tooManyErrors
  let pivot ← at' "syn[v-1]" syn (v - 1)
  let y0 ← div' "1/syn[v-1]" 1 pivot
  let y := y0 :: List.replicate (v - 1) 0
  let w ← ldInitW syn v
  let st ← ldLoop syn t (t + 1) { v := v, w := w, y := y }
  return st.w ++ [1]

/-- `find_error_values_bp`: returns (error locations, error values) -/
def bjorckPereyra (invLoc : List Nat) (syn : List Nat) : R (List Nat × List Nat) := do
  let e := invLoc.length
  let mut x : List Nat := []
  for z in invLoc do
    x := x ++ [← div' "1 / z" 1 z]
  if e = 0 then throw (.panic "e - 1")
  let mut s := syn
  for k in List.range (e - 1) do
    let xk := x.getD k 0
    for j in ((List.range e).filter (· ≥ k + 1)).reverse do
      let prev ← at' "syn[j-1]" s (j - 1)
      let cur ← at' "syn[j]" s j
      s := s.set j (gadd cur (gmul xk prev))
  for k in (List.range (e - 1)).reverse do
    for j in (List.range e).filter (· ≥ k + 1) do
      let cur ← at' "syn[j]" s j
      let d := gadd (x.getD j 0) (x.getD (j - k - 1) 0)
      s := s.set j (← div' "/(x_loc[j]-x_loc[j-k-1])" cur d)
    for j in (List.range (e - 1)).filter (· ≥ k) do
      let nxt ← at' "syn[j+1]" s (j + 1)
      let cur ← at' "syn[j]" s j
      s := s.set j (gadd cur nxt)
  for i in List.range e do
    let cur ← at' "syn[i]" s i
    s := s.set i (← div' "syn[i] /= x_loc[i]" cur (x.getD i 0))
  return (x, s)

/-- steps 2–4 of `decode_gen` (locator, Chien search, malfunction test, error values, correction)
for a block whose syndromes `syn` are not all zero -/
def correctBlock (dataB errB : List Nat) (errLen : Nat) (syn : List Nat) : R (List Nat × List Nat) := do
  let nData := dataB.length
  let n := nData + errB.length
  let lambda ← levinsonDurbin syn
  let roots ← chienSearch lambda
  if roots.length ≠ lambda.length - 1 ∨ roots.head? = some 0 then throw .malfunction
  let t := errLen / 2
  let v := lambda.length - 1
  -- malfunction test
  let upper ← sub' "err_len - v" errLen v
  for j in (List.range upper).filter (· ≥ t) do
    let tj := (List.zipWith gmul (syn.drop j) lambda).foldl gadd 0
    if (syn.drop j).length < lambda.length then throw (.panic "debug_assert syndromes[j..].len()")
    if tj ≠ 0 then throw .malfunction
  let (locs, vals) ← bjorckPereyra roots syn
  let mut d := dataB
  let mut e := errB
  for (loc, err) in locs.zip vals do
    match glogChecked loc with
    | none => throw (.panic "log of 0")
    | some i =>
      if i ≥ n then throw .errorsOutsideRange
      let pos := n - i - 1
      if pos < nData then d := d.set pos (gadd (d.getD pos 0) err)
      else e := e.set (pos - nData) (gadd (e.getD (pos - nData) 0) err)
  return (d, e)

/-- `decode_gen` on one block given as (data part, error part) already de-interleaved:
returns the corrected (data part, error part). -/
def decodeBlock (dataB errB : List Nat) (errLen : Nat) : R (List Nat × List Nat) :=
  if errLen < 1 then .error (.panic "assert err_len >= 1")
  else if dataB.length + errB.length ≤ errLen then .error (.panic "assert n > err_len")
  else
    let syn := syndromes (dataB ++ errB) errLen
    if syn.all (· == 0) then .ok (dataB, errB)      -- `if !have_non_zero { return Ok(()) }`
    else correctBlock dataB errB errLen syn

/-- write a de-interleaved block back at stride positions -/
def scatter (l : List Nat) (blk : List Nat) (start stride : Nat) : List Nat :=
  (blk.zipIdx.foldl (fun acc p => acc.set (start + p.2 * stride) p.1) l)

/-- the `for block in 0..num_ecc_blocks` loop of `decode` -/
def decodeBlocks (blocks eccPer : Nat) : List Nat → List Nat → List Nat → R (List Nat × List Nat)
  | [], data, err => .ok (data, err)
  | b :: bs, data, err =>
    if b > data.length ∨ b > err.length then .error (.panic "data[block..]")
    else
      match decodeBlock (strided data b blocks) (strided err b blocks) eccPer with
      | .error x => .error x
      | .ok (dB, eB) => decodeBlocks blocks eccPer bs (scatter data dB b blocks) (scatter err eB b blocks)

/-- `decode(codewords, size)`: the corrected vector; on an error the result is the error only
(the Rust function leaves the slice partially corrected, which is not observable through
`DataMatrix::decode`). -/
def decode (s : Sym) (cw : List Nat) : R (List Nat) :=
  let r := row s
  if cw.length < r.dataCw then .error (.panic "split_at_mut")
  else
    match decodeBlocks r.blocks r.eccPer (List.range r.blocks) (cw.take r.dataCw) (cw.drop r.dataCw) with
    | .error x => .error x
    | .ok (d, e) => .ok (d ++ e)

end DM.Model.RS
