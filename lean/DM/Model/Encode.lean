import DM.Model.Symbol
import DM.Model.EncPrefix
/-
Model of the data encoder: `GenericDataEncoder::codewords` (main loop) and the six mode encoders
(`encodation/{mod,ascii,c40,text,x12,edifact,base256}.rs`), driven by an arbitrary plan
(the list of planned switches), not by the optimiser: the plan the implementation used is taken
from the hook, so model and code can be compared on every case.

Every panic site (assertions, `unreachable!`, slice / `ArrayVec` capacity, `usize` underflow) is an
explicit `.panic` outcome. All loops take fuel; running out of fuel is the outcome `.fuel`.
-/
namespace DM.Model.Enc

inductive EErr where
  | tooMuch
  | listEmpty
  | panic (site : String)
  | fuel
  deriving Repr, DecidableEq

abbrev R := Except EErr

/-- mode numbering as in the harness: A C T X E B -/
inductive EMode | ascii | c40 | text | x12 | edifact | base256
  deriving Repr, DecidableEq

def EMode.latch : EMode → Option Nat
  | .ascii => none
  | .c40 => some 230
  | .base256 => some 231
  | .x12 => some 238
  | .text => some 239
  | .edifact => some 240

structure St where
  input : List Nat              -- the body (after macro stripping): `self.input`
  pos : Nat                     -- `self.data = &self.input[pos..]`
  mode : EMode                  -- `self.encodation`
  plan : List (Nat × EMode)     -- `self.planned_switches`
  newMode : Option Nat          -- `self.new_mode`
  cw : List Nat                 -- `self.codewords`
  list : List Sym               -- the symbol list in iteration order
  deriving Repr

def St.rest (s : St) : List Nat := s.input.drop s.pos
def St.charsLeft (s : St) : Nat := s.input.length - s.pos
def St.hasMore (s : St) : Bool := s.pos < s.input.length

/-- `symbol_size_left(extra)` -/
def St.sizeLeft (s : St) (extra : Nat) : Option Nat :=
  match firstBigEnough s.list (s.cw.length + extra) with
  | some sym => some (dataCw sym - (s.cw.length + extra))
  | none => none

def St.sizeLeftE (s : St) (extra : Nat) : R Nat :=
  match s.sizeLeft extra with
  | some n => .ok n
  | none => .error .tooMuch

def St.push (s : St) (c : Nat) : St := { s with cw := s.cw ++ [c] }

/-- `eat()` -/
def St.eat (s : St) : Option (Nat × St) :=
  match s.input[s.pos]? with
  | some ch => some (ch, { s with pos := s.pos + 1 })
  | none => none

/-- `backup(steps)` -/
def St.backup (s : St) (steps : Nat) : R St :=
  if steps ≤ s.pos then .ok { s with pos := s.pos - steps } else .error (.panic "backup: subtract with overflow")

/-- `set_ascii_until_end()` -/
def St.setAscii (s : St) : St := { s with mode := .ascii, plan := [(0, .ascii)] }

/-- `maybe_switch_mode()` -/
def St.maybeSwitch (s : St) : R (Bool × St) :=
  match s.plan with
  | [] => .error (.panic "planned_switches[0]")
  | (at_, m) :: restPlan =>
    let cl := s.charsLeft
    if cl < at_ then .error (.panic "expected to call maybe_switch_mode earlier")
    else
      let (newMode, plan') := if cl > 0 ∧ cl = at_ then (m, restPlan) else (s.mode, s.plan)
      if newMode ≠ s.mode then
        -- `self.new_mode` is only overwritten when the new mode is not ASCII
        .ok (true, { s with mode := newMode, plan := plan',
                            newMode := match newMode.latch with | some l => some l | none => s.newMode })
      else .ok (false, { s with plan := plan' })

def isDigit (b : Nat) : Bool := 48 ≤ b && b ≤ 57

def twoDigitsComing (rest : List Nat) : Bool :=
  match rest with
  | a :: b :: _ => isDigit a && isDigit b
  | _ => false

/-- `ascii::encoding_size` -/
def asciiSize : List Nat → Nat
  | a :: b :: t => if isDigit a && isDigit b then 1 + asciiSize t else (if a ≤ 127 then 1 else 2) + asciiSize (b :: t)
  | [a] => if a ≤ 127 then 1 else 2
  | [] => 0

/-! ### ASCII -/

def asciiLoop : Nat → St → R St
  | 0, _ => .error .fuel
  | f + 1, s =>
    match s.maybeSwitch with
    | .error e => .error e
    | .ok (true, s) => .ok s
    | .ok (false, s) =>
      if twoDigitsComing s.rest then
        match s.rest with
        | a :: b :: _ => asciiLoop f ({ s with pos := s.pos + 2 }.push ((a - 48) * 10 + (b - 48) + 130))
        | _ => .error (.panic "unwrap")
      else
        match s.eat with
        | none => .ok s
        | some (ch, s) =>
          if ch ≤ 127 then asciiLoop f (s.push (ch + 1))
          else asciiLoop f ((s.push 235).push (ch - 128 + 1))

/-! ### Base 256 -/

def randomize255 (ch pos : Nat) : Nat :=
  let t := ch + ((149 * pos) % 255 + 1)
  if t ≤ 255 then t else t - 256

/-- `write_length(ctx, start)` -/
def b256WriteLength (s : St) (start : Nat) : R St :=
  match s.sizeLeftE 0 with
  | .error e => .error e
  | .ok spaceLeft =>
    if s.cw.length < start then .error (.panic "len - start") else
    let written := s.cw.length - start
    let hdr : R (List Nat × Nat) :=
      if s.hasMore ∨ spaceLeft > 0 then
        if written = 0 then .error (.panic "data_written - 1")
        else
          let count := written - 1
          if count ≤ 249 then .ok (s.cw.set start count, written)
          else if count ≤ 1555 then
            let cw1 := s.cw.set start (count / 250 + 249)
            .ok (cw1.take (start + 1) ++ [count % 250] ++ cw1.drop (start + 1), written + 1)
          else .error (.panic "base256 data too long")
      else .ok (s.cw, written)
    match hdr with
    | .error e => .error e
    | .ok (cw, written) =>
      let cw' := (List.range cw.length).map fun i =>
        if start ≤ i ∧ i < start + written then randomize255 (cw.getD i 0) (i + 1) else cw.getD i 0
      .ok { s with cw := cw' }

def b256Loop (start : Nat) : Nat → St → R St
  | 0, _ => .error .fuel
  | f + 1, s =>
    let s := match s.eat with
      | some (ch, s') => s'.push ch
      | none => s
    if !s.hasMore then
      match b256WriteLength s start with
      | .error e => .error e
      | .ok s => .ok s.setAscii
    else
      match s.maybeSwitch with
      | .error e => .error e
      | .ok (true, s) =>
        match b256WriteLength s start with
        | .error e => .error e
        | .ok s => .ok (if !s.hasMore then s.setAscii else s)
      | .ok (false, s) => b256Loop start f s

def b256Encode (s : St) : R St :=
  let start := s.cw.length
  b256Loop start (s.charsLeft + 2) (s.push 0)

/-! ### C40 / Text -/

/-- `low_ascii_to_c40_symbols` -/
def c40Low (ch : Nat) : R (List Nat) :=
  if ch = 32 then .ok [3]
  else if 48 ≤ ch ∧ ch ≤ 57 then .ok [ch - 48 + 4]
  else if 65 ≤ ch ∧ ch ≤ 90 then .ok [ch - 65 + 14]
  else if ch ≤ 31 then .ok [0, ch]
  else if 33 ≤ ch ∧ ch ≤ 47 then .ok [1, ch - 33]
  else if 58 ≤ ch ∧ ch ≤ 64 then .ok [1, ch - 58 + 15]
  else if 91 ≤ ch ∧ ch ≤ 95 then .ok [1, ch - 91 + 22]
  else if 96 ≤ ch ∧ ch ≤ 127 then .ok [2, ch - 96]
  else .error (.panic "unreachable c40 symbol")

/-- `low_ascii_to_text_symbols`: swap case, then as C40 -/
def textLow (ch : Nat) : R (List Nat) :=
  c40Low (if 65 ≤ ch ∧ ch ≤ 90 then ch - 65 + 97 else if 97 ≤ ch ∧ ch ≤ 122 then ch - 97 + 65 else ch)

/-- `to_vals` (appending to the buffer, `ArrayVec<u8, 6>`) -/
def toVals (text : Bool) (buf : List Nat) (ch : Nat) : R (List Nat) :=
  let low := if text then textLow else c40Low
  let r : R (List Nat) :=
    if ch ≤ 127 then low ch
    else match low (ch - 128) with
      | .ok v => .ok ([1, 30] ++ v)
      | .error e => .error e
  match r with
  | .error e => .error e
  | .ok v => if (buf ++ v).length > 6 then .error (.panic "ArrayVec capacity") else .ok (buf ++ v)

/-- `write_three_values` -/
def writeThree (s : St) (c1 c2 c3 : Nat) : St :=
  let enc := (1600 * c1 + 40 * c2 + c3 + 1) % 65536
  (s.push (enc / 256)).push (enc % 256)

def flushTriples : Nat → St → List Nat → St × List Nat
  | 0, s, buf => (s, buf)
  | f + 1, s, buf =>
    match buf with
    | a :: b :: c :: t => flushTriples f (writeThree s a b c) t
    | _ => (s, buf)

/-- `handle_end(ctx, last_ch, buf)` -/
def c40HandleEnd (s : St) (lastCh : Nat) (buf : List Nat) : R St :=
  if buf.length > 2 then .error (.panic "assert buf.len() <= 2") else
  let modeSwitch := s.hasMore
  let early : R (Option St) :=
    if !s.hasMore then
      match s.sizeLeftE buf.length with
      | .error e => .error e
      | .ok sizeLeft =>
        if sizeLeft + buf.length = 2 ∧ buf.length = 2 then
          .ok (some (writeThree s (buf.getD 0 0) (buf.getD 1 0) 0))
        else if sizeLeft + buf.length = 2 ∧ buf.length = 1 then
          match ((s.push 254).setAscii).backup 1 with
          | .ok s' => .ok (some s')
          | .error e => .error e
        else if sizeLeft + buf.length = 1 ∧ buf.length = 1 ∧ asciiSize [lastCh] = 1 then
          match s.setAscii.backup 1 with
          | .ok s' => .ok (some s')
          | .error e => .error e
        else .ok none
    else .ok none
  match early with
  | .error e => .error e
  | .ok (some s') => .ok s'
  | .ok none =>
    let s :=
      if !buf.isEmpty then
        let buf := buf ++ [1]
        let buf := if buf.length = 2 then buf ++ [30] else buf
        let s := writeThree s (buf.getD 0 0) (buf.getD 1 0) (buf.getD 2 0)
        if !modeSwitch then s.setAscii else s
      else s
    if s.charsLeft > 0 then
      if s.charsLeft = 2 ∧ twoDigitsComing s.rest then
        match s.sizeLeftE 1 with
        | .error e => .error e
        | .ok spaceLeft =>
          let s := s.setAscii
          .ok (if spaceLeft ≥ 1 then s.push 254 else s)
      else .ok (s.push 254)
    else
      match s.sizeLeftE 0 with
      | .error e => .error e
      | .ok left =>
        if left > 0 then
          let s := s.push 254
          .ok (if !modeSwitch then s.setAscii else s)
        else .ok s

def c40Loop (text : Bool) : Nat → St → List Nat → Nat → R St
  | 0, _, _, _ => .error .fuel
  | f + 1, s, buf, lastCh =>
    match s.eat with
    | none => c40HandleEnd s lastCh buf
    | some (ch, s1) =>
      -- buf empty and only two digits remain?
      let oneDigitLeft : Bool := match s1.rest with
        | [d] => isDigit d
        | _ => false
      if buf.isEmpty && isDigit ch && oneDigitLeft then
        match s1.backup 1 with
        | .error e => .error e
        | .ok s2 => c40HandleEnd s2 lastCh buf
      else
        match toVals text buf ch with
        | .error e => .error e
        | .ok buf1 =>
          let (s2, buf2) := flushTriples 3 s1 buf1
          match s2.maybeSwitch with
          | .error e => .error e
          | .ok (true, s3) => c40HandleEnd s3 ch buf2
          | .ok (false, s3) => c40Loop text f s3 buf2 ch

def c40Encode (text : Bool) (s : St) : R St := c40Loop text (s.charsLeft + 2) s [] 0

/-! ### X12 -/

def x12Enc (ch : Nat) : R Nat :=
  if ch = 13 then .ok 0 else if ch = 42 then .ok 1 else if ch = 62 then .ok 2 else if ch = 32 then .ok 3
  else if 48 ≤ ch ∧ ch ≤ 57 then .ok (ch - 48 + 4)
  else if 65 ≤ ch ∧ ch ≤ 90 then .ok (ch - 65 + 14)
  else .error (.panic "unreachable x12 enc")

def x12Loop : Nat → St → R (St × Bool)
  | 0, _ => .error .fuel
  | f + 1, s =>
    if s.charsLeft ≥ 3 then
      match s.rest with
      | a :: b :: c :: _ =>
        match x12Enc a, x12Enc b, x12Enc c with
        | .ok v1, .ok v2, .ok v3 =>
          let s := writeThree { s with pos := s.pos + 3 } v1 v2 v3
          match s.maybeSwitch with
          | .error e => .error e
          | .ok (true, s) => .ok (s, true)
          | .ok (false, s) => x12Loop f s
        | .error e, _, _ => .error e
        | _, .error e, _ => .error e
        | _, _, .error e => .error e
      | _ => .error (.panic "unwrap")
    else .ok (s, false)

def x12Encode (s : St) : R St :=
  match x12Loop (s.charsLeft + 2) s with
  | .error e => .error e
  | .ok (s, switch) =>
    let oneAscii := s.charsLeft ≤ 2 ∧ asciiSize s.rest = 1
    let early : R Bool :=
      if oneAscii then
        match s.sizeLeftE 1 with
        | .error e => .error e
        | .ok n => .ok (n = 0)
      else .ok false
    match early with
    | .error e => .error e
    | .ok true => .ok s.setAscii
    | .ok false =>
      let need : R Bool :=
        if s.hasMore then .ok true
        else match s.sizeLeftE 0 with
          | .error e => .error e
          | .ok n => .ok (n > 0)
      match need with
      | .error e => .error e
      | .ok true => .ok ((if !switch then s.setAscii else s).push 254)
      | .ok false => .ok s

/-! ### EDIFACT -/

/-- `write4` -/
def write4 (s : St) (sym : List Nat) : St :=
  let s0 := sym.getD 0 0
  let s1 := sym.getD 1 0 % 64
  let st := s.push ((s0 * 4) % 256 ||| (s1 / 16))
  if sym.length ≥ 2 then
    let s2 := sym.getD 2 0 % 64
    let st := st.push ((s1 * 16) % 256 ||| (s2 / 4))
    if sym.length ≥ 3 then
      let s3 := sym.getD 3 0 % 64
      st.push ((s2 * 64) % 256 ||| s3)
    else st
  else st

/-- `try_ascii_end` -/
def edifactTryAsciiEnd (s : St) (sym : List Nat) : R (Option St) :=
  let restChars := sym.length + s.charsLeft
  if restChars ≤ 4 then
    let rest := sym ++ s.rest
    let asz := asciiSize rest
    if asz ≤ 2 then
      match s.sizeLeft asz with
      | some x =>
        let space := x + asz
        if space ≤ 2 ∧ asz ≤ space then
          match s.backup sym.length with
          | .ok s' => .ok (some s'.setAscii)
          | .error e => .error e
        else .ok none
      | none => .ok none
    else .ok none
  else .ok none

def edifactHandleEnd (s : St) (sym : List Nat) : R St :=
  match edifactTryAsciiEnd s sym with
  | .error e => .error e
  | .ok (some s') => .ok s'
  | .ok none =>
    if sym.isEmpty then
      if !s.hasMore then
        match s.sizeLeftE 0 with
        | .error e => .error e
        | .ok spaceLeft =>
          if spaceLeft > 0 then
            if spaceLeft ≤ 2 then .error (.panic "assert space_left > 2")
            else .ok (s.push 124).setAscii
          else .ok s
      else .ok (s.push 124)
    else
      if sym.length > 3 then .error (.panic "assert symbols.len() <= 3") else
      if !s.hasMore then
        match s.sizeLeftE sym.length with
        | .error e => .error e
        | .ok left =>
          if left > 0 ∨ sym.length = 3 then .ok (write4 s.setAscii (sym ++ [31]))
          else .ok (write4 s sym)
      else .ok (write4 s (sym ++ [31]))

def edifactLoop : Nat → St → List Nat → R St
  | 0, _, _ => .error .fuel
  | f + 1, s, sym =>
    let early : R (Option St) :=
      if sym.isEmpty ∧ s.hasMore then edifactTryAsciiEnd s sym else .ok none
    match early with
    | .error e => .error e
    | .ok (some s') => .ok s'
    | .ok none =>
      match s.eat with
      | none => edifactHandleEnd s sym
      | some (ch, s1) =>
        let sym1 := sym ++ [ch]
        let (s2, sym2) := if sym1.length = 4 then (write4 s1 sym1, []) else (s1, sym1)
        match s2.maybeSwitch with
        | .error e => .error e
        | .ok (true, s3) => edifactHandleEnd s3 sym2
        | .ok (false, s3) => edifactLoop f s3 sym2

def edifactEncode (s : St) : R St := edifactLoop (s.charsLeft + 2) s []

/-! ### the main loop -/

def encodeMode (s : St) : R St :=
  match s.mode with
  | .ascii => asciiLoop (s.charsLeft + 2) s
  | .c40 => c40Encode false s
  | .text => c40Encode true s
  | .x12 => x12Encode s
  | .edifact => edifactEncode s
  | .base256 => b256Encode s

def mainLoop : Nat → St → Nat → R St
  | 0, _, _ => .error .fuel
  | f + 1, s, noWrite =>
    if !s.hasMore then .ok s
    else
      let s := match s.newMode with
        | some nm => { s with newMode := none }.push nm
        | none => s
      let len := s.cw.length
      match encodeMode s with
      | .error e => .error e
      | .ok s' =>
        if s'.cw.length < len then .error (.panic "codewords.len() - len")
        else
          let written := s'.cw.length - len
          if written ≤ 1 then
            if noWrite + 1 > 5 then .error (.panic "no progress in encoder")
            else mainLoop f s' (noWrite + 1)
          else mainLoop f s' 0

/-- `GenericDataEncoder::codewords()` with the plan given (the optimiser's answer):
`prefixCw` = codewords written before (FNC1 / macro / ECI), `body` = the data left to encode. -/
def run (list : List Sym) (prefixCw body : List Nat) (plan : List (Nat × EMode)) : R (List Nat × Sym) :=
  if list.isEmpty then .error .listEmpty
  else if body.length > maxCapacity list then .error .tooMuch
  else
    let s0 : St := { input := body, pos := 0, mode := .ascii, plan := plan, newMode := none, cw := prefixCw, list := list }
    match mainLoop (2 * body.length + 8) s0 0 with
    | .error e => .error e
    | .ok s =>
      match firstBigEnough list s.cw.length with
      | none => .error .tooMuch
      | some sym =>
        match addPadding s.cw (s.mode == .ascii) (dataCw sym) with
        | some cw => .ok (cw, sym)
        | none => .error (.panic "add_padding")

end DM.Model.Enc
