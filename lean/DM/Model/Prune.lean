/-
Model of `remove_hopeless_cases` (`encodation/planner/shortest_path.rs`) on what it sees of a
plan: start mode index, current mode index, cost and the six `cost_for_switching_to` values.
The list is taken *after* `sort_unstable_by_key(cost)` (the order among equal costs is whatever
`core` produced; the theorems hold for every input list).
-/
namespace DM.Model

structure PRec where
  start : Nat
  cur : Nat
  cost : Nat
  sw : List (Option Nat)     -- `cost_for_switching_to(mode)` by mode index
  deriving Repr, DecidableEq

def PRec.key (p : PRec) : Nat := p.start * 6 + p.cur

/-- phase 1: "only keep min among all plans with tuple (start mode, current mode)" -/
def dedupKeys : List PRec → List Nat → List PRec
  | [], _ => []
  | p :: ps, seen =>
    if seen.contains p.key then dedupKeys ps seen else p :: dedupKeys ps (p.key :: seen)

/-- inner `for` of phase 2 for a fixed `first`: returns the kept elements and whether the scan
hit an uncomparable plan (`break`; the elements from there on are kept unchanged) -/
def dominance (first : PRec) : List PRec → List PRec × Bool
  | [] => ([], false)
  | second :: rest =>
    match first.sw.getD second.cur none with
    | some firstCost =>
      let (kept, unc) := dominance first rest
      if firstCost < second.cost then (kept, unc) else (second :: kept, unc)
    | none => (second :: rest, true)

/-- phase 2: the `while start + 1 < list.len()` loop (fuel = list length) -/
def phase2 : Nat → List PRec → List PRec → List PRec
  | 0, pre, l => pre ++ l
  | f + 1, pre, l =>
    match l with
    | first :: rest =>
      if rest.isEmpty then pre ++ l
      else
        let (kept, unc) := dominance first rest
        if unc then phase2 f (pre ++ [first]) kept else pre ++ first :: kept
    | [] => pre

def removeHopeless (sorted : List PRec) : List PRec :=
  let l := dedupKeys sorted []
  phase2 l.length [] l

end DM.Model
