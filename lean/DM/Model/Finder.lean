import DM.Model.Symbol
import DM.Model.Basic
/-
Model of `MatrixMap::bitmap` and `MatrixMap::try_from_bits` (`placement.rs`).

Rendering: the constant stores of `bitmap()` (all of them store HIGH) are collected in a bit
set in code order, the content copy `bits[idx(i, j)] = entries[b_i]` is the list `cellPos`
(pixel index of content cell `b_i`). Parsing: the chunked loops of `try_from_bits` are
data-oblivious apart from the early exit, so they are a list of `(pixel, expected value)`
checks and a list of pixels taken as content, in loop order.
-/
namespace DM.Model

structure FDims where
  W : Nat
  H : Nat
  w : Nat
  h : Nat
  ev : Nat
  eh : Nat
  deriving Repr

def fdims (s : Sym) : FDims :=
  let r := row s
  { W := r.width, H := r.height, w := contentWidth s, h := contentHeight s, ev := r.extraV, eh := r.extraH }

def setBits (m : Nat) (ps : List Nat) : Nat := ps.foldl (fun m p => m ||| (1 <<< p)) m

/-- every second element of `lo..hi` starting at `lo`: `(lo..hi).step_by(2)` -/
def stepBy2 (lo hi : Nat) : List Nat := (List.range ((hi - lo + 1) / 2)).map fun k => lo + 2 * k

/-- the constant HIGH stores of `bitmap()` in code order -/
def constStores (d : FDims) : List Nat :=
  let idx := fun (i j : Nat) => i * d.W + j
  let blkH := (d.H - 2 * (d.eh + 1)) / (d.eh + 1)
  let blkW := (d.W - 2 * (d.ev + 1)) / (d.ev + 1)
  -- horizontal alignments
  ((List.range d.eh).flatMap fun a =>
    let rowsBefore := 1 + (blkH + 2) * a + blkH
    ((List.range d.W).map fun j => idx rowsBefore j) ++ ((stepBy2 0 d.W).map fun j => idx (rowsBefore + 1) j)) ++
  -- vertical alignments
  ((List.range d.ev).flatMap fun b =>
    let colsBefore := 1 + (blkW + 2) * b + blkW
    (((List.range (d.H - 1)).map fun i => idx (i + 1) (colsBefore + 1)) ++
     ((stepBy2 1 d.H).map fun i => idx i colsBefore))) ++
  -- bottom, top, left, right
  ((List.range d.W).map fun j => idx (d.H - 1) j) ++
  ((stepBy2 0 d.W).map fun j => idx 0 j) ++
  ((List.range d.H).map fun i => idx i 0) ++
  ((stepBy2 1 d.H).map fun i => idx i (d.W - 1))

def constHigh (s : Sym) : Nat := setBits 0 (constStores (fdims s))

/-- pixel index of content cell `b_i` (the copy loop of `bitmap()`) -/
def cellPos (s : Sym) : List Nat :=
  let d := fdims s
  let blkH := (d.H - 2 * (d.eh + 1)) / (d.eh + 1)
  let blkW := (d.W - 2 * (d.ev + 1)) / (d.ev + 1)
  (List.range (d.w * d.h)).map fun b =>
    let i := b / d.w
    let i := i + 1 + (i / blkH) * 2
    let j := b % d.w
    let j := j + 1 + (j / blkW) * 2
    i * d.W + j

/-- `MatrixMap::<bool>::bitmap().bits()` for a map of size `s` with the given entries -/
def bitmapOf (s : Sym) (entries : List Bool) : List Bool :=
  let d := fdims s
  let ch := constHigh s    -- evaluated once in compiled code
  setAll ((List.range (d.H * d.W)).map fun p => ch.testBit p) ((cellPos s).zip entries)

inductive ConvErr where
  | alignment | padding | zeroWidth | dataSize | symbolSize
  deriving DecidableEq, Repr

/-- the alignment checks of `try_from_bits` in loop order -/
def alignChecks (s : Sym) : List (Nat × Bool) :=
  let d := fdims s
  let blkH := d.h / (d.eh + 1)
  let blkW := d.w / (d.ev + 1)
  (List.range (d.eh + 1)).flatMap fun c =>
    let base := c * (blkH + 2) * d.W
    -- last row all HIGH, first row alternating
    ((List.range d.W).map fun x => (base + (blkH + 1) * d.W + x, true)) ++
    ((List.range d.W).map fun x => (base + x, x % 2 == 0)) ++
    -- the rows in between, piece by piece
    ((List.range (blkH * (d.ev + 1))).flatMap fun j =>
      let start := base + d.W + j * (blkW + 2)
      let r := j / (d.ev + 1)
      [(start, true), (start + blkW + 1, r % 2 == 0)])

/-- the pixels copied to `entries`, in loop order -/
def takes (s : Sym) : List Nat :=
  let d := fdims s
  let blkH := d.h / (d.eh + 1)
  let blkW := d.w / (d.ev + 1)
  (List.range (d.eh + 1)).flatMap fun c =>
    let base := c * (blkH + 2) * d.W
    (List.range (blkH * (d.ev + 1))).flatMap fun j =>
      let start := base + d.W + j * (blkW + 2)
      (List.range blkW).map fun x => start + 1 + x

/-- the padding check on the collected entries: (entry index, expected value) -/
def padChecks (s : Sym) : List (Nat × Bool) :=
  let d := fdims s
  let n := d.w * d.h
  if (row s).padding then [(n - 2, false), (n - 1, true), (n - d.w - 2, true), (n - d.w - 1, false)] else []

/-- `SymbolList::all().iter().find(|s| bs.width == width && bs.height == height)` -/
def sizeByDims (width height : Nat) : Option Sym :=
  master.find? fun s => (row s).width == width && (row s).height == height

/-- `MatrixMap::<bool>::try_from_bits` -/
def tryFromBits (bits : List Bool) (width : Nat) : Except ConvErr (List Bool × Sym) :=
  if width = 0 then .error .zeroWidth
  else if bits.length % width ≠ 0 then .error .dataSize
  else
    match sizeByDims width (bits.length / width) with
    | none => .error .symbolSize
    | some s =>
      if !(alignChecks s).all (fun q => bits.getD q.1 false == q.2) then .error .alignment
      else
        let entries := (takes s).map fun p => bits.getD p false
        if !(padChecks s).all (fun q => entries.getD q.1 false == q.2) then .error .padding
        else .ok (entries, s)

end DM.Model
