import DM.Gen.Sizes
/-
Model of `symbol_size.rs`: catalogue accessors, the `Ord` key, `SymbolList` as the
strictly sorted list a `BTreeSet<SymbolSize>` iterates over, the filters and
`first_symbol_big_enough_for`.

A symbol size is an index into `Gen.sizes` (position in `SYMBOL_SIZES`).
-/
namespace DM.Model
open DM.Gen

abbrev Sym := Nat

def row (s : Sym) : SizeRow := sizes.getD s default

def numSizes : Nat := sizes.length

def dataCw (s : Sym) : Nat := (row s).dataCw
def eccCw (s : Sym) : Nat := (row s).blocks * (row s).eccPer
def totalCw (s : Sym) : Nat := dataCw s + eccCw s
def contentWidth (s : Sym) : Nat := (row s).width - 2 - (row s).extraV * 2
def contentHeight (s : Sym) : Nat := (row s).height - 2 - (row s).extraH * 2

/-- `impl Ord for SymbolSize`: lexicographic on (data codewords, width² + height²). -/
def ordKey (s : Sym) : Nat × Nat := (dataCw s, (row s).width ^ 2 + (row s).height ^ 2)

def keyLt (a b : Nat × Nat) : Bool := a.1 < b.1 || (a.1 == b.1 && a.2 < b.2)

/-- insert into a list sorted by `ordKey`, dropping duplicates (BTreeSet::insert) -/
def insertSym (s : Sym) : List Sym → List Sym
  | [] => [s]
  | t :: ts =>
    if keyLt (ordKey s) (ordKey t) then s :: t :: ts
    else if keyLt (ordKey t) (ordKey s) then t :: insertSym s ts
    else t :: ts

/-- `SymbolList::with_whitelist` / `from_iter`: the iteration order of the set. -/
def symbolList (wl : List Sym) : List Sym := wl.foldl (fun acc s => insertSym s acc) []

/-- All sizes in `Ord` order. -/
def master : List Sym := symbolList (List.range numSizes)

def defaultSyms : List Sym := symbolList ((List.range numSizes).filter fun s => !(row s).dmre)

/-- `RangeBounds<usize>` bound. -/
inductive Bound where
  | unbounded
  | included (n : Nat)
  | excluded (n : Nat)
  deriving DecidableEq, Repr

/-- `RangeBounds::contains`. -/
def rangeContains (lo hi : Bound) (x : Nat) : Bool :=
  (match lo with
   | .unbounded => true
   | .included n => n ≤ x
   | .excluded n => n < x) &&
  (match hi with
   | .unbounded => true
   | .included n => x ≤ n
   | .excluded n => x < n)

def enforceSquare (l : List Sym) : List Sym := l.filter fun s => (row s).square
def enforceRectangular (l : List Sym) : List Sym := l.filter fun s => !(row s).square
def enforceWidthIn (lo hi : Bound) (l : List Sym) : List Sym :=
  l.filter fun s => rangeContains lo hi (row s).width
def enforceHeightIn (lo hi : Bound) (l : List Sym) : List Sym :=
  l.filter fun s => rangeContains lo hi (row s).height

/-- `first_symbol_big_enough_for`. -/
def firstBigEnough (l : List Sym) (needed : Nat) : Option Sym :=
  l.find? fun s => dataCw s ≥ needed

/-- `max_capacity`. -/
def maxCapacity (l : List Sym) : Nat := (l.map fun s => (row s).capMax).foldl max 0

/-- `upper_limit_for_number_of_codewords`. -/
def upperLimit (l : List Sym) (inputLen : Nat) : Option Nat :=
  if l.length == 1 then l.head?.map dataCw
  else ((l.find? fun s => (row s).capMin ≥ inputLen).orElse fun _ => l.getLast?).map dataCw

end DM.Model
