import DM.Gen.Tables
/-
Model of `data::latin1_to_utf8` and `data::utf8_to_latin1`: character-wise maps through the
two per-character tables, which are regenerated from the code on every run
(`latin1_to_utf8(&[b])` for every byte, `utf8_to_latin1` of every one-character string).
-/
namespace DM.Model
open DM.Gen

/-- one byte to a code point -/
def latin1Char (b : Nat) : Option Nat :=
  match latin1ToUtf8[b]? with
  | some v => if v ≥ 0 then some v.toNat else none
  | none => none

/-- one code point to a byte -/
def latin1Byte (cp : Nat) : Option Nat :=
  match utf8ToLatin1.find? (fun p => p.1 == cp) with
  | some (_, b) => if b ≥ 0 then some b.toNat else none
  | none => none

def mapOpt {α β : Type} (f : α → Option β) : List α → Option (List β)
  | [] => some []
  | a :: t =>
    match f a, mapOpt f t with
    | some b, some bs => some (b :: bs)
    | _, _ => none

/-- `latin1_to_utf8`: the code points of the result -/
def latin1ToUtf8Str (bytes : List Nat) : Option (List Nat) := mapOpt latin1Char bytes

/-- `utf8_to_latin1` on the code points of the string -/
def utf8ToLatin1Str (cps : List Nat) : Option (List Nat) := mapOpt latin1Byte cps

end DM.Model
