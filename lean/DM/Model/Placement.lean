import DM.Model.Symbol
import DM.Model.Basic
/-
Model of `placement.rs`: `IndexTraversal::{run, idx, utah, corner1..4}`, and on top of it
`MatrixMap::<bool>::{new, copy_from_codewords, write_padding, codewords}`.

The `visited: Vec<bool>` of the Rust code is a bit set (`Nat`); the traversal returns the
visited index octets in visiting order (codeword `k` gets the `k`-th octet).
-/
namespace DM.Model

/-- `IndexTraversal::idx`: index with wrapping. -/
def pIdx (h w : Int) (i j : Int) : Nat :=
  let i1 := if i < 0 then i + h else i
  let j1 := if i < 0 then j + (4 - ((h + 4) % 8)) else j
  let i2 := if j1 < 0 then i1 + (4 - ((w + 4) % 8)) else i1
  let j2 := if j1 < 0 then j1 + w else j1
  let i3 := if i2 ≥ h then i2 - h else i2
  (i3 * w + j2).toNat

def pUtah (h w i j : Int) : List Nat :=
  [pIdx h w (i-2) (j-2), pIdx h w (i-2) (j-1), pIdx h w (i-1) (j-2), pIdx h w (i-1) (j-1),
   pIdx h w (i-1) j, pIdx h w i (j-2), pIdx h w i (j-1), pIdx h w i j]

def pCorner1 (h w : Int) : List Nat :=
  [pIdx h w (h-1) 0, pIdx h w (h-1) 1, pIdx h w (h-1) 2, pIdx h w 0 (w-2),
   pIdx h w 0 (w-1), pIdx h w 1 (w-1), pIdx h w 2 (w-1), pIdx h w 3 (w-1)]

def pCorner2 (h w : Int) : List Nat :=
  [pIdx h w (h-3) 0, pIdx h w (h-2) 0, pIdx h w (h-1) 0, pIdx h w 0 (w-4),
   pIdx h w 0 (w-3), pIdx h w 0 (w-2), pIdx h w 0 (w-1), pIdx h w 1 (w-1)]

def pCorner3 (h w : Int) : List Nat :=
  [pIdx h w (h-3) 0, pIdx h w (h-2) 0, pIdx h w (h-1) 0, pIdx h w 0 (w-2),
   pIdx h w 0 (w-1), pIdx h w 1 (w-1), pIdx h w 2 (w-1), pIdx h w 3 (w-1)]

def pCorner4 (h w : Int) : List Nat :=
  [pIdx h w (h-1) 0, pIdx h w (h-1) (w-1), pIdx h w 0 (w-3), pIdx h w 0 (w-2),
   pIdx h w 0 (w-1), pIdx h w 1 (w-3), pIdx h w 1 (w-2), pIdx h w 1 (w-1)]

/-- traversal state: visited bit set and the octets visited so far (reversed) -/
structure PSt where
  visited : Nat
  acc : List (List Nat)

/-- the `visit!` macro -/
def PSt.visit (s : PSt) (ii : List Nat) : PSt :=
  { visited := ii.foldl (fun v k => v ||| (1 <<< k)) s.visited, acc := ii :: s.acc }

def PSt.seen (s : PSt) (h w i j : Int) : Bool := s.visited.testBit (i * w + j).toNat

/-- upward diagonal sweep (fuel = upper bound on the trip count) -/
def pUp (h w : Int) : Nat → Int → Int → PSt → (Int × Int × PSt)
  | 0, i, j, s => (i, j, s)
  | f+1, i, j, s =>
    let s := if i < h ∧ j ≥ 0 ∧ !(s.seen h w i j) then s.visit (pUtah h w i j) else s
    if i - 2 ≥ 0 ∧ j + 2 < w then pUp h w f (i-2) (j+2) s else (i-2, j+2, s)

/-- downward diagonal sweep -/
def pDown (h w : Int) : Nat → Int → Int → PSt → (Int × Int × PSt)
  | 0, i, j, s => (i, j, s)
  | f+1, i, j, s =>
    let s := if i ≥ 0 ∧ j < w ∧ !(s.seen h w i j) then s.visit (pUtah h w i j) else s
    if i + 2 < h ∧ j - 2 ≥ 0 then pDown h w f (i+2) (j-2) s else (i+2, j-2, s)

/-- the outer `loop` -/
def pOuter (h w : Int) : Nat → Int → Int → PSt → PSt
  | 0, _, _, s => s
  | f+1, i, j, s =>
    let s := if i = h ∧ j = 0 then s.visit (pCorner1 h w) else s
    let s := if i = h - 2 ∧ j = 0 ∧ w % 4 ≠ 0 then s.visit (pCorner2 h w) else s
    let s := if i = h - 2 ∧ j = 0 ∧ w % 8 = 4 then s.visit (pCorner3 h w) else s
    let s := if i = h + 4 ∧ j = 2 ∧ w % 8 = 0 then s.visit (pCorner4 h w) else s
    match pUp h w (h.toNat + w.toNat) i j s with
    | (i, j, s) =>
    match pDown h w (h.toNat + w.toNat) (i+1) (j+3) s with
    | (i, j, s) =>
    if i + 3 < h ∨ j + 1 < w then pOuter h w f (i+3) (j+1) s else s

/-- `IndexTraversal { width: w, height: h }.run(..)`: the index octets in visiting order. -/
def pLayout (h w : Nat) : List (List Nat) :=
  (pOuter h w (h + w) 4 0 { visited := 0, acc := [] }).acc.reverse

/-- The layout of a symbol size. -/
def layoutOf (s : Sym) : List (List Nat) := pLayout (contentHeight s) (contentWidth s)

/-! ### `MatrixMap<bool>` -/

/-- bits of a codeword, most significant first (what `copy_from_codewords` stores in `bits[0..8]`) -/
def bitsMsb (c : Nat) : List Bool := (List.range 8).map fun k => c.testBit (7 - k)

/-- the stores of `copy_from_codewords`, in code order: codeword by codeword, bit by bit -/
def assigns (layout : List (List Nat)) (data : List Nat) : List (Nat × Bool) :=
  (layout.zip data).flatMap fun p => p.1.zip (bitsMsb p.2)

/-- `copy_from_codewords` without the padding -/
def writeCodewords (entries : List Bool) (layout : List (List Nat)) (data : List Nat) : List Bool :=
  setAll entries (assigns layout data)

/-- `write_padding` -/
def writePadding (entries : List Bool) (h w : Nat) (padding : Bool) : List Bool :=
  if padding then (entries.set ((h - 2) * w + (w - 2)) true).set ((h - 1) * w + (w - 1)) true else entries

/-- `MatrixMap::new_with_codewords(data, size).entries`; `none` = `data[idx]` out of bounds (panic). -/
def newWithCodewords (s : Sym) (data : List Nat) : Option (List Bool) :=
  let h := contentHeight s
  let w := contentWidth s
  let lay := layoutOf s
  if data.length < lay.length then none
  else some (writePadding (writeCodewords (List.replicate (w * h) false) lay data) h w (row s).padding)

/-- one codeword read back: `*codeword = (*codeword << 1) | bit` over the octet -/
def readCodeword (entries : List Bool) (idxs : List Nat) : Nat :=
  idxs.foldl (fun c i => (c * 2 % 256) ||| (if entries.getD i false then 1 else 0)) 0

/-- `MatrixMap::codewords()` -/
def readCodewords (entries : List Bool) (layout : List (List Nat)) : List Nat :=
  layout.map (readCodeword entries)

end DM.Model
