/-
GF(2^8) with the Data Matrix field polynomial x^8 + x^5 + x^3 + x^2 + 1 (301 = 0x12D),
ISO/IEC 16022 Annex E, written without tables: carry-less "Russian peasant"
multiplication with reduction. Independent of the crate's LOG/ANTI_LOG tables.
-/
namespace DM.Spec

/-- multiply by x and reduce -/
def xtime (p : Nat) : Nat := if p * 2 ≥ 256 then (p * 2) ^^^ 0x12D else p * 2

/-- carry-less product of `a` (8 bits, processed low to high) and `b` modulo the field polynomial -/
def smulAux : Nat → Nat → Nat → Nat
  | 0, _, _ => 0
  | f + 1, a, b => (if a % 2 = 1 then b else 0) ^^^ smulAux f (a / 2) (xtime b)

def smul (a b : Nat) : Nat := smulAux 8 a b

/-- `x^n` for the primitive element x = 2 -/
def spow2 : Nat → Nat
  | 0 => 1
  | n + 1 => xtime (spow2 n)

/-- Horner evaluation of the polynomial with coefficient list `p` (highest degree first) at `x`. -/
def evalS (p : List Nat) (x : Nat) : Nat := p.foldl (fun acc c => smul acc x ^^^ c) 0

/-- A block (data then error codewords, first codeword = highest coefficient) is a codeword of
the Reed–Solomon code with `k` check symbols iff it vanishes at 2^1 … 2^k. -/
def isCodeword (block : List Nat) (k : Nat) : Bool :=
  (List.range k).all fun i => evalS block (spow2 (i + 1)) == 0

/-- The `k` syndromes S_1 … S_k of a block. -/
def syndromes (block : List Nat) (k : Nat) : List Nat :=
  (List.range k).map fun i => evalS block (spow2 (i + 1))

end DM.Spec
