/-
ISO/IEC 16022 Annex F.1: the ECC 200 symbol character placement program, transcribed from
the C text of the standard (the repository ships the same text as
`extra/symbol_placement.c`), with the additional row wrap of ISO/IEC 21471 (DMRE) in
`module`. `array[row*ncol+col] = 10*chr + bit` becomes an association of positions to
(chr, bit); "array entry is zero" becomes "position not yet assigned" (a bit set).
-/
namespace DM.Spec.AnnexF

structure St where
  assigned : Nat              -- bit set of positions with a non-zero array entry
  chr : Nat                   -- next character number (1-based in the standard; 0-based here)
  out : List (List Nat)       -- for each character placed so far (reversed): positions of bit 1..8

/-- `module(row, col, chr, bit)`: the position that receives the bit -/
def module (nrow ncol : Int) (row col : Int) : Nat :=
  let (row, col) := if row < 0 then (row + nrow, col + (4 - ((nrow + 4) % 8))) else (row, col)
  let (row, col) := if col < 0 then (row + (4 - ((ncol + 4) % 8)), col + ncol) else (row, col)
  let row := if row ≥ nrow then row - nrow else row
  (row * ncol + col).toNat

def place (s : St) (positions : List Nat) : St :=
  { assigned := positions.foldl (fun a p => a ||| (1 <<< p)) s.assigned
    chr := s.chr + 1
    out := positions :: s.out }

def utah (nrow ncol : Int) (s : St) (row col : Int) : St :=
  place s [module nrow ncol (row-2) (col-2), module nrow ncol (row-2) (col-1),
           module nrow ncol (row-1) (col-2), module nrow ncol (row-1) (col-1),
           module nrow ncol (row-1) col, module nrow ncol row (col-2),
           module nrow ncol row (col-1), module nrow ncol row col]

def corner1 (nrow ncol : Int) (s : St) : St :=
  place s [module nrow ncol (nrow-1) 0, module nrow ncol (nrow-1) 1, module nrow ncol (nrow-1) 2,
           module nrow ncol 0 (ncol-2), module nrow ncol 0 (ncol-1), module nrow ncol 1 (ncol-1),
           module nrow ncol 2 (ncol-1), module nrow ncol 3 (ncol-1)]

def corner2 (nrow ncol : Int) (s : St) : St :=
  place s [module nrow ncol (nrow-3) 0, module nrow ncol (nrow-2) 0, module nrow ncol (nrow-1) 0,
           module nrow ncol 0 (ncol-4), module nrow ncol 0 (ncol-3), module nrow ncol 0 (ncol-2),
           module nrow ncol 0 (ncol-1), module nrow ncol 1 (ncol-1)]

def corner3 (nrow ncol : Int) (s : St) : St :=
  place s [module nrow ncol (nrow-3) 0, module nrow ncol (nrow-2) 0, module nrow ncol (nrow-1) 0,
           module nrow ncol 0 (ncol-2), module nrow ncol 0 (ncol-1), module nrow ncol 1 (ncol-1),
           module nrow ncol 2 (ncol-1), module nrow ncol 3 (ncol-1)]

def corner4 (nrow ncol : Int) (s : St) : St :=
  place s [module nrow ncol (nrow-1) 0, module nrow ncol (nrow-1) (ncol-1), module nrow ncol 0 (ncol-3),
           module nrow ncol 0 (ncol-2), module nrow ncol 0 (ncol-1), module nrow ncol 1 (ncol-3),
           module nrow ncol 1 (ncol-2), module nrow ncol 1 (ncol-1)]

def free (s : St) (ncol : Int) (row col : Int) : Bool := !(s.assigned.testBit (row * ncol + col).toNat)

/-- `do { if (...) utah(row, col, chr++); row -= 2; col += 2; } while (row >= 0 && col < ncol);` -/
def sweepUp (nrow ncol : Int) : Nat → Int → Int → St → Int × Int × St
  | 0, row, col, s => (row, col, s)
  | f+1, row, col, s =>
    let s := if row < nrow ∧ col ≥ 0 ∧ free s ncol row col then utah nrow ncol s row col else s
    let row := row - 2
    let col := col + 2
    if row ≥ 0 ∧ col < ncol then sweepUp nrow ncol f row col s else (row, col, s)

def sweepDown (nrow ncol : Int) : Nat → Int → Int → St → Int × Int × St
  | 0, row, col, s => (row, col, s)
  | f+1, row, col, s =>
    let s := if row ≥ 0 ∧ col < ncol ∧ free s ncol row col then utah nrow ncol s row col else s
    let row := row + 2
    let col := col - 2
    if row < nrow ∧ col ≥ 0 then sweepDown nrow ncol f row col s else (row, col, s)

/-- the outer `do … while ((row < nrow) || (col < ncol))` -/
def scan (nrow ncol : Int) : Nat → Int → Int → St → St
  | 0, _, _, s => s
  | f+1, row, col, s =>
    let s := if row = nrow ∧ col = 0 then corner1 nrow ncol s else s
    let s := if row = nrow - 2 ∧ col = 0 ∧ ncol % 4 ≠ 0 then corner2 nrow ncol s else s
    let s := if row = nrow - 2 ∧ col = 0 ∧ ncol % 8 = 4 then corner3 nrow ncol s else s
    let s := if row = nrow + 4 ∧ col = 2 ∧ ncol % 8 = 0 then corner4 nrow ncol s else s
    let (row, col, s) := sweepUp nrow ncol (nrow.toNat + ncol.toNat) row col s
    let row := row + 1
    let col := col + 3
    let (row, col, s) := sweepDown nrow ncol (nrow.toNat + ncol.toNat) row col s
    let row := row + 3
    let col := col + 1
    if row < nrow ∨ col < ncol then scan nrow ncol f row col s else s

structure Result where
  /-- for character c (0-based) the positions of its bits 1..8 (bit 1 = most significant) -/
  chars : List (List Nat)
  /-- positions of the fixed pattern set to 1 when the lower right corner stays untouched -/
  fixedDark : List Nat
  /-- bit set of all positions assigned to characters -/
  assigned : Nat

/-- `ECC200()` for an `nrow × ncol` mapping matrix -/
def ecc200 (nrow ncol : Nat) : Result :=
  let s := scan nrow ncol (nrow + ncol) 4 0 { assigned := 0, chr := 0, out := [] }
  let untouched := !(s.assigned.testBit (nrow * ncol - 1))
  { chars := s.out.reverse
    fixedDark := if untouched then [nrow * ncol - 1, nrow * ncol - ncol - 2] else []
    assigned := s.assigned }

end DM.Spec.AnnexF
