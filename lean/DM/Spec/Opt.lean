import DM.Spec.Build
/-
C10 oracle: a search for short legal encodings (scripts for the reference builder) of an
input with a given set of enabled modes, for every symbol capacity.

The search is an *upper bound* on the smallest possible capacity: dynamic programming over
clean ASCII-context boundaries with whole runs as edges, plus the end-of-symbol forms. Every
answer comes with a witness script whose stream is re-checked with the reference decoder (and,
in the harness, with the crate's own decoder), so a reported "a smaller symbol would do" is
always backed by a concrete legal stream. It is not claimed to be complete.
-/
namespace DM.Spec.Opt
open DM.Spec.Stream DM.Spec.Build

structure Best where
  cost : Nat
  items : List Item      -- reversed

def asciiCost (b : Nat) : Nat := if b < 128 then 1 else 2
def isDigit (b : Nat) : Bool := 48 ≤ b && b ≤ 57

def c40Cost (text : Bool) (run : List Nat) : Option Nat :=
  let vals := run.flatMap (c40Vals text)
  if vals.length % 3 = 0 ∧ run.all (fun b => !(c40Vals text b).isEmpty) then some (2 * (vals.length / 3)) else none

def x12Cost (run : List Nat) : Option Nat :=
  if run.length % 3 = 0 ∧ run.all (fun b => (x12Val b).isSome) then some (2 * (run.length / 3)) else none

def edifactOk (run : List Nat) : Bool := run.all fun b => 32 ≤ b && b ≤ 94

/-- enabled-mode bits: Ascii=1, C40=2, Text=4, X12=8, Edifact=16, Base256=32 -/
def en (modes bit : Nat) : Bool := modes / bit % 2 == 1

def pushAscii (items : List Item) (bytes : List Nat) : List Item :=
  match items with
  | .ascii _ b :: t => .ascii true (b ++ bytes) :: t
  | t => .ascii true bytes :: t

def better (a : Option Best) (b : Best) : Option Best :=
  match a with
  | some x => if x.cost ≤ b.cost then some x else some b
  | none => some b

/-- DP table: `best[i]` = cheapest way to have encoded `input[0..i]` and be in ASCII context -/
def table (input : Array Nat) (modes : Nat) (maxRun : Nat) : Array (Option Best) := Id.run do
  let n := input.size
  let mut best : Array (Option Best) := Array.replicate (n + 1) none
  best := best.set! 0 (some { cost := 0, items := [] })
  for i in [0:n] do
    match best[i]! with
    | none => pure ()
    | some b =>
      let c := input[i]!
      if en modes 1 then
        best := best.set! (i + 1) (better best[i + 1]! { cost := b.cost + asciiCost c, items := pushAscii b.items [c] })
        if i + 1 < n ∧ isDigit c ∧ isDigit input[i + 1]! then
          best := best.set! (i + 2) (better best[i + 2]! { cost := b.cost + 1, items := pushAscii b.items [c, input[i + 1]!] })
      for j in [i + 1 : min n (i + maxRun) + 1] do
        let run := (input.extract i j).toList
        if en modes 2 then
          if let some k := c40Cost false run then
            best := best.set! j (better best[j]! { cost := b.cost + 2 + k, items := .c40 false run true :: b.items })
        if en modes 4 then
          if let some k := c40Cost true run then
            best := best.set! j (better best[j]! { cost := b.cost + 2 + k, items := .c40 true run true :: b.items })
        if en modes 8 then
          if let some k := x12Cost run then
            best := best.set! j (better best[j]! { cost := b.cost + 2 + k, items := .x12 run true :: b.items })
        if en modes 16 ∧ edifactOk run then
          best := best.set! j (better best[j]! { cost := b.cost + 1 + (6 * (run.length + 1) + 7) / 8, items := .edifact run true :: b.items })
        if en modes 32 then
          best := best.set! j (better best[j]! { cost := b.cost + 1 + run.length + (if run.length ≤ 249 then 1 else 2), items := .base256 run false :: b.items })
  return best

/-- a script that fits capacity `cap`, if the search finds one -/
def fit (input : Array Nat) (modes : Nat) (best : Array (Option Best)) (cap : Nat) (maxRun : Nat) : Option Script := Id.run do
  let n := input.size
  -- (a) everything closed, then pads
  if let some b := best[n]! then
    if b.cost ≤ cap then return some { header := 0, items := b.items.reverse, pad := cap - b.cost }
  -- (b) a last run that ends with the symbol
  for i in [0:n] do
    if n - i ≤ maxRun then
    if let some b := best[i]! then
      let run := (input.extract i n).toList
      let mk (it : List Item) : Option Script := some { header := 0, items := b.items.reverse ++ it, pad := 0 }
      for text in [false, true] do
        if en modes (if text then 4 else 2) then
          if let some k := c40Cost text run then
            if b.cost + 1 + k = cap then return mk [.c40 text run false]
          -- one ASCII codeword after the last complete triple
          if run.length ≥ 2 then
            let last := run.getLast!
            if let some k := c40Cost text run.dropLast then
              if last < 128 ∧ b.cost + 1 + k + 1 = cap then return mk [.c40 text run.dropLast false, .ascii false [last]]
      if en modes 8 then
        if let some k := x12Cost run then
          if b.cost + 1 + k = cap then return mk [.x12 run false]
        if run.length ≥ 2 then
          let last := run.getLast!
          if let some k := x12Cost run.dropLast then
            if last < 128 ∧ b.cost + 1 + k + 1 = cap then return mk [.x12 run.dropLast false, .ascii false [last]]
      if en modes 16 then
        for tail in [0, 1, 2, 3, 4] do
          if tail ≤ run.length then
            let body := run.take (run.length - tail)
            let tl := run.drop (run.length - tail)
            -- (an empty run followed by ASCII codewords would only smuggle ASCII in: not considered)
            if body.length % 4 = 0 ∧ body.length ≥ 4 ∧ edifactOk body then
              let used := b.cost + 1 + 3 * (body.length / 4)
              let tcw := asciiCw true tl
              if used ≤ cap ∧ cap - used ≤ 2 ∧ tcw.length ≤ cap - used ∧ (tail = 0 → used = cap) then
                return some { header := 0, items := b.items.reverse ++ [.edifact body false] ++ (if tl.isEmpty then [] else [.ascii true tl]),
                              pad := cap - used - tcw.length }
      if en modes 32 then
        if b.cost + 2 + run.length = cap then return mk [.base256 run true]
  return none

structure Answer where
  capIndex : Nat            -- index into the capacity list given
  script : Script

/-- the candidate scripts for one total capacity `capT`.  `hdr` = 0: no header codeword; 1: FNC1
in first position; 5 / 6: Macro 05 / 06 codeword (then `body` is the message without the envelope).
The header codeword takes one codeword of the symbol. -/
def cands (hdr : Nat) (body : List Nat) (modes : Nat) (best : Array (Option Best)) (maxRun capT : Nat) : List Script :=
  let hl := if hdr = 0 then 0 else 1
  if capT < hl then [] else
  let cap := capT - hl
  let l : List Script :=
    (match fit body.toArray modes best cap maxRun with | some s => [s] | none => []) ++
    -- whole-message candidates for long inputs (pure Base256 with its two length forms)
    (if en modes 32 ∧ body.length ≥ 1 ∧ body.length ≤ 1555 then
      (if 2 + body.length = cap then [{ header := 0, items := [.base256 body true], pad := 0 }] else []) ++
      (let c := 1 + body.length + (if body.length ≤ 249 then 1 else 2)
       if c ≤ cap then [{ header := 0, items := [.base256 body false], pad := cap - c }] else [])
     else [])
  l.map fun s0 => { s0 with header := hdr }

/-- a candidate is accepted if its stream fills the capacity exactly and the reference decoder maps
it back to the whole message (`full`), with the FNC1 flag as requested -/
def accepts (hdr : Nat) (full : List Nat) (capT : Nat) (s : Script) : Bool :=
  let cw := build s
  cw.length == capT &&
  match Stream.decode cw with
  | .ok d => d.bytes == full && d.fnc1 == (hdr == 1)
  | .error _ => false

/-- smallest capacity (first in the given ascending list) for which the search finds a script
whose stream the reference decoder maps back to the input -/
def searchH (hdr : Nat) (full body : List Nat) (modes : Nat) (caps : List Nat) : Option Answer :=
  let maxRun := if body.length ≤ 48 then 48 else 0
  let best := table body.toArray modes maxRun
  caps.zipIdx.findSome? fun (capT, k) =>
    (cands hdr body modes best maxRun capT).findSome? fun s =>
      if accepts hdr full capT s then some { capIndex := k, script := s } else none

def search (input : List Nat) (modes : Nat) (caps : List Nat) : Option Answer := searchH 0 input input modes caps

end DM.Spec.Opt
