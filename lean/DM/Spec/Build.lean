import DM.Spec.Stream
/-
An independent reference *encoder* for ISO/IEC 16022 data codeword streams: a script of mode
runs with explicit termination forms is turned into a stream. It is used to confront the
crate's decoder with legal streams its own optimiser would never produce (property C04).

Only forms whose legality is beyond doubt are generated:
* ASCII: one codeword per byte < 128, Upper Shift + codeword for bytes ≥ 128, digit pairs
  packed or not (the script decides);
* C40 / Text / X12: whole triples only (the script generator cuts runs accordingly), ended by
  UNLATCH (254), or by the end of the symbol, or — with exactly one codeword left — by a single
  ASCII codeword without UNLATCH;
* EDIFACT: quadruples; the run ends with the UNLATCH value (31) in the next free slot, or at the
  end of the symbol after a complete quadruple, or with ≤ 2 symbol codewords left after a complete
  quadruple which are then ASCII codewords;
* Base 256: explicit length (1 or 2 codewords) or length 0 = to the end of the symbol, 255-state
  randomised by codeword position;
* optional header: Macro 05 / 06 or FNC1 in first position;
* padding: 129 followed by 253-state randomised pads, in ASCII mode only.
-/
namespace DM.Spec.Build
open DM.Spec.Stream

def randomize255 (v pos : Nat) : Nat := (v + rand255 pos) % 256
def randomize253 (pos : Nat) : Nat :=
  let t := 129 + rand253 pos
  if t ≤ 254 then t else t - 254

/-- ASCII codewords for bytes; `pair` says whether two digits are packed -/
def asciiCw (pair : Bool) : List Nat → List Nat
  | a :: b :: t =>
    if pair ∧ 48 ≤ a ∧ a ≤ 57 ∧ 48 ≤ b ∧ b ≤ 57 then (130 + (a - 48) * 10 + (b - 48)) :: asciiCw pair t
    else (if a < 128 then [a + 1] else [235, a - 127]) ++ asciiCw pair (b :: t)
  | [a] => if a < 128 then [a + 1] else [235, a - 127]
  | [] => []

/-- C40 / Text values of one byte -/
def c40Vals (text : Bool) (b : Nat) : List Nat :=
  let lo := b % 128
  let up : List Nat := if b ≥ 128 then [1, 30] else []
  let base := if text then textBase else c40Base
  let sh3 := if text then textShift3 else c40Shift3
  up ++ (match base.idxOf? lo with
    | some i => [i + 3]
    | none =>
      if lo < 32 then [0, lo]
      else match shift2Set.idxOf? lo with
        | some i => [1, i]
        | none => match sh3.idxOf? lo with
          | some i => [2, i]
          | none => [])

def packTriples : List Nat → List Nat
  | a :: b :: c :: t =>
    let v := 1600 * a + 40 * b + c + 1
    (v / 256) :: (v % 256) :: packTriples t
  | _ => []

def x12Val (b : Nat) : Option Nat :=
  if b = 13 then some 0 else if b = 42 then some 1 else if b = 62 then some 2 else if b = 32 then some 3
  else if 48 ≤ b ∧ b ≤ 57 then some (b - 48 + 4) else if 65 ≤ b ∧ b ≤ 90 then some (b - 65 + 14) else none

/-- pack 6-bit values, 4 per 3 codewords (the list length must be a multiple of 4) -/
def packEdifact : List Nat → List Nat
  | a :: b :: c :: d :: t =>
    ((a * 4 + b / 16) % 256) :: (((b % 16) * 16 + c / 4) % 256) :: (((c % 4) * 64 + d) % 256) :: packEdifact t
  | _ => []

inductive Item where
  | ascii (pair : Bool) (bytes : List Nat)
  | c40 (text : Bool) (bytes : List Nat) (unlatch : Bool)   -- value count must be a multiple of 3
  | x12 (bytes : List Nat) (unlatch : Bool)                 -- length must be a multiple of 3
  | edifact (bytes : List Nat) (unlatch : Bool)             -- 32..94; without unlatch: multiple of 4
  | base256 (bytes : List Nat) (toEnd : Bool)
  deriving Repr

def Item.bytes : Item → List Nat
  | .ascii _ b => b | .c40 _ b _ => b | .x12 b _ => b | .edifact b _ => b | .base256 b _ => b

/-- append the codewords of one item to the stream built so far -/
def emit (cw : List Nat) : Item → List Nat
  | .ascii pair b => cw ++ asciiCw pair b
  | .c40 text b un =>
    cw ++ [if text then 239 else 230] ++ packTriples (b.flatMap (c40Vals text)) ++ (if un then [254] else [])
  | .x12 b un =>
    cw ++ [238] ++ packTriples (b.filterMap x12Val) ++ (if un then [254] else [])
  | .edifact b un =>
    let vals := b.map (· % 64)
    if un then
      -- UNLATCH value in the next slot, the group is cut after the codeword that holds it
      let full := vals ++ [31]
      let n := full.length
      let padded := full ++ List.replicate ((4 - n % 4) % 4) 0
      let all := packEdifact padded
      -- codewords needed for n six-bit values: ceil(6n/8)
      cw ++ [240] ++ all.take ((6 * n + 7) / 8)
    else cw ++ [240] ++ packEdifact vals
  | .base256 b toEnd =>
    let start := cw.length + 1      -- index of the length field (0-based), after the latch
    let hdr : List Nat :=
      if toEnd then [0]
      else if b.length ≤ 249 then [b.length] else [b.length / 250 + 249, b.length % 250]
    let field := hdr ++ b
    cw ++ [231] ++ (field.zipIdx.map fun (v, k) => randomize255 v (start + k + 1))

structure Script where
  header : Nat            -- 0 none, 5 / 6 macro, 1 FNC1
  items : List Item
  pad : Nat               -- number of pad codewords appended (0 = symbol exactly full)
  deriving Repr

def build (s : Script) : List Nat :=
  let h : List Nat := match s.header with | 5 => [236] | 6 => [237] | 1 => [232] | _ => []
  let body := s.items.foldl emit h
  if s.pad = 0 then body
  else
    let first := body ++ [129]
    (List.range (s.pad - 1)).foldl (fun acc _ => acc ++ [randomize253 (acc.length + 1)]) first

/-- the bytes the script stands for -/
def meaning (s : Script) : List Nat :=
  let b := s.items.flatMap Item.bytes
  match s.header with
  | 5 => macroHead 5 ++ b ++ macroTrail
  | 6 => macroHead 6 ++ b ++ macroTrail
  | _ => b

/-! ### random legal scripts -/

structure G where
  s : Nat

def G.next (g : G) : G × Nat :=
  let s := (g.s * 6364136223846793005 + 1442695040888963407) % 18446744073709551616
  ({ s := s }, s / 4294967296)

def G.below (g : G) (n : Nat) : G × Nat := let (g, v) := g.next; (g, if n = 0 then 0 else v % n)

def genBytes (g : G) (n : Nat) (f : Nat → Nat) : G × List Nat :=
  (List.range n).foldl (fun (acc : G × List Nat) _ => let (g, v) := acc.1.next; (g, acc.2 ++ [f v])) (g, [])

def c40ish (v : Nat) : Nat :=
  -- mostly basic-set characters, sometimes shift sets and upper shift
  let k := v % 100
  if k < 60 then (if v / 100 % 37 = 0 then 32 else if v / 100 % 37 ≤ 10 then 47 + v / 100 % 37 else 54 + v / 100 % 37)
  else if k < 70 then v / 100 % 32
  else if k < 80 then 33 + v / 100 % 15
  else if k < 90 then 96 + v / 100 % 32
  else 128 + v / 100 % 128

/-- cut a byte list so that its C40/Text value count is a multiple of 3 -/
def cutTriples (text : Bool) : List Nat → List Nat
  | l =>
    let rec go : Nat → List Nat → List Nat
      | 0, l => l
      | f + 1, l =>
        if (l.flatMap (c40Vals text)).length % 3 = 0 then l else go f l.dropLast
    go (l.length + 1) l

def genItem (g : G) (last : Bool) : G × Item :=
  let (g, kind) := g.below 6
  let (g, n) := g.below 14
  let (g, flag) := g.below 2
  match kind with
  | 0 =>
    let (g, b) := genBytes g n fun v => if v % 5 = 0 then 48 + v / 7 % 10 else if v % 11 = 0 then 128 + v / 13 % 128 else v / 3 % 128
    (g, .ascii (flag = 1) b)
  | 1 | 2 =>
    let text := kind = 2
    -- one run in eight uses only the extreme basic-set values (39 = 'Z', 3 = space, 4 = '0'), so that whole
    -- triples of the largest / smallest values (packed 64000 = (250, 0), 4965, ...) occur at triple boundaries
    let (g, ext) := g.below 8
    let (g, b) := genBytes g (n + 1) (if ext = 0 then fun v => [90, 90, 90, 32, 48, 90, 65].getD (v % 7) 90 else c40ish)
    let b := cutTriples text (if text then b.map fun x => if 65 ≤ x % 128 ∧ x % 128 ≤ 90 then x + 32 else x else b)
    (g, .c40 text b (flag = 1 || !last))
  | 3 =>
    let (g, ext) := g.below 8
    let (g, b) := genBytes g (3 * (n / 3 + 1)) (if ext = 0 then fun v => [90, 90, 90, 13, 90, 13, 90].getD (v % 7) 90
      else fun v => [13, 42, 62, 32, 48 + v / 7 % 10, 65 + v / 7 % 26, 65 + v / 11 % 26].getD (v % 7) 32)
    (g, .x12 b (flag = 1 || !last))
  | 4 =>
    let un := flag = 1 || !last
    let (g, b) := genBytes g (if un then n else 4 * (n / 4 + 1)) fun v => 32 + v % 63
    (g, .edifact b un)
  | _ =>
    let (g, big) := g.below 40
    let len := if big = 0 then 250 + n * 20 else n + 1   -- an explicit length of 0 would mean "to the end"
    let (g, b) := genBytes g len fun v => v % 256
    (g, .base256 b (flag = 1 && last))

def genScript (g : G) : G × Script :=
  let (g, h) := g.below 8
  let header := if h = 0 then 5 else if h = 1 then 6 else if h = 2 then 1 else 0
  let (g, k) := g.below 5
  let (g, items) := (List.range (k + 1)).foldl
    (fun (acc : G × List Item) i => let (g, it) := genItem acc.1 (i = k); (g, acc.2 ++ [it])) (g, [])
  -- padding is only legal in ASCII mode: after an explicit unlatch / a Base256 field with explicit
  -- length / an ASCII run; the "to the end" forms fill the symbol exactly
  let exact := match items.getLast? with
    | some (.c40 _ _ false) | some (.x12 _ false) | some (.edifact _ false) | some (.base256 _ true) => true
    | _ => false
  let (g, p) := g.below 6
  (g, { header := header, items := items, pad := if exact then 0 else p })

end DM.Spec.Build

namespace DM.Spec.Build

/-- data capacities of the 48 symbols (ISO/IEC 16022 Table 7 and ISO/IEC 21471) -/
def capacities : List Nat :=
  [3, 5, 8, 10, 12, 16, 18, 22, 24, 30, 32, 36, 38, 43, 44, 49, 56, 62, 63, 64, 70, 72, 80, 84, 86, 90,
   108, 114, 118, 144, 174, 204, 280, 368, 456, 576, 696, 816, 1050, 1304, 1558]

/-- add the end-of-symbol tail forms and make the stream fill a real symbol exactly -/
def fitScript (g : G) (s : Script) : G × Option Script :=
  -- optional short ASCII tail after a run that ends without UNLATCH
  let (g, t) := g.below 4
  let (g, v) := g.next
  let items := match s.items.getLast? with
    | some (.c40 _ _ false) | some (.x12 _ false) =>
      if t < 2 then s.items ++ [.ascii false [v % 128]] else s.items
    | some (.edifact _ false) =>
      if t = 0 then s.items ++ [.ascii false [v % 128]]
      else if t = 1 then s.items ++ [.ascii true [48 + v % 10, 48 + v / 10 % 10]]
      else if t = 2 then s.items ++ [.ascii false [v % 128, v / 128 % 128]]
      else s.items
    | _ => s.items
  let tailed := items.length ≠ s.items.length
  let exact := tailed || s.pad = 0 && (match s.items.getLast? with
    | some (.c40 _ _ false) | some (.x12 _ false) | some (.edifact _ false) | some (.base256 _ true) => true
    | _ => false)
  let s1 : Script := { s with items := items, pad := 0 }
  let len := (build s1).length
  -- an EDIFACT group must not start with fewer than three codewords left in the symbol (those
  -- would be ASCII): keep two spare codewords when the stream is padded anyway
  -- every other padded script is instead fitted tightly: the smallest capacity that holds it (0 or 1 pad
  -- codewords are possible), and half of those are filled up at the front so that a run with an explicit
  -- end (ASCII, UNLATCH, Base 256 with a length) ends exactly with the symbol. A script for which this
  -- breaks the EDIFACT rule is one on which reference builder and reference decoder disagree: dropped.
  let (g, tight) := g.below 4
  match capacities.find? (· ≥ (if exact || tight < 2 then len else len + 2)) with
  | none => (g, none)
  | some cap =>
    if exact || tight = 0 then
      if cap = len then (g, some s1)
      else
        -- fill up at the front with ASCII letters (one codeword each)
        let s2 : Script := { s1 with items := .ascii false (List.replicate (cap - len) 65) :: s1.items }
        (g, if (build s2).length = cap then some s2 else none)
    else
      (g, some { s1 with pad := cap - len })

/-- `n` random legal scripts -/
def genScripts (seed n : Nat) : List Script :=
  let rec go : Nat → G → List Script → List Script
    | 0, _, acc => acc.reverse
    | k + 1, g, acc =>
      let (g, s) := genScript g
      let (g, fs) := fitScript g s
      match fs with
      | some s => go k g (s :: acc)
      | none => go k g acc
  go n { s := seed * 2 + 1 } []

/-- (stream, meaning) of `n` random legal scripts -/
def genStreams (seed n : Nat) : List (List Nat × List Nat) :=
  (genScripts seed n).map fun s => (build s, meaning s)

end DM.Spec.Build
