/-
ISO/IEC 16022 Table 6: encoding of the ECI assignment number after codeword 241.
-/
namespace DM.Spec.Eci

/-- the designator codewords for ECI number `n` (0 … 999999) -/
def designator (n : Nat) : List Nat :=
  if n ≤ 126 then [n + 1]
  else if n ≤ 16382 then [(n - 127) / 254 + 128, (n - 127) % 254 + 1]
  else [(n - 16383) / 64516 + 192, ((n - 16383) / 254) % 254 + 1, (n - 16383) % 254 + 1]

/-- the number encoded by a well-formed designator, with its length -/
def value : List Nat → Option (Nat × Nat)
  | c1 :: t =>
    if 1 ≤ c1 ∧ c1 ≤ 127 then some (c1 - 1, 1)
    else if 128 ≤ c1 ∧ c1 ≤ 191 then
      match t with
      | c2 :: _ => if 1 ≤ c2 ∧ c2 ≤ 254 then some ((c1 - 128) * 254 + (c2 - 1) + 127, 2) else none
      | [] => none
    else if 192 ≤ c1 ∧ c1 ≤ 207 then
      match t with
      | c2 :: c3 :: _ =>
        if 1 ≤ c2 ∧ c2 ≤ 254 ∧ 1 ≤ c3 ∧ c3 ≤ 254 then
          some ((c1 - 192) * 64516 + (c2 - 1) * 254 + (c3 - 1) + 16383, 3)
        else none
      | _ => none
    else none
  | [] => none

end DM.Spec.Eci
