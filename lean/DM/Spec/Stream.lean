/-
ISO/IEC 16022 §5.2: a reference *decoder* giving every data codeword stream its meaning,
written from the standard's encodation rules (not from the crate). It returns the decoded
bytes together with the mode that carried each byte, the sequence of latches, the ECI
designators met and the position of the first pad codeword.

Interpretation decisions where the text leaves room are listed in DESIGN.md §5.0.
This file is used compiled, as an oracle on the implementation's output.
-/
namespace DM.Spec.Stream

inductive Mode | ascii | c40 | text | x12 | edifact | base256
  deriving Repr, BEq, DecidableEq

def Mode.char : Mode → Char
  | .ascii => 'A' | .c40 => 'C' | .text => 'T' | .x12 => 'X' | .edifact => 'E' | .base256 => 'B'

/-- 253-state randomisation of pad codewords (§5.2.3, B.1); `pos` is 1-based -/
def rand253 (pos : Nat) : Nat := (149 * pos) % 253 + 1
def unrand253 (cw pos : Nat) : Nat :=
  let r := rand253 pos
  if cw ≥ r + 1 then cw - r else cw + 254 - r
/-- 255-state randomisation of Base 256 codewords (B.2) -/
def rand255 (pos : Nat) : Nat := (149 * pos) % 255 + 1
def unrand255 (cw pos : Nat) : Nat :=
  let r := rand255 pos
  if cw ≥ r then cw - r else cw + 256 - r

/-- Table 3 / Table 4 character sets -/
def c40Base : List Nat := [32] ++ (List.range 10).map (· + 48) ++ (List.range 26).map (· + 65)
def textBase : List Nat := [32] ++ (List.range 10).map (· + 48) ++ (List.range 26).map (· + 97)
def shift2Set : List Nat :=
  (List.range 15).map (· + 33) ++ (List.range 7).map (· + 58) ++ (List.range 5).map (· + 91)
def c40Shift3 : List Nat := (List.range 32).map (· + 96)
def textShift3 : List Nat := [96] ++ (List.range 26).map (· + 65) ++ (List.range 5).map (· + 123)

structure CState where
  shift : Nat := 0       -- 0 none, 1..3
  upper : Bool := false

/-- one C40/Text value -/
def c40Value (text : Bool) (st : CState) (v : Nat) : Except String (CState × Option Nat) :=
  let emit (b : Nat) : Except String (CState × Option Nat) :=
    .ok ({ shift := 0, upper := false }, some (if st.upper then b + 128 else b))
  match st.shift with
  | 0 =>
    if v < 3 then .ok ({ st with shift := v + 1 }, none)
    else if v < 40 then emit ((if text then textBase else c40Base).getD (v - 3) 0)
    else .error "c40 value >= 40"
  | 1 => if v < 32 then emit v else .error "shift1 value >= 32"
  | 2 =>
    if v < 27 then emit (shift2Set.getD v 0)
    else if v = 30 then .ok ({ shift := 0, upper := true }, none)
    else .error s!"shift2 value {v} unsupported"
  | _ =>
    if v < 32 then emit ((if text then textShift3 else c40Shift3).getD v 0)
    else .error "shift3 value >= 32"

/-- Table 5 (ANSI X12) -/
def x12Value (v : Nat) : Except String Nat :=
  if v = 0 then .ok 13 else if v = 1 then .ok 42 else if v = 2 then .ok 62 else if v = 3 then .ok 32
  else if v < 14 then .ok (48 + v - 4) else if v < 40 then .ok (65 + v - 14) else .error "x12 value >= 40"

def edifactChar (v : Nat) : Nat := if v ≥ 32 then v else v + 64

/-- Table 6: ECI designator after codeword 241: (number, codewords used) -/
def readEci (cw : Array Nat) (i : Nat) : Except String (Nat × Nat) :=
  let n := cw.size
  if i ≥ n then .error "ECI designator missing" else
  let c1 := cw[i]!
  if 1 ≤ c1 ∧ c1 ≤ 127 then .ok (c1 - 1, 1)
  else if 128 ≤ c1 ∧ c1 ≤ 191 then
    if i + 1 ≥ n then .error "ECI designator truncated" else
    let c2 := cw[i+1]!
    if 1 ≤ c2 ∧ c2 ≤ 254 then .ok ((c1 - 128) * 254 + (c2 - 1) + 127, 2) else .error "ECI c2"
  else if 192 ≤ c1 ∧ c1 ≤ 207 then
    if i + 2 ≥ n then .error "ECI designator truncated" else
    let c2 := cw[i+1]!
    let c3 := cw[i+2]!
    if 1 ≤ c2 ∧ c2 ≤ 254 ∧ 1 ≤ c3 ∧ c3 ≤ 254 then
      .ok ((c1 - 192) * 64516 + (c2 - 1) * 254 + (c3 - 1) + 16383, 3)
    else .error "ECI c2/c3"
  else .error "ECI c1"

structure St where
  i : Nat := 0
  mode : Mode := .ascii
  out : Array Nat := #[]
  cst : CState := {}
  trace : Array Mode := #[]            -- carrying mode per output byte
  latches : Array (Nat × Mode) := #[]  -- (codeword position, mode) of each latch
  ecis : Array (Nat × Nat) := #[]      -- (output length at that point, ECI number)
  padAt : Option Nat := none

def push (s : St) (b : Nat) (m : Mode) : St := { s with out := s.out.push b, trace := s.trace.push m }
def latch (s : St) (m : Mode) : St :=
  { s with i := s.i + 1, mode := m, cst := {}, latches := s.latches.push (s.i, m) }

/-- one decoding step; `none` = finished -/
def step (cw : Array Nat) (s : St) : Except String (Option St) := do
  let n := cw.size
  let i := s.i
  if i ≥ n then return none
  let c := cw[i]!
  match s.mode with
  | .ascii =>
    if 1 ≤ c ∧ c ≤ 128 then return some { push s (c - 1) .ascii with i := i + 1 }
    else if c = 129 then
      for j in [i+1:n] do
        if unrand253 cw[j]! (j + 1) ≠ 129 then throw s!"bad pad at {j}"
      return some { s with i := n, padAt := some i }
    else if c ≤ 229 then
      let d := c - 130
      let s := push (push s (48 + d / 10) .ascii) (48 + d % 10) .ascii
      return some { s with i := i + 1 }
    else if c = 230 then return some (latch s .c40)
    else if c = 231 then return some (latch s .base256)
    else if c = 235 then
      if i + 1 < n then
        let d := cw[i+1]!
        if 1 ≤ d ∧ d ≤ 128 then return some { push s (d - 1 + 128) .ascii with i := i + 2 }
        else throw "bad upper shift"
      else throw "upper shift at end"
    else if c = 238 then return some (latch s .x12)
    else if c = 239 then return some (latch s .text)
    else if c = 240 then return some (latch s .edifact)
    else if c = 241 then
      let (e, used) ← readEci cw (i + 1)
      return some { s with i := i + 1 + used, ecis := s.ecis.push (s.out.size, e) }
    else throw s!"illegal ascii codeword {c} at {i}"
  | .c40 | .text =>
    let r := n - i
    if r = 1 then
      if c = 254 then return some { s with i := i + 1, mode := .ascii }
      else return some { s with mode := .ascii }
    else if c = 254 then return some { s with i := i + 1, mode := .ascii }
    else
      let v := c * 256 + cw[i+1]!
      if v = 0 then throw "c40 pair 0"
      let v := v - 1
      let vals := [v / 1600, (v / 40) % 40, v % 40]
      if v / 1600 ≥ 40 then throw "c40 pair too big"
      let mut s := s
      for x in vals do
        let (cst, ob) ← c40Value (s.mode == .text) s.cst x
        s := { s with cst := cst }
        if let some b := ob then s := push s b s.mode
      return some { s with i := i + 2 }
  | .x12 =>
    let r := n - i
    if r = 1 then
      if c = 254 then return some { s with i := i + 1, mode := .ascii }
      else return some { s with mode := .ascii }
    else if c = 254 then return some { s with i := i + 1, mode := .ascii }
    else
      let v := c * 256 + cw[i+1]!
      if v = 0 then throw "x12 pair 0"
      let v := v - 1
      if v / 1600 ≥ 40 then throw "x12 pair too big"
      let mut s := s
      for x in [v / 1600, (v / 40) % 40, v % 40] do
        s := push s (← x12Value x) .x12
      return some { s with i := i + 2 }
  | .edifact =>
    let r := n - i
    if r ≤ 2 then return some { s with mode := .ascii }
    else
      let a := cw[i]!; let b := cw[i+1]!; let d := cw[i+2]!
      let v1 := a / 4
      if v1 = 31 then return some { s with i := i + 1, mode := .ascii }
      let s := push s (edifactChar v1) .edifact
      let v2 := (a % 4) * 16 + b / 16
      if v2 = 31 then return some { s with i := i + 2, mode := .ascii }
      let s := push s (edifactChar v2) .edifact
      let v3 := (b % 16) * 4 + d / 64
      if v3 = 31 then return some { s with i := i + 3, mode := .ascii }
      let s := push s (edifactChar v3) .edifact
      let v4 := d % 64
      if v4 = 31 then return some { s with i := i + 3, mode := .ascii }
      let s := push s (edifactChar v4) .edifact
      return some { s with i := i + 3 }
  | .base256 =>
    let d1 := unrand255 c (i + 1)
    let (len, start) ←
      if d1 = 0 then pure (n - (i + 1), i + 1)
      else if d1 ≤ 249 then pure (d1, i + 1)
      else if i + 1 < n then pure (250 * (d1 - 249) + unrand255 cw[i+1]! (i + 2), i + 2)
      else throw "base256 length truncated"
    if start + len > n then throw "base256 overruns symbol"
    let mut s := s
    for j in [start:start+len] do
      s := push s (unrand255 cw[j]! (j + 1)) .base256
    return some { s with i := start + len, mode := .ascii }

def run (cw : Array Nat) : Nat → St → Except String St
  | 0, s => .ok s
  | f+1, s => do
    match ← step cw s with
    | none => return s
    | some s' => run cw f s'

def macroHead (k : Nat) : List Nat := [91, 41, 62, 30, 48, 48 + k, 29]
def macroTrail : List Nat := [30, 4]

structure Decoded where
  bytes : List Nat            -- including the macro header / trailer if any
  body : List Nat             -- without them
  trace : List Mode           -- carrying mode of each body byte
  latches : List (Nat × Mode)
  ecis : List (Nat × Nat)     -- positions relative to the body
  padAt : Option Nat
  «macro» : Nat               -- 0 none, 5, 6
  fnc1 : Bool

/-- reference decoding of the data codewords of a whole symbol -/
def decode (cwl : List Nat) : Except String Decoded := do
  let cw := cwl.toArray
  let mac := match cwl with
    | 236 :: _ => 5
    | 237 :: _ => 6
    | _ => 0
  let i0 := if mac = 0 then 0 else 1
  let fnc1 := mac = 0 ∧ cw.getD 0 0 = 232
  let i1 := if fnc1 then 1 else i0
  let s ← run cw (3 * cw.size + 4) { i := i1 }
  let body := s.out.toList
  let bytes := if mac = 0 then body else macroHead mac ++ body ++ macroTrail
  return { bytes := bytes, body := body, trace := s.trace.toList, latches := s.latches.toList,
           ecis := s.ecis.toList, padAt := s.padAt, «macro» := mac, fnc1 := fnc1 }

end DM.Spec.Stream
