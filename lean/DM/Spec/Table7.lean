/-
ISO/IEC 16022:2006 Table 7 (ECC 200 symbol attributes) and ISO/IEC 21471:2020 (DMRE),
typed in by hand from the standards. This file is the *definition* of catalogue
conformance used by property C12. It does not look at the crate's source.

Row: symbol rows, symbol columns, number of data regions vertically and
horizontally, data codewords, error codewords (total), interleaved blocks.
-/
namespace DM.Spec

structure StdRow where
  rows : Nat
  cols : Nat
  vRegions : Nat
  hRegions : Nat
  dataCw : Nat
  eccCw : Nat
  blocks : Nat
  deriving DecidableEq, Repr

/-- ISO/IEC 16022 Table 7: 24 square and 6 rectangular symbols. -/
def table7 : List StdRow := [
  ⟨10, 10, 1, 1, 3, 5, 1⟩,
  ⟨12, 12, 1, 1, 5, 7, 1⟩,
  ⟨14, 14, 1, 1, 8, 10, 1⟩,
  ⟨16, 16, 1, 1, 12, 12, 1⟩,
  ⟨18, 18, 1, 1, 18, 14, 1⟩,
  ⟨20, 20, 1, 1, 22, 18, 1⟩,
  ⟨22, 22, 1, 1, 30, 20, 1⟩,
  ⟨24, 24, 1, 1, 36, 24, 1⟩,
  ⟨26, 26, 1, 1, 44, 28, 1⟩,
  ⟨32, 32, 2, 2, 62, 36, 1⟩,
  ⟨36, 36, 2, 2, 86, 42, 1⟩,
  ⟨40, 40, 2, 2, 114, 48, 1⟩,
  ⟨44, 44, 2, 2, 144, 56, 1⟩,
  ⟨48, 48, 2, 2, 174, 68, 1⟩,
  ⟨52, 52, 2, 2, 204, 84, 2⟩,
  ⟨64, 64, 4, 4, 280, 112, 2⟩,
  ⟨72, 72, 4, 4, 368, 144, 4⟩,
  ⟨80, 80, 4, 4, 456, 192, 4⟩,
  ⟨88, 88, 4, 4, 576, 224, 4⟩,
  ⟨96, 96, 4, 4, 696, 272, 4⟩,
  ⟨104, 104, 4, 4, 816, 336, 6⟩,
  ⟨120, 120, 6, 6, 1050, 408, 6⟩,
  ⟨132, 132, 6, 6, 1304, 496, 8⟩,
  ⟨144, 144, 6, 6, 1558, 620, 10⟩,
  ⟨8, 18, 1, 1, 5, 7, 1⟩,
  ⟨8, 32, 1, 2, 10, 11, 1⟩,
  ⟨12, 26, 1, 1, 16, 14, 1⟩,
  ⟨12, 36, 1, 2, 22, 18, 1⟩,
  ⟨16, 36, 1, 2, 32, 24, 1⟩,
  ⟨16, 48, 1, 2, 49, 28, 1⟩
]

/-- ISO/IEC 21471 DMRE: 18 additional rectangular symbols. -/
def dmre : List StdRow := [
  ⟨8, 48, 1, 2, 18, 15, 1⟩,
  ⟨8, 64, 1, 4, 24, 18, 1⟩,
  ⟨8, 80, 1, 4, 32, 22, 1⟩,
  ⟨8, 96, 1, 4, 38, 28, 1⟩,
  ⟨8, 120, 1, 6, 49, 32, 1⟩,
  ⟨8, 144, 1, 6, 63, 36, 1⟩,
  ⟨12, 64, 1, 4, 43, 27, 1⟩,
  ⟨12, 88, 1, 4, 64, 36, 1⟩,
  ⟨16, 64, 1, 4, 62, 36, 1⟩,
  ⟨20, 36, 1, 2, 44, 28, 1⟩,
  ⟨20, 44, 1, 2, 56, 34, 1⟩,
  ⟨20, 64, 1, 4, 84, 42, 1⟩,
  ⟨22, 48, 1, 2, 72, 38, 1⟩,
  ⟨24, 48, 1, 2, 80, 41, 1⟩,
  ⟨24, 64, 1, 4, 108, 46, 1⟩,
  ⟨26, 40, 1, 2, 70, 38, 1⟩,
  ⟨26, 48, 1, 2, 90, 42, 1⟩,
  ⟨26, 64, 1, 4, 118, 50, 1⟩
]

/-- Symbols whose mapping matrix leaves a 2×2 corner unused (Annex F): 12, 16, 20, 24 square. -/
def hasFixedCorner (r : StdRow) : Bool :=
  r.rows == r.cols && (r.rows == 12 || r.rows == 16 || r.rows == 20 || r.rows == 24)

/-- Size of the mapping matrix. -/
def StdRow.mapRows (r : StdRow) : Nat := r.rows - 2 * r.vRegions
def StdRow.mapCols (r : StdRow) : Nat := r.cols - 2 * r.hRegions

end DM.Spec
