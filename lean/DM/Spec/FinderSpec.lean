import DM.Spec.Table7
/-
ISO/IEC 16022 §5.1/§7: finder pattern and alignment patterns by region arithmetic.
A symbol of `rows × cols` modules consists of `vRegions × hRegions` data regions; every data
region is surrounded by its own finder: left column and bottom row solid dark, top row and
right column alternating dark/light such that the upper right corner module is light.
The data modules of the regions, concatenated, form the mapping matrix.
-/
namespace DM.Spec

inductive Pix where
  | dark
  | light
  | cell (k : Nat)     -- k-th cell of the mapping matrix, row-major
  deriving DecidableEq, Repr

/-- classification of module (i, j) (row, column from the top left) -/
def finderPix (r : StdRow) (i j : Nat) : Pix :=
  let rh := r.rows / r.vRegions        -- region height including its finder
  let rw := r.cols / r.hRegions
  let ri := i % rh
  let rj := j % rw
  if rj = 0 then .dark                              -- solid left column
  else if ri = rh - 1 then .dark                    -- solid bottom row
  else if ri = 0 then (if rj % 2 = 0 then .dark else .light)       -- top clock track
  else if rj = rw - 1 then (if ri % 2 = 1 then .dark else .light)  -- right clock track
  else
    let mi := (i / rh) * (rh - 2) + (ri - 1)
    let mj := (j / rw) * (rw - 2) + (rj - 1)
    .cell (mi * (r.cols - 2 * r.hRegions) + mj)

/-- bit set of the dark finder modules (pixel index = i * cols + j) -/
def finderDark (r : StdRow) : Nat :=
  (List.range (r.rows * r.cols)).foldl
    (fun m p => if finderPix r (p / r.cols) (p % r.cols) = .dark then m ||| (1 <<< p) else m) 0

/-- pixel index of every mapping-matrix cell in row-major order of the mapping matrix -/
def finderCells (r : StdRow) : List Nat :=
  let rh := r.rows / r.vRegions
  let rw := r.cols / r.hRegions
  (List.range (r.mapRows * r.mapCols)).map fun k =>
    let mi := k / r.mapCols
    let mj := k % r.mapCols
    let i := (mi / (rh - 2)) * rh + mi % (rh - 2) + 1
    let j := (mj / (rw - 2)) * rw + mj % (rw - 2) + 1
    i * r.cols + j

/-- consistency of the two descriptions: cell k sits where `finderPix` says `cell k` -/
def finderSelfCheck (r : StdRow) : Bool :=
  ((finderCells r).zip (List.range (r.mapRows * r.mapCols))).all fun (p, k) =>
    finderPix r (p / r.cols) (p % r.cols) == .cell k

end DM.Spec
