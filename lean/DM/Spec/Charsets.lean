/-
Single-byte character sets of the ECI assignments supported by the crate, from the Unicode
consortium mapping files (ISO8859/8859-1.TXT, 8859-9.TXT, 8859-11.TXT), restricted to the
printable area: 0x20–0x7E and 0xA0–0xFF. `none` = control character or undefined.
-/
namespace DM.Spec.Charsets

def printable (b : Nat) : Bool := (0x20 ≤ b && b ≤ 0x7E) || (0xA0 ≤ b && b ≤ 0xFF)

/-- ISO/IEC 8859-1 (ECI 3, and the default interpretation) -/
def latin1 (b : Nat) : Option Nat := if printable b then some b else none

/-- ISO/IEC 8859-9 (ECI 11): Latin-1 with six Turkish letters -/
def latin5 (b : Nat) : Option Nat :=
  if !printable b then none
  else if b = 0xD0 then some 0x011E
  else if b = 0xDD then some 0x0130
  else if b = 0xDE then some 0x015E
  else if b = 0xF0 then some 0x011F
  else if b = 0xFD then some 0x0131
  else if b = 0xFE then some 0x015F
  else some b

/-- ISO/IEC 8859-11 (ECI 13): Thai; 0xDB–0xDE and 0xFC–0xFF are undefined -/
def thai (b : Nat) : Option Nat :=
  if 0x20 ≤ b ∧ b ≤ 0x7E then some b
  else if b = 0xA0 then some 0x00A0
  else if 0xA1 ≤ b ∧ b ≤ 0xDA then some (0x0E01 + (b - 0xA1))
  else if 0xDF ≤ b ∧ b ≤ 0xFB then some (0x0E3F + (b - 0xDF))
  else none

/-- US-ASCII (ECI 27): the 7-bit sequences pass unchanged -/
def ascii7 (b : Nat) : Option Nat := if b < 128 then some b else none

end DM.Spec.Charsets
