/-
Vector path semantics (SVG / PDF relative path operators) and the even–odd fill rule, for
paths on the unit grid.

A path starts implicitly at (0, 0) = the top-left corner. `h dx` / `v dy` draw relative
horizontal / vertical lines, `z` closes the current sub-path with a straight line to its
start point and moves there, `m dx dy` starts a new sub-path at the current point + (dx, dy)
(after `z` the current point is the start of the sub-path just closed). x grows to the right,
y grows downwards.

Even–odd rule: the unit cell (x, y) is inside iff the horizontal ray from its centre to the
left crosses the drawn lines an odd number of times, i.e. iff the number of traversals of unit
vertical edges {x'} × [y, y+1] with x' ≤ x is odd.
-/
namespace DM.Spec.Fill

inductive Seg where
  | h (dx : Int)
  | v (dy : Int)
  | z
  | m (dx dy : Int)
  deriving Repr, DecidableEq

structure St where
  px : Int
  py : Int
  sx : Int
  sy : Int
  closed : Bool                 -- the last operator was `z` (or nothing was drawn yet)
  vEdges : List (Nat × Nat)     -- unit vertical edges traversed: (x, y) = {x} × [y, y+1]
  hEdges : List (Nat × Nat)     -- unit horizontal edges traversed: (x, y) = [x, x+1] × {y}

/-- unit edges between `a` and `b` on a line: the lower endpoints -/
def span (a b : Int) : List Nat :=
  let lo := min a b
  let n := (max a b - lo).toNat
  (List.range n).map fun (k : Nat) => (lo + (k : Int)).toNat

def inBox (w h : Nat) (x y : Int) : Bool := 0 ≤ x && x ≤ w && 0 ≤ y && y ≤ h

/-- execute one operator; `none` = the path is not of the promised form
(zero-length or non-axis-parallel line, vertex outside the box, `m` without preceding `z`) -/
def step (w h : Nat) (s : St) : Seg → Option St
  | .h dx =>
    if dx = 0 then none else
    let nx := s.px + dx
    if !inBox w h nx s.py then none else
    some { s with px := nx, closed := false,
                  hEdges := s.hEdges ++ (span s.px nx).map fun x => (x, s.py.toNat) }
  | .v dy =>
    if dy = 0 then none else
    let ny := s.py + dy
    if !inBox w h s.px ny then none else
    some { s with py := ny, closed := false,
                  vEdges := s.vEdges ++ (span s.py ny).map fun y => (s.px.toNat, y) }
  | .z =>
    if s.px = s.sx then
      some { s with py := s.sy, closed := true,
                    vEdges := s.vEdges ++ (span s.py s.sy).map fun y => (s.px.toNat, y) }
    else if s.py = s.sy then
      some { s with px := s.sx, closed := true,
                    hEdges := s.hEdges ++ (span s.px s.sx).map fun x => (x, s.py.toNat) }
    else none
  | .m dx dy =>
    if !s.closed then none else
    let nx := s.px + dx
    let ny := s.py + dy
    if !inBox w h nx ny then none else
    some { s with px := nx, py := ny, sx := nx, sy := ny, closed := true }

def run (w h : Nat) : List Seg → St → Option St
  | [], s => some s
  | g :: gs, s =>
    match step w h s g with
    | none => none
    | some s' => run w h gs s'

def init : St := { px := 0, py := 0, sx := 0, sy := 0, closed := true, vEdges := [], hEdges := [] }

/-- the drawn unit edges of a well-formed path that ends with `z`; `none` otherwise -/
def edges (w h : Nat) (segs : List Seg) : Option (List (Nat × Nat) × List (Nat × Nat)) :=
  match run w h segs init with
  | some s => if s.closed then some (s.vEdges, s.hEdges) else none
  | none => none

/-- even–odd fill of cell (x, y), given the vertical unit edges drawn -/
def dark (vEdges : List (Nat × Nat)) (x y : Nat) : Bool :=
  (vEdges.filter fun e => e.2 == y && decide (e.1 ≤ x)).length % 2 == 1

end DM.Spec.Fill
