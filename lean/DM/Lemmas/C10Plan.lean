import DM.Lemmas.C10Succ
/-!
For "`optimize` always returns a plan when ASCII is enabled" (`DM/Props/C10Ascii.lean`), all six modes.

The only plan `add_switches` pushes nothing for is an X12 plan inside a triple (`values ≠ 0`, no
`switchCost`; `Bad`). Costs modulo 12 (`NormG`) separate such a plan from every X12 plan at a triple boundary
(`norm_distinct`), which gives the shape of a pruned list (`prune_tri`): it contains a plan of another
mode, or only `Bad` plans, or no `Bad` plan. A candidate of another mode than X12 is only removed in favour
of a plan that is kept and is not `Bad` (`prune_nonx12`).
-/
namespace DM.Lemmas.C10Plan
open DM.Model DM.Model.Plan DM.Model.Enc DM.Lemmas DM.Lemmas.PlanInv DM.Lemmas.PlanLoop
open DM.Lemmas.C10Live DM.Lemmas.C10Prune DM.Lemmas.C10AB DM.Lemmas.C10Succ

def Bad (g : GPlan) : Prop := g.switchCost = none

theorem bad_plan {g : GPlan} (h : Bad g) : ∃ p, g.plan = .x12 p ∧ p.values ≠ 0 := by
  unfold Bad GPlan.switchCost at h
  cases hp : g.plan with
  | x12 p =>
    rw [hp] at h
    simp only [] at h
    split at h
    · cases h
    · rename_i hv; exact ⟨p, rfl, hv⟩
  | ascii p => rw [hp] at h; cases h
  | c40 p => rw [hp] at h; cases h
  | edifact p => rw [hp] at h; cases h
  | base256 p => rw [hp] at h; cases h

theorem bad_x12 {g : GPlan} (h : Bad g) : g.current = .x12 := by
  obtain ⟨p, hp, _⟩ := bad_plan h
  simp [GPlan.current, hp, PlanImpl.mode]

theorem costFor_some_of_good {g : GPlan} (h : ¬ Bad g) (m : EMode) : ∃ x, g.costForSwitchingTo m = some x := by
  unfold Bad at h
  cases hs : g.switchCost with
  | none => exact absurd hs h
  | some s =>
    unfold GPlan.costForSwitchingTo
    split
    · exact ⟨_, rfl⟩
    · rw [hs]; cases m <;> exact ⟨_, rfl⟩

theorem costFor_bad {g : GPlan} (h : Bad g) (m : EMode) :
    (g.current = m ∧ g.costForSwitchingTo m = some g.cost) ∨ (g.current ≠ m ∧ g.costForSwitchingTo m = none) := by
  unfold Bad at h
  unfold GPlan.costForSwitchingTo
  by_cases hm : g.current = m
  · left; exact ⟨hm, by rw [if_pos hm]⟩
  · right; refine ⟨hm, ?_⟩
    rw [if_neg hm, h]
    cases m <;> rfl

theorem good_of_costFor {f : GPlan} {m : EMode} {x : Nat} (h : f.costForSwitchingTo m = some x)
    (hm : m ≠ .x12) : ¬ Bad f := by
  intro hb
  rcases costFor_bad hb m with ⟨h1, _⟩ | ⟨_, h2⟩
  · exact hm (by rw [← h1]; exact bad_x12 hb)
  · rw [h2] at h; cases h

/-! ### costs modulo 12 -/

def NormX (p : X12P) : Prop :=
  match p.asciiEnd with
  | none => p.cost % 12 = (8 * p.values) % 12 ∧ p.values < 3
  | some f => p.values = 0 ∧ p.cost % 6 = 0 ∧ f % 6 = 0

def NormG (g : GPlan) : Prop :=
  g.extra % 12 = 0 ∧
  match g.plan with
  | .c40 p => p.cost % 12 = 0
  | .base256 p => p.cost % 12 = 0
  | .x12 p => NormX p
  | _ => True

theorem norm_distinct {f y : GPlan} (hf : NormG f) (hy : NormG y) (hbf : Bad f) (hgy : ¬ Bad y)
    (hyx : y.current = .x12) : f.cost ≠ y.cost := by
  obtain ⟨pf, hpf, hvf⟩ := bad_plan hbf
  have hyp : ∃ py, y.plan = .x12 py := by
    unfold GPlan.current at hyx
    cases hp : y.plan with
    | x12 p => exact ⟨p, rfl⟩
    | c40 p => rw [hp] at hyx; simp only [PlanImpl.mode] at hyx; split at hyx <;> cases hyx
    | ascii p => rw [hp] at hyx; cases hyx
    | edifact p => rw [hp] at hyx; cases hyx
    | base256 p => rw [hp] at hyx; cases hyx
  obtain ⟨py, hpy⟩ := hyp
  have hvy : py.values = 0 := by
    unfold Bad GPlan.switchCost at hgy
    rw [hpy] at hgy
    simp only [] at hgy
    by_cases h0 : py.values = 0
    · exact h0
    · rw [if_neg h0] at hgy; exact absurd rfl hgy
  obtain ⟨fe, fn⟩ := hf
  obtain ⟨ye, yn⟩ := hy
  rw [hpf] at fn
  rw [hpy] at yn
  simp only [NormX] at fn yn
  simp only [GPlan.cost, hpf, hpy]
  have h1 : pf.cost % 12 = (8 * pf.values) % 12 ∧ pf.values < 3 := by
    cases hae : pf.asciiEnd with
    | none => rw [hae] at fn; exact fn
    | some f => rw [hae] at fn; exact absurd fn.1 hvf
  have h2 : py.cost % 6 = 0 := by
    cases hae : py.asciiEnd with
    | none => rw [hae] at yn; simp only [] at yn; rw [hvy] at yn; omega
    | some f => rw [hae] at yn; exact yn.2.1
  have : pf.values = 1 ∨ pf.values = 2 := by omega
  rcases this with h | h <;> rw [h] at h1 <;> omega

/-! #### X12 steps -/

theorem x12Init_norm {p q : X12P} (hn : NormX p) (hm : p.ctx.hasMore = true) (h : x12Init p = .ok (some q)) :
    NormX q ∧ q.values = p.values ∧ (p.values = 0 → p.ctx.charsLeft ≤ 2 → q.asciiEnd ≠ none) ∧
    q.ctx = p.ctx ∧ (q.asciiEnd ≠ none → p.ctx.charsLeft ≤ 2 ∨ p.asciiEnd ≠ none) := by
  unfold x12Init at h
  split at h
  · rename_i hcond
    obtain ⟨hv, hcl2, hae⟩ := hcond
    have hae' : p.asciiEnd = none := by simpa using hae
    have hpos : 0 < p.ctx.charsLeft := by
      simp only [Ctx.hasMore, decide_eq_true_eq] at hm
      simp only [Ctx.charsLeft]; omega
    have hpc : p.cost % 12 = 0 := by
      simp only [NormX, hae'] at hn
      rw [hv] at hn; omega
    have hcl : p.ctx.charsLeft = 1 ∨ p.ctx.charsLeft = 2 := by omega
    have key : ∀ (c : Nat) (f : Nat), f % 6 = 0 → c % 6 = 0 →
        NormX { p with cost := c, asciiEnd := some f } ∧ ({ p with cost := c, asciiEnd := some f } : X12P).values = p.values ∧
        (p.values = 0 → p.ctx.charsLeft ≤ 2 → ({ p with cost := c, asciiEnd := some f } : X12P).asciiEnd ≠ none) ∧
        ({ p with cost := c, asciiEnd := some f } : X12P).ctx = p.ctx ∧
        (({ p with cost := c, asciiEnd := some f } : X12P).asciiEnd ≠ none → p.ctx.charsLeft ≤ 2 ∨ p.asciiEnd ≠ none) := by
      intro c f hf hc
      exact ⟨⟨hv, hc, hf⟩, rfl, fun _ _ => by simp, rfl, fun _ => Or.inl hcl2⟩
    rcases hcl with hcl | hcl
    · rw [hcl] at h
      simp only [frac] at h
      simp only [Nat.succ_ne_zero, Nat.mod_one, ne_eq, not_true_eq_false, or_self, ↓reduceIte, Nat.div_one] at h
      split at h
      · split at h
        · cases h
        · split at h
          · simp only [Except.ok.injEq, Option.some.injEq] at h; rw [← h]; exact key _ _ (by omega) (by omega)
          · split at h
            · simp only [Except.ok.injEq, Option.some.injEq] at h; rw [← h]; exact key _ _ (by omega) (by omega)
            · simp only [Except.ok.injEq, Option.some.injEq] at h; rw [← h]; exact key _ _ (by omega) (by omega)
      · simp only [Except.ok.injEq, Option.some.injEq] at h; rw [← h]; exact key _ _ (by omega) (by omega)
    · rw [hcl] at h
      simp only [frac] at h
      simp only [Nat.succ_ne_zero, Nat.reduceMod, ne_eq, not_true_eq_false, or_self, ↓reduceIte, Nat.reduceDiv] at h
      split at h
      · split at h
        · cases h
        · split at h
          · simp only [Except.ok.injEq, Option.some.injEq] at h; rw [← h]; exact key _ _ (by omega) (by omega)
          · split at h
            · simp only [Except.ok.injEq, Option.some.injEq] at h; rw [← h]; exact key _ _ (by omega) (by omega)
            · simp only [Except.ok.injEq, Option.some.injEq] at h; rw [← h]; exact key _ _ (by omega) (by omega)
      · simp only [Except.ok.injEq, Option.some.injEq] at h; rw [← h]; exact key _ _ (by omega) (by omega)
  · rename_i hcond
    simp only [Except.ok.injEq, Option.some.injEq] at h
    rw [← h]
    refine ⟨hn, rfl, ?_, rfl, fun h => Or.inr h⟩
    intro hv hcl hnone
    exact hcond ⟨hv, hcl, by simp [hnone]⟩

theorem x12Step_norm {p p' : X12P} {r : StepResult} (hn : NormX p) (h : x12Step p = .ok (some (p', r))) :
    NormX p' ∧ (p.values = 0 → p.ctx.hasMore = true → p.ctx.charsLeft ≤ 2 → p'.values = 0) := by
  unfold x12Step at h
  simp only [] at h
  by_cases hm : p.ctx.hasMore = true
  · simp only [hm, Bool.not_true, Bool.false_eq_true, ↓reduceIte] at h
    cases hi : x12Init p with
    | error e => rw [hi] at h; cases h
    | ok oq =>
      cases oq with
      | none => rw [hi] at h; cases h
      | some q =>
        rw [hi] at h
        simp only [] at h
        obtain ⟨hnq, hvq, hae, _, _⟩ := x12Init_norm hn hm hi
        cases hqe : q.asciiEnd with
        | none =>
          rw [hqe] at h
          simp only [] at h
          split at h
          · cases h
          · simp only [Except.ok.injEq, Option.some.injEq, Prod.mk.injEq] at h
            simp only [NormX, hqe] at hnq
            refine ⟨?_, ?_⟩
            · rw [← h.1]
              split
              · simp only [NormX]; omega
              · simp only [NormX]; omega
            · intro hv _ hcl
              exact absurd hqe (hae hv hcl)
        | some f =>
          rw [hqe] at h
          simp only [Except.ok.injEq, Option.some.injEq, Prod.mk.injEq] at h
          simp only [NormX, hqe] at hnq
          rw [← h.1]
          refine ⟨?_, fun _ _ _ => hnq.1⟩
          simp only [NormX]
          exact ⟨hnq.1, by omega, hnq.2.2⟩
  · simp only [hm, Bool.not_false, ↓reduceIte, Except.ok.injEq, Option.some.injEq, Prod.mk.injEq] at h
    rw [← h.1]
    exact ⟨hn, fun _ hm' => absurd hm' hm⟩

/-! #### C40 / Text steps -/

theorem c40Flush_cost (u : Bool) : ∀ (f : Nat) (p : C40P), (c40Flush u f p).cost % 12 = p.cost % 12 := by
  intro f
  induction f with
  | zero => intro p; rfl
  | succ f ih =>
    intro p
    unfold c40Flush
    split
    · rw [ih]; simp only []; omega
    · rfl

theorem c40TwoDigit_cost {p q : C40P} (h : c40TwoDigit p = some q) : q.cost = p.cost := by
  unfold c40TwoDigit at h
  split at h
  · split at h
    · split at h
      · cases h
      · split at h
        · simp only [Option.some.injEq] at h; rw [← h]
        · split at h
          · simp only [Option.some.injEq] at h; rw [← h]
          · simp only [Option.some.injEq] at h; rw [← h]
    · simp only [Option.some.injEq] at h; rw [← h]
  · simp only [Option.some.injEq] at h; rw [← h]

theorem c40Init_cost {p q : C40P} (h : c40Init p = some q) : q.cost = p.cost := by
  unfold c40Init at h
  split at h
  · cases ht : c40TwoDigit p with
    | none => rw [ht] at h; cases h
    | some t =>
      rw [ht] at h
      simp only [Option.map_some, Option.some.injEq] at h
      rw [← h, ← c40TwoDigit_cost ht]
      unfold c40Strike
      split <;> rfl
  · simp only [Option.some.injEq] at h; rw [← h]

theorem c40Step_cost {p p' : C40P} {r : StepResult} (h : c40Step p = some (p', r)) :
    p'.cost % 12 = p.cost % 12 := by
  unfold c40Step at h
  cases hi : c40Init p with
  | none => rw [hi] at h; cases h
  | some q =>
    rw [hi] at h
    simp only [] at h
    have hq := c40Init_cost hi
    split at h
    · simp only [Option.some.injEq, Prod.mk.injEq] at h
      rw [← h.1, hq]
    · simp only [Option.some.injEq, Prod.mk.injEq] at h
      rw [← h.1, c40Flush_cost, ← hq]
      split
      · split <;> rfl
      · rfl

/-! #### all modes -/

theorem normG_step {g g' : GPlan} {r : StepResult} (hn : NormG g) (hs : g.step = .ok (some (g', r))) : NormG g' := by
  obtain ⟨h1, h2⟩ := hn
  unfold GPlan.step at hs
  cases hp : g.plan with
  | ascii p =>
    rw [hp] at hs
    simp only [] at hs
    split at hs
    · cases hs
    · simp only [Except.ok.injEq, Option.some.injEq, Prod.mk.injEq] at hs
      rw [← hs.1]; exact ⟨h1, trivial⟩
  | c40 p =>
    rw [hp] at hs h2
    simp only [] at hs h2
    split at hs
    · cases hs
    · rename_i p' r' hc
      simp only [Except.ok.injEq, Option.some.injEq, Prod.mk.injEq] at hs
      rw [← hs.1]
      refine ⟨h1, ?_⟩
      simp only []
      rw [c40Step_cost hc]; exact h2
  | x12 p =>
    rw [hp] at hs h2
    simp only [] at hs h2
    split at hs
    · cases hs
    · cases hs
    · rename_i p' r' hx
      simp only [Except.ok.injEq, Option.some.injEq, Prod.mk.injEq] at hs
      rw [← hs.1]
      exact ⟨h1, (x12Step_norm h2 hx).1⟩
  | edifact p =>
    rw [hp] at hs
    simp only [] at hs
    split at hs
    · cases hs
    · cases hs
    · simp only [Except.ok.injEq, Option.some.injEq, Prod.mk.injEq] at hs
      rw [← hs.1]; exact ⟨h1, trivial⟩
  | base256 p =>
    rw [hp] at hs h2
    simp only [] at hs h2
    split at hs
    · cases hs
    · rename_i p' r' hb
      simp only [Except.ok.injEq, Option.some.injEq, Prod.mk.injEq] at hs
      rw [← hs.1]
      refine ⟨h1, ?_⟩
      simp only []
      unfold b256Step at hb
      simp only [] at hb
      split at hb
      · simp only [Option.some.injEq, Prod.mk.injEq] at hb
        rw [← hb.1]; exact h2
      · split at hb
        · cases hb
        · simp only [Option.some.injEq, Prod.mk.injEq] at hb
          rw [← hb.1]
          simp only []
          omega

theorem normG_switchCost {g : GPlan} {s : Nat} {ctx : Ctx} (hn : NormG g) (hs : g.switchCost = some s)
    (hu : g.unlatch = .ok ctx) : s % 12 = 0 := by
  obtain ⟨h1, h2⟩ := hn
  unfold GPlan.switchCost at hs
  unfold GPlan.unlatch at hu
  cases hp : g.plan with
  | ascii p =>
    rw [hp] at hs
    simp only [Option.some.injEq] at hs
    have := ceil12_mod p.cost
    omega
  | c40 p =>
    rw [hp] at hs h2
    simp only [Option.some.injEq] at hs h2
    unfold c40SwitchCost at hs
    split at hs <;> omega
  | x12 p =>
    rw [hp] at hs h2 hu
    simp only [] at hs h2 hu
    split at hs
    · rename_i hv
      simp only [Option.some.injEq] at hs
      unfold x12Unlatch at hu
      split at hu
      · cases hu
      · split at hu
        · cases hu
        · rename_i hae
          have hae' : p.asciiEnd = none := by
            cases h : p.asciiEnd with
            | none => rfl
            | some f => rw [h] at hae; simp at hae
          simp only [NormX, hae'] at h2
          rw [hv] at h2
          omega
    · cases hs
  | edifact p =>
    rw [hp] at hs
    simp only [Option.some.injEq] at hs
    unfold ediSwitchCost at hs
    have a := ceil12_mod p.cost
    have b := ceil12_mod (p.cost + 9)
    split at hs <;> omega
  | base256 p =>
    rw [hp] at hs h2
    simp only [Option.some.injEq] at hs h2
    unfold b256SwitchCost at hs
    split at hs <;> omega

theorem normG_new (m : EMode) (ctx : Ctx) (e : Nat) (sw : List (Nat × EMode)) (he : e % 12 = 0) :
    NormG { extra := e, switches := sw, plan := newPlan m ctx } := by
  refine ⟨he, ?_⟩
  cases m <;> simp [newPlan, NormX, b256New]

theorem normG_child {g c : GPlan} {restLen : Nat} {asStart : Bool} {modes : Nat} {sw : List GPlan} {n : Nat}
    (hn : NormG g) (h : g.addSwitches restLen asStart modes = .ok (sw, n)) (hc : c ∈ sw) : NormG c := by
  obtain ⟨s, ctx, m, ce, r, hs, hu, _, _, _, hst⟩ := addSwitches_mem h c hc
  have hsm := normG_switchCost hn hs hu
  exact normG_step (normG_new m (ctx.write ce) (s + ce * 12) _ (by omega)) hst

/-! ### the shape of a pruned list -/

def PB : List GPlan → Prop
  | [] => True
  | x :: xs => x.current = .x12 → (Bad x ∧ PB xs)

theorem pb_all_bad : ∀ l : List GPlan, PB l → (∀ x ∈ l, x.current = .x12) → ∀ x ∈ l, Bad x := by
  intro l
  induction l with
  | nil => intro _ _ x hx; cases hx
  | cons a t ih =>
    intro hpb hall x hx
    have := hpb (hall a (List.mem_cons_self ..))
    rcases List.mem_cons.mp hx with rfl | hx
    · exact this.1
    · exact ih this.2 (fun y hy => hall y (List.mem_cons_of_mem _ hy)) x hx

/-- dominance by a `Bad` first plan (an X12 plan inside a triple) -/
theorem dom_bad (first : GPlan) (hb : Bad first) (hn : NormG first) : ∀ rest : List GPlan,
    (∀ c ∈ rest, NormG c ∧ first.cost ≤ c.cost) →
    PB (dominancePlans first rest).1 ∧
    ((dominancePlans first rest).2 = false → ∀ x ∈ (dominancePlans first rest).1, Bad x) := by
  intro rest
  induction rest with
  | nil => intro _; simp [dominancePlans, PB]
  | cons s rest ih =>
    intro hall
    have ihr := ih (fun c hc => hall c (List.mem_cons_of_mem _ hc))
    unfold dominancePlans
    rcases costFor_bad hb s.current with ⟨hcur, hcf⟩ | ⟨hcur, hcf⟩
    · rw [hcf]
      simp only
      split
      · exact ihr
      · rename_i hnlt
        have hsx : s.current = .x12 := by rw [← hcur]; exact bad_x12 hb
        have hbs : Bad s := by
          apply Classical.byContradiction
          intro hgs
          have hne := norm_distinct hn (hall s (List.mem_cons_self ..)).1 hb hgs hsx
          have := (hall s (List.mem_cons_self ..)).2
          omega
        refine ⟨fun _ => ⟨hbs, ihr.1⟩, ?_⟩
        intro hunc x hx
        rcases List.mem_cons.mp hx with rfl | hx
        · exact hbs
        · exact ihr.2 hunc x hx
    · rw [hcf]
      simp only
      refine ⟨?_, fun h => by cases h⟩
      intro hsx
      exact absurd (by rw [hsx]; exact bad_x12 hb) hcur

theorem phase2_bad : ∀ (f : Nat) (pre l : List GPlan), (∀ p ∈ pre, Bad p) → PB l → (∀ c ∈ l, NormG c) →
    l.Pairwise (fun a b => a.cost ≤ b.cost) →
    (∃ x ∈ phase2Plans f pre l, x.current ≠ .x12) ∨ (∀ x ∈ phase2Plans f pre l, Bad x) := by
  intro f
  induction f with
  | zero =>
    intro pre l hpre hpb _ _
    unfold phase2Plans
    by_cases hex : ∃ x ∈ l, x.current ≠ .x12
    · obtain ⟨x, hx, hne⟩ := hex
      exact Or.inl ⟨x, List.mem_append_right _ hx, hne⟩
    · right
      have hall : ∀ x ∈ l, x.current = .x12 := by
        intro x hx
        apply Classical.byContradiction
        intro hne
        exact hex ⟨x, hx, hne⟩
      intro x hx
      rcases List.mem_append.mp hx with hx | hx
      · exact hpre x hx
      · exact pb_all_bad l hpb hall x hx
  | succ f ih =>
    intro pre l hpre hpb hnorm hsorted
    cases l with
    | nil => right; unfold phase2Plans; exact hpre
    | cons first rest =>
      by_cases hx : first.current = .x12
      · have hbf := (hpb hx).1
        have hd := dom_bad first hbf (hnorm first (List.mem_cons_self ..)) rest (fun c hc =>
          ⟨hnorm c (List.mem_cons_of_mem _ hc), (List.pairwise_cons.mp hsorted).1 c hc⟩)
        have hsub := dominancePlans_sublist first rest
        unfold phase2Plans
        simp only
        split
        · rename_i hemp
          right
          have : rest = [] := by simpa using hemp
          subst this
          intro x hx'
          rcases List.mem_append.mp hx' with hx' | hx'
          · exact hpre x hx'
          · simp only [List.mem_singleton] at hx'; subst hx'; exact hbf
        · split
          · apply ih
            · intro p hp
              rcases List.mem_append.mp hp with hp | hp
              · exact hpre p hp
              · simp only [List.mem_singleton] at hp; subst hp; exact hbf
            · exact hd.1
            · exact fun c hc => hnorm c (List.mem_cons_of_mem _ (hsub.subset hc))
            · exact (List.pairwise_cons.mp hsorted).2.sublist hsub
          · rename_i hunc
            right
            intro x hx'
            rcases List.mem_append.mp hx' with hx' | hx'
            · exact hpre x hx'
            · rcases List.mem_cons.mp hx' with rfl | hx'
              · exact hbf
              · exact hd.2 (by simpa using hunc) x hx'
      · exact Or.inl ⟨first, phase2_head _ _ _ _, hx⟩

/-- dominance by a first plan that has a `switchCost` -/
theorem dom_good (first : GPlan) (hg : ¬ Bad first) : ∀ rest : List GPlan,
    (dominancePlans first rest).2 = false ∧
    ∀ c ∈ (dominancePlans first rest).1, ∃ x, first.costForSwitchingTo c.current = some x ∧ ¬ x < c.cost := by
  intro rest
  induction rest with
  | nil => simp [dominancePlans]
  | cons s rest ih =>
    unfold dominancePlans
    obtain ⟨x, hx⟩ := costFor_some_of_good hg s.current
    rw [hx]
    simp only
    split
    · exact ih
    · rename_i hnlt
      refine ⟨ih.1, ?_⟩
      intro c hc
      rcases List.mem_cons.mp hc with rfl | hc
      · exact ⟨x, hx, hnlt⟩
      · exact ih.2 c hc

def Tri (l : List GPlan) : Prop :=
  (∃ x ∈ l, x.current ≠ .x12) ∨ (∀ x ∈ l, Bad x) ∨ (∀ x ∈ l, ¬ Bad x)

theorem prune_tri {cands live : List GPlan} {perm : List Nat} (hn : ∀ c ∈ cands, NormG c)
    (h : removeHopelessPlans cands perm = .ok live) : Tri live := by
  unfold removeHopelessPlans at h
  cases ha : applyPerm cands perm with
  | error e => rw [ha] at h; cases h
  | ok sorted =>
    rw [ha] at h
    simp only [Except.ok.injEq] at h
    subst h
    obtain ⟨_, h2, h3⟩ := applyPerm_spec ha
    have hsub := dedupPlans_sublist sorted []
    have hsorted := h3.sublist hsub
    have hnorm : ∀ c ∈ dedupPlans sorted [], NormG c := fun c hc => hn c (h2 c (hsub.subset hc))
    generalize dedupPlans sorted [] = l at hsorted hnorm
    cases l with
    | nil => right; left; intro x hx; simp [phase2Plans] at hx
    | cons z rest =>
      by_cases hx : z.current = .x12
      · have hzr : ∀ c ∈ rest, NormG c ∧ z.cost ≤ c.cost := fun c hc =>
          ⟨hnorm c (List.mem_cons_of_mem _ hc), (List.pairwise_cons.mp hsorted).1 c hc⟩
        have hdsub := dominancePlans_sublist z rest
        by_cases hbz : Bad z
        · have hd := dom_bad z hbz (hnorm z (List.mem_cons_self ..)) rest hzr
          simp only [List.length_cons]
          unfold phase2Plans
          simp only
          split
          · right; left
            rename_i hemp
            have : rest = [] := by simpa using hemp
            subst this
            intro x hx'
            simp only [List.nil_append, List.mem_singleton] at hx'
            subst hx'; exact hbz
          · split
            · rcases phase2_bad rest.length ([] ++ [z]) _ (by
                  intro p hp; simp only [List.nil_append, List.mem_singleton] at hp; subst hp; exact hbz)
                hd.1 (fun c hc => hnorm c (List.mem_cons_of_mem _ (hdsub.subset hc)))
                ((List.pairwise_cons.mp hsorted).2.sublist hdsub) with h1 | h1
              · exact Or.inl h1
              · exact Or.inr (Or.inl h1)
            · rename_i hunc
              right; left
              intro x hx'
              simp only [List.nil_append] at hx'
              rcases List.mem_cons.mp hx' with rfl | hx'
              · exact hbz
              · exact hd.2 (by simpa using hunc) x hx'
        · have hd := dom_good z hbz rest
          right; right
          have hkept : ∀ c ∈ (dominancePlans z rest).1, ¬ Bad c := by
            intro c hc hbc
            obtain ⟨x, hx1, hx2⟩ := hd.2 c hc
            have hcx := bad_x12 hbc
            unfold GPlan.costForSwitchingTo at hx1
            rw [if_pos (by rw [hx, hcx])] at hx1
            simp only [Option.some.injEq] at hx1
            have hcr := hdsub.subset hc
            have hle := (hzr c hcr).2
            have hne := norm_distinct (hzr c hcr).1 (hnorm z (List.mem_cons_self ..)) hbc hbz hx
            omega
          simp only [List.length_cons]
          unfold phase2Plans
          simp only
          split
          · rename_i hemp
            have : rest = [] := by simpa using hemp
            subst this
            intro x hx'
            simp only [List.nil_append, List.mem_singleton] at hx'
            subst hx'; exact hbz
          · rw [hd.1]
            simp only [Bool.false_eq_true, ↓reduceIte, List.nil_append]
            intro x hx'
            rcases List.mem_cons.mp hx' with rfl | hx'
            · exact hbz
            · exact hkept x hx'
      · exact Or.inl ⟨z, phase2_head _ _ _ _, hx⟩

/-! ### a candidate of another mode than X12 -/

theorem nonx12_good {g : GPlan} (h : g.current ≠ .x12) : ¬ Bad g := fun hb => h (bad_x12 hb)

theorem phase2_nonx12 : ∀ (f : Nat) (pre l : List GPlan), ∀ d ∈ l, d.current ≠ .x12 →
    ∃ d' ∈ phase2Plans f pre l, ¬ Bad d' := by
  intro f
  induction f with
  | zero =>
    intro pre l d hd hx
    unfold phase2Plans
    exact ⟨d, List.mem_append_right _ hd, nonx12_good hx⟩
  | succ f ih =>
    intro pre l d hd hx
    cases l with
    | nil => cases hd
    | cons first rest =>
      rcases List.mem_cons.mp hd with rfl | hdr
      · exact ⟨d, phase2_head _ _ _ _, nonx12_good hx⟩
      · rcases dominance_chain first rest d hdr with hk | ⟨x, hx1, _⟩
        · unfold phase2Plans
          simp only
          split
          · exact ⟨d, List.mem_append_right _ hd, nonx12_good hx⟩
          · split
            · exact ih _ _ d hk hx
            · exact ⟨d, List.mem_append_right _ (List.mem_cons_of_mem _ hk), nonx12_good hx⟩
        · exact ⟨first, phase2_head _ _ _ _, good_of_costFor hx1 hx⟩

theorem prune_nonx12 {cands live : List GPlan} {perm : List Nat}
    (h : removeHopelessPlans cands perm = .ok live) :
    ∀ c ∈ cands, c.current ≠ .x12 → ∃ c' ∈ live, ¬ Bad c' := by
  intro c hc hx
  unfold removeHopelessPlans at h
  cases ha : applyPerm cands perm with
  | error e => rw [ha] at h; cases h
  | ok sorted =>
    rw [ha] at h
    simp only [Except.ok.injEq] at h
    subst h
    obtain ⟨h1, _, h3⟩ := applyPerm_spec ha
    obtain ⟨f, hf, hk, _⟩ := dedup_chain sorted [] h3 c (h1 c hc) (by simp)
    exact phase2_nonx12 _ [] _ f hf (by rw [pkey_current hk]; exact hx)

/-! ### the ASCII end of an X12 plan is at most two characters long -/

def AE (p : X12P) : Prop := p.asciiEnd ≠ none → p.ctx.charsLeft ≤ 1

theorem x12Step_ae {p p' : X12P} {r : StepResult} (hn : NormX p) (ha : AE p) (h : x12Step p = .ok (some (p', r))) :
    AE p' ∧ (r.unbeatable = true → p.ctx.hasMore = true → p.ctx.charsLeft ≤ 2) := by
  unfold x12Step at h
  simp only [] at h
  by_cases hm : p.ctx.hasMore = true
  · simp only [hm, Bool.not_true, Bool.false_eq_true, ↓reduceIte] at h
    cases hi : x12Init p with
    | error e => rw [hi] at h; cases h
    | ok oq =>
      cases oq with
      | none => rw [hi] at h; cases h
      | some q =>
        rw [hi] at h
        simp only [] at h
        obtain ⟨_, _, _, hctx, hq⟩ := x12Init_norm hn hm hi
        cases hqe : q.asciiEnd with
        | none =>
          rw [hqe] at h
          simp only [] at h
          split at h
          · cases h
          · simp only [Except.ok.injEq, Option.some.injEq, Prod.mk.injEq] at h
            rw [← h.1, ← h.2]
            constructor
            · intro hne
              exfalso
              apply hne
              split <;> rfl
            · intro hu
              exfalso
              revert hu
              split <;> simp
        | some f =>
          rw [hqe] at h
          simp only [Except.ok.injEq, Option.some.injEq, Prod.mk.injEq] at h
          have hcl : p.ctx.charsLeft ≤ 2 := by
            rcases hq (by rw [hqe]; simp) with h1 | h1
            · exact h1
            · have := ha h1; omega
          rw [← h.1]
          refine ⟨fun _ => ?_, fun _ _ => hcl⟩
          simp only [hctx, Ctx.eat, Ctx.charsLeft] at hcl ⊢
          omega
  · simp only [hm, Bool.not_false, ↓reduceIte, Except.ok.injEq, Option.some.injEq, Prod.mk.injEq] at h
    rw [← h.1]
    exact ⟨ha, fun _ hm' => absurd hm' hm⟩

def AEG (g : GPlan) : Prop := ∀ p, g.plan = .x12 p → NormX p → AE p

theorem gstep_x12_inv {g g' : GPlan} {r : StepResult} {p' : X12P} (hs : g.step = .ok (some (g', r)))
    (hp' : g'.plan = .x12 p') : ∃ p, g.plan = .x12 p ∧ x12Step p = .ok (some (p', r)) := by
  unfold GPlan.step at hs
  cases hp : g.plan with
  | x12 p =>
    rw [hp] at hs
    simp only [] at hs
    split at hs
    · cases hs
    · cases hs
    · rename_i q r' hx
      simp only [Except.ok.injEq, Option.some.injEq, Prod.mk.injEq] at hs
      rw [← hs.1] at hp'
      simp only [PlanImpl.x12.injEq] at hp'
      rw [← hp', ← hs.2]
      exact ⟨p, rfl, hx⟩
  | ascii p =>
    rw [hp] at hs
    simp only [] at hs
    split at hs
    · cases hs
    · simp only [Except.ok.injEq, Option.some.injEq, Prod.mk.injEq] at hs
      rw [← hs.1] at hp'; cases hp'
  | c40 p =>
    rw [hp] at hs
    simp only [] at hs
    split at hs
    · cases hs
    · simp only [Except.ok.injEq, Option.some.injEq, Prod.mk.injEq] at hs
      rw [← hs.1] at hp'; cases hp'
  | edifact p =>
    rw [hp] at hs
    simp only [] at hs
    split at hs
    · cases hs
    · cases hs
    · simp only [Except.ok.injEq, Option.some.injEq, Prod.mk.injEq] at hs
      rw [← hs.1] at hp'; cases hp'
  | base256 p =>
    rw [hp] at hs
    simp only [] at hs
    split at hs
    · cases hs
    · simp only [Except.ok.injEq, Option.some.injEq, Prod.mk.injEq] at hs
      rw [← hs.1] at hp'; cases hp'

theorem normX_of_normG {g : GPlan} {p : X12P} (hn : NormG g) (hp : g.plan = .x12 p) : NormX p := by
  have := hn.2
  rw [hp] at this
  exact this

theorem aeg_step {g g' : GPlan} {r : StepResult} (hn : NormG g) (ha : AEG g) (hs : g.step = .ok (some (g', r))) :
    AEG g' := by
  intro p' hp' _
  obtain ⟨p, hp, hx⟩ := gstep_x12_inv hs hp'
  have hnx := normX_of_normG hn hp
  exact (x12Step_ae hnx (ha p hp hnx) hx).1

theorem aeg_new (m : EMode) (ctx : Ctx) (e : Nat) (sw : List (Nat × EMode)) :
    AEG { extra := e, switches := sw, plan := newPlan m ctx } := by
  intro p hp _ hne
  cases m <;> simp only [newPlan] at hp <;> cases hp
  all_goals exact absurd rfl hne

theorem aeg_child {g c : GPlan} {restLen : Nat} {asStart : Bool} {modes : Nat} {sw : List GPlan} {n : Nat}
    (hn : NormG g) (h : g.addSwitches restLen asStart modes = .ok (sw, n)) (hc : c ∈ sw) : AEG c := by
  obtain ⟨s, ctx, m, ce, r, hs, hu, _, _, _, hst⟩ := addSwitches_mem h c hc
  have hsm := normG_switchCost hn hs hu
  exact aeg_step (normG_new m (ctx.write ce) (s + ce * 12) _ (by omega)) (aeg_new _ _ _ _) hst

/-- at most two characters before the end an X12 plan at a triple boundary stays there -/
theorem x12_stays {data : List Nat} {list : List Sym} {k : Nat} {g g' : GPlan} {r : StepResult} {p : X12P}
    (hn : NormG g) (hp : g.plan = .x12 p) (hc : CtxAt data list k p.ctx) (hlt : k < data.length)
    (hcl : data.length - k ≤ 2) (hv : p.values = 0) (hs : g.step = .ok (some (g', r))) : ¬ Bad g' := by
  intro hb
  obtain ⟨p', hp', hv'⟩ := bad_plan hb
  obtain ⟨q, hq, hx⟩ := gstep_x12_inv hs hp'
  rw [hp] at hq
  simp only [PlanImpl.x12.injEq] at hq
  subst hq
  have := (x12Step_norm (normX_of_normG hn hp) hx).2 hv (by rw [hasMore_iff hc]; simpa using hlt)
    (by rw [charsLeft_eq hc]; exact hcl)
  exact hv' this

theorem step_kind_new {m : EMode} {ctx : Ctx} {e : Nat} {sw : List (Nat × EMode)} {c : GPlan} {r : StepResult}
    {p' : X12P} (hs : GPlan.step { extra := e, switches := sw, plan := newPlan m ctx } = .ok (some (c, r)))
    (hp' : c.plan = .x12 p') : m = .x12 := by
  obtain ⟨p, hp, _⟩ := gstep_x12_inv hs hp'
  cases m <;> simp only [newPlan] at hp <;> first | rfl | cases hp

theorem allowed_of_unlatch_g {g : GPlan} {ctx : Ctx} (hu : g.unlatch = .ok ctx) : Allowed g.plan := by
  unfold GPlan.unlatch at hu
  cases hp : g.plan with
  | ascii p =>
    rw [hp] at hu
    simp only [] at hu
    split at hu
    · cases hu
    · rename_i h0
      simp only [Allowed]; omega
  | c40 p => trivial
  | x12 p =>
    rw [hp] at hu
    simp only [x12Unlatch] at hu
    split at hu
    · cases hu
    · split at hu
      · cases hu
      · rename_i hae
        simp only [Allowed]
        cases h : p.asciiEnd with
        | none => rfl
        | some f => rw [h] at hae; simp at hae
  | edifact p =>
    rw [hp] at hu
    simp only [ediUnlatch] at hu
    split at hu
    · cases hu
    · rename_i hae
      simp only [Allowed]
      cases h : p.asciiEnd with
      | none => rfl
      | some f => rw [h] at hae; simp at hae
  | base256 p => trivial

end DM.Lemmas.C10Plan
