import DM.Lemmas.DecRun
import DM.Lemmas.AsciiRT
import DM.Spec.Build
/-
Decoder completeness, ASCII runs (digit pairs packed or not, upper shift).
-/
namespace DM.Lemmas.Complete
open DM.Model.Dec DM.Gen DM.Lemmas DM.Lemmas.DecRun DM.Spec.Build DM.Lemmas.AsciiRT

theorem one_eq_enc1 (a : Nat) : (if a < 128 then [a + 1] else [235, a - 127]) = enc1 a := by
  unfold enc1
  by_cases h : a < 128
  · rw [if_pos h, if_pos (by omega)]
  · rw [if_neg h, if_neg (by omega)]
    have : a - 127 = a - 128 + 1 := by omega
    rw [this]

theorem dec_asciiCw (pair : Bool) : ∀ (n : Nat) (l : List Nat), l.length ≤ n → ByteList l → ∀ (tail : List Nat) (e : Nat)
    (out : List Nat) (ecis : List (Nat × Nat)),
    decodeAscii (asciiCw pair l ++ tail) e out ecis false 0 =
      decodeAscii tail (e + (asciiCw pair l).length) (out ++ l) ecis false 0 := by
  intro n
  induction n with
  | zero =>
    intro l hl _ tail e out ecis
    have : l = [] := List.length_eq_zero_iff.mp (by omega)
    subst this
    simp [asciiCw]
  | succ n ih =>
    intro l hl hb tail e out ecis
    match l, hb with
    | [], _ => simp [asciiCw]
    | [a], hb =>
      simp only [asciiCw, one_eq_enc1]
      exact dec_enc1 a hb.head tail e out ecis
    | a :: b :: t, hb =>
      simp only [asciiCw]
      split
      · rename_i hd
        have ha : DM.Model.Enc.isDigit a = true := by simp [DM.Model.Enc.isDigit]; omega
        have hb' : DM.Model.Enc.isDigit b = true := by simp [DM.Model.Enc.isDigit]; omega
        have hcw : 130 + (a - 48) * 10 + (b - 48) = (a - 48) * 10 + (b - 48) + 130 := by omega
        rw [List.cons_append, hcw, dec_pair a b ha hb']
        rw [ih t (by simp only [List.length_cons] at hl; omega) hb.tail.tail]
        simp only [List.length_cons, List.append_assoc, List.cons_append, List.nil_append]
        congr 1
        omega
      · rw [one_eq_enc1, List.append_assoc, dec_enc1 a hb.head]
        rw [ih (b :: t) (by simp only [List.length_cons] at hl ⊢; omega) hb.tail]
        simp only [List.length_append, List.append_assoc, List.singleton_append]
        congr 1
        omega

theorem seg_ascii (pair : Bool) (l tail : List Nat) (hb : ByteList l) (e : Nat) (out : List Nat) (ecis : List (Nat × Nat)) :
    decRun .ascii { rest := asciiCw pair l ++ tail, eaten := e, out := out, ecis := ecis } =
    decRun .ascii { rest := tail, eaten := e + (asciiCw pair l).length, out := out ++ l, ecis := ecis } := by
  by_cases hnil : asciiCw pair l ++ tail = []
  · have h1 := List.append_eq_nil_iff.mp hnil
    have hl : l = [] := by
      match l, h1.1 with
      | [], _ => rfl
      | [a], h => simp only [asciiCw] at h; split at h <;> simp at h
      | a :: b :: t, h => simp only [asciiCw] at h; split at h <;> (try split at h) <;> simp at h
    subst hl
    rw [h1.2]
    simp [asciiCw]
  · rw [decRun_ascii _ hnil]
    simp only []
    rw [dec_asciiCw pair l.length l (Nat.le_refl _) hb]
    by_cases ht : tail = []
    · subst ht
      rw [decRun_nil _ _ rfl]
      simp only [decodeAscii, ne_eq, not_true_eq_false, ↓reduceIte, Bool.false_eq_true]
      rw [decRun_nil _ _ rfl]
    · rw [decRun_ascii _ ht]

end DM.Lemmas.Complete
