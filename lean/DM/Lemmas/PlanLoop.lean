import DM.Lemmas.PlanInv
import DM.Props.C19
/-!
The planner's main loop: pruning keeps at most 36 of the candidates, every iteration preserves the
live-plan invariant, and the loop ends after `len + 1` iterations without reaching a panic site.
-/
namespace DM.Lemmas.PlanLoop
open DM.Model DM.Model.Plan DM.Model.Enc DM.Lemmas.PlanInv

def pkey (p : GPlan) : Nat := modeIndex p.startMode * 6 + modeIndex p.current

theorem modeIndex_lt (m : EMode) : modeIndex m < 6 := by cases m <;> decide

theorem dedupPlans_sublist : ∀ (l : List GPlan) (seen : List Nat), (dedupPlans l seen).Sublist l := by
  intro l
  induction l with
  | nil => intro seen; simp [dedupPlans]
  | cons p ps ih =>
    intro seen
    unfold dedupPlans
    simp only []
    split
    · exact (ih seen).cons p
    · exact (ih _).cons_cons p

theorem dedupPlans_keys : ∀ (l : List GPlan) (seen : List Nat),
    ((dedupPlans l seen).map pkey).Nodup ∧ ∀ p ∈ dedupPlans l seen, pkey p ∉ seen := by
  intro l
  induction l with
  | nil => intro seen; simp [dedupPlans]
  | cons p ps ih =>
    intro seen
    unfold dedupPlans
    simp only []
    split
    · exact ih seen
    · rename_i hns
      have := ih (pkey p :: seen)
      refine ⟨?_, ?_⟩
      · rw [List.map_cons, List.nodup_cons]
        refine ⟨?_, this.1⟩
        intro hm
        obtain ⟨q, hq, hk⟩ := List.mem_map.mp hm
        exact this.2 q hq (by rw [hk]; exact List.mem_cons_self ..)
      · intro q hq
        rcases List.mem_cons.mp hq with rfl | hq
        · simpa [pkey] using hns
        · intro hs
          exact this.2 q hq (List.mem_cons_of_mem _ hs)

theorem dominancePlans_sublist (first : GPlan) : ∀ l : List GPlan, (dominancePlans first l).1.Sublist l := by
  intro l
  induction l with
  | nil => simp [dominancePlans]
  | cons s rest ih =>
    unfold dominancePlans
    split
    · simp only
      split
      · exact ih.cons s
      · exact ih.cons_cons s
    · exact List.Sublist.refl _

theorem phase2Plans_sublist : ∀ (f : Nat) (pre l : List GPlan), (phase2Plans f pre l).Sublist (pre ++ l) := by
  intro f
  induction f with
  | zero => intro pre l; exact List.Sublist.refl _
  | succ f ih =>
    intro pre l
    unfold phase2Plans
    cases l with
    | nil => simp
    | cons first rest =>
      simp only
      split
      · exact List.Sublist.refl _
      · have hd := dominancePlans_sublist first rest
        split
        · have := ih (pre ++ [first]) (dominancePlans first rest).1
          refine this.trans ?_
          rw [List.append_assoc]
          exact (List.Sublist.refl pre).append (((List.Sublist.refl [first]).append hd))
        · exact (List.Sublist.refl pre).append (hd.cons_cons first)

/-- pruning keeps at most 36 plans, all of them candidates -/
theorem removeHopelessPlans_spec (cands : List GPlan) (perm : List Nat) (live : List GPlan)
    (h : removeHopelessPlans cands perm = .ok live) : live.length ≤ 36 ∧ ∀ g ∈ live, g ∈ cands := by
  unfold removeHopelessPlans at h
  cases ha : applyPerm cands perm with
  | error e => rw [ha] at h; cases h
  | ok sorted =>
    rw [ha] at h
    simp only [Except.ok.injEq] at h
    have hsub : ∀ g ∈ sorted, g ∈ cands := by
      unfold applyPerm at ha
      split at ha
      · cases ha
      · split at ha
        · cases ha
        · simp only [] at ha
          split at ha
          · cases ha
            intro g hg
            obtain ⟨i, _, hi⟩ := List.mem_filterMap.mp hg
            exact List.mem_of_getElem? hi
          · cases ha
    have h1 := phase2Plans_sublist (dedupPlans sorted []).length [] (dedupPlans sorted [])
    simp only [List.nil_append] at h1
    rw [h] at h1
    have hk := (dedupPlans_keys sorted []).1
    have hlen : (dedupPlans sorted []).length ≤ 36 := by
      have := DM.Props.C19.nodup_lt_length ((dedupPlans sorted []).map pkey) 36 hk (by
        intro k hk'
        obtain ⟨p, _, rfl⟩ := List.mem_map.mp hk'
        have a := modeIndex_lt p.startMode
        have b := modeIndex_lt p.current
        unfold pkey
        omega)
      simpa using this
    exact ⟨Nat.le_trans h1.length_le hlen,
      fun g hg => hsub g ((dedupPlans_sublist sorted []).subset (h1.subset hg))⟩

theorem pickBest_mem (l : List GPlan) (b : GPlan) (h : pickBest l = some b) : b ∈ l := by
  cases l with
  | nil => simp [pickBest] at h
  | cons p ps =>
    simp only [pickBest, Option.some.injEq] at h
    subst h
    -- a fold that always returns either the accumulator or the current element
    suffices ∀ (ps : List GPlan) (p : GPlan) (f : GPlan → GPlan → Bool),
        (ps.foldl (fun best g => if f g best then g else best) p) ∈ p :: ps from this ps p _
    intro ps
    induction ps with
    | nil => intro p f; simp
    | cons q qs ih =>
      intro p f
      simp only [List.foldl_cons]
      have := ih (if f q p = true then q else p) f
      rcases List.mem_cons.mp this with h | h
      · rw [h]; split <;> simp
      · exact List.mem_cons_of_mem _ (List.mem_cons_of_mem _ h)

/-- what users of the plan rely on: enabled modes only, positions never increase and end at 0 -/
def PlanOK (modes len : Nat) (p : List (Nat × EMode)) : Prop :=
  (∀ e ∈ p, enabledMode modes e.2 = true ∧ e.1 ≤ len) ∧ p.Pairwise (fun a b => a.1 ≥ b.1) ∧
  ∃ m, p.getLast? = some (0, m)

theorem finalPlan_ok {modes len k : Nat} (written dl : Nat) (g : GPlan) (h : SwOK modes len k g) :
    PlanOK modes len
      (if written = 0 ∧ (g.switches ++ [(0, g.current)]).head? = some (dl, EMode.ascii)
       then (g.switches ++ [(0, g.current)]).tail else g.switches ++ [(0, g.current)]) := by
  obtain ⟨h1, h2, h3, h4⟩ := h
  have hfull : PlanOK modes len (g.switches ++ [(0, g.current)]) := by
    refine ⟨?_, ?_, ⟨g.current, by simp⟩⟩
    · intro e he
      rcases List.mem_append.mp he with he | he
      · exact ⟨(h2 e he).1, (h2 e he).2.2⟩
      · simp only [List.mem_singleton] at he
        subst he
        exact ⟨h1, by simp⟩
    · rw [List.pairwise_append]
      refine ⟨h3, by simp, ?_⟩
      intro a _ b hb
      simp only [List.mem_singleton] at hb
      subst hb
      simp
  split
  · obtain ⟨f1, f2, m, f3⟩ := hfull
    cases hs : g.switches with
    | nil => exact absurd hs h4
    | cons a rest =>
      rw [hs] at f1 f2 f3
      simp only [List.cons_append, List.tail_cons] at f1 f2 f3 ⊢
      refine ⟨fun e he => f1 e (List.mem_cons_of_mem _ he), (List.pairwise_cons.mp f2).2, ⟨g.current, by simp⟩⟩
  · exact hfull

/-- the outcome of the loop -/
def OutcomeOK (modes len bound : Nat) (r : Plan.R Outcome) : Prop :=
  match r with
  | .error .badPerm => True
  | .error _ => False
  | .ok o => o.steps ≤ bound ∧ o.maxLive ≤ 36 ∧ ∀ p, o.plan = some p → PlanOK modes len p

theorem optLoop_spec {data list modes} (written : Nat) :
    ∀ (f k : Nat) (plans : List GPlan) (perms : List (List Nat)) (steps maxLive : Nat),
      k ≤ data.length → data.length - k + 1 ≤ f → (∀ g ∈ plans, Live data list modes k g) →
      (k = 0 → ∀ g ∈ plans, g.switches.length = 1) → plans.length ≤ 36 → maxLive ≤ 36 →
      OutcomeOK modes data.length (steps + 216 * (data.length - k + 1))
        (optLoop data written modes f k plans perms steps maxLive) := by
  intro f
  induction f with
  | zero => intro k plans perms steps maxLive _ hf; omega
  | succ f ih =>
    intro k plans perms steps maxLive hk hf hlive hst hlen hml
    unfold optLoop
    rw [if_neg (by omega)]
    simp only []
    obtain ⟨cands, steps', atEnd, e1, e2, e3, e4, e5⟩ :=
      iterate_spec (data := data) (list := list) (modes := modes) hk plans [] steps false hlive
        (by intro h0 g hg; exact hst (by simpa using h0) g hg) (by simp) (by simp)
    rw [e1]
    simp only []
    cases perms with
    | nil => trivial
    | cons perm perms =>
      simp only []
      cases hr : removeHopelessPlans cands perm with
      | error e =>
        unfold removeHopelessPlans at hr
        cases ha : applyPerm cands perm with
        | error e' =>
          rw [ha] at hr
          simp only [Except.error.injEq] at hr
          subst hr
          unfold applyPerm at ha
          split at ha
          · cases ha; trivial
          · split at ha
            · cases ha; trivial
            · simp only [] at ha
              split at ha
              · cases ha
              · cases ha; trivial
        | ok s => rw [ha] at hr; cases hr
      | ok live =>
        obtain ⟨hl36, hmem⟩ := removeHopelessPlans_spec cands perm live hr
        simp only []
        have hsteps : steps' ≤ steps + 216 := by omega
        have hmax : max maxLive live.length ≤ 36 := by omega
        by_cases hempty : live.isEmpty = true
        · rw [if_pos hempty]
          exact ⟨by simp only []; omega, hmax, by simp⟩
        · rw [if_neg hempty]
          have hliveInv : ∀ g ∈ live, Live data list modes (nxt data k) g := fun g hg => e2 g (hmem g hg)
          by_cases hat : atEnd = true
          · rw [if_pos hat]
            cases hb : pickBest live with
            | none =>
              cases live with
              | nil => simp at hempty
              | cons a l => simp [pickBest] at hb
            | some best =>
              simp only []
              refine ⟨by simp only []; omega, hmax, ?_⟩
              intro p hp
              simp only [Option.some.injEq] at hp
              subst hp
              exact finalPlan_ok written data.length best (hliveInv best (pickBest_mem live best hb)).2
          · rw [if_neg hat]
            have hpl : plans ≠ [] := by
              intro hnil
              subst hnil
              simp only [iteratePlans, Except.ok.injEq, Prod.mk.injEq] at e1
              obtain ⟨rfl, _, _⟩ := e1
              cases live with
              | nil => simp at hempty
              | cons a l => exact absurd (hmem a (List.mem_cons_self ..)) (by simp)
            have hlt : k < data.length := by
              by_cases hlt : k < data.length
              · exact hlt
              · exact absurd (e5 (Or.inl hpl) hlt) hat
            have hn : nxt data k = k + 1 := by simp [nxt, hlt]
            rw [hn] at hliveInv
            have := ih (k + 1) live perms steps' (max maxLive live.length) (by omega) (by omega) hliveInv
              (by intro h0; omega) hl36 hmax
            have h216 : 216 * (data.length - k + 1) = 216 + 216 * (data.length - (k + 1) + 1) := by
              have : data.length - k = (data.length - (k + 1)) + 1 := by omega
              rw [this]; omega
            generalize optLoop data written modes f (k + 1) live perms steps' (max maxLive live.length) = res at this ⊢
            unfold OutcomeOK at this ⊢
            cases res with
            | error e => cases e <;> simp_all
            | ok o =>
              simp only [] at this ⊢
              exact ⟨by omega, this.2⟩

end DM.Lemmas.PlanLoop
