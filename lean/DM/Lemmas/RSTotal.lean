import DM.Model.RSDec
import DM.Lemmas.GFLaws
/-
Totality of the Reed–Solomon decoder model up to the algebraic debug assertions:
every index / slice / subtraction / division / length-assertion panic site of
`DM.Model.RS.decode` is unreachable; the only panics the model can produce are
`debug_assert eq (3)` and `debug_assert eq (4)` of the Levinson–Durbin iteration.
-/
namespace DM.Lemmas.RSTotal
set_option linter.unusedSimpArgs false
open DM.Model DM.Model.RS DM.Lemmas

def AlgebraicSite (s : String) : Prop :=
  s = "debug_assert eq (3)" ∨ s = "debug_assert eq (4)"

/-! ### a weakest-precondition style predicate: `x` returns a value satisfying `P`,
fails with a non-panic error, or panics at a site allowed by `A` -/

def Safe (A : String → Prop) {α} (x : R α) (P : α → Prop) : Prop :=
  match x with
  | .ok a => P a
  | .error (.panic s) => A s
  | .error _ => True

variable {A : String → Prop}

theorem Safe_pure {α} {a : α} {P : α → Prop} (h : P a) : Safe A (pure a : R α) P := h
theorem Safe_ok {α} {a : α} {P : α → Prop} (h : P a) : Safe A (.ok a : R α) P := h

theorem Safe_bind {α β} {x : R α} {f : α → R β} {P : β → Prop}
    (h : Safe A x (fun a => Safe A (f a) P)) : Safe A (x >>= f) P := by
  cases x with
  | ok a => exact h
  | error e => cases e <;> exact h

theorem Safe_mono {α} {x : R α} {P Q : α → Prop} (h : Safe A x P) (hpq : ∀ a, P a → Q a) :
    Safe A x Q := by
  cases x with
  | ok a => exact hpq a h
  | error e => cases e <;> exact h

theorem Safe_panic {α} {x : R α} {P : α → Prop} (h : Safe A x P) {site : String}
    (he : x = .error (.panic site)) : A site := by
  subst he; exact h

theorem Safe_val {α} {x : R α} {P : α → Prop} (h : Safe A x P) {a : α} (he : x = .ok a) : P a := by
  subst he; exact h

theorem Safe_throw {α} {e : RErr} {P : α → Prop} (h : ∀ s, e = .panic s → A s) :
    Safe A (throw e : R α) P := by
  cases e with
  | panic s => exact h s rfl
  | _ => trivial

theorem Safe_throw_panic {α} {site : String} {P : α → Prop} (h : A site) :
    Safe A (throw (RErr.panic site) : R α) P := h
theorem Safe_throw_malfunction {α} {P : α → Prop} : Safe A (throw RErr.malfunction : R α) P :=
  trivial
theorem Safe_throw_tooManyErrors {α} {P : α → Prop} :
    Safe A (throw RErr.tooManyErrors : R α) P := trivial
theorem Safe_throw_errorsOutsideRange {α} {P : α → Prop} :
    Safe A (throw RErr.errorsOutsideRange : R α) P := trivial

theorem Safe_ite {α} {c : Prop} [Decidable c] {t e : R α} {P : α → Prop}
    (ht : c → Safe A t P) (he : ¬c → Safe A e P) : Safe A (if c then t else e) P := by
  split
  · exact ht ‹_›
  · exact he ‹_›

/-- loop rule; the invariant may mention the part of the list that is still to be processed -/
theorem Safe_forIn {α β} (l : List α) (init : β) (f : α → β → R (ForInStep β))
    (I : List α → β → Prop) (Q : β → Prop)
    (h0 : I l init)
    (hstep : ∀ a rest b, a ∈ l → I (a :: rest) b →
      Safe A (f a b) (fun r => match r with | .yield b' => I rest b' | .done b' => Q b'))
    (hfin : ∀ b, I [] b → Q b) : Safe A (forIn l init f) Q := by
  suffices H : ∀ suf pre b, l = pre ++ suf → I suf b → Safe A (forIn suf b f) Q from
    H l [] init rfl h0
  intro suf
  induction suf with
  | nil => intro pre b _ hI; exact hfin b hI
  | cons a rest ih =>
    intro pre b hl hI
    rw [List.forIn_cons]
    apply Safe_bind
    apply Safe_mono (hstep a rest b (by simp [hl]) hI)
    intro r hr
    cases r with
    | done b' => exact hr
    | yield b' => exact ih (pre ++ [a]) b' (by simp [hl]) hr

/-- loop rule with a plain state invariant -/
theorem Safe_forIn_inv {α β} (l : List α) (init : β) (f : α → β → R (ForInStep β))
    (I : β → Prop) (h0 : I init)
    (hstep : ∀ a, a ∈ l → ∀ b, I b → Safe A (f a b) (fun r => I r.value)) :
    Safe A (forIn l init f) I := by
  apply Safe_forIn l init f (fun _ b => I b) I h0
  · intro a rest b ha hI
    apply Safe_mono (hstep a ha b hI)
    intro r hr
    cases r <;> exact hr
  · intro b h; exact h

/-! ### the elementary partial operations -/

theorem Safe_at' {site : String} {l : List Nat} {i : Nat} {P : Nat → Prop}
    (hi : i < l.length) (h : ∀ x, x = l.getD i 0 → P x) : Safe A (at' site l i) P := by
  unfold at'
  rw [List.getElem?_eq_getElem hi]
  exact h _ (by simp [List.getD_eq_getElem?_getD, List.getElem?_eq_getElem hi])

theorem Safe_sub' {site : String} {a b : Nat} {P : Nat → Prop}
    (hi : b ≤ a) (h : P (a - b)) : Safe A (sub' site a b) P := by
  unfold sub'
  rw [if_pos hi]; exact h

theorem Safe_slice {site : String} {l : List Nat} {a b : Nat} {P : List Nat → Prop}
    (ha : a ≤ b + 1) (hb : b < l.length) (h : ∀ s : List Nat, s.length = b + 1 - a → P s) :
    Safe A (slice site l a b) P := by
  unfold slice
  rw [if_pos ⟨ha, hb⟩]
  apply h
  simp only [List.length_take, List.length_drop]
  omega

theorem Safe_dot {a b : List Nat} {P : Nat → Prop}
    (hl : a.length = b.length) (h : ∀ x, P x) : Safe A (dot a b) P := by
  unfold dot
  rw [if_neg (by simpa using hl)]
  exact h _

/-! ### division -/

theorem glog_lt (a : Nat) : glog a < 255 := by
  by_cases h : a < 256
  · exact log_lt a h
  · have : glog a = 0 := byteAt_zero_of_lt DM.Gen.LOGP 256 a LOGP_lt (by omega)
    omega

/-- total division (`0` for a zero divisor) -/
def gdivD (a b : Nat) : Nat := (gdiv a b).getD 0

theorem gdiv_eq_some {a b : Nat} (hb : b ≠ 0) : gdiv a b = some (gdivD a b) := by
  unfold gdivD gdiv
  rw [if_neg hb]
  split <;> rfl

theorem Safe_div' {site : String} {a b : Nat} {P : Nat → Prop}
    (hb : b ≠ 0) (h : P (gdivD a b)) : Safe A (div' site a b) P := by
  unfold div'
  rw [gdiv_eq_some hb]
  exact h

theorem gdivD_ne_zero {a b : Nat} (ha : a ≠ 0) (hb : b ≠ 0) : gdivD a b ≠ 0 := by
  unfold gdivD gdiv
  rw [if_neg hb, if_neg ha]
  have h1 := glog_lt a
  have h2 := glog_lt b
  simp only [Option.getD_some]
  exact (alog_pos _ (by split <;> omega)).1

theorem gdivD_lt (a b : Nat) : gdivD a b < 256 := by
  unfold gdivD gdiv
  have h1 := glog_lt a
  have h2 := glog_lt b
  split
  · simp
  · split
    · simp
    · simp only [Option.getD_some]
      exact (alog_pos _ (by split <;> omega)).2

theorem alog_inj {i j : Nat} (hi : i < 255) (hj : j < 255) (h : alog i = alog j) : i = j := by
  rw [← log_alog i hi, ← log_alog j hj, h]

theorem gdivD_one_inj {a b : Nat} (ha : a < 256) (hb : b < 256) (ha0 : a ≠ 0) (hb0 : b ≠ 0)
    (h : gdivD 1 a = gdivD 1 b) : a = b := by
  unfold gdivD gdiv at h
  rw [if_neg ha0, if_neg hb0, if_neg (by decide), if_neg (by decide)] at h
  simp only [Option.getD_some, log_one] at h
  have h1 := glog_lt a
  have h2 := glog_lt b
  have := alog_inj (by split <;> omega) (by split <;> omega) h
  have hl : glog a = glog b := by
    split at this <;> split at this <;> omega
  rw [← alog_log a ha ha0, ← alog_log b hb hb0, hl]


/-! ### Chien search -/

/-- the roots found by `chienSearch`: an optional leading `0`, followed by pairwise distinct
non-zero field elements -/
theorem chienSearch_spec (c : List Nat) :
    ∃ zero rs, chienSearch c = .ok (zero ++ rs) ∧ (zero = [] ∨ zero = [0]) ∧ rs.Nodup ∧
      ∀ r ∈ rs, r ≠ 0 ∧ r < 256 := by
  unfold chienSearch
  split
  · exact ⟨[], [], rfl, Or.inl rfl, List.nodup_nil, by simp⟩
  · have hz : ∀ z : List Nat, z = (if c.getLast? = some 0 then [0] else []) → z = [] ∨ z = [0] := by
      intro z hz; subst hz; split <;> simp
    simp only []
    split
    · split
      · rename_i h
        unfold div'
        rw [gdiv_eq_some h.2]
        refine ⟨_, [gdivD (c.getD 1 0) (c.getD 0 0)], rfl, hz _ rfl, by simp, ?_⟩
        intro r hr
        simp only [List.mem_singleton] at hr
        subst hr
        exact ⟨gdivD_ne_zero h.1 h.2, gdivD_lt _ _⟩
      · exact ⟨_, [], by simp, hz _ rfl, List.nodup_nil, by simp⟩
    · refine ⟨_, _, rfl, hz _ rfl, ?_, ?_⟩
      · rw [List.nodup_iff_pairwise_ne, List.pairwise_map]
        have hp : List.Pairwise (fun a b : Nat => a ≠ b) ((List.range 255).filter fun i =>
            ((List.range c.reverse.length).map fun j =>
              gmul (c.reverse.getD j 0) (alog ((j * i) % 255))).foldl gadd 0 == 0) :=
          List.Pairwise.filter _ (List.nodup_iff_pairwise_ne.1 List.nodup_range)
        refine List.Pairwise.imp_of_mem ?_ hp
        intro x y hx hy hxy h
        simp only [List.mem_filter, List.mem_range] at hx hy
        exact hxy (alog_inj hx.1 hy.1 h)
      · intro r hr
        simp only [List.mem_map, List.mem_filter, List.mem_range] at hr
        obtain ⟨i, ⟨hi, _⟩, rfl⟩ := hr
        exact alog_pos i hi

theorem chienSearch_noPanic (c : List Nat) (site : String) :
    chienSearch c ≠ .error (.panic site) := by
  obtain ⟨z, rs, h, _⟩ := chienSearch_spec c
  rw [h]; intro h'; cases h'

theorem chienSearch_ok (c : List Nat) : ∃ roots, chienSearch c = .ok roots := by
  obtain ⟨z, rs, h, _⟩ := chienSearch_spec c
  exact ⟨_, h⟩

/-! ### Levinson–Durbin: the initial triangular solve -/

theorem ldInitW_safe (syn : List Nat) (v : Nat) (hv : 1 ≤ v) (hlen : 2 * v ≤ syn.length)
    (hp : syn.getD (v - 1) 0 ≠ 0) :
    Safe A (ldInitW syn v) (fun w => w.length = v) := by
  unfold ldInitW
  refine Safe_bind (Safe_slice (by omega) (by omega) fun s hs => ?_)
  refine Safe_bind (Safe_at' (by omega) fun pivot hpiv => ?_)
  refine Safe_bind ?_
  apply Safe_mono (Safe_forIn_inv _ _ _ (fun w : List Nat => w.length = v) ?_ ?_)
  · intro w hw; exact Safe_pure hw
  · simp only [List.length_reverse]; omega
  · intro i hi w hw
    simp only [List.mem_range] at hi
    refine Safe_bind (Safe_at' (by omega) fun acc _ => ?_)
    refine Safe_bind ?_
    apply Safe_mono (Safe_forIn_inv _ _ _ (fun _ : Nat => True) trivial ?_)
    · intro acc' _
      refine Safe_bind (Safe_div' (by rw [hpiv]; exact hp) ?_)
      apply Safe_pure
      simp only [ForInStep.value, List.length_set]; exact hw
    · intro j hj acc' _
      simp only [List.mem_filter, List.mem_range] at hj
      refine Safe_bind (Safe_at' (by omega) fun wj _ => ?_)
      refine Safe_bind (Safe_at' (by omega) fun s' _ => ?_)
      exact Safe_pure trivial

theorem ldInitW_noPanic (syn : List Nat) (v : Nat) (hv : 1 ≤ v) (hlen : 2 * v ≤ syn.length)
    (hp : syn.getD (v - 1) 0 ≠ 0) (site : String) :
    ldInitW syn v ≠ .error (.panic site) :=
  fun he => Safe_panic (ldInitW_safe (A := fun _ => False) syn v hv hlen hp) he

/-! ### Levinson–Durbin: the end-of-iteration assertions -/

theorem ldCheck_safe (syn w y : List Nat) (v : Nat) (hw : w.length = v) (hy : y.length = v)
    (hlen : 2 * v ≤ syn.length) :
    Safe AlgebraicSite (ldCheck syn w y v) (fun _ => True) := by
  unfold ldCheck
  simp only [ne_eq, hw, hy, not_true_eq_false, ↓reduceIte]
  refine Safe_bind ?_
  apply Safe_mono (Safe_forIn_inv _ _ _ (fun _ => True) trivial ?_)
  · intro _ _
    refine Safe_bind ?_
    apply Safe_mono (Safe_forIn_inv _ _ _ (fun _ => True) trivial ?_)
    · intro _ _; exact Safe_pure trivial
    · intro i hi _ _
      simp only [List.mem_range] at hi
      refine Safe_bind ?_
      apply Safe_mono (Safe_forIn_inv _ _ _ (fun _ : Nat => True) trivial ?_)
      · intro row _
        refine Safe_bind (Safe_at' (by omega) fun target _ => ?_)
        refine Safe_ite (fun _ => ?_) (fun _ => Safe_pure trivial)
        exact Safe_bind (Safe_throw_panic (Or.inr rfl))
      · intro j hj _ _
        simp only [List.mem_range] at hj
        refine Safe_bind (Safe_at' (by omega) fun s _ => ?_)
        exact Safe_pure trivial
  · intro i hi _ _
    simp only [List.mem_range] at hi
    refine Safe_bind ?_
    apply Safe_mono (Safe_forIn_inv _ _ _ (fun _ : Nat => True) trivial ?_)
    · intro row _
      refine Safe_ite (fun _ => ?_) (fun _ => Safe_pure trivial)
      exact Safe_bind (Safe_throw_panic (Or.inl rfl))
    · intro j hj _ _
      simp only [List.mem_range] at hj
      refine Safe_bind (Safe_at' (by omega) fun s _ => ?_)
      exact Safe_pure trivial

/-! ### Levinson–Durbin: one iteration -/

theorem length_filter_ge_range (n a : Nat) :
    ((List.range n).filter (fun x => decide (x ≥ a))).length = n - a := by
  induction n with
  | zero => simp
  | succ n ih =>
    rw [List.range_succ, List.filter_append, List.length_append, ih]
    by_cases h : n ≥ a
    · simp [h]; omega
    · simp [h]; omega

macro "lens" : tactic => `(tactic| (
  simp only [List.length_append, List.length_zipWith, List.length_take, List.length_drop,
    List.length_cons, List.length_singleton, List.length_nil, List.length_map, List.length_range,
    List.length_set, List.length_dropLast, List.length_replicate, List.length_reverse] <;> omega))

/-- the loop invariant of `ldLoop` -/
def LDInv (t : Nat) (st : LDSt) : Prop :=
  1 ≤ st.v ∧ st.v ≤ t ∧ st.w.length = st.v ∧ st.y.length = st.v

theorem ldStep_safe (syn : List Nat) (t : Nat) (st : LDSt) (ht : 2 * t ≤ syn.length)
    (hv1 : 1 ≤ st.v) (hvt : st.v < t) (hw : st.w.length = st.v) (hy : st.y.length = st.v) :
    Safe AlgebraicSite (ldStep syn t st) (fun r => ∀ st', r = some st' → LDInv t st') := by
  obtain ⟨v, w, y⟩ := st
  simp only at hv1 hvt hw hy
  unfold ldStep
  simp only []
  refine Safe_bind (Safe_slice (by omega) (by omega) fun s0 hs0 => ?_)
  refine Safe_bind (Safe_dot (by simp only [List.length_append, List.length_singleton]; omega) fun epsV => ?_)
  refine Safe_ite (fun heps => ?_) (fun heps => ?_)
  · -- the regular case
    refine Safe_bind (Safe_slice (by omega) (by omega) fun s1 hs1 => ?_)
    refine Safe_bind (Safe_dot (by simp only [List.length_append, List.length_singleton]; omega) fun b0 => ?_)
    refine Safe_bind (Safe_div' heps ?_)
    refine Safe_bind (Safe_slice (by omega) (by omega) fun s2 hs2 => ?_)
    refine Safe_bind (Safe_dot (by omega) fun gamma => ?_)
    refine Safe_bind (Safe_div' heps ?_)
    have hw3 : (List.zipWith (fun wi ti => gadd wi (gmul (gadd (gdivD b0 epsV) gamma) ti))
        (List.zipWith (fun wi yi => gadd wi (gmul epsV yi)) (List.take v (0 :: w)) y ++
          List.drop (min v y.length) (0 :: w)) (w ++ [1]) ++
        List.drop (w ++ [1]).length
          (List.zipWith (fun wi yi => gadd wi (gmul epsV yi)) (List.take v (0 :: w)) y ++
            List.drop (min v y.length) (0 :: w))).length = v + 1 := by
      simp only [List.length_append, List.length_zipWith, List.length_take, List.length_drop,
        List.length_cons, List.length_singleton, List.length_nil]
      omega
    have hy2 : (List.zipWith (fun _ ti => gmul ti (gdivD 1 epsV)) y (w ++ [1]) ++
        List.drop (w ++ [1]).length y ++ [gdivD 1 epsV]).length = v + 1 := by
      simp only [List.length_append, List.length_zipWith, List.length_take, List.length_drop,
        List.length_cons, List.length_singleton, List.length_nil]
      omega
    refine Safe_bind (Safe_mono (ldCheck_safe _ _ _ _ hw3 hy2 (by omega)) fun _ _ => ?_)
    apply Safe_pure
    intro st' hst'
    cases hst'
    exact ⟨by simp only; omega, by simp only; omega, hw3, hy2⟩
  · -- the singular case
    refine Safe_bind ?_
    apply Safe_mono (Safe_forIn_inv _ _ _ (fun found : Option (Nat × Nat) =>
      ∀ m sM, found = some (m, sM) → 1 ≤ m ∧ m < t - v ∧ sM ≠ 0) (by intro _ _ h; cases h) ?_)
    · intro found hfound
      rcases found with _ | ⟨m, sigmaM⟩
      · apply Safe_pure
        intro st' h; cases h
      · obtain ⟨hm1, hmt, hsM⟩ := hfound m sigmaM rfl
        simp only []
        -- sigma
        refine Safe_bind ?_
        apply Safe_mono (Safe_forIn _ _ _
          (fun (rest : List Nat) (sigma : List Nat) =>
            sigma.length + rest.length = m + 1 ∧ sigma.head? = some sigmaM)
          (fun sigma : List Nat => sigma.length = m + 1 ∧ sigma.head? = some sigmaM) ?_ ?_ ?_)
        rotate_left
        · rw [length_filter_ge_range]
          exact ⟨by simp only [List.length_singleton]; omega, rfl⟩
        · intro k rest sigma hk hI
          simp only [List.mem_filter, List.mem_range, decide_eq_true_eq] at hk
          refine Safe_bind (Safe_slice (by omega) (by omega) fun s hs => ?_)
          refine Safe_bind (Safe_dot (by lens) fun x => ?_)
          apply Safe_pure
          refine ⟨by have := hI.1; simp only [List.length_append, List.length_cons,
            List.length_singleton, List.length_nil] at this ⊢; omega, ?_⟩
          rw [List.head?_append, hI.2]; rfl
        · intro sigma hI
          exact ⟨by simpa using hI.1, hI.2⟩
        intro sigma hsig
        refine Safe_ite (fun h => absurd hsig.1 h) (fun _ => ?_)
        -- iterate w^k
        refine Safe_bind ?_
        apply Safe_mono (Safe_forIn_inv _ _ _ (fun tk : List Nat => tk.length = v) hw ?_)
        rotate_left
        · intro k hk tk htk
          simp only [List.mem_range] at hk
          refine Safe_bind (Safe_at' (by omega) fun s2 _ => ?_)
          refine Safe_bind (Safe_slice (by omega) (by omega) fun s hs => ?_)
          refine Safe_bind (Safe_dot (by omega) fun x => ?_)
          refine Safe_bind (Safe_at' (by omega) fun eta _ => ?_)
          apply Safe_pure
          simp only [ForInStep.value]
          lens
        intro tk htk
        refine Safe_bind (Safe_div' hsM ?_)
        refine Safe_ite (fun h => absurd h (by omega)) (fun _ => ?_)
        -- gamma
        refine Safe_bind ?_
        apply Safe_mono (Safe_forIn _ _ _
          (fun (rest : List Nat) (gam : List Nat) => gam.length + rest.length = m + 1)
          (fun gam : List Nat => gam.length = m + 1) ?_ ?_ ?_)
        rotate_left
        · lens
        · intro i rest gam hi hI
          simp only [List.mem_range] at hi
          refine Safe_bind (Safe_at' (by omega) fun s3 _ => ?_)
          refine Safe_bind (Safe_slice (by omega) (by omega) fun s hs => ?_)
          refine Safe_bind (Safe_dot (by omega) fun x => ?_)
          apply Safe_pure
          simp only [List.length_append, List.length_cons, List.length_singleton,
            List.length_nil] at hI ⊢
          omega
        · intro gam hI
          simpa using hI
        intro gam hgam
        refine Safe_bind (Safe_at' (by omega) fun sigma0 hs0 => ?_)
        have hsigma0 : sigma0 ≠ 0 := by
          rw [hs0]
          rcases sigma with _ | ⟨a, sigma⟩
          · have := hsig.2; simp at this
          · have := hsig.2
            simp only [List.head?_cons, Option.some.injEq] at this
            simpa [this] using hsM
        refine Safe_bind ?_
        apply Safe_mono (Safe_forIn_inv _ _ _ (fun gam : List Nat => gam.length = m + 1) hgam ?_)
        rotate_left
        · intro i hi gam hgam
          simp only [List.mem_range] at hi
          refine Safe_bind (Safe_at' (by omega) fun gi _ => ?_)
          refine Safe_bind ?_
          apply Safe_mono (Safe_forIn_inv _ _ _ (fun _ : Nat => True) trivial ?_)
          · intro gi' _
            refine Safe_bind (Safe_div' hsigma0 ?_)
            apply Safe_pure
            simp only [ForInStep.value, List.length_set]
            exact hgam
          · intro j hj gi' _
            simp only [List.mem_range] at hj
            refine Safe_bind (Safe_at' (by have := hsig.1; omega) fun sg _ => ?_)
            exact Safe_pure trivial
        intro gam hgam
        -- update w
        refine Safe_bind ?_
        apply Safe_mono (Safe_forIn_inv _ _ _ (fun tw : List Nat => tw.length = m + v + 1)
          (by lens) ?_)
        rotate_left
        · intro x hx tw htw
          obtain ⟨i, gi⟩ := x
          simp only [List.mem_map] at hx
          obtain ⟨p, hp, hpe⟩ := hx
          obtain ⟨g, j⟩ := p
          have hj := (List.mem_zipIdx' hp).1
          simp only [Prod.mk.injEq] at hpe
          obtain ⟨rfl, rfl⟩ := hpe
          simp only []
          refine Safe_bind (Safe_sub' (by omega) ?_)
          refine Safe_ite (fun h => absurd h (by omega)) (fun _ => ?_)
          refine Safe_ite (fun h => absurd h (by
            simp only [List.length_map, List.length_range]; omega)) (fun _ => ?_)
          apply Safe_pure
          simp only [ForInStep.value]
          lens
        intro tw htw
        have hy' : (List.map (fun i => if i < w.length then gmul (w.getD i 0) (gdivD 1 sigmaM)
            else if i = w.length then gdivD 1 sigmaM else 0) (List.range (m + v + 1))).length
            = m + v + 1 := by lens
        refine Safe_bind (Safe_mono (ldCheck_safe _ _ _ _ htw hy' (by omega)) fun _ _ => ?_)
        apply Safe_pure
        intro st' hst'
        cases hst'
        exact ⟨by simp only; omega, by simp only; omega, htw, hy'⟩
    · intro i hi found hfound
      simp only [List.mem_filter, List.mem_range, decide_eq_true_eq] at hi
      refine Safe_ite (fun _ => ?_) (fun _ => Safe_pure hfound)
      refine Safe_bind (Safe_slice (by omega) (by omega) fun s hs => ?_)
      refine Safe_bind (Safe_dot (by lens) fun sigmaI => ?_)
      refine Safe_ite (fun hne => Safe_pure ?_) (fun _ => Safe_pure hfound)
      intro m sM h; cases h
      exact ⟨hi.2, hi.1, hne⟩

theorem ldStep_panic_algebraic (syn : List Nat) (t : Nat) (st : LDSt) (ht : 2 * t ≤ syn.length)
    (hinv : LDInv t st) (hvt : st.v < t) (site : String)
    (h : ldStep syn t st = .error (.panic site)) : AlgebraicSite site :=
  Safe_panic (ldStep_safe syn t st ht hinv.1 hvt hinv.2.2.1 hinv.2.2.2) h

/-! ### Levinson–Durbin: the loop and the whole locator search -/

theorem ldLoop_safe (syn : List Nat) (t : Nat) (ht : 2 * t ≤ syn.length) (fuel : Nat) :
    ∀ st, LDInv t st → Safe AlgebraicSite (ldLoop syn t fuel st) (LDInv t) := by
  induction fuel with
  | zero => intro st hst; exact hst
  | succ f ih =>
    intro st hst
    unfold ldLoop
    refine Safe_ite (fun hlt => ?_) (fun _ => hst)
    have hs := ldStep_safe syn t st ht hst.1 hlt hst.2.2.1 hst.2.2.2
    revert hs
    cases ldStep syn t st with
    | error e => intro hs; cases e <;> exact hs
    | ok r =>
      intro hs
      cases r with
      | none => exact hst
      | some st' => exact ih st' (hs st' rfl)

theorem ldLoop_panic_algebraic (syn : List Nat) (t : Nat) (ht : 2 * t ≤ syn.length) (fuel : Nat)
    (st : LDSt) (hinv : LDInv t st) (site : String)
    (h : ldLoop syn t fuel st = .error (.panic site)) : AlgebraicSite site :=
  Safe_panic (ldLoop_safe syn t ht fuel st hinv) h

theorem getD_takeWhile_length (l : List Nat) (h : (l.takeWhile (· == 0)).length < l.length) :
    l.getD (l.takeWhile (· == 0)).length 0 ≠ 0 := by
  induction l with
  | nil => simp at h
  | cons a l ih =>
    by_cases ha : a = 0
    · subst ha
      simp only [List.takeWhile_cons, beq_self_eq_true, ↓reduceIte, List.length_cons,
        List.getD_cons_succ] at h ⊢
      exact ih (by omega)
    · have : (a == 0) = false := by simpa using ha
      simp only [List.takeWhile_cons, this, Bool.false_eq_true, ↓reduceIte, List.length_nil,
        List.getD_cons_zero]
      exact ha

/-- the locator polynomial: `v` coefficients followed by the constant `1`, `1 ≤ v ≤ t` -/
theorem levinsonDurbin_safe (syn : List Nat) :
    Safe AlgebraicSite (levinsonDurbin syn) (fun lam =>
      ∃ w : List Nat, lam = w ++ [1] ∧ 1 ≤ w.length ∧ w.length ≤ syn.length / 2) := by
  unfold levinsonDurbin
  simp only []
  refine Safe_ite (fun _ => Safe_bind Safe_throw_tooManyErrors) (fun hvt => ?_)
  have hp := getD_takeWhile_length syn (by omega)
  refine Safe_bind (Safe_at' (by omega) fun pivot hpiv => ?_)
  simp only [Nat.add_sub_cancel] at hpiv
  refine Safe_bind (Safe_div' (by rw [hpiv]; exact hp) ?_)
  refine Safe_bind (Safe_mono (ldInitW_safe syn _ (by omega) (by omega)
    (by simpa only [Nat.add_sub_cancel] using hp)) fun w hw => ?_)
  refine Safe_bind (Safe_mono (ldLoop_safe syn (syn.length / 2) (by omega) _ _
    ⟨by simp only; omega, by simp only; omega, hw, by simp only; lens⟩) fun st hst => ?_)
  apply Safe_pure
  exact ⟨st.w, rfl, by have := hst.1; have := hst.2.2.1; omega,
    by have := hst.2.1; have := hst.2.2.1; omega⟩

theorem levinsonDurbin_panic_algebraic (syn : List Nat) (site : String)
    (h : levinsonDurbin syn = .error (.panic site)) : AlgebraicSite site :=
  Safe_panic (levinsonDurbin_safe syn) h

/-! ### Björck–Pereyra -/

theorem xor_ne_zero {a b : Nat} (h : a ≠ b) : gadd a b ≠ 0 := by
  intro h0
  apply h
  have h0 : a ^^^ b = 0 := h0
  have : a ^^^ (a ^^^ b) = a := by rw [h0, Nat.xor_zero]
  rw [← Nat.xor_assoc, Nat.xor_self, Nat.zero_xor] at this
  exact this.symm

theorem getD_map_gdivD (roots : List Nat) (i : Nat) (hi : i < roots.length) :
    (roots.map (gdivD 1)).getD i 0 = gdivD 1 roots[i] := by
  rw [List.getD_eq_getElem?_getD, List.getElem?_map, List.getElem?_eq_getElem hi]
  rfl

theorem inv_ne_zero (roots : List Nat) (hnz : ∀ r ∈ roots, r ≠ 0 ∧ r < 256) (i : Nat)
    (hi : i < roots.length) : (roots.map (gdivD 1)).getD i 0 ≠ 0 := by
  rw [getD_map_gdivD roots i hi]
  exact gdivD_ne_zero (by decide) (hnz _ (List.getElem_mem hi)).1

theorem inv_distinct (roots : List Nat) (hnd : roots.Nodup) (hnz : ∀ r ∈ roots, r ≠ 0 ∧ r < 256)
    (i j : Nat) (hi : i < roots.length) (hj : j < roots.length) (hij : i < j) :
    (roots.map (gdivD 1)).getD i 0 ≠ (roots.map (gdivD 1)).getD j 0 := by
  rw [getD_map_gdivD roots i hi, getD_map_gdivD roots j hj]
  intro h
  have hri := hnz _ (List.getElem_mem hi)
  have hrj := hnz _ (List.getElem_mem hj)
  have := gdivD_one_inj hri.2 hrj.2 hri.1 hrj.1 h
  exact (List.pairwise_iff_getElem.1 (List.nodup_iff_pairwise_ne.1 hnd)) i j hi hj hij this

theorem bjorckPereyra_safe (roots syn : List Nat) (hne : roots ≠ []) (hnd : roots.Nodup)
    (hnz : ∀ r ∈ roots, r ≠ 0 ∧ r < 256) (hlen : roots.length ≤ syn.length) :
    Safe A (bjorckPereyra roots syn) (fun p => ∀ l ∈ p.1, l ≠ 0) := by
  have he : roots.length ≠ 0 := by
    intro h; exact hne (List.length_eq_zero_iff.1 h)
  unfold bjorckPereyra
  simp only []
  refine Safe_bind ?_
  apply Safe_mono (Safe_forIn _ _ _
    (fun (rest : List Nat) (x : List Nat) => x ++ rest.map (gdivD 1) = roots.map (gdivD 1))
    (fun x : List Nat => x = roots.map (gdivD 1)) ?_ ?_ ?_)
  rotate_left
  · rfl
  · intro z rest x hz hI
    refine Safe_bind (Safe_div' (hnz z hz).1 ?_)
    apply Safe_pure
    rw [← hI]
    simp only [List.map_cons, List.append_assoc, List.singleton_append]
  · intro x hI
    simpa using hI
  intro x hx
  subst hx
  refine Safe_ite (fun h => absurd h he) (fun _ => ?_)
  refine Safe_bind ?_
  apply Safe_mono (Safe_forIn_inv _ _ _ (fun s : List Nat => s.length = syn.length) rfl ?_)
  rotate_left
  · intro k hk s hs
    refine Safe_bind ?_
    apply Safe_mono (Safe_forIn_inv _ _ _ (fun s : List Nat => s.length = syn.length) hs ?_)
    · intro s hs; exact Safe_pure hs
    · intro j hj s hs
      simp only [List.mem_reverse, List.mem_filter, List.mem_range, decide_eq_true_eq] at hj
      refine Safe_bind (Safe_at' (by omega) fun prev _ => ?_)
      refine Safe_bind (Safe_at' (by omega) fun cur _ => ?_)
      apply Safe_pure
      simp only [ForInStep.value, List.length_set]; exact hs
  intro s hs
  refine Safe_bind ?_
  apply Safe_mono (Safe_forIn_inv _ _ _ (fun s : List Nat => s.length = syn.length) hs ?_)
  rotate_left
  · intro k hk s hs
    refine Safe_bind ?_
    apply Safe_mono (Safe_forIn_inv _ _ _ (fun s : List Nat => s.length = syn.length) hs ?_)
    rotate_left
    · intro j hj s hs
      simp only [List.mem_filter, List.mem_range, decide_eq_true_eq] at hj
      refine Safe_bind (Safe_at' (by omega) fun cur _ => ?_)
      refine Safe_bind (Safe_div' (xor_ne_zero
        (inv_distinct roots hnd hnz (j - k - 1) j (by omega) hj.1 (by omega)).symm) ?_)
      apply Safe_pure
      simp only [ForInStep.value, List.length_set]; exact hs
    intro s hs
    refine Safe_bind ?_
    apply Safe_mono (Safe_forIn_inv _ _ _ (fun s : List Nat => s.length = syn.length) hs ?_)
    · intro s hs; exact Safe_pure hs
    · intro j hj s hs
      simp only [List.mem_filter, List.mem_range, decide_eq_true_eq] at hj
      refine Safe_bind (Safe_at' (by omega) fun nxt _ => ?_)
      refine Safe_bind (Safe_at' (by omega) fun cur _ => ?_)
      apply Safe_pure
      simp only [ForInStep.value, List.length_set]; exact hs
  intro s hs
  refine Safe_bind ?_
  apply Safe_mono (Safe_forIn_inv _ _ _ (fun s : List Nat => s.length = syn.length) hs ?_)
  rotate_left
  · intro i hi s hs
    simp only [List.mem_range] at hi
    refine Safe_bind (Safe_at' (by omega) fun cur _ => ?_)
    refine Safe_bind (Safe_div' (inv_ne_zero roots hnz i hi) ?_)
    apply Safe_pure
    simp only [ForInStep.value, List.length_set]; exact hs
  intro s hs
  apply Safe_pure
  intro l hl
  simp only [List.mem_map] at hl
  obtain ⟨r, hr, rfl⟩ := hl
  exact gdivD_ne_zero (by decide) (hnz r hr).1

theorem bjorckPereyra_noPanic (roots syn : List Nat) (hne : roots ≠ []) (hnd : roots.Nodup)
    (hnz : ∀ r ∈ roots, r ≠ 0 ∧ r < 256) (hlen : roots.length ≤ syn.length) (site : String) :
    bjorckPereyra roots syn ≠ .error (.panic site) :=
  fun h => Safe_panic (bjorckPereyra_safe (A := fun _ => False) roots syn hne hnd hnz hlen) h

/-! ### the correction of one block -/

theorem correctBlock_safe (dataB errB : List Nat) (errLen : Nat) (syn : List Nat)
    (hsyn : syn.length = errLen) :
    Safe AlgebraicSite (correctBlock dataB errB errLen syn)
      (fun p => p.1.length = dataB.length ∧ p.2.length = errB.length) := by
  unfold correctBlock
  simp only []
  refine Safe_bind (Safe_mono (levinsonDurbin_safe syn) fun lam hlam => ?_)
  obtain ⟨w, rfl, hw1, hwt⟩ := hlam
  obtain ⟨zero, rs, hch, hz, hnd, hnz⟩ := chienSearch_spec (w ++ [1])
  rw [hch]
  refine Safe_bind (Safe_ok ?_)
  simp only [List.length_append, List.length_singleton, Nat.add_sub_cancel]
  refine Safe_ite (fun _ => Safe_bind Safe_throw_malfunction) (fun hcond => ?_)
  have hzero : zero = [] := by
    rcases hz with h | h
    · exact h
    · subst h
      exact absurd (Or.inr rfl) hcond
  subst hzero
  simp only [List.nil_append, List.length_nil, Nat.zero_add] at hcond ⊢
  have hrl : rs.length = w.length := by
    apply Decidable.byContradiction
    intro h; exact hcond (Or.inl h)
  refine Safe_bind (Safe_sub' (by omega) ?_)
  refine Safe_bind ?_
  apply Safe_mono (Safe_forIn_inv _ _ _ (fun _ => True) trivial ?_)
  rotate_left
  · intro j hj _ _
    simp only [List.mem_filter, List.mem_range, decide_eq_true_eq] at hj
    refine Safe_ite (fun h => absurd h (by simp only [List.length_drop]; omega)) (fun _ => ?_)
    refine Safe_ite (fun _ => Safe_bind Safe_throw_malfunction) (fun _ => Safe_pure trivial)
  intro _ _
  refine Safe_bind (Safe_mono (bjorckPereyra_safe rs syn
    (by intro h; rw [h] at hrl; simp at hrl; omega) hnd hnz (by omega)) fun p hp => ?_)
  obtain ⟨locs, vals⟩ := p
  simp only [] at hp ⊢
  refine Safe_bind ?_
  apply Safe_mono (Safe_forIn_inv _ _ _
    (fun s : List Nat × List Nat => s.1.length = dataB.length ∧ s.2.length = errB.length)
    ⟨rfl, rfl⟩ ?_)
  · intro s hs; exact Safe_pure hs
  · intro x hx s hs
    obtain ⟨loc, err⟩ := x
    have hloc : loc ≠ 0 := hp loc (List.of_mem_zip hx).1
    have hg : glogChecked loc = some (glog loc) := by
      unfold glogChecked; rw [if_neg hloc]
    simp only [hg]
    refine Safe_ite (fun _ => Safe_bind Safe_throw_errorsOutsideRange) (fun _ => ?_)
    refine Safe_ite (fun _ => Safe_pure ?_) (fun _ => Safe_pure ?_)
    · simp only [ForInStep.value, List.length_set]; exact hs
    · simp only [ForInStep.value, List.length_set]; exact hs

theorem correctBlock_panic_algebraic (dataB errB : List Nat) (errLen : Nat) (syn : List Nat)
    (hsyn : syn.length = errLen) (site : String)
    (h : correctBlock dataB errB errLen syn = .error (.panic site)) : AlgebraicSite site :=
  Safe_panic (correctBlock_safe dataB errB errLen syn hsyn) h

/-! ### blocks and the whole word -/

theorem length_syndromes (received : List Nat) (k : Nat) : (syndromes received k).length = k := by
  unfold syndromes
  simp only [List.length_map, List.length_range]

theorem decodeBlock_safe (dataB errB : List Nat) (errLen : Nat) (h1 : 1 ≤ errLen)
    (h2 : errLen < dataB.length + errB.length) :
    Safe AlgebraicSite (decodeBlock dataB errB errLen)
      (fun p => p.1.length = dataB.length ∧ p.2.length = errB.length) := by
  unfold decodeBlock
  refine Safe_ite (fun h => absurd h (by omega)) (fun _ => ?_)
  refine Safe_ite (fun h => absurd h (by omega)) (fun _ => ?_)
  simp only []
  split
  · exact Safe_ok ⟨rfl, rfl⟩
  · exact correctBlock_safe dataB errB errLen _ (length_syndromes _ _)

theorem decodeBlock_panic_algebraic (dataB errB : List Nat) (errLen : Nat) (h1 : 1 ≤ errLen)
    (h2 : errLen < dataB.length + errB.length) (site : String)
    (h : decodeBlock dataB errB errLen = .error (.panic site)) : AlgebraicSite site :=
  Safe_panic (decodeBlock_safe dataB errB errLen h1 h2) h

theorem length_scatter (l blk : List Nat) (start stride : Nat) :
    (scatter l blk start stride).length = l.length := by
  unfold scatter
  generalize blk.zipIdx = ps
  induction ps generalizing l with
  | nil => rfl
  | cons p ps ih => rw [List.foldl_cons, ih, List.length_set]

theorem length_strided (l : List Nat) (start stride : Nat) :
    (strided l start stride).length = (l.length - start + stride - 1) / stride := by
  unfold strided
  simp only [List.length_map, List.length_range]

theorem decodeBlocks_safe (blocks eccPer dataCw : Nat) (he : 1 ≤ eccPer) (hb : blocks ≤ dataCw)
    (bs : List Nat) :
    ∀ data err : List Nat, (∀ b ∈ bs, b < blocks) → data.length = dataCw →
      err.length = blocks * eccPer →
      Safe AlgebraicSite (decodeBlocks blocks eccPer bs data err)
        (fun p => p.1.length = dataCw ∧ p.2.length = blocks * eccPer) := by
  induction bs with
  | nil => intro data err _ hd hr; exact Safe_ok ⟨hd, hr⟩
  | cons b bs ih =>
    intro data err hbs hd hr
    have hbb : b < blocks := hbs b (List.mem_cons_self)
    have hle : blocks ≤ blocks * eccPer := Nat.le_mul_of_pos_right _ he
    unfold decodeBlocks
    refine Safe_ite (fun h => absurd h (by omega)) (fun _ => ?_)
    have hdl : 1 ≤ (strided data b blocks).length := by
      rw [length_strided, Nat.le_div_iff_mul_le (by omega)]
      omega
    have hel : eccPer ≤ (strided err b blocks).length := by
      rw [length_strided, Nat.le_div_iff_mul_le (by omega), hr, Nat.mul_comm eccPer blocks]
      omega
    have hs := decodeBlock_safe (strided data b blocks) (strided err b blocks) eccPer he (by omega)
    revert hs
    cases decodeBlock (strided data b blocks) (strided err b blocks) eccPer with
    | error e => intro hs; cases e <;> exact hs
    | ok p =>
      intro _
      obtain ⟨dB, eB⟩ := p
      exact ih _ _ (fun b' hb' => hbs b' (List.mem_cons_of_mem _ hb'))
        (by rw [length_scatter]; exact hd) (by rw [length_scatter]; exact hr)

/-- every row of the size table (and the default row used for an index outside the table)
has at least one error codeword per block and at least one data codeword per block -/
theorem row_ok (s : Sym) :
    (row s).blocks = 0 ∨ (1 ≤ (row s).eccPer ∧ (row s).blocks ≤ (row s).dataCw) := by
  have hall : ∀ r ∈ DM.Gen.sizes, 1 ≤ r.eccPer ∧ r.blocks ≤ r.dataCw := by decide
  unfold row
  by_cases hs : s < DM.Gen.sizes.length
  · right
    rw [List.getD_eq_getElem?_getD, List.getElem?_eq_getElem hs]
    exact hall _ (List.getElem_mem hs)
  · left
    rw [List.getD_eq_getElem?_getD, List.getElem?_eq_none (Nat.le_of_not_lt hs)]
    rfl

theorem decode_safe (s : Sym) (cw : List Nat)
    (hlen : cw.length = (row s).dataCw + (row s).blocks * (row s).eccPer) :
    Safe AlgebraicSite (decode s cw) (fun out => out.length = cw.length) := by
  unfold decode
  simp only []
  refine Safe_ite (fun h => absurd h (by omega)) (fun _ => ?_)
  have hd : (cw.take (row s).dataCw).length = (row s).dataCw := by
    rw [List.length_take]; omega
  have hr : (cw.drop (row s).dataCw).length = (row s).blocks * (row s).eccPer := by
    rw [List.length_drop]; omega
  rcases row_ok s with h0 | ⟨he, hb⟩
  · rw [h0]
    show Safe AlgebraicSite (Except.ok _) _
    apply Safe_ok
    simp only [List.length_append, List.length_take, List.length_drop]; omega
  · have hs := decodeBlocks_safe _ _ _ he hb (List.range (row s).blocks) _ _
      (fun b hb' => List.mem_range.1 hb') hd hr
    revert hs
    cases decodeBlocks (row s).blocks (row s).eccPer (List.range (row s).blocks)
      (cw.take (row s).dataCw) (cw.drop (row s).dataCw) with
    | error e => intro hs; cases e <;> exact hs
    | ok p =>
      intro hs
      obtain ⟨d, e⟩ := p
      apply Safe_ok
      simp only [List.length_append]
      have := hs.1; have := hs.2
      simp only at *
      omega

/-- The only panics `decode` can produce on a word of the right length are the algebraic
debug assertions of the Levinson–Durbin iteration (equations (3) and (4)). The entries of the
word need not be bytes, and no hypothesis on the table row is needed (`row_ok`). -/
theorem decode_panic_algebraic_of_length (s : Sym) (cw : List Nat)
    (hlen : cw.length = (row s).dataCw + (row s).blocks * (row s).eccPer)
    (site : String) (h : decode s cw = .error (.panic site)) : AlgebraicSite site :=
  Safe_panic (decode_safe s cw hlen) h

theorem decode_panic_algebraic (s : Sym) (cw : List Nat)
    (hlen : cw.length = (row s).dataCw + (row s).blocks * (row s).eccPer)
    (_hbytes : ∀ b ∈ cw, b < 256)
    (site : String) (h : decode s cw = .error (.panic site)) : AlgebraicSite site :=
  decode_panic_algebraic_of_length s cw hlen site h

/-- a successful `decode` returns a word of the same length -/
theorem decode_length (s : Sym) (cw : List Nat)
    (hlen : cw.length = (row s).dataCw + (row s).blocks * (row s).eccPer)
    (out : List Nat) (h : decode s cw = .ok out) : out.length = cw.length :=
  Safe_val (decode_safe s cw hlen) h
end DM.Lemmas.RSTotal
