import DM.Lemmas.X12RT
/-
Data-level round trip for a message planned entirely in EDIFACT.
-/
namespace DM.Lemmas.EdiRT
open DM.Model DM.Model.Enc DM.Model.Dec DM.Lemmas DM.Lemmas.DecRun DM.Lemmas.AsciiRT DM.Lemmas.Complete
open DM.Lemmas.EncRT DM.Lemmas.X12RT DM.Spec.Build

theorem or4 (a b : Nat) (hb : b < 4) : (a * 4) ||| b = a * 4 + b := by
  have := Nat.shiftLeft_add_eq_or_of_lt (i := 2) (b := b) (by omega) a
  simp [Nat.shiftLeft_eq] at this
  omega

theorem or16 (a b : Nat) (hb : b < 16) : (a * 16) ||| b = a * 16 + b := by
  have := Nat.shiftLeft_add_eq_or_of_lt (i := 4) (b := b) (by omega) a
  simp [Nat.shiftLeft_eq] at this
  omega

theorem or64 (a b : Nat) (hb : b < 64) : (a * 64) ||| b = a * 64 + b := by
  have := Nat.shiftLeft_add_eq_or_of_lt (i := 6) (b := b) (by omega) a
  simp [Nat.shiftLeft_eq] at this
  omega

/-- the three codeword formulas of `write4` without bit operations -/
theorem w1 (x0 s1 : Nat) (h0 : 32 ≤ x0 ∧ x0 ≤ 94) (h1 : s1 < 64) :
    (x0 * 4) % 256 ||| (s1 / 16) = (x0 % 64 * 4 + s1 / 16) % 256 := by
  have : (x0 * 4) % 256 = (x0 % 64) * 4 := by omega
  rw [this, or4 _ _ (by omega)]
  omega

theorem w1' (s1 : Nat) (h1 : s1 < 64) : (31 * 4) % 256 ||| (s1 / 16) = (31 * 4 + s1 / 16) % 256 := by
  have : (31 * 4) % 256 = 31 * 4 := by omega
  rw [this, or4 _ _ (by omega)]
  omega

theorem w2 (s1 s2 : Nat) (h1 : s1 < 64) (h2 : s2 < 64) :
    (s1 * 16) % 256 ||| (s2 / 4) = (s1 % 16 * 16 + s2 / 4) % 256 := by
  have : (s1 * 16) % 256 = (s1 % 16) * 16 := by omega
  rw [this, or16 _ _ (by omega)]
  omega

theorem w3 (s2 s3 : Nat) (h2 : s2 < 64) (h3 : s3 < 64) :
    (s2 * 64) % 256 ||| s3 = (s2 % 4 * 64 + s3) % 256 := by
  have : (s2 * 64) % 256 = (s2 % 4) * 64 := by omega
  rw [this, or64 _ _ h3]
  omega

/-- fields `write4` leaves alone -/
theorem write4_same (s : St) (sym : List Nat) :
    (write4 s sym).pos = s.pos ∧ (write4 s sym).input = s.input ∧ (write4 s sym).list = s.list ∧
    (write4 s sym).plan = s.plan ∧ (write4 s sym).mode = s.mode ∧ (write4 s sym).newMode = s.newMode := by
  unfold write4
  simp only []
  split <;> (try split) <;> simp [St.push]

theorem write4_quad (s : St) (x0 x1 x2 x3 : Nat) (h0 : 32 ≤ x0 ∧ x0 ≤ 94) :
    (write4 s [x0, x1, x2, x3]).cw = s.cw ++ packEdifact ([x0, x1, x2, x3].map (· % 64)) := by
  simp only [write4, List.getD_cons_zero, List.getD_cons_succ, List.length_cons, List.length_nil, Nat.reduceAdd,
    Nat.reduceLeDiff, ↓reduceIte, St.push, List.map_cons, List.map_nil, packEdifact, List.append_assoc,
    List.cons_append, List.nil_append]
  rw [w1 x0 (x1 % 64) h0 (by omega), w2 (x1 % 64) (x2 % 64) (by omega) (by omega),
    w3 (x2 % 64) (x3 % 64) (by omega) (by omega)]
  simp

theorem write4_last (s : St) (br : List Nat) (hr : br.length ≤ 3) (hc : EdiChars br) :
    (write4 s (br ++ [31])).cw = s.cw ++ ediLast br := by
  match br, hr, hc with
  | [], _, _ =>
    simp only [write4, List.nil_append, List.getD_cons_zero, List.length_cons, List.length_nil, Nat.reduceAdd,
      Nat.reduceLeDiff, ↓reduceIte, St.push, ediLast]
    simp
  | [x1], _, hc =>
    have h1 := hc x1 (by simp)
    simp only [write4, List.cons_append, List.nil_append, List.getD_cons_zero, List.getD_cons_succ,
      List.length_cons, List.length_nil, Nat.reduceAdd, Nat.reduceLeDiff, ↓reduceIte, St.push, ediLast,
      List.append_assoc]
    rw [w1 x1 (31 % 64) h1 (by omega)]
    simp
  | [x1, x2], _, hc =>
    have h1 := hc x1 (by simp)
    simp only [write4, List.cons_append, List.nil_append, List.getD_cons_zero, List.getD_cons_succ,
      List.length_cons, List.length_nil, Nat.reduceAdd, Nat.reduceLeDiff, ↓reduceIte, St.push, ediLast,
      List.append_assoc]
    rw [w1 x1 (x2 % 64) h1 (by omega), w2 (x2 % 64) (31 % 64) (by omega) (by omega)]
    simp
  | [x1, x2, x3], _, hc =>
    have h1 := hc x1 (by simp)
    simp only [write4, List.cons_append, List.nil_append, List.getD_cons_zero, List.getD_cons_succ,
      List.length_cons, List.length_nil, Nat.reduceAdd, Nat.reduceLeDiff, ↓reduceIte, St.push, ediLast,
      List.append_assoc]
    rw [w1 x1 (x2 % 64) h1 (by omega), w2 (x2 % 64) (x3 % 64) (by omega) (by omega),
      w3 (x3 % 64) (31 % 64) (by omega) (by omega)]
    simp
  | _ :: _ :: _ :: _ :: _, h, _ => simp at h

/-! ### symbol sizes -/

theorem fbe_mono (list : List Sym) (n m : Nat) (S : Sym) (h : firstBigEnough list n = some S) (hnm : n ≤ m)
    (hm : m ≤ dataCw S) : firstBigEnough list m = some S := by
  unfold firstBigEnough at h ⊢
  induction list with
  | nil => simp at h
  | cons t ts ih =>
    rw [List.find?_cons] at h ⊢
    by_cases ht : dataCw t ≥ n
    · simp only [ht, decide_true] at h
      cases h
      simp [hm]
    · simp only [ht, decide_false] at h
      have : ¬ dataCw t ≥ m := by omega
      simp only [this, decide_false]
      exact ih h

theorem fbe_weaker (list : List Sym) (n n' : Nat) (S : Sym) (h : firstBigEnough list n = some S) (hn : n' ≤ n) :
    ∃ S', firstBigEnough list n' = some S' ∧ dataCw S' ≤ dataCw S := by
  unfold firstBigEnough at h ⊢
  induction list with
  | nil => simp at h
  | cons t ts ih =>
    rw [List.find?_cons] at h ⊢
    by_cases ht : dataCw t ≥ n
    · simp only [ht, decide_true] at h
      simp only [Option.some.injEq] at h
      subst h
      have : dataCw t ≥ n' := by omega
      exact ⟨t, by simp [this], Nat.le_refl _⟩
    · simp only [ht, decide_false] at h
      by_cases ht' : dataCw t ≥ n'
      · refine ⟨t, by simp [ht'], ?_⟩
        have := List.find?_some h
        simp only [decide_eq_true_eq] at this
        omega
      · simp only [ht', decide_false]
        exact ih h

/-! ### `try_ascii_end` -/

/-- the decision of `try_ascii_end` on the characters `rest` still to encode when `cwLen` codewords are written -/
def AsciiEndOK (list : List Sym) (cwLen : Nat) (rest : List Nat) : Prop :=
  rest.length ≤ 4 ∧ asciiSize rest ≤ 2 ∧
  ∃ S, firstBigEnough list (cwLen + asciiSize rest) = some S ∧ dataCw S - cwLen ≤ 2

instance (list : List Sym) (cwLen : Nat) (rest : List Nat) : Decidable (AsciiEndOK list cwLen rest) := by
  unfold AsciiEndOK
  cases h : firstBigEnough list (cwLen + asciiSize rest) with
  | none => exact isFalse (by rintro ⟨_, _, S, hS, _⟩; cases hS)
  | some S =>
    by_cases hc : rest.length ≤ 4 ∧ asciiSize rest ≤ 2 ∧ dataCw S - cwLen ≤ 2
    · exact isTrue ⟨hc.1, hc.2.1, S, rfl, hc.2.2⟩
    · exact isFalse (by rintro ⟨a, b, S', hS, c⟩; cases hS; exact hc ⟨a, b, c⟩)

theorem tryAscii_spec (s : St) (sym : List Nat) (hsym : sym.length ≤ s.pos) (r : Option St)
    (h : edifactTryAsciiEnd s sym = .ok r) :
    (AsciiEndOK s.list s.cw.length (sym ++ s.rest) ∧ r = some ({ s with pos := s.pos - sym.length }).setAscii) ∨
    (¬ AsciiEndOK s.list s.cw.length (sym ++ s.rest) ∧ r = none) := by
  unfold edifactTryAsciiEnd at h
  simp only [] at h
  have hlen : (sym ++ s.rest).length = sym.length + s.charsLeft := by
    simp [St.rest, St.charsLeft]
  by_cases h4 : sym.length + s.charsLeft ≤ 4
  · rw [if_pos h4] at h
    by_cases h2 : asciiSize (sym ++ s.rest) ≤ 2
    · rw [if_pos h2] at h
      unfold St.sizeLeft at h
      cases hf : firstBigEnough s.list (s.cw.length + asciiSize (sym ++ s.rest)) with
      | none =>
        rw [hf] at h
        simp only [Except.ok.injEq] at h
        right
        refine ⟨?_, h.symm⟩
        rintro ⟨_, _, S, hS, _⟩
        rw [hf] at hS
        cases hS
      | some S =>
        rw [hf] at h
        simp only [] at h
        have hge := firstBigEnough_le _ _ _ hf
        by_cases hsp : dataCw S - (s.cw.length + asciiSize (sym ++ s.rest)) + asciiSize (sym ++ s.rest) ≤ 2 ∧
            asciiSize (sym ++ s.rest) ≤ dataCw S - (s.cw.length + asciiSize (sym ++ s.rest)) + asciiSize (sym ++ s.rest)
        · rw [if_pos hsp] at h
          unfold St.backup at h
          rw [if_pos hsym] at h
          simp only [Except.ok.injEq] at h
          left
          exact ⟨⟨by omega, h2, S, hf, by omega⟩, h.symm⟩
        · rw [if_neg hsp] at h
          simp only [Except.ok.injEq] at h
          right
          refine ⟨?_, h.symm⟩
          rintro ⟨_, _, S', hS, hle⟩
          rw [hf] at hS
          cases hS
          exact hsp ⟨by omega, by omega⟩
    · rw [if_neg h2] at h
      simp only [Except.ok.injEq] at h
      right
      exact ⟨fun hA => h2 hA.2.1, h.symm⟩
  · rw [if_neg h4] at h
    simp only [Except.ok.injEq] at h
    right
    exact ⟨fun hA => h4 (by rw [← hlen]; exact hA.1), h.symm⟩

/-! ### the EDIFACT encoder on a pure plan -/

theorem maybeSwitch_pure (s : St) (m : EMode) (hp : s.plan = [(0, m)]) (hm : s.mode = m) :
    s.maybeSwitch = .ok (false, s) := by
  unfold St.maybeSwitch
  rw [hp]
  simp only [Nat.not_lt_zero, ↓reduceIte]
  have : ¬ (s.charsLeft > 0 ∧ s.charsLeft = 0) := by omega
  simp only [this, ↓reduceIte, hm, ne_eq, not_true_eq_false]
  cases s
  simp only [] at hm hp
  subst hm
  subst hp
  rfl

/-- codewords after `q` complete quadruples -/
def ediC (body : List Nat) (q : Nat) : List Nat := 240 :: packEdifact ((body.take (4 * q)).map (· % 64))

theorem ediC_length (body : List Nat) (q : Nat) (h : 4 * q ≤ body.length) : (ediC body q).length = 1 + 3 * q := by
  unfold ediC
  rw [List.length_cons, packEdifact_length q _ (by simp; omega)]
  omega

structure EdiInv (list : List Sym) (body : List Nat) (s : St) (sym : List Nat) (q : Nat) : Prop where
  input : s.input = body
  list : s.list = list
  mode : s.mode = .edifact
  plan : s.plan = [(0, .edifact)]
  newMode : s.newMode = none
  pos : s.pos = 4 * q + sym.length
  le : s.pos ≤ body.length
  symEq : sym = (body.drop (4 * q)).take sym.length
  short : sym.length ≤ 3
  cw : s.cw = ediC body q

def stAscii (list : List Sym) (body : List Nat) (pos : Nat) (cw : List Nat) : St :=
  { input := body, pos := pos, mode := .ascii, plan := [(0, .ascii)], newMode := none, cw := cw, list := list }

def stEdi (list : List Sym) (body : List Nat) (cw : List Nat) : St :=
  { input := body, pos := body.length, mode := .edifact, plan := [(0, .edifact)], newMode := none, cw := cw, list := list }

inductive EdiEnd (list : List Sym) (body : List Nat) (s' : St) : Prop where
  | ascii (q : Nat) (hq : 4 * q ≤ body.length) (ok : AsciiEndOK list (ediC body q).length (body.drop (4 * q)))
      (eq : s' = stAscii list body (4 * q) (ediC body q))
  | unlatch (q : Nat) (hq : 4 * q ≤ body.length) (hr : (body.drop (4 * q)).length ≤ 3)
      (nok : ¬ AsciiEndOK list (ediC body q).length (body.drop (4 * q)))
      (room : ∃ S, firstBigEnough list ((ediC body q).length + (body.drop (4 * q)).length) = some S ∧
        ((body.drop (4 * q)).length = 0 → dataCw S - (ediC body q).length > 2) ∧
        ((body.drop (4 * q)).length ≠ 0 → (body.drop (4 * q)).length = 3 ∨
          dataCw S - ((ediC body q).length + (body.drop (4 * q)).length) > 0))
      (eq : s' = stAscii list body body.length (ediC body q ++ ediLast (body.drop (4 * q))))
  | exact (q : Nat) (hq : 4 * q = body.length)
      (fit : ∃ S, firstBigEnough list (ediC body q).length = some S ∧ dataCw S = (ediC body q).length)
      (eq : s' = stEdi list body (ediC body q))

theorem St_ext (a b : St) (h1 : a.input = b.input) (h2 : a.pos = b.pos) (h3 : a.mode = b.mode) (h4 : a.plan = b.plan)
    (h5 : a.newMode = b.newMode) (h6 : a.cw = b.cw) (h7 : a.list = b.list) : a = b := by
  cases a; cases b
  simp only [] at h1 h2 h3 h4 h5 h6 h7
  subst h1 h2 h3 h4 h5 h6 h7
  rfl

theorem ediInv_end {list : List Sym} {body : List Nat} {s : St} {sym : List Nat} {q : Nat}
    (inv : EdiInv list body s sym q) (hend : s.hasMore = false) :
    sym = body.drop (4 * q) ∧ s.rest = [] ∧ s.pos = body.length ∧ 4 * q ≤ body.length := by
  have h1 := of_decide_eq_false hend
  rw [inv.input] at h1
  have hpl : s.pos = body.length := by have := inv.le; omega
  have hdl : (body.drop (4 * q)).length = sym.length := by
    rw [List.length_drop]; have := inv.pos; omega
  refine ⟨?_, ?_, hpl, by have := inv.pos; omega⟩
  · have := inv.symEq
    rw [← hdl, List.take_length] at this
    exact this
  · unfold St.rest
    rw [inv.input]
    exact List.drop_eq_nil_of_le (by omega)

theorem handleEnd_spec {list : List Sym} {body : List Nat} {s s' : St} {sym : List Nat} {q : Nat}
    (inv : EdiInv list body s sym q) (hend : s.hasMore = false) (hc : EdiChars body)
    (h : edifactHandleEnd s sym = .ok s') : EdiEnd list body s' := by
  obtain ⟨hsym, hrest, hpos, hq⟩ := ediInv_end inv hend
  have hcs : EdiChars sym := fun x hx => hc x (by rw [hsym] at hx; exact List.mem_of_mem_drop hx)
  unfold edifactHandleEnd at h
  cases ht : edifactTryAsciiEnd s sym with
  | error e => rw [ht] at h; cases h
  | ok r =>
    rw [ht] at h
    have hsp : sym.length ≤ s.pos := by have := inv.pos; omega
    rcases tryAscii_spec s sym hsp r ht with ⟨hok, hr⟩ | ⟨hnok, hr⟩
    · subst hr
      simp only [Except.ok.injEq] at h
      subst h
      rw [hrest, List.append_nil, inv.list, inv.cw, hsym] at hok
      refine .ascii q hq hok ?_
      simp only [St.setAscii, stAscii, inv.input, inv.list, inv.newMode, inv.cw]
      congr 1
      have := inv.pos; omega
    · subst hr
      simp only [] at h
      rw [hrest, List.append_nil, inv.list, inv.cw, hsym] at hnok
      have hdl : (body.drop (4 * q)).length = sym.length := by rw [hsym]
      by_cases hemp : sym.isEmpty = true
      · rw [if_pos hemp] at h
        simp only [hend, Bool.not_false, ↓reduceIte] at h
        have hs0 : sym = [] := by simpa using hemp
        unfold St.sizeLeftE St.sizeLeft at h
        rw [inv.list, inv.cw] at h
        cases hf : firstBigEnough list (ediC body q).length with
        | none => simp only [Nat.add_zero, hf] at h; cases h
        | some S =>
          simp only [Nat.add_zero, hf] at h
          by_cases hgt : dataCw S - (ediC body q).length > 0
          · rw [if_pos hgt] at h
            by_cases h2 : dataCw S - (ediC body q).length ≤ 2
            · rw [if_pos h2] at h; cases h
            · rw [if_neg h2] at h
              simp only [Except.ok.injEq] at h
              subst h
              refine .unlatch q hq (by rw [hdl, hs0]; simp) hnok ⟨S, by rw [hdl, hs0]; simpa using hf, ?_, ?_⟩ ?_
              · intro _; omega
              · intro hne; rw [hdl, hs0] at hne; simp at hne
              · rw [← hsym, hs0]
                simp only [St.push, St.setAscii, stAscii, inv.input, inv.list, inv.newMode, inv.cw, ediLast, hpos]
          · rw [if_neg hgt] at h
            simp only [Except.ok.injEq] at h
            subst h
            have hge := firstBigEnough_le _ _ _ hf
            refine .exact q ?_ ⟨S, hf, by omega⟩ ?_
            · have := inv.pos
              rw [hs0] at this
              simp at this
              omega
            · exact St_ext _ _ inv.input hpos inv.mode inv.plan inv.newMode inv.cw inv.list
      · rw [if_neg hemp] at h
        rw [if_neg (by have := inv.short; omega)] at h
        simp only [hend, Bool.not_false, ↓reduceIte] at h
        have hne : sym ≠ [] := by simpa using hemp
        have hlpos : 0 < sym.length := List.length_pos_iff.mpr hne
        unfold St.sizeLeftE St.sizeLeft at h
        rw [inv.list, inv.cw] at h
        cases hf : firstBigEnough list ((ediC body q).length + sym.length) with
        | none => simp only [hf] at h; cases h
        | some S =>
          simp only [hf] at h
          by_cases hcond : dataCw S - ((ediC body q).length + sym.length) > 0 ∨ sym.length = 3
          · rw [if_pos hcond] at h
            simp only [Except.ok.injEq] at h
            subst h
            refine .unlatch q hq (by rw [hdl]; exact inv.short) hnok ⟨S, by rw [hdl]; exact hf, ?_, ?_⟩ ?_
            · intro h0; rw [hdl] at h0; omega
            · intro _; rw [hdl]; rcases hcond with h1 | h1
              · exact Or.inr h1
              · exact Or.inl h1
            · have hw := write4_last s.setAscii sym inv.short hcs
              obtain ⟨w1, w2, w3, w4, w5, w6⟩ := write4_same s.setAscii (sym ++ [31])
              rw [← hsym]
              apply St_ext
              · rw [w2]; simp [St.setAscii, stAscii, inv.input]
              · rw [w1]; simp [St.setAscii, stAscii, hpos]
              · rw [w5]; simp [St.setAscii, stAscii]
              · rw [w4]; simp [St.setAscii, stAscii]
              · rw [w6]; simp [St.setAscii, stAscii, inv.newMode]
              · rw [hw]; simp [St.setAscii, stAscii, inv.cw]
              · rw [w3]; simp [St.setAscii, stAscii, inv.list]
          · -- `write4` without UNLATCH would need `try_ascii_end` to have failed: impossible
            exfalso
            apply hnok
            have hlen12 : sym.length ≤ 2 := by have := inv.short; omega
            have hcap : dataCw S = (ediC body q).length + sym.length := by
              have := firstBigEnough_le _ _ _ hf; omega
            have hasz : asciiSize sym ≤ sym.length := by
              match sym, hlen12 with
              | [], _ => simp [asciiSize]
              | [a], _ =>
                have := (hcs a (by simp)).2
                simp only [asciiSize, List.length_singleton]
                split <;> omega
              | [a, b], _ =>
                have ha := (hcs a (by simp)).2
                have hb := (hcs b (by simp)).2
                simp only [asciiSize, List.length_cons, List.length_nil]
                split
                · omega
                · split <;> split <;> omega
              | _ :: _ :: _ :: _, h => simp at h
            obtain ⟨S', hS', hle⟩ := fbe_weaker list _ ((ediC body q).length + asciiSize sym) S hf (by omega)
            rw [← hsym]
            exact ⟨by omega, by omega, S', hS', by omega⟩

theorem take_succ_drop (l : List Nat) (a k : Nat) (h : a + k < l.length) :
    (l.drop a).take (k + 1) = (l.drop a).take k ++ [l[a + k]] := by
  rw [List.take_succ]
  congr 1
  simp [List.getElem?_drop, List.getElem?_eq_getElem h]

theorem ediC_succ (body : List Nat) (q : Nat) (h : 4 * q + 4 ≤ body.length) :
    ediC body (q + 1) = ediC body q ++ packEdifact (((body.drop (4 * q)).take 4).map (· % 64)) := by
  unfold ediC
  have : body.take (4 * (q + 1)) = body.take (4 * q) ++ (body.drop (4 * q)).take 4 := by
    have : 4 * (q + 1) = 4 * q + 4 := by omega
    rw [this, List.take_add]
  rw [this, List.map_append, packEdifact_append q _ _ (by simp; omega)]
  rfl

theorem ediLoop_spec (list : List Sym) (body : List Nat) (hc : EdiChars body) :
    ∀ (n f : Nat) (s : St) (sym : List Nat) (q : Nat) (s' : St), body.length - s.pos = n → n < f →
      EdiInv list body s sym q → edifactLoop f s sym = .ok s' → EdiEnd list body s' := by
  intro n
  induction n with
  | zero =>
    intro f s sym q s' hn hf inv h
    cases f with
    | zero => omega
    | succ f =>
      unfold edifactLoop at h
      have hmore : s.hasMore = false := by
        simp only [St.hasMore, inv.input]
        have := inv.le
        simp; omega
      simp only [hmore, Bool.false_eq_true, and_false, ↓reduceIte] at h
      have hnone : s.eat = none := by
        simp only [St.eat]
        rw [List.getElem?_eq_none (by rw [inv.input]; have := inv.le; omega)]
      rw [hnone] at h
      exact handleEnd_spec inv hmore hc h
  | succ n ih =>
    intro f s sym q s' hn hf inv h
    cases f with
    | zero => omega
    | succ f =>
      unfold edifactLoop at h
      have hlt : s.pos < body.length := by omega
      have hmore : s.hasMore = true := by simp [St.hasMore, inv.input, hlt]
      -- the early test at a group boundary
      have hcont : (sym.isEmpty = true ∧ s.hasMore = true → edifactTryAsciiEnd s sym = .ok none) →
          (match s.eat with
            | none => edifactHandleEnd s sym
            | some (ch, s1) =>
              let sym1 := sym ++ [ch]
              let (s2, sym2) := if sym1.length = 4 then (write4 s1 sym1, []) else (s1, sym1)
              match s2.maybeSwitch with
              | .error e => .error e
              | .ok (true, s3) => edifactHandleEnd s3 sym2
              | .ok (false, s3) => edifactLoop f s3 sym2) = .ok s' → EdiEnd list body s' := by
        intro _ h
        have he : s.eat = some (body[s.pos], { s with pos := s.pos + 1 }) := by
          simp only [St.eat]
          rw [List.getElem?_eq_getElem (by rw [inv.input]; exact hlt)]
          simp [inv.input]
        rw [he] at h
        simp only [] at h
        have hsym1 : sym ++ [body[s.pos]] = (body.drop (4 * q)).take (sym.length + 1) := by
          have := take_succ_drop body (4 * q) sym.length (by have := inv.pos; omega)
          rw [this, ← inv.symEq]
          have e : s.pos = 4 * q + sym.length := inv.pos
          simp only [e]
        by_cases h4 : (sym ++ [body[s.pos]]).length = 4
        · rw [if_pos h4] at h
          simp only [] at h
          have hl3 : sym.length = 3 := by simpa using h4
          rw [hl3] at hsym1
          have hquad : ∃ x0 x1 x2 x3, sym ++ [body[s.pos]] = [x0, x1, x2, x3] := by
            match hs : sym ++ [body[s.pos]], h4 with
            | [x0, x1, x2, x3], _ => exact ⟨x0, x1, x2, x3, rfl⟩
          obtain ⟨x0, x1, x2, x3, hq4⟩ := hquad
          have hx0 : 32 ≤ x0 ∧ x0 ≤ 94 := by
            apply hc x0
            have : x0 ∈ sym ++ [body[s.pos]] := by rw [hq4]; simp
            rw [hsym1] at this
            exact List.mem_of_mem_drop (List.mem_of_mem_take this)
          obtain ⟨w1, w2, w3, w4, w5, w6⟩ := write4_same { s with pos := s.pos + 1 } (sym ++ [body[s.pos]])
          have hcw : (write4 { s with pos := s.pos + 1 } (sym ++ [body[s.pos]])).cw = ediC body (q + 1) := by
            rw [hq4, write4_quad _ x0 x1 x2 x3 hx0, ← hq4, hsym1]
            simp only []
            rw [inv.cw, ediC_succ body q (by have := inv.pos; omega)]
          have inv' : EdiInv list body (write4 { s with pos := s.pos + 1 } (sym ++ [body[s.pos]])) [] (q + 1) :=
            ⟨by rw [w2]; exact inv.input, by rw [w3]; exact inv.list, by rw [w5]; exact inv.mode, by rw [w4]; exact inv.plan,
              by rw [w6]; exact inv.newMode, by rw [w1]; simp only []; have := inv.pos; simp; omega,
              by rw [w1]; simp only []; omega, by simp, by simp, hcw⟩
          rw [maybeSwitch_pure _ .edifact inv'.plan inv'.mode] at h
          simp only [] at h
          exact ih f _ [] (q + 1) s' (by rw [w1]; simp only []; omega) (by omega) inv' h
        · rw [if_neg h4] at h
          simp only [] at h
          have hl : sym.length + 1 ≤ 3 := by have := inv.short; simp at h4; omega
          have inv' : EdiInv list body { s with pos := s.pos + 1 } (sym ++ [body[s.pos]]) q :=
            ⟨inv.input, inv.list, inv.mode, inv.plan, inv.newMode, by simp; have := inv.pos; omega,
              by simp only []; omega, by simp only [List.length_append, List.length_singleton]; exact hsym1,
              by simpa using hl, inv.cw⟩
          rw [maybeSwitch_pure _ .edifact inv'.plan inv'.mode] at h
          simp only [] at h
          exact ih f _ _ q s' (by simp only []; omega) (by omega) inv' h
      by_cases hearly : sym.isEmpty = true ∧ s.hasMore = true
      · rw [if_pos hearly] at h
        cases ht : edifactTryAsciiEnd s sym with
        | error e => rw [ht] at h; cases h
        | ok r =>
          rw [ht] at h
          have hs0 : sym = [] := by simpa using hearly.1
          rcases tryAscii_spec s sym (by rw [hs0]; simp) r ht with ⟨hok, hr⟩ | ⟨_, hr⟩
          · subst hr
            simp only [Except.ok.injEq] at h
            subst h
            have hp4 : s.pos = 4 * q := by have := inv.pos; rw [hs0] at this; simpa using this
            have hrest : s.rest = body.drop (4 * q) := by simp [St.rest, inv.input, hp4]
            rw [hs0, List.nil_append, hrest, inv.list, inv.cw] at hok
            refine .ascii q (by omega) hok ?_
            simp [St.setAscii, stAscii, inv.input, inv.list, inv.newMode, inv.cw, hs0, hp4]
          · subst hr
            simp only [] at h
            exact hcont (fun _ => ht) h
      · rw [if_neg hearly] at h
        simp only [] at h
        exact hcont (fun hh => absurd hh hearly) h

/-! ### the whole run -/

def e0 (list : List Sym) (body : List Nat) : St :=
  { input := body, pos := 0, mode := .ascii, plan := [(body.length, .edifact), (0, .edifact)], newMode := none, cw := [], list := list }

def e1 (list : List Sym) (body : List Nat) : St :=
  { input := body, pos := 0, mode := .edifact, plan := [(0, .edifact)], newMode := some 240, cw := [], list := list }

def eL (list : List Sym) (body : List Nat) : St :=
  { input := body, pos := 0, mode := .edifact, plan := [(0, .edifact)], newMode := none, cw := [240], list := list }

theorem e_iter1 (list : List Sym) (body : List Nat) (hne : body ≠ []) (f : Nat) :
    asciiLoop (f + 1) (e0 list body) = .ok (e1 list body) := by
  have hpos : 0 < body.length := List.length_pos_iff.mpr hne
  rw [asciiLoop]
  have : (e0 list body).maybeSwitch = .ok (true, e1 list body) := by
    simp only [St.maybeSwitch, e0, e1, St.charsLeft, Nat.sub_zero, Nat.lt_irrefl, ↓reduceIte, hpos, and_self, ne_eq,
      reduceCtorEq, not_false_eq_true, EMode.latch]
  rw [this]

/-- the run's codewords in the decoder lemma's normal form -/
theorem ediC_eq_cw (body : List Nat) (q : Nat) (hq : 4 * q ≤ body.length) (hr : body.length - 4 * q ≤ 3) (un : Bool)
    (hun : un = false → 4 * q = body.length) :
    ediC body q ++ (if un then ediLast (body.drop (4 * q)) else []) = [240] ++ ediCw body un := by
  have hq4 : body.length / 4 = q := by omega
  unfold ediC ediCw
  rw [hq4]
  simp

theorem pure_edifact_roundtrip (list : List Sym) (body cw : List Nat) (sym : Sym) (hc : EdiChars body)
    (h : run list [] body [(body.length, .edifact), (0, .edifact)] = .ok (cw, sym)) : decodeData cw = .ok body := by
  have hb : ByteList body := fun x hx => by have := hc x hx; omega
  by_cases hne : body = []
  · subst hne
    have : run list [] [] [(([] : List Nat).length, EMode.edifact), (0, .edifact)] = run list [] [] [(0, .ascii)] := by
      unfold run
      simp only [List.length_nil]
      rw [Enc.mainLoop, Enc.mainLoop]
      simp [St.hasMore]
    rw [this] at h
    obtain ⟨hle, hcw⟩ := run_ascii list [] cw sym h
    rw [hcw]
    exact decodeData_ascii [] hb (dataCw sym) hle
  obtain ⟨sE, hmain, hsym, hpad⟩ := run_unfold list body _ cw sym h
  have hlen : 0 < body.length := List.length_pos_iff.mpr hne
  have hs0 : (e0 list body).hasMore = true := by simp [St.hasMore, e0, hlen]
  obtain ⟨s1, k1, he1, hm1⟩ := mainLoop_step (2 * body.length + 7) (e0 list body) sE 0 hmain hs0
  have hl0 : latched (e0 list body) = e0 list body := rfl
  rw [hl0] at he1
  have hmode0 : (e0 list body).mode = .ascii := rfl
  simp only [encodeMode, hmode0] at he1
  rw [e_iter1 list body hne (St.charsLeft (e0 list body) + 1)] at he1
  simp only [Except.ok.injEq] at he1
  subst he1
  obtain ⟨s3, k2, he2, hm2⟩ := mainLoop_step (2 * body.length + 6) _ sE k1 hm1 (by simp [St.hasMore, e1, hlen])
  have hl1 : latched (e1 list body) = eL list body := rfl
  rw [hl1] at he2
  have hmodeL : (eL list body).mode = .edifact := rfl
  simp only [encodeMode, hmodeL, edifactEncode] at he2
  have inv0 : EdiInv list body (eL list body) [] 0 :=
    ⟨rfl, rfl, rfl, rfl, rfl, rfl, Nat.zero_le _, by simp, by simp, by simp [eL, ediC, packEdifact]⟩
  have hend := ediLoop_spec list body hc body.length _ (eL list body) [] 0 s3 (by simp [eL]) (by simp [St.charsLeft, eL])
    inv0 he2
  have hbeq : (EMode.ascii == EMode.ascii) = true := by decide
  have hsplit : ∀ n, body.take n ++ body.drop n = body := fun n => List.take_append_drop _ _
  cases hend with
  | exact q hq fit eq =>
    subst eq
    rw [mainLoop_end _ _ _ (by simp [St.hasMore, stEdi])] at hm2
    simp only [Except.ok.injEq] at hm2
    subst hm2
    obtain ⟨S, f1, f2⟩ := fit
    simp only [stEdi] at hsym hpad
    rw [f1] at hsym
    simp only [Option.some.injEq] at hsym
    subst hsym
    have hpadv : addPadding (ediC body q) (EMode.edifact == EMode.ascii) (dataCw S) = some (ediC body q) := by
      unfold addPadding
      rw [if_neg (by omega)]
      simp [f2]
    rw [hpadv] at hpad
    simp only [Option.some.injEq] at hpad
    subst hpad
    have hcw := ediC_eq_cw body q (by omega) (by omega) false (fun _ => hq)
    simp only [Bool.false_eq_true, ↓reduceIte, List.append_nil] at hcw
    apply decodeData_of_decRun _ body (0 + (1 + (ediCw body false).length))
    · rw [hcw]; intro c hcc; simp at hcc; omega
    · rw [hcw]
      have := seg_edifact body false [] 0 [] [] ⟨hc, by simp only [Bool.false_eq_true, ↓reduceIte]; exact ⟨by omega, by simp⟩⟩
      simp only [List.append_nil, List.nil_append] at this
      rw [this, decRun_nil _ _ rfl]
  | unlatch q hq hr nok room eq =>
    subst eq
    rw [mainLoop_end _ _ _ (by simp [St.hasMore, stAscii])] at hm2
    simp only [Except.ok.injEq] at hm2
    subst hm2
    simp only [stAscii] at hsym hpad
    have hcap := firstBigEnough_le list _ sym hsym
    rw [hbeq, addPadding_ascii_pads _ _ hcap] at hpad
    simp only [Option.some.injEq] at hpad
    subst hpad
    have hrl : body.length - 4 * q ≤ 3 := by rw [List.length_drop] at hr; exact hr
    have hcw := ediC_eq_cw body q hq hrl true (by simp)
    simp only [↓reduceIte] at hcw
    -- at least three codewords from the start of the group that holds the UNLATCH value
    have hthree : (ediLast (body.drop (4 * q))).length +
        (DM.Props.C04.padsOf (ediC body q ++ ediLast (body.drop (4 * q))).length
          (dataCw sym - (ediC body q ++ ediLast (body.drop (4 * q))).length)).length ≥ 3 := by
      obtain ⟨S, hS, r0, r1⟩ := room
      have hSge := firstBigEnough_le _ _ _ hS
      have hpl : ∀ a b, (DM.Props.C04.padsOf a b).length = b := by
        intro a b
        unfold DM.Props.C04.padsOf
        split
        · simp; omega
        · have : ∀ p n, (padsFrom p n).length = n := by
            intro p n
            induction n generalizing p with
            | zero => rfl
            | succ n ih => simp [padsFrom, ih]
          simp [this]; omega
      rw [hpl]
      simp only [List.length_append] at hsym ⊢
      match hbr : body.drop (4 * q), hr with
      | [], _ =>
        rw [hbr] at r0 hS hsym
        simp only [List.length_nil, Nat.add_zero, ediLast, List.length_singleton] at r0 hS hsym ⊢
        have h2 := r0 trivial
        have := fbe_mono list _ ((ediC body q).length + 1) S hS (by omega) (by omega)
        rw [this] at hsym
        simp only [Option.some.injEq] at hsym
        subst hsym
        omega
      | [x], _ =>
        rw [hbr] at r1 hS hsym nok
        simp only [List.length_singleton, ediLast, List.length_cons, List.length_nil] at r1 hS hsym ⊢
        have hge3 : dataCw S - (ediC body q).length > 2 := by
          by_cases hle : dataCw S - (ediC body q).length ≤ 2
          · exfalso
            apply nok
            have hx := (hc x (by have : x ∈ body.drop (4 * q) := by rw [hbr]; simp
                                 exact List.mem_of_mem_drop this)).2
            have hasz : asciiSize [x] = 1 := by simp [asciiSize]; omega
            exact ⟨by simp, by omega, S, by rw [hasz]; exact hS, hle⟩
          · omega
        have := fbe_mono list _ ((ediC body q).length + (0 + 1 + 1)) S hS (by omega) (by omega)
        rw [this] at hsym
        simp only [Option.some.injEq] at hsym
        subst hsym
        omega
      | [_, _], _ => simp [ediLast]
      | [_, _, _], _ => simp [ediLast]
      | _ :: _ :: _ :: _ :: _, h => simp at h
    obtain ⟨ef, hpads⟩ := DM.Props.C04.decRun_pads (ediC body q ++ ediLast (body.drop (4 * q))).length
      (dataCw sym - (ediC body q ++ ediLast (body.drop (4 * q))).length) body []
    rw [hcw] at hpads hthree ⊢
    have hok : EdiOK body true (DM.Props.C04.padsOf ([240] ++ ediCw body true).length
        (dataCw sym - ([240] ++ ediCw body true).length)) := by
      refine ⟨hc, ?_⟩
      simp only [↓reduceIte]
      have hq4 : body.length / 4 = q := by omega
      rw [hq4]
      exact hthree
    generalize DM.Props.C04.padsOf ([240] ++ ediCw body true).length
      (dataCw sym - ([240] ++ ediCw body true).length) = P at hpads hok ⊢
    apply decodeData_of_decRun _ body ef
    · intro c hcc; simp at hcc; omega
    · have := seg_edifact body true P 0 [] [] hok
      simp only [List.nil_append] at this
      rw [this]
      have hl : ([240] ++ ediCw body true).length = 0 + (1 + (ediCw body true).length) := by simp; omega
      rw [hl] at hpads
      exact hpads
  | ascii q hq ok eq =>
    subst eq
    obtain ⟨hr4, hasz, S, hS, hroom⟩ := ok
    have hSge := firstBigEnough_le _ _ _ hS
    have hrest : ByteList (body.drop (4 * q)) := hb.drop _
    have hseg := asciiSeg_asciiEnc _ hrest
    have haszlen : (asciiEnc (body.drop (4 * q))).length = asciiSize (body.drop (4 * q)) :=
      asciiEnc_length _ _ (Nat.le_refl _)
    -- the rest goes to ASCII (possibly nothing)
    have hE : sE.cw = ediC body q ++ asciiEnc (body.drop (4 * q)) ∧ sE.mode = .ascii := by
      by_cases hmore : (stAscii list body (4 * q) (ediC body q)).hasMore = true
      · obtain ⟨s4, k3, he3, hm3⟩ := mainLoop_step (2 * body.length + 5) _ sE k2 hm2 hmore
        have hl3 : latched (stAscii list body (4 * q) (ediC body q)) = stAscii list body (4 * q) (ediC body q) := rfl
        rw [hl3] at he3
        have hmode3 : (stAscii list body (4 * q) (ediC body q)).mode = .ascii := rfl
        simp only [encodeMode, hmode3] at he3
        rw [asciiLoop_rest _ rfl rfl (by simp [stAscii]; omega)] at he3
        simp only [Except.ok.injEq] at he3
        subst he3
        rw [mainLoop_end _ _ _ (by simp [St.hasMore, stAscii])] at hm3
        simp only [Except.ok.injEq] at hm3
        subst hm3
        simp [stAscii, St.rest]
      · rw [mainLoop_end _ _ _ (by simpa using hmore)] at hm2
        simp only [Except.ok.injEq] at hm2
        subst hm2
        have : body.drop (4 * q) = [] := by
          have h4 := of_decide_eq_false (by simpa using hmore : (stAscii list body (4 * q) (ediC body q)).hasMore = false)
          simp only [stAscii] at h4
          exact List.drop_eq_nil_of_le (by omega)
        simp [stAscii, this, asciiEnc]
    obtain ⟨e1c, e2c⟩ := hE
    rw [e1c] at hsym hpad
    rw [e2c] at hpad
    have hl2 : (ediC body q ++ asciiEnc (body.drop (4 * q))).length = (ediC body q).length + asciiSize (body.drop (4 * q)) := by
      simp [haszlen]
    rw [hl2, hS] at hsym
    simp only [Option.some.injEq] at hsym
    subst hsym
    rw [hbeq, addPadding_ascii_pads _ _ (by rw [hl2]; exact hSge)] at hpad
    simp only [Option.some.injEq] at hpad
    subst hpad
    have hcw := ediC_eq_cw (body.take (4 * q)) q (by simp; omega) (by simp; omega) false (by simp; omega)
    simp only [Bool.false_eq_true, ↓reduceIte, List.append_nil] at hcw
    have hCq : ediC (body.take (4 * q)) q = ediC body q := by
      unfold ediC
      rw [List.take_take]
      simp
    rw [hCq] at hcw
    obtain ⟨ef, hpads⟩ := DM.Props.C04.decRun_pads (ediC body q ++ asciiEnc (body.drop (4 * q))).length
      (dataCw S - (ediC body q ++ asciiEnc (body.drop (4 * q))).length) body []
    have hplen : (DM.Props.C04.padsOf (ediC body q ++ asciiEnc (body.drop (4 * q))).length
        (dataCw S - (ediC body q ++ asciiEnc (body.drop (4 * q))).length)).length =
        dataCw S - (ediC body q ++ asciiEnc (body.drop (4 * q))).length := by
      unfold DM.Props.C04.padsOf
      split
      · simp; omega
      · have : ∀ p n, (padsFrom p n).length = n := by
          intro p n
          induction n generalizing p with
          | zero => rfl
          | succ n ih => simp [padsFrom, ih]
        simp [this]; omega
    have hl3 : (ediC body q ++ asciiEnc (body.drop (4 * q))).length =
        0 + (1 + (ediCw (body.take (4 * q)) false).length) + (asciiEnc (body.drop (4 * q))).length := by
      rw [hcw]; simp; omega
    generalize hP : DM.Props.C04.padsOf (ediC body q ++ asciiEnc (body.drop (4 * q))).length
      (dataCw S - (ediC body q ++ asciiEnc (body.drop (4 * q))).length) = P at hpads hplen ⊢
    have hok : EdiOK (body.take (4 * q)) false (asciiEnc (body.drop (4 * q)) ++ P) := by
      refine ⟨fun x hx => hc x (List.mem_of_mem_take hx), ?_⟩
      simp only [Bool.false_eq_true, ↓reduceIte, List.length_append, List.length_take]
      refine ⟨by omega, ?_⟩
      rw [hplen, hl2, haszlen]
      omega
    apply decodeData_of_decRun _ body ef
    · rw [hcw]; intro c hcc; simp at hcc; omega
    · rw [hcw]
      have := seg_edifact (body.take (4 * q)) false (asciiEnc (body.drop (4 * q)) ++ P) 0 [] [] hok
      simp only [List.nil_append, List.append_assoc] at this ⊢
      rw [this, decRun_asciiSeg hseg, hsplit]
      rw [hl3] at hpads
      exact hpads

end DM.Lemmas.EdiRT
