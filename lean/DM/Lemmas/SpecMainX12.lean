import DM.Lemmas.SpecMain
import DM.Lemmas.SpecX12Gen
/-
The X12 encoder preserves the main-loop invariant against the reference decoder
(`SpecMain.ModeStep … .x12`), under the plans that plan no latch to a non-ASCII mode for the last
four characters (`C40Gen.PlanOKE`, the side condition `MainRT.step_MI` has).
-/
namespace DM.Lemmas.SpecMainX12
open DM.Model DM.Lemmas DM.Lemmas.AsciiRT DM.Lemmas.SpecStep DM.Lemmas.SpecAscii DM.Lemmas.Complete
open DM.Lemmas.EncRT DM.Lemmas.C40Gen DM.Lemmas.B256Gen DM.Lemmas.PlanProv DM.Lemmas.MainRT DM.Spec.Stream
open DM.Lemmas.SpecMain DM.Lemmas.SpecX12

/-- what `x12::encode` does to the control part behind its triple loop -/
theorem x12Encode_shape (sL s3 : Enc.St) (h : Enc.x12Encode sL = .ok s3) :
    ∃ s2 sw, Enc.x12Loop (sL.charsLeft + 2) sL = .ok (s2, sw) ∧
      (s3 = s2.setAscii ∨ s3 = (if !sw then s2.setAscii else s2).push 254 ∨ s3 = s2) := by
  unfold Enc.x12Encode at h
  cases hl : Enc.x12Loop (sL.charsLeft + 2) sL with
  | error e => rw [hl] at h; cases h
  | ok r =>
    obtain ⟨s2, sw⟩ := r
    rw [hl] at h
    simp only [] at h
    refine ⟨s2, sw, rfl, ?_⟩
    split at h
    · cases h
    · simp only [Except.ok.injEq] at h; exact Or.inl h.symm
    · split at h
      · cases h
      · simp only [Except.ok.injEq] at h; exact Or.inr (Or.inl h.symm)
      · simp only [Except.ok.injEq] at h; exact Or.inr (Or.inr h.symm)

/-- no latch is pending behind an X12 run that consumed the message -/
theorem x12Encode_newMode (sL s3 : Enc.St) (hnm : sL.newMode = none) (h : Enc.x12Encode sL = .ok s3)
    (hmf : s3.hasMore = false) : s3.newMode = none := by
  obtain ⟨s2, sw, hl, hs⟩ := x12Encode_shape sL s3 h
  obtain ⟨n, run⟩ := x12Loop_gen _ sL s2 sw hl
  have h1 : s3.newMode = s2.newMode ∧ s3.hasMore = s2.hasMore := by
    rcases hs with rfl | rfl | rfl
    · exact ⟨rfl, rfl⟩
    · cases sw <;> exact ⟨rfl, rfl⟩
    · exact ⟨rfl, rfl⟩
  cases sw with
  | false => rw [h1.1, (run.stay rfl).2.2]; exact hnm
  | true =>
    have := (run.switch rfl).2.1
    rw [← h1.2, hmf] at this
    cases this

theorem occurs_snoc {cw : Array Nat} {i c : Nat} {A : List Nat} (h : Occurs cw i A) (hc : cw[i + A.length]? = some c) :
    Occurs cw i (A ++ [c]) := by
  intro k hk
  by_cases hlt : k < A.length
  · rw [List.getElem?_append_left hlt]; exact h k hlt
  · have : k = A.length := by simp at hk; omega
    subst this
    rw [List.getElem?_append_right (Nat.le_refl _)]; simpa using hc

theorem asciiSize_eq_zero (l : List Nat) (h : Enc.asciiSize l = 0) : l = [] := by
  match l, h with
  | [], _ => rfl
  | [a], h => unfold Enc.asciiSize at h; split at h <;> omega
  | a :: b :: t, h => unfold Enc.asciiSize at h; split at h <;> (try split at h) <;> omega

/-- the decoder's observable state behind an X12 segment -/
theorem dAt_x12Done {sD : St} {L : Nat} {out : List Nat} {tr : List Mode} {lat : List (Nat × Mode)}
    (hat : DAt sD L out tr lat) (n : Nat) (b : List Nat) (k : Nat) (m : Mode) :
    DAt (x12Done sD n b k m) (L + 1 + 2 * n + k) (out ++ b) (tr ++ List.replicate b.length .x12) (lat ++ [(L, .x12)]) := by
  refine ⟨by simp [x12Done, hat.i], ?_, ?_, ?_, hat.ecis, hat.padAt⟩
  · simp [x12Done, hat.out]
  · simp only [x12Done, hat.trace]; exact toArray_replicate _ _ _
  · simp [x12Done, hat.latches, hat.i]

/-- **The X12 encoder preserves the invariant**, for the message at hand: one call of `x12::encode`
from the main loop, under a plan that is `PlanOKE` for this message. -/
theorem step_x12_local (P : Mode → Prop) (hP : P .x12) (list : List Sym) (i0 : Nat) (pre body : List Nat) (s s' : Enc.St)
    (hinv : SInv P list i0 pre body s) (hpl : PlanOKE body s.plan) (hmore : s.hasMore = true)
    (hmode : s.mode = .x12) (h : Enc.encodeMode (latched s) = .ok s') : SInv P list i0 pre body s' := by
  obtain ⟨room, lo, tr, lat, mi⟩ := hinv
  have h0 := h
  have hnm : s.newMode = some 238 := by
    rcases mi.ctl with ⟨_, hf⟩ | hc
    · rw [hmore] at hf; cases hf
    · rw [hc, hmode]; rfl
  have hroom : room = none := by
    cases room with
    | none => rfl
    | some r =>
      rcases (mi.closing r rfl).1 with ⟨_, hf⟩ | ⟨hm, _⟩
      · rw [hmore] at hf; cases hf
      · rw [hmode] at hm; cases hm
  subst hroom
  have hlatched : latched s = { s with newMode := none }.push 238 := by simp [latched, hnm]
  rw [hlatched] at h
  generalize hsL : ({ s with newMode := none }.push 238 : Enc.St) = sL at h
  have hLin : sL.input = body := by rw [← hsL]; exact mi.inp
  have hLli : sL.list = list := by rw [← hsL]; exact mi.lst
  have hLpos : sL.pos = s.pos := by rw [← hsL]; rfl
  have hLnm : sL.newMode = none := by rw [← hsL]; rfl
  have hLcw : sL.cw = s.cw ++ [238] := by rw [← hsL]; rfl
  have hLmode : sL.mode = .x12 := by rw [← hsL]; exact hmode
  have hLplan : sL.plan = s.plan := by rw [← hsL]; rfl
  simp only [Enc.encodeMode, hLmode] at h
  have hend := x12Encode_specGen list body s.pos s.cw sL s' hLin hLli hLpos mi.le hLnm hLcw (by rw [hLplan]; exact hpl) h
  obtain ⟨X, p, un, hseg, hp0, hp, hcw, hpos, hin, hli, hctl, hfit⟩ := hend.out
  obtain ⟨n, hX, hchunk, hXhd, h4⟩ := hseg
  have hseglen : (seg body s.pos p).length = p - s.pos := seg_length body s.pos p hp0 hp
  have hcw' : s'.cw = s.cw ++ (238 :: X ++ (if un then [254] else [])) := by rw [hcw]; simp
  have hcwlen : s'.cw.length = s.cw.length + (1 + X.length + (if un then 1 else 0)) := by
    rw [hcw']; cases un <;> simp <;> omega
  have hmf_of : Enc.asciiSize (body.drop p) = 0 → s'.hasMore = false := by
    intro hz
    have := asciiSize_eq_zero _ hz
    have hl : (body.drop p).length = 0 := by rw [this]; rfl
    simp only [List.length_drop] at hl
    simp only [Enc.St.hasMore, hin, hpos, decide_eq_false_iff_not]
    omega
  -- the control part
  have hctl' : ((if un then none else some (Enc.asciiSize (body.drop p))) = some 0 ∧ s'.hasMore = false) ∨
      s'.newMode = s'.mode.latch := by
    rcases hctl with ⟨a1, _, a3⟩ | ⟨_, _, b3, _⟩ | ⟨c1, c2⟩
    · right; rw [a3, a1]; rfl
    · right
      rcases b3 with ⟨b1, b2⟩ | ⟨l, b1, b2, _⟩
      · rw [b2, b1]; rfl
      · rw [b2, b1]
    · left
      subst c2
      have hz : Enc.asciiSize (body.drop p) = 0 := by rw [c1, List.drop_length]; rfl
      exact ⟨by simp [hz], hmf_of hz⟩
  have hmore' : s'.newMode ≠ none → s'.hasMore = true := by
    rcases hctl with ⟨_, _, a3⟩ | ⟨_, b2, _, _⟩ | ⟨c1, _⟩
    · intro hne; exact absurd a3 hne
    · intro _; exact b2
    · intro hne
      have hmf : s'.hasMore = false := by
        simp only [Enc.St.hasMore, hin, hpos, decide_eq_false_iff_not]; omega
      exact absurd (x12Encode_newMode sL s' hLnm h hmf) hne
  refine ⟨if un then none else some (Enc.asciiSize (body.drop p)), lo - (1 + X.length + (if un then 1 else 0)),
    tr ++ List.replicate (seg body s.pos p).length .x12, lat ++ [(s.cw.length, .x12)], hin, hli, by rw [hpos]; exact hp,
    by rw [hcwlen]; have := mi.i0le; omega,
    by rw [hcw', List.take_append_of_le_length mi.i0le]; exact mi.pfx,
    by rw [hcw', drop_append_le i0 s.cw _ mi.i0le]; exact headOK_append mi.hd (headOK_cons 238 _ (by omega)),
    hctl', hmore', by rw [List.length_append, List.length_replicate, mi.trlen, hseglen, hpos]; omega, ?_, ?_, ?_, ?_, ?_⟩
  · intro m hm
    rcases List.mem_append.mp hm with hm | hm
    · exact mi.trP m hm
    · rw [(List.mem_replicate.mp hm).2]; exact hP
  · intro l hl
    rcases List.mem_append.mp hl with hl | hl
    · obtain ⟨a, a', b, c⟩ := mi.latP l hl
      exact ⟨a, a', b, by rw [hcwlen]; omega⟩
    · simp only [List.mem_singleton] at hl
      subst hl
      exact ⟨hP, by simp, mi.i0le, by rw [hcwlen]; simp only []; omega⟩
  · intro r hr
    cases un with
    | true => simp at hr
    | false =>
      simp only [Bool.false_eq_true, ↓reduceIte, Option.some.injEq] at hr
      obtain ⟨hle1, S, hS, hcap⟩ := hfit rfl
      refine ⟨?_, S, by rw [hpos]; exact hS, by rw [hcap, hr]⟩
      rcases hctl with ⟨a1, a2, _⟩ | ⟨b1, _⟩ | ⟨c1, _⟩
      · exact Or.inr ⟨a1, a2⟩
      · cases b1
      · have hz : Enc.asciiSize (body.drop p) = 0 := by rw [c1, List.drop_length]; rfl
        exact Or.inl ⟨by omega, hmf_of hz⟩
  · intro hlo sE S hr hS
    have := mi.low (by omega) sE S (Reach.step s s' sE hmore h0 hr) hS
    rw [hcwlen]; omega
  · intro cw ho hsize hsz
    rw [hcw'] at ho
    rw [hcwlen] at hsize
    have hle : s'.cw.length ≤ cw.size := by omega
    obtain ⟨k, sD, hk, hs, hat, hmD⟩ := mi.dec cw (occurs_zero_left ho) (by omega) (fun r hr => by cases hr)
    have hmD' : sD.mode = .ascii := by
      rcases hmD with h | ⟨h, _⟩
      · exact h
      · cases h
    have hor := occurs_zero_right ho
    rw [← hat.i] at hor
    -- what is left once the steps of the segment are known
    have fin : ∀ (j e : Nat) (m : Mode), j ≤ 1 + n + 1 → e = (if un then 1 else 0) →
        Steps cw j sD (x12Done sD n (seg body s.pos p) e m) →
        (m = .ascii ∨ ((if un then none else some (Enc.asciiSize (body.drop p))) = some 0 ∧ s'.hasMore = false)) →
        ∃ k sD', k ≤ 2 * (s'.cw.length - i0) ∧ Steps cw k { i := i0 } sD' ∧
          DAt sD' s'.cw.length (body.take s'.pos) (tr ++ List.replicate (seg body s.pos p).length .x12)
            (lat ++ [(s.cw.length, .x12)]) ∧
          (sD'.mode = .ascii ∨ ((if un then none else some (Enc.asciiSize (body.drop p))) = some 0 ∧ s'.hasMore = false)) := by
      intro j e m hj he hst hm
      subst he
      refine ⟨k + j, _, ?_, hs.trans hst, ?_, ?_⟩
      · rw [hcwlen]; have := mi.i0le; omega
      · have := dAt_x12Done hat n (seg body s.pos p) (if un then 1 else 0) m
        rw [take_seg body s.pos p hp0] at this
        rw [hcwlen, hpos, hX]
        have e2 : s.cw.length + 1 + 2 * n + (if un = true then 1 else 0) =
            s.cw.length + (1 + 2 * n + if un = true then 1 else 0) := by omega
        rw [← e2]
        exact this
      · rcases hm with hm | hm
        · exact Or.inl (by rw [← hm]; rfl)
        · exact Or.inr hm
    cases un with
    | true =>
      simp only [↓reduceIte] at hor
      obtain ⟨j, hj, hst, _⟩ := h4 cw sD [254] 1 .ascii hmD' .unlatch hor
      exact fin j 1 .ascii hj rfl hst (Or.inl rfl)
    | false =>
      simp only [Bool.false_eq_true, ↓reduceIte, List.append_nil] at hor
      obtain ⟨hsz1, hsz2⟩ := hsz _ rfl
      rw [hcwlen] at hsz1 hsz2
      simp only [Bool.false_eq_true, ↓reduceIte, Nat.add_zero] at hsz1 hsz2
      obtain ⟨hle1, _⟩ := hfit rfl
      by_cases hz : Enc.asciiSize (body.drop p) = 0
      · obtain ⟨j, hj, hst, _⟩ := h4 cw sD [] 0 .x12 hmD' (.exact (by rw [hat.i]; omega)) (by simpa using hor)
        exact fin j 0 .x12 hj rfl hst (Or.inr ⟨by simp [hz], hmf_of hz⟩)
      · have hlt : s.cw.length + (1 + X.length) < cw.size := by omega
        have hc : cw[s.cw.length + (1 + X.length)]? = some cw[s.cw.length + (1 + X.length)] :=
          Array.getElem?_eq_getElem hlt
        obtain ⟨j, hj, hst, _⟩ := h4 cw sD [cw[s.cw.length + (1 + X.length)]] 0 .ascii hmD'
          (.single _ (by intro hx; rw [hx] at hc; exact hsz2 hc) (by rw [hat.i]; omega))
          (by
            have := occurs_snoc hor (c := cw[s.cw.length + (1 + X.length)])
              (by rw [hat.i]; simp only [List.length_cons]; rw [← hc]; congr 1; omega)
            simpa using this)
        exact fin j 0 .ascii hj rfl hst (Or.inl rfl)

/-- `ModeStep` for X12 under any side condition that makes the plan `PlanOKE` for every message. (The
side condition `Q` of `ModeStep` is fixed before the message, so `fun k => PlanOKE body k.1` for one
`body` is not of this form when the plan uses EDIFACT; `step_x12_local` is the statement for the
message at hand.) -/
theorem step_x12_of (P : Mode → Prop) (Q : Key → Prop) (hQ : ∀ k, Q k → ∀ body, PlanOKE body k.1) (hP : P .x12) :
    ModeStep P Q .x12 :=
  fun list i0 pre body s s' _ hinv hq hmore hmode h =>
    step_x12_local P hP list i0 pre body s s' hinv (hQ _ hq body) hmore hmode h

/-- the side condition for X12: no latch to a non-ASCII mode planned for the last four characters,
no EDIFACT (`C40Gen.PlanOK`, as a predicate on the control part) -/
def QX : Key → Prop := fun k => PlanOK k.1

theorem qx_closed : Closed QX := by
  refine ⟨?_, ?_, fun _ hk => hk⟩
  · intro k _ e he
    simp only [asciiKey, List.mem_singleton] at he
    subst he
    simp
  · intro s s1 b h hk e he
    obtain ⟨_, _, _, m4, _, _⟩ := maybeSwitch_spec s s1 b h
    exact hk e (m4 e he)

/-- the weakest side condition of this kind: the plan is `PlanOKE` whatever the message -/
def QXE : Key → Prop := fun k => ∀ body, PlanOKE body k.1

theorem qxe_closed : Closed QXE :=
  ⟨fun _ _ body => planOKE_ascii body, fun s s1 b h hk body => planOKE_maybeSwitch s s1 b h (hk body), fun _ hk => hk⟩

theorem closed_and {Q1 Q2 : Key → Prop} (h1 : Closed Q1) (h2 : Closed Q2) : Closed (fun k => Q1 k ∧ Q2 k) :=
  ⟨fun k hk => ⟨h1.ascii k hk.1, h2.ascii k hk.2⟩, fun s s1 b h hk => ⟨h1.switch s s1 b h hk.1, h2.switch s s1 b h hk.2⟩,
    fun k hk => ⟨h1.clear k hk.1, h2.clear k hk.2⟩⟩

/-- **The X12 encoder preserves the main-loop invariant against the reference decoder**, all three
endings (UNLATCH and back in ASCII; one ASCII codeword left in the symbol / the exact end, without
UNLATCH; a planned switch behind a whole triple), under `PlanOK` plans. -/
theorem step_x12 (P : Mode → Prop) (hP : P .x12) : ModeStep P QX .x12 :=
  step_x12_of P QX (fun _ hk body => planOKE_of_planOK body hk) hP

theorem step_x12_E (P : Mode → Prop) (hP : P .x12) : ModeStep P QXE .x12 :=
  step_x12_of P QXE (fun _ hk body => hk body) hP

end DM.Lemmas.SpecMainX12
