import DM.Props.C18Couple
import DM.Lemmas.CoupleGate
/-!
# The encoder model succeeds on the planner model's plan when the prediction fits

A rephrasing of `DM.Props.C18Couple.predicted_size_suffices_planOK` for use in the "planned" corollaries
(`Props/C01Planner.lean`, `Props/C16Planner.lean`, `Props/C14Planner.lean`): of its four cases only the
third survives once the message passes the encoder's early-exit gate (`body.length ≤ maxCapacity list`)
and prefix + predicted codewords fit a listed symbol.  Any prefix codewords `pre` (FNC1, Macro 05 / 06,
ECI designator) are allowed; the planner is told their number.

With `CoupleGate.gate_prediction_none` the gate hypothesis is redundant: a prediction that fits a listed
symbol implies that the message passes the gate (`fit_passes_gate`, `planned_run_nogate`), and the second
case of `predicted_size_suffices_planOK` can be stated with the same conclusion about the prediction as the
fourth (`predicted_size_suffices_gate`).
-/
namespace DM.Lemmas.PlannedRun
open DM.Model DM.Model.Plan DM.Model.Enc DM.Model.PlanSide DM.Lemmas DM.Lemmas.AsciiRT

/-- on the planner model's own plan (within `planOK`), behind the gate and with a prediction that fits
the symbol `ps`, the encoder model succeeds in a symbol no larger than `ps` -/
theorem planned_run (body pre : List Nat) (list : List Sym) (modes : Nat) (perms : List (List Nat)) (o : Outcome)
    (plan : List (Nat × EMode)) (ps : Sym) (hb : ByteList body)
    (hopt : Plan.optimize body pre.length list modes perms = .ok o) (hp : o.plan = some plan)
    (hok : planOK body plan = true) (hgate : body.length ≤ maxCapacity list)
    (hfit : firstBigEnough list (pre.length + o.cost12 / 12) = some ps) :
    ∃ cw sym, Enc.run list pre body plan = .ok (cw, sym) ∧ dataCw sym ≤ dataCw ps := by
  rcases DM.Props.C18Couple.predicted_size_suffices_planOK body pre list modes perms o plan hb hopt hp hok with
    h | h | h | h
  · obtain ⟨hl, _⟩ := h
    subst hl
    simp [firstBigEnough] at hfit
  · obtain ⟨_, hlt, _⟩ := h
    omega
  · obtain ⟨_, _, cw, sym, hrun, hsz⟩ := h
    exact ⟨cw, sym, hrun, hsz ps hfit⟩
  · obtain ⟨_, _, _, hnone⟩ := h
    rw [hfit] at hnone
    cases hnone

/-- a prediction that fits a listed symbol implies that the message passes the encoder's early-exit gate -/
theorem fit_passes_gate (body : List Nat) (w : Nat) (list : List Sym) (modes : Nat) (perms : List (List Nat))
    (o : Outcome) (plan : List (Nat × EMode)) (ps : Sym)
    (hopt : Plan.optimize body w list modes perms = .ok o) (hp : o.plan = some plan)
    (hfit : firstBigEnough list (w + o.cost12 / 12) = some ps) : body.length ≤ maxCapacity list := by
  by_cases h : body.length ≤ maxCapacity list
  · exact h
  · have := CoupleGate.gate_prediction_none body w list modes perms o plan hopt hp (by omega)
    rw [hfit] at this
    cases this

/-- `planned_run` without the gate hypothesis -/
theorem planned_run_nogate (body pre : List Nat) (list : List Sym) (modes : Nat) (perms : List (List Nat)) (o : Outcome)
    (plan : List (Nat × EMode)) (ps : Sym) (hb : ByteList body)
    (hopt : Plan.optimize body pre.length list modes perms = .ok o) (hp : o.plan = some plan)
    (hok : planOK body plan = true)
    (hfit : firstBigEnough list (pre.length + o.cost12 / 12) = some ps) :
    ∃ cw sym, Enc.run list pre body plan = .ok (cw, sym) ∧ dataCw sym ≤ dataCw ps :=
  planned_run body pre list modes perms o plan ps hb hopt hp hok
    (fit_passes_gate body pre.length list modes perms o plan ps hopt hp hfit) hfit

/-- **C18, last sentence, with the early exit resolved.**  On the planner model's own plan (within
`planOK`) the encoder model
1. answers `listEmpty` on an empty symbol list;
2. succeeds, in a symbol no larger than the symbol `first_symbol_big_enough_for` returns for prefix +
   predicted codewords (if it returns one);
3. answers `tooMuch`, and prefix + predicted codewords fit no listed symbol either — whether the
   `tooMuch` comes from the early exit "more characters than `max_capacity()`" or from a mode encoder. -/
theorem predicted_size_suffices_gate
    (body pre : List Nat) (list : List Sym) (modes : Nat) (perms : List (List Nat)) (o : Outcome)
    (plan : List (Nat × EMode)) (hb : ByteList body)
    (hopt : Plan.optimize body pre.length list modes perms = .ok o) (hp : o.plan = some plan)
    (hok : planOK body plan = true) :
    (list = [] ∧ Enc.run list pre body plan = .error .listEmpty) ∨
    (list ≠ [] ∧ ∃ cw sym, Enc.run list pre body plan = .ok (cw, sym) ∧
      ∀ ps, firstBigEnough list (pre.length + o.cost12 / 12) = some ps → dataCw sym ≤ dataCw ps) ∨
    (list ≠ [] ∧ Enc.run list pre body plan = .error .tooMuch ∧
      firstBigEnough list (pre.length + o.cost12 / 12) = none) := by
  rcases DM.Props.C18Couple.predicted_size_suffices_planOK body pre list modes perms o plan hb hopt hp hok with
    h | h | h | h
  · exact Or.inl h
  · obtain ⟨h1, h2, h3⟩ := h
    exact Or.inr (Or.inr ⟨h1, h3, CoupleGate.gate_prediction_none body pre.length list modes perms o plan hopt hp h2⟩)
  · obtain ⟨h1, _, h3⟩ := h
    exact Or.inr (Or.inl ⟨h1, h3⟩)
  · obtain ⟨h1, _, h3, h4⟩ := h
    exact Or.inr (Or.inr ⟨h1, h3, h4⟩)

/-! ### non-vacuity of `CoupleGate.gate_prediction_none` / `fit_passes_gate`

Six digits and a letter, the symbol list {10x10} (3 data codewords, `max_capacity()` = 6), all modes, the
sort permutations of a stable sort by cost: the planner model returns the all-ASCII plan at 4 codewords
(`48 / 12`), which fit no listed symbol; the message has 7 > 6 characters. -/

example : ∃ o,
    Plan.optimize [49, 50, 51, 52, 53, 54, 65] 0 (symbolList [0]) 63
      [[0], [0], [0], [0], [0], [0], [0, 3, 1, 2], [0, 1, 2]] = .ok o ∧
    o.plan = some [(0, .ascii)] ∧ o.cost12 = 48 ∧
    maxCapacity (symbolList [0]) = 6 ∧ firstBigEnough (symbolList [0]) (0 + o.cost12 / 12) = none := by
  refine ⟨{ plan := some [(0, .ascii)], cost12 := 48, steps := 15, maxLive := 3 }, ?_, rfl, rfl,
    by decide +kernel, by decide +kernel⟩
  decide +kernel

end DM.Lemmas.PlannedRun
