import DM.Lemmas.PlanLoop
/-!
Liveness of the planner loop (used by `DM/Props/C10Ascii.lean`): pruning never empties a nonempty
candidate list, `add_switches` on a plan that can be left (its `switchCost` exists) always pushes
an ASCII child when ASCII is enabled, so one pass over a nonempty list of such plans yields a
nonempty candidate list.
-/
namespace DM.Lemmas.C10Live
open DM.Model DM.Model.Plan DM.Model.Enc DM.Lemmas.PlanInv DM.Lemmas.PlanLoop

/-! ### pruning -/

theorem phase2_ne_nil : ∀ (f : Nat) (pre l : List GPlan), (pre ≠ [] ∨ l ≠ []) → phase2Plans f pre l ≠ [] := by
  intro f
  induction f with
  | zero =>
    intro pre l h
    unfold phase2Plans
    rcases h with h | h <;> simp [h]
  | succ f ih =>
    intro pre l h
    unfold phase2Plans
    cases l with
    | nil =>
      simp only
      rcases h with h | h
      · exact h
      · exact absurd rfl h
    | cons first rest =>
      simp only
      split
      · simp
      · split
        · exact ih _ _ (Or.inl (by simp))
        · simp

theorem applyPerm_ne_nil {cands sorted : List GPlan} {perm : List Nat}
    (h : applyPerm cands perm = .ok sorted) (hne : cands ≠ []) : sorted ≠ [] := by
  unfold applyPerm at h
  split at h
  · cases h
  · rename_i hlen
    split at h
    · cases h
    · rename_i hall
      simp only [] at h
      split at h
      · cases h
        cases perm with
        | nil =>
          simp only [List.length_nil, ne_eq, Decidable.not_not] at hlen
          exact absurd (List.eq_nil_of_length_eq_zero hlen.symm) hne
        | cons i t =>
          have hi : i < cands.length := by
            simp only [List.all_cons, Bool.not_and, Bool.or_eq_true, Bool.not_eq_eq_eq_not, Bool.not_true,
              decide_eq_false_iff_not, not_or] at hall
            by_cases hi : i < cands.length
            · exact hi
            · simp [hi] at hall
          simp [List.getElem?_eq_getElem hi]
      · cases h

theorem removeHopeless_ne_nil {cands live : List GPlan} {perm : List Nat}
    (h : removeHopelessPlans cands perm = .ok live) (hne : cands ≠ []) : live ≠ [] := by
  unfold removeHopelessPlans at h
  cases ha : applyPerm cands perm with
  | error e => rw [ha] at h; cases h
  | ok sorted =>
    rw [ha] at h
    simp only [Except.ok.injEq] at h
    subst h
    have hs := applyPerm_ne_nil ha hne
    apply phase2_ne_nil
    right
    cases sorted with
    | nil => exact absurd rfl hs
    | cons p ps => simp [dedupPlans]

/-! ### `add_switches` pushes an ASCII child -/

theorem addSwitchesGo_acc (g : GPlan) (restLen : Nat) (asStart : Bool) (modes asciiCost : Nat) (ctx : Ctx) :
    ∀ (t : List (EMode × Nat)) (acc : List GPlan) (n : Nat) (l : List GPlan) (n' : Nat),
      addSwitchesGo g restLen asStart modes asciiCost ctx t acc n = .ok (l, n') → acc ≠ [] → l ≠ [] := by
  intro t
  induction t with
  | nil =>
    intro acc n l n' h hacc
    simp only [addSwitchesGo, Except.ok.injEq, Prod.mk.injEq] at h
    rw [← h.1]
    simpa using hacc
  | cons e t ih =>
    intro acc n l n' h hacc
    obtain ⟨m, ce⟩ := e
    unfold addSwitchesGo at h
    split at h
    · simp only [] at h
      split at h
      · cases h
      · exact ih _ _ _ _ h hacc
      · exact ih _ _ _ _ h (by simp)
    · exact ih _ _ _ _ h hacc

theorem step_none_not_ascii {g : GPlan} (h : g.step = .ok none) : g.current ≠ .ascii := by
  unfold GPlan.step at h
  cases hp : g.plan with
  | ascii p =>
    rw [hp] at h
    simp only [] at h
    split at h <;> cases h
  | c40 p => simp only [GPlan.current, hp, PlanImpl.mode]; split <;> simp
  | x12 p => simp [GPlan.current, hp, PlanImpl.mode]
  | edifact p => simp [GPlan.current, hp, PlanImpl.mode]
  | base256 p => simp [GPlan.current, hp, PlanImpl.mode]

theorem addSwitches_ne_nil {g : GPlan} {restLen : Nat} {asStart : Bool} {modes : Nat} {l : List GPlan} {n c : Nat}
    (hasc : enabledMode modes .ascii = true) (hcur : g.current ≠ .ascii) (hs : g.switchCost = some c)
    (h : g.addSwitches restLen asStart modes = .ok (l, n)) : l ≠ [] := by
  unfold GPlan.addSwitches at h
  rw [hs] at h
  simp only [] at h
  split at h
  · cases h
  · rename_i ctx _
    split at h
    · split at h
      · cases h
      · rename_i hany
        exfalso
        apply hany
        simp [switchTargets, hcur, hasc]
    · unfold switchTargets at h
      unfold addSwitchesGo at h
      rw [if_pos ⟨hcur, hasc⟩] at h
      simp only [] at h
      split at h
      · cases h
      · rename_i hst
        exfalso
        exact step_none_not_ascii hst (by simp [GPlan.current, newPlan, PlanImpl.mode])
      · exact addSwitchesGo_acc _ _ _ _ _ _ _ _ _ _ _ h (by simp)

/-! ### one pass over the live plans -/

theorem iterate_acc_ne_nil (rc : Nat) (as : Bool) (modes : Nat) :
    ∀ (plans acc : List GPlan) (steps : Nat) (atEnd : Bool) (res : List GPlan × Nat × Bool),
      iteratePlans rc as modes plans acc steps atEnd = .ok res → acc ≠ [] → res.1 ≠ [] := by
  intro plans
  induction plans with
  | nil =>
    intro acc steps atEnd res h hacc
    simp only [iteratePlans, Except.ok.injEq] at h
    rw [← h]
    exact hacc
  | cons plan rest ih =>
    intro acc steps atEnd res h hacc
    unfold iteratePlans at h
    split at h
    · cases h
    · split at h
      · cases h
      · exact ih _ _ _ _ h (by simp [hacc])
    · simp only [] at h
      split at h
      · cases h
      · split at h
        · cases h
        · exact ih _ _ _ _ h (by simp)

/-- a plan that can be left (`switchCost` exists) contributes a candidate: itself one step further, or
its ASCII child -/
theorem iterate_ne_nil {rc : Nat} {as : Bool} {modes : Nat} {g : GPlan} {rest acc : List GPlan} {steps : Nat}
    {atEnd : Bool} {res : List GPlan × Nat × Bool} {c : Nat}
    (hasc : enabledMode modes .ascii = true) (hs : g.switchCost = some c)
    (h : iteratePlans rc as modes (g :: rest) acc steps atEnd = .ok res) : res.1 ≠ [] := by
  unfold iteratePlans at h
  split at h
  · cases h
  · rename_i hst
    split at h
    · cases h
    · rename_i sw n hsw
      have := addSwitches_ne_nil hasc (step_none_not_ascii hst) hs hsw
      exact iterate_acc_ne_nil _ _ _ _ _ _ _ _ h (by simp [this])
  · simp only [] at h
    split at h
    · cases h
    · split at h
      · cases h
      · exact iterate_acc_ne_nil _ _ _ _ _ _ _ _ h (by simp)

theorem switchCost_of_ne_x12 (g : GPlan) (h : g.current ≠ .x12) : ∃ c, g.switchCost = some c := by
  unfold GPlan.switchCost
  cases hp : g.plan with
  | x12 p => simp [GPlan.current, hp, PlanImpl.mode] at h
  | ascii p => exact ⟨_, rfl⟩
  | c40 p => exact ⟨_, rfl⟩
  | edifact p => exact ⟨_, rfl⟩
  | base256 p => exact ⟨_, rfl⟩

end DM.Lemmas.C10Live

