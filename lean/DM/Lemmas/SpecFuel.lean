import DM.Lemmas.SpecStep
/-
The reference decoder's fuel: every `step` decreases `2 · (codewords left) + [mode ≠ ASCII]`, so
`run` with the fuel `decode` gives it (`3 · size + 4`) always ends with a finished run. A result
of `DM.Spec.Stream.decode` is therefore never the state of a run that was cut short (`run` returns
its current state silently when the fuel is used up).
-/
namespace DM.Lemmas.SpecStep
open DM.Spec.Stream

/-- the termination measure of the reference decoder -/
def mu (cw : Array Nat) (s : St) : Nat := 2 * (cw.size - s.i) + (if s.mode = .ascii then 0 else 1)

theorem map_ok {α β : Type} {f : α → β} {x : Except String α} {b : β} (h : f <$> x = .ok b) : ∃ a, x = .ok a ∧ f a = b := by
  cases x with
  | error e => cases h
  | ok a => exact ⟨a, rfl, by injection h⟩

theorem pure_ok' {α : Type} {a b : α} (h : (pure a : Except String α) = .ok b) : a = b := by injection h

theorem fin_pure {cw : Array Nat} {s s1 a : St} (h : (pure (some a) : Except String (Option St)) = .ok (some s1))
    (hlt : mu cw a < mu cw s) : mu cw s1 < mu cw s := by
  have : some a = some s1 := by injection h
  injection this with this
  rw [← this]; exact hlt

theorem step_measure_ascii (cw : Array Nat) (s s1 : St) (hm : s.mode = .ascii) (hn : ¬ cw.size ≤ s.i)
    (h : step cw s = .ok (some s1)) : mu cw s1 < mu cw s := by
  unfold step at h
  simp only [hm] at h
  generalize cw[s.i]! = c at h
  generalize hd : cw[s.i + 1]! = d at h
  by_cases c1 : 1 ≤ c ∧ c ≤ 128
  · simp [hn, c1] at h
    exact fin_pure h (by simp [mu, push, hm]; omega)
  by_cases c2 : c = 129
  · simp [hn, c2] at h
    obtain ⟨a, _, ha⟩ := map_ok h
    simp only [Option.some.injEq] at ha
    subst ha
    simp [mu, hm]; omega
  by_cases c3 : c ≤ 229
  · simp [hn, c1, c2, c3] at h
    exact fin_pure h (by simp [mu, push, hm]; omega)
  by_cases c4 : c = 230
  · simp [hn, c4] at h
    exact fin_pure h (by simp [mu, latch, hm]; omega)
  by_cases c5 : c = 231
  · simp [hn, c5] at h
    exact fin_pure h (by simp [mu, latch, hm]; omega)
  by_cases c6 : c = 235
  · by_cases c7 : s.i + 1 < cw.size
    · by_cases c8 : 1 ≤ d ∧ d ≤ 128
      · simp [hn, c6, c7, c8] at h
        exact fin_pure h (by simp [mu, push, hm]; omega)
      · simp [hn, c6, c7, c8] at h
    · simp [hn, c6, c7] at h
  by_cases c9 : c = 238
  · simp [hn, c9] at h
    exact fin_pure h (by simp [mu, latch, hm]; omega)
  by_cases c10 : c = 239
  · simp [hn, c10] at h
    exact fin_pure h (by simp [mu, latch, hm]; omega)
  by_cases c11 : c = 240
  · simp [hn, c11] at h
    exact fin_pure h (by simp [mu, latch, hm]; omega)
  by_cases c12 : c = 241
  · simp [hn, c12] at h
    obtain ⟨a, _, ha⟩ := map_ok h
    simp only [Option.some.injEq] at ha
    subst ha
    simp [mu, hm]; omega
  · simp [hn, c1, c2, c3, c4, c5, c6, c9, c10, c11, c12] at h


theorem bind_ok {α β : Type} {x : Except String α} {f : α → Except String β} {b : β} (h : x >>= f = .ok b) :
    ∃ a, x = .ok a ∧ f a = .ok b := by
  cases x with
  | error e => cases h
  | ok a => exact ⟨a, rfl, h⟩

theorem forIn_inv {α σ : Type} (P : σ → Prop) (f : α → σ → Except String (ForInStep σ))
    (hf : ∀ a r st, P r → f a r = .ok st → P st.value) :
    ∀ (l : List α) (s s' : σ), P s → forIn l s f = .ok s' → P s' := by
  intro l
  induction l with
  | nil => intro s s' hs h; simp only [List.forIn_nil] at h; cases h; exact hs
  | cons a t ih =>
    intro s s' hs h
    rw [List.forIn_cons] at h
    obtain ⟨st, h1, h2⟩ := bind_ok h
    have := hf a s st hs h1
    cases st with
    | done b => simp only [] at h2; cases h2; exact this
    | yield b => exact ih b s' this h2

theorem step_measure_edifact (cw : Array Nat) (s s1 : St) (hm : s.mode = .edifact) (hn : ¬ cw.size ≤ s.i)
    (h : step cw s = .ok (some s1)) : mu cw s1 < mu cw s := by
  unfold step at h
  simp only [hm] at h
  generalize cw[s.i]! = a at h
  generalize cw[s.i + 1]! = b at h
  generalize cw[s.i + 2]! = d at h
  by_cases c1 : cw.size ≤ 2 + s.i
  · simp [hn, c1] at h
    exact fin_pure h (by simp [mu, hm])
  by_cases c2 : a / 4 = 31
  · simp [hn, c1, c2] at h
    exact fin_pure h (by simp [mu, hm]; omega)
  by_cases c3 : a % 4 * 16 + b / 16 = 31
  · simp [hn, c1, c2, c3] at h
    exact fin_pure h (by simp [mu, hm]; omega)
  by_cases c4 : b % 16 * 4 + d / 64 = 31
  · simp [hn, c1, c2, c3, c4] at h
    exact fin_pure h (by simp [mu, hm]; omega)
  by_cases c5 : d % 64 = 31
  · simp [hn, c1, c2, c3, c4, c5] at h
    exact fin_pure h (by simp [mu, hm]; omega)
  · simp [hn, c1, c2, c3, c4, c5] at h
    exact fin_pure h (by simp [mu, push, hm]; omega)

theorem step_measure_x12 (cw : Array Nat) (s s1 : St) (hm : s.mode = .x12) (hn : ¬ cw.size ≤ s.i)
    (h : step cw s = .ok (some s1)) : mu cw s1 < mu cw s := by
  unfold step at h
  simp only [hm] at h
  generalize cw[s.i]! = c at h
  generalize cw[s.i + 1]! = d at h
  by_cases c1 : cw.size - s.i = 1
  · by_cases c2 : c = 254
    · simp [hn, c1, c2] at h
      exact fin_pure h (by simp [mu, hm]; omega)
    · simp [hn, c1, c2] at h
      exact fin_pure h (by simp [mu, hm])
  by_cases c2 : c = 254
  · simp [hn, c1, c2] at h
    exact fin_pure h (by simp [mu, hm]; omega)
  by_cases c3 : c * 256 = 0 ∧ d = 0
  · simp [hn, c1, c2, c3] at h
    exact absurd h (by intro h; obtain ⟨_, h1, _⟩ := bind_ok h; cases h1)
  by_cases c4 : 40 ≤ (c * 256 + d - 1) / 1600
  · simp [hn, c1, c2, c3, c4] at h
    exact absurd h (by intro h; obtain ⟨_, h1, _⟩ := bind_ok h; cases h1)
  · simp [hn, c1, c2, c3, c4] at h
    obtain ⟨a1, _, h⟩ := bind_ok h
    obtain ⟨a2, _, h⟩ := bind_ok h
    obtain ⟨a3, _, h⟩ := map_ok h
    simp only [Option.some.injEq] at h
    subst h
    simp [mu, push, hm]; omega


theorem step_measure_c40 (cw : Array Nat) (s s1 : St) (hm : s.mode = .c40 ∨ s.mode = .text) (hn : ¬ cw.size ≤ s.i)
    (h : step cw s = .ok (some s1)) : mu cw s1 < mu cw s := by
  have hna : s.mode ≠ .ascii := by rcases hm with h | h <;> rw [h] <;> decide
  -- both alternatives of the match carry the same code
  have key : ∀ (c d : Nat) (h : (do
      let r := cw.size - s.i
      if r = 1 then
        if c = 254 then return some { s with i := s.i + 1, mode := .ascii }
        else return some { s with mode := .ascii }
      else if c = 254 then return some { s with i := s.i + 1, mode := .ascii }
      else
        let v := c * 256 + d
        if v = 0 then throw "c40 pair 0"
        let v := v - 1
        let vals := [v / 1600, (v / 40) % 40, v % 40]
        if v / 1600 ≥ 40 then throw "c40 pair too big"
        let mut s' := s
        for x in vals do
          let (cst, ob) ← c40Value (s'.mode == .text) s'.cst x
          s' := { s' with cst := cst }
          if let some b := ob then s' := push s' b s'.mode
        return some { s' with i := s.i + 2 } : Except String (Option St)) = .ok (some s1)), mu cw s1 < mu cw s := by
    intro c d h
    simp only [] at h
    by_cases c1 : cw.size - s.i = 1
    · by_cases c2 : c = 254
      · simp only [c1, c2, ↓reduceIte] at h
        exact fin_pure h (by simp [mu, hna]; omega)
      · simp only [c1, c2, ↓reduceIte] at h
        exact fin_pure h (by simp [mu, hna])
    by_cases c2 : c = 254
    · simp only [c1, c2, ↓reduceIte] at h
      exact fin_pure h (by simp [mu, hna]; omega)
    by_cases c3 : c * 256 + d = 0
    · simp only [c1, c2, c3, ↓reduceIte] at h
      exact absurd h (by intro h; obtain ⟨_, h1, _⟩ := bind_ok h; cases h1)
    by_cases c4 : (c * 256 + d - 1) / 1600 ≥ 40
    · simp only [c1, c2, c3, c4, ↓reduceIte] at h
      obtain ⟨_, h1, _⟩ := bind_ok h
      cases h1
    · simp only [c1, c2, c3, c4, ↓reduceIte] at h
      obtain ⟨r, hr, h⟩ := bind_ok h
      have hP := forIn_inv (fun (r : St) => r.mode = s.mode) _ (by
        intro a r st hP hf
        obtain ⟨x, _, hf⟩ := bind_ok hf
        split at hf
        · have := pure_ok' hf; subst this; simpa [push] using hP
        · have := pure_ok' hf; subst this; simpa using hP) _ s r rfl hr
      have := fin_pure (cw := cw) (s := s) h (by simp [mu, hP, hna]; omega)
      exact this
  unfold step at h
  rcases hm with hm | hm
  · simp only [hm, ge_iff_le, hn, ↓reduceIte] at h
    exact key _ _ h
  · simp only [hm, ge_iff_le, hn, ↓reduceIte] at h
    exact key _ _ h


theorem step_measure_b256 (cw : Array Nat) (s s1 : St) (hm : s.mode = .base256) (hn : ¬ cw.size ≤ s.i)
    (h : step cw s = .ok (some s1)) : mu cw s1 < mu cw s := by
  unfold step at h
  simp only [hm] at h
  generalize unrand255 cw[s.i]! (s.i + 1) = d1 at h
  generalize unrand255 cw[s.i + 1]! (s.i + 2) = d2 at h
  by_cases c1 : d1 = 0
  · by_cases c2 : cw.size < s.i + 1 + (cw.size - (s.i + 1))
    · simp [hn, c1, c2] at h
      obtain ⟨_, h1, _⟩ := map_ok h; cases h1
    · simp [hn, c1, c2] at h
      exact fin_pure h (by simp [mu, hm]; omega)
  by_cases c2 : d1 ≤ 249
  · by_cases c3 : cw.size < s.i + 1 + d1
    · simp [hn, c1, c2, c3] at h
      obtain ⟨_, h1, _⟩ := map_ok h; cases h1
    · simp [hn, c1, c2, c3] at h
      exact fin_pure h (by simp [mu, hm]; omega)
  by_cases c3 : s.i + 1 < cw.size
  · by_cases c4 : cw.size < s.i + 2 + (250 * (d1 - 249) + d2)
    · simp [hn, c1, c2, c3, c4] at h
      obtain ⟨_, h1, _⟩ := map_ok h; cases h1
    · simp [hn, c1, c2, c3, c4] at h
      exact fin_pure h (by simp [mu, hm]; omega)
  · simp [hn, c1, c2, c3] at h
    obtain ⟨_, h1, _⟩ := bind_ok h; cases h1

/-- **Every step of the reference decoder decreases the measure** `2 · (codewords left) + [not in ASCII mode]`. -/
theorem step_measure (cw : Array Nat) (s s1 : St) (h : step cw s = .ok (some s1)) : mu cw s1 < mu cw s := by
  by_cases hn : cw.size ≤ s.i
  · rw [step_end cw s hn] at h; cases h
  cases hm : s.mode with
  | ascii => exact step_measure_ascii cw s s1 hm hn h
  | c40 => exact step_measure_c40 cw s s1 (Or.inl hm) hn h
  | text => exact step_measure_c40 cw s s1 (Or.inr hm) hn h
  | x12 => exact step_measure_x12 cw s s1 hm hn h
  | edifact => exact step_measure_edifact cw s s1 hm hn h
  | base256 => exact step_measure_b256 cw s s1 hm hn h

/-- with fuel above the measure, `run` stops because the stream is finished, never because the fuel is used up -/
theorem run_finished (cw : Array Nat) : ∀ (f : Nat) (s s' : St), mu cw s < f → run cw f s = .ok s' → step cw s' = .ok none := by
  intro f
  induction f with
  | zero => intro s s' hf _; omega
  | succ f ih =>
    intro s s' hf h
    rw [run] at h
    cases hs : step cw s with
    | error e => rw [hs] at h; cases h
    | ok o =>
      rw [hs] at h
      cases o with
      | none =>
        have : s = s' := by injection h
        rw [← this]; exact hs
      | some s1 =>
        have := step_measure cw s s1 hs
        exact ih s1 s' (by omega) h

/-- **The fuel of `decode` always suffices**: whenever the reference decoder returns a result, it is
the result of a finished run (the final state has no further step), not of a run cut short. -/
theorem decode_finished (cwl : List Nat) (d : Decoded) (h : decode cwl = .ok d) :
    ∃ s i0, i0 ≤ 1 ∧ run cwl.toArray (3 * cwl.length + 4) { i := i0 } = .ok s ∧ step cwl.toArray s = .ok none ∧
      d.body = s.out.toList ∧ d.trace = s.trace.toList ∧ d.latches = s.latches.toList ∧ d.ecis = s.ecis.toList ∧
      d.padAt = s.padAt := by
  rw [decode_eq] at h
  obtain ⟨s, hs, hd⟩ := map_ok h
  simp only [List.size_toArray] at hs
  refine ⟨s, _, ?_, hs, run_finished _ _ _ _ ?_ hs, ?_⟩
  · split <;> (try split) <;> omega
  · simp only [mu, List.size_toArray, ↓reduceIte]; omega
  · subst hd; exact ⟨rfl, rfl, rfl, rfl, rfl⟩

end DM.Lemmas.SpecStep
