import DM.Lemmas.LDSingular
/-
One iteration of the Levinson–Durbin loop preserves the algebraic invariant.
-/
namespace DM.Lemmas.LD
set_option linter.unusedSimpArgs false
set_option linter.unusedVariables false
open DM.Model DM.Model.RS DM.Lemmas DM.Lemmas.RSTotal

variable {A : String → Prop}

theorem ldStep_alg (syn : List Nat) (t : Nat) (st : LDSt) (ht : 2 * t ≤ syn.length)
    (hs : Bytes syn) (hinv : LDAlg syn t st) (hvt : st.v < t) :
    Safe A (ldStep syn t st) (fun r => ∀ st', r = some st' → LDAlg syn t st') := by
  obtain ⟨v, w, y⟩ := st
  obtain ⟨⟨hv1, _, hw, hy⟩, hbw, hby, h3, h4⟩ := hinv
  simp only at hv1 hvt hw hy hbw hby h3 h4
  have hbt : Bytes (w ++ [1]) := Bytes.append hbw (Bytes.cons (by omega) Bytes.nil)
  unfold ldStep
  simp only []
  refine Safe_slice_dot (L := v + 1) (by omega) (by omega) (by lens) hs hbt fun epsV hepsb heps => ?_
  refine Safe_ite (fun hne => ?_) (fun he0 => ?_)
  · -- the regular case
    refine Safe_slice_dot (L := v + 1) (by omega) (by omega) (by lens) hs hbt fun b0 hb0b hb0 => ?_
    refine Safe_bind (Safe_div' hne ?_)
    refine Safe_slice_dot (L := v) (by omega) (by omega) hy hs hby fun gamma hgb hg => ?_
    refine Safe_bind (Safe_div' hne ?_)
    have hbetab := gdivD_lt b0 epsV
    have hinvb := gdivD_lt 1 epsV
    have hbgb : gadd (gdivD b0 epsV) gamma < 256 := xor_lt_256 hbetab hgb
    have hE : GF.ofNat epsV ≠ 0 := ofNat_ne_zero hepsb hne
    have hWl := regW_length w y v epsV (gadd (gdivD b0 epsV) gamma) hw hy
    have hYl := regY_length w y v (gdivD 1 epsV) hw hy
    have hWb : Bytes (regW w y v epsV (gadd (gdivD b0 epsV) gamma)) := by
      apply bytes_of_getD
      intro j _
      rw [regW_getD w y v _ _ hw hy]
      exact xor_lt_256 (xor_lt_256 (getD_lt (Bytes.cons (by omega) hbw) j) (gmul_lt' _ _))
        (gmul_lt' _ _)
    have hYb : Bytes (regY w y (gdivD 1 epsV)) := by
      apply bytes_of_getD
      intro j _
      rw [regY_getD w y v _ hw hy hinvb]
      exact gmul_lt' _ _
    have h3' : Eq3 syn (v + 1) (regY w y (gdivD 1 epsV)) := by
      apply regular_eq3 syn w _ v (GF.ofNat epsV) (GF.ofNat (gdivD 1 epsV)) hw h4 ?_ heps ?_
      · intro j
        unfold V
        rw [regY_getD w y v _ hw hy hinvb, GF.ofNat_gmul (getD_lt hbt j) hinvb]
      · rw [ofNat_gdivD (by omega) hepsb hne, ofNat_one]
        exact mul_one_div_cancel hE
    have h4' : Eq4 syn (v + 1) (regW w y v epsV (gadd (gdivD b0 epsV) gamma)) := by
      apply regular_eq4 syn w y _ v (GF.ofNat epsV) (GF.ofNat (gdivD b0 epsV)) (GF.ofNat gamma)
        hv1 hw hy h3 h4 ?_ heps ?_ hg
      · intro j
        unfold V
        rw [regW_getD w y v _ _ hw hy, GF.ofNat_xor, GF.ofNat_xor,
          GF.ofNat_gmul hepsb (getD_lt hby j), GF.ofNat_gmul hbgb (getD_lt hbt j), GF.ofNat_xor]
      · rw [ofNat_gdivD hb0b hepsb hne, hb0]
        exact div_mul_cancel₀ _ hE
    refine Safe_bind (Safe_mono (ldCheck_pass syn _ _ _ hWl hYl (by omega) hs hWb hYb h3' h4')
      fun _ _ => ?_)
    apply Safe_pure
    intro st' hst'
    cases hst'
    exact ⟨⟨by simp only; omega, by simp only; omega, hWl, hYl⟩, hWb, hYb, h3', h4'⟩
  · -- the singular case
    have he : epsV = 0 := Decidable.not_not.mp he0
    have hτ0 : ∀ i, i < v + 1 → tau syn w v i = 0 := by
      intro i hi
      by_cases h : i < v
      · exact P_rows syn w v hw h4 i h
      · have : i = v := by omega
        subst this
        unfold tau
        rw [← heps, he]; rfl
    refine Safe_bind ?_
    apply Safe_mono (Safe_forIn_filter_ge (t - v) 1 _ _
      (fun k (found : Option (Nat × Nat)) =>
        (found = none → ∀ i, i < v + k → tau syn w v i = 0) ∧
        (∀ m sM, found = some (m, sM) → 1 ≤ m ∧ m < t - v ∧ sM < 256 ∧ sM ≠ 0 ∧
          GF.ofNat sM = tau syn w v (m + v) ∧ ∀ i, i < m + v → tau syn w v i = 0))
      (fun found => ∀ m sM, found = some (m, sM) → 1 ≤ m ∧ m < t - v ∧ sM < 256 ∧ sM ≠ 0 ∧
          GF.ofNat sM = tau syn w v (m + v) ∧ ∀ i, i < m + v → tau syn w v i = 0) ?_ ?_ ?_)
    rotate_left
    · refine ⟨fun _ => hτ0, ?_⟩
      intro m sM h
      cases h
    · intro k found hk1 hk2 ⟨hI1, hI2⟩
      refine Safe_ite (fun hc => ?_) (fun hc => Safe_pure ⟨fun h => ?_, hI2⟩)
      · have hnone : found = none := Option.isNone_iff_eq_none.mp hc
        refine Safe_slice_dot (L := v + 1) (by omega) (by omega) (by lens) hs hbt fun x hxb hx => ?_
        refine Safe_ite (fun hne => Safe_pure ⟨fun h => (nomatch h), ?_⟩)
          (fun hz => Safe_pure ⟨fun _ => ?_, hI2⟩)
        · intro m sM h
          cases h
          refine ⟨hk1, hk2, hxb, hne, ?_, ?_⟩
          · rw [hx, Nat.add_comm]; rfl
          · intro i hi; exact hI1 hnone i (by omega)
        · intro i hi
          by_cases h : i < v + k
          · exact hI1 hnone i h
          · have : i = v + k := by omega
            subst this
            have hz' : x = 0 := Decidable.not_not.mp hz
            unfold tau
            rw [← hx, hz']; rfl
      · rw [h] at hc; exact absurd rfl hc
    · intro found h; exact h.2
    intro found hfound
    rcases found with _ | ⟨m, sigmaM⟩
    · apply Safe_pure
      intro st' h; cases h
    · obtain ⟨hm1, hmt, hsMb, hsM, hsMv, hτ⟩ := hfound m sigmaM rfl
      simp only []
      -- sigma
      refine Safe_bind ?_
      apply Safe_mono (Safe_forIn_filter_ge (2 * m + 1) (m + 1) _ _
        (fun k (sigma : List Nat) => sigma.length = k - m ∧ Bytes sigma ∧
          ∀ k', k' < k - m → V sigma k' = tau syn w v (m + v + k'))
        (fun sigma => sigma.length = m + 1 ∧ Bytes sigma ∧
          ∀ k', k' < m + 1 → V sigma k' = tau syn w v (m + v + k')) ?_ ?_ ?_)
      rotate_left
      · refine ⟨by simp only [List.length_singleton]; omega, Bytes.cons hsMb Bytes.nil, ?_⟩
        intro k' hk'
        have : k' = 0 := by omega
        subst this
        exact hsMv
      · intro k sigma hk1 hk2 ⟨hsl, hsb, hsv⟩
        refine Safe_slice_dot (L := v + 1) (by omega) (by omega) (by lens) hs hbt fun x hxb hx => ?_
        apply Safe_pure
        refine ⟨by simp only [List.length_append, List.length_singleton]; omega,
          Bytes.append hsb (Bytes.cons hxb Bytes.nil), ?_⟩
        intro k' hk'
        rw [V_append]
        by_cases h : k' < sigma.length
        · rw [if_pos h]; exact hsv k' (by omega)
        · rw [if_neg h]
          have : k' = k - m := by omega
          subst this
          rw [hsl, Nat.sub_self, show m + v + (k - m) = v + k by omega]
          exact hx
      · intro sigma h
        rw [show m + 1 + (2 * m + 1 - (m + 1)) - m = m + 1 by omega] at h
        exact h
      intro sigma ⟨hsl, hsb, hsv⟩
      refine Safe_ite (fun h => absurd hsl h) (fun _ => ?_)
      -- iterate w^k
      refine Safe_bind ?_
      apply Safe_mono (Safe_forIn_range (m + 1) _ _
        (fun k (tk : List Nat) => tk.length = v ∧ Bytes tk ∧
          ∀ i, i < v → H syn i v (V tk) = V syn (v + k + i))
        (fun tk => tk.length = v ∧ Bytes tk ∧
          ∀ i, i < v → H syn i v (V tk) = V syn (v + (m + 1) + i)) ⟨hw, hbw, h4⟩ ?_ (fun b h => h))
      rotate_left
      · intro k tk hk ⟨htl, htb, hTK⟩
        refine Safe_bind (Safe_at_val (by omega) ?_)
        refine Safe_slice_dot (L := v) (by omega) (by omega) htl hs htb fun x hxb hx => ?_
        refine Safe_bind (Safe_at_val (by omega) ?_)
        apply Safe_pure
        have hs2 := getD_lt hs (2 * v + k)
        have hrb : gadd (syn.getD (2 * v + k) 0) x < 256 := xor_lt_256 hs2 hxb
        have hetab := getD_lt htb (v - 1)
        have hshb : Bytes (0 :: tk.dropLast) :=
          Bytes.cons (by omega) (fun z hz => htb z (List.mem_of_mem_dropLast hz))
        refine ⟨by lens, bytes_map_range _ _ ?_, ?_⟩
        · intro j _
          split
          · exact xor_lt_256 (getD_lt hshb j) (xor_lt_256 (gmul_lt' _ _) (gmul_lt' _ _))
          · exact getD_lt hshb j
        · apply tk_step syn w y tk _ v k (GF.ofNat (gadd (syn.getD (2 * v + k) 0) x))
            (GF.ofNat (tk.getD (v - 1) 0)) hv1 h3 h4 hTK ?_ rfl ?_
          · rw [GF.ofNat_xor, hx]; rfl
          · intro j hj
            rw [V_map_range, if_pos (by lens), if_pos ⟨by omega, by omega⟩, GF.ofNat_xor,
              GF.ofNat_xor, GF.ofNat_gmul hrb (getD_lt hby j), GF.ofNat_gmul hetab (getD_lt hbw j)]
            congr 1
            show V (0 :: tk.dropLast) j = _
            rw [V_cons]
            split
            · rfl
            · exact V_dropLast tk (j - 1) (by omega)
      intro tk ⟨htl, htb, hTK⟩
      refine Safe_bind (Safe_div' hsM ?_)
      refine Safe_ite (fun h => absurd h (by omega)) (fun _ => ?_)
      have hsInvb := gdivD_lt 1 sigmaM
      have hSM : GF.ofNat sigmaM ≠ 0 := ofNat_ne_zero hsMb hsM
      -- gamma: the residuals
      refine Safe_bind ?_
      apply Safe_mono (Safe_forIn_range (m + 1) _ _
        (fun i (gam : List Nat) => gam.length = i ∧ Bytes gam ∧
          ∀ i', i' < i → V gam i' = V syn (m + v + v + 1 + i') + H syn (v + i') v (V tk))
        (fun gam => gam.length = m + 1 ∧ Bytes gam ∧
          ∀ i', i' < m + 1 → V gam i' = V syn (m + v + v + 1 + i') + H syn (v + i') v (V tk))
        ⟨rfl, Bytes.nil, fun i' hi' => by omega⟩ ?_ (fun b h => h))
      rotate_left
      · intro i gam hi ⟨hgl, hgb, hgv⟩
        refine Safe_bind (Safe_at_val (by omega) ?_)
        refine Safe_slice_dot (L := v) (by omega) (by omega) htl hs htb fun x hxb hx => ?_
        apply Safe_pure
        have hs3 := getD_lt hs (m + v + v + 1 + i)
        refine ⟨by simp only [List.length_append, List.length_singleton]; omega,
          Bytes.append hgb (Bytes.cons (xor_lt_256 hs3 hxb) Bytes.nil), ?_⟩
        intro i' hi'
        rw [V_append]
        by_cases h : i' < gam.length
        · rw [if_pos h]; exact hgv i' (by omega)
        · rw [if_neg h]
          have : i' = i := by omega
          subst this
          rw [hgl, Nat.sub_self]
          show GF.ofNat (gadd _ _) = _
          rw [GF.ofNat_xor, hx]; rfl
      intro gam0 ⟨hg0l, hg0b, hg0v⟩
      refine Safe_bind (Safe_at_val (by omega) ?_)
      have hsig0b := getD_lt hsb 0
      have hsig0v : GF.ofNat (sigma.getD 0 0) = tau syn w v (m + v) := hsv 0 (by omega)
      have hsig0 : sigma.getD 0 0 ≠ 0 := by
        intro h0
        rw [h0, ← hsMv] at hsig0v
        exact hSM hsig0v.symm
      -- gamma: forward substitution
      refine Safe_bind ?_
      apply Safe_mono (Safe_forIn_range (m + 1) _ _
        (fun i (gam : List Nat) => gam.length = m + 1 ∧ Bytes gam ∧
          (∀ i', i' < i → ∑ j ∈ Finset.range (i' + 1), tau syn w v (m + v + i' - j) * V gam j
            = V syn (m + v + v + 1 + i') + H syn (v + i') v (V tk)) ∧
          (∀ i', i ≤ i' → i' < m + 1 →
            V gam i' = V syn (m + v + v + 1 + i') + H syn (v + i') v (V tk)))
        (fun gam => gam.length = m + 1 ∧ Bytes gam ∧
          (∀ i', i' < m + 1 → ∑ j ∈ Finset.range (i' + 1), tau syn w v (m + v + i' - j) * V gam j
            = V syn (m + v + v + 1 + i') + H syn (v + i') v (V tk)))
        ⟨hg0l, hg0b, fun i' hi' => by omega, fun i' _ hi' => hg0v i' hi'⟩ ?_
        (fun b h => ⟨h.1, h.2.1, h.2.2.1⟩))
      rotate_left
      · intro i gam hi ⟨hgl, hgb, hdone, htodo⟩
        refine Safe_bind (Safe_at_val (by omega) ?_)
        refine Safe_bind ?_
        apply Safe_mono (Safe_forIn_range i _ _
          (fun j (gi : Nat) => gi < 256 ∧ GF.ofNat gi = V gam i
            + ∑ j' ∈ Finset.range j, tau syn w v (m + v + i - j') * V gam j')
          (fun gi => gi < 256 ∧ GF.ofNat gi = V gam i
            + ∑ j' ∈ Finset.range i, tau syn w v (m + v + i - j') * V gam j')
          ⟨getD_lt hgb i, by rw [Finset.sum_range_zero, add_zero]; rfl⟩ ?_ (fun b h => h))
        rotate_left
        · intro j gi hj ⟨hgib, hgiv⟩
          refine Safe_bind (Safe_at_val (by omega) ?_)
          apply Safe_pure
          have h1 := getD_lt hsb (i - j)
          have h2 := getD_lt hgb j
          refine ⟨xor_lt_256 hgib (gmul_lt' _ _), ?_⟩
          rw [GF.ofNat_xor, GF.ofNat_gmul h1 h2, hgiv, Finset.sum_range_succ, add_assoc]
          congr 2
          have := hsv (i - j) (by omega)
          unfold V at this
          rw [this, show m + v + (i - j) = m + v + i - j by omega]
          rfl
        intro gi ⟨hgib, hgiv⟩
        refine Safe_bind (Safe_div' hsig0 ?_)
        apply Safe_pure
        have hqb := gdivD_lt gi (sigma.getD 0 0)
        have hq : tau syn w v (m + v) * GF.ofNat (gdivD gi (sigma.getD 0 0)) = GF.ofNat gi := by
          rw [ofNat_gdivD hgib hsig0b hsig0, ← hsig0v, mul_comm]
          exact div_mul_cancel₀ _ (ofNat_ne_zero hsig0b hsig0)
        refine ⟨by simp only [List.length_set]; exact hgl, bytes_set hgb _ _ hqb, ?_, ?_⟩
        · intro i' hi'
          by_cases hlt : i' < i
          · rw [← hdone i' hlt]
            apply Finset.sum_congr rfl
            intro j hj
            have := Finset.mem_range.mp hj
            rw [V_set, if_neg (by omega)]
          · have : i' = i := by omega
            subst this
            rw [Finset.sum_range_succ, V_set, if_pos ⟨rfl, by omega⟩,
              show m + v + i' - i' = m + v by omega, hq, hgiv, htodo i' (Nat.le_refl _) hi]
            have : ∑ j ∈ Finset.range i', tau syn w v (m + v + i' - j) * V (gam.set i' (gdivD gi (sigma.getD 0 0))) j
                = ∑ j ∈ Finset.range i', tau syn w v (m + v + i' - j) * V gam j := by
              apply Finset.sum_congr rfl
              intro j hj
              have := Finset.mem_range.mp hj
              rw [V_set, if_neg (by omega)]
            rw [this]
            linear_combination (∑ j ∈ Finset.range i', tau syn w v (m + v + i' - j) * V gam j) * two_eq_zero
        · intro i' h1 h2
          rw [V_set, if_neg (by omega)]
          exact htodo i' (by omega) h2
      intro gam ⟨hgl, hgb, hgv⟩
      -- update w
      refine Safe_bind ?_
      rw [zipIdx_swap, List.forIn_map, hgl]
      apply Safe_mono (Safe_forIn_range (m + 1) _ _
        (fun i (tw : List Nat) => tw.length = m + v + 1 ∧ Bytes tw ∧
          ∀ q, V tw q = V tk q + ∑ i' ∈ Finset.range i, V gam i' * Psh w (m - i') q)
        (fun tw => tw.length = m + v + 1 ∧ Bytes tw ∧
          ∀ q, V tw q = V tk q + ∑ i' ∈ Finset.range (m + 1), V gam i' * Psh w (m - i') q)
        ?_ ?_ (fun b h => h))
      rotate_left
      · refine ⟨by lens, Bytes.append htb (Bytes.replicate_zero _), ?_⟩
        intro q
        rw [Finset.sum_range_zero, add_zero, V_append]
        split
        · rfl
        · rw [V_replicate_zero, V_of_ge (by omega)]
      · intro i tw hi ⟨htwl, htwb, htwv⟩
        simp only []
        refine Safe_bind (Safe_sub' (by omega) ?_)
        refine Safe_ite (fun h => absurd h (by omega)) (fun _ => ?_)
        refine Safe_ite (fun h => absurd h (by
          simp only [List.length_map, List.length_range]; omega)) (fun _ => ?_)
        apply Safe_pure
        have hgib := getD_lt hgb i
        refine ⟨(twStep_length w tw v (m - i) (gam.getD i 0)).trans htwl,
          twStep_bytes w tw v (m - i) _ htwb hgib, ?_⟩
        intro q
        rw [Finset.sum_range_succ, ← add_assoc, ← htwv q]
        exact twStep_V w tw v (m - i) _ hw hbw htwb hgib (by omega) q
      intro tw ⟨htwl, htwb, htwv⟩
      have hYl : (singY w (m + v) (gdivD 1 sigmaM)).length = m + v + 1 := by
        unfold singY; lens
      have hYb := singY_bytes w (m + v) (gdivD 1 sigmaM) hsInvb
      have h3' : Eq3 syn (m + v + 1) (singY w (m + v) (gdivD 1 sigmaM)) := by
        apply sing_eq3 syn w _ v (m + v) (GF.ofNat (gdivD 1 sigmaM)) hw (by omega)
          (singY_V w v (m + v) _ hw (by omega) hbw hsInvb) hτ
        rw [← hsMv, ofNat_gdivD (by omega) hsMb hsM, ofNat_one]
        exact mul_one_div_cancel hSM
      have h4' : Eq4 syn (m + v + 1) tw :=
        sing_eq4 syn w tk tw v m (V gam) hw htl hTK hτ hgv htwv
      refine Safe_bind (Safe_mono (ldCheck_pass syn _ _ _ htwl hYl (by omega) hs htwb hYb h3' h4')
        fun _ _ => ?_)
      apply Safe_pure
      intro st' hst'
      cases hst'
      exact ⟨⟨by simp only; omega, by simp only; omega, htwl, hYl⟩, htwb, hYb, h3', h4'⟩

end DM.Lemmas.LD
