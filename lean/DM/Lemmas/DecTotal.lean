import DM.Model.Decode
/-
Totality of the data decoder model: no `.panic` outcome is reachable.
-/
namespace DM.Lemmas
open DM.Model.Dec DM.Gen

/-- errors a decoder may legitimately report (neither a panic nor the model's fuel marker) -/
def Benign : DErr → Prop
  | .panic _ => False
  | .fuel => False
  | _ => True

/-- the result is a value or a benign error -/
def Good {α : Type} (r : R α) : Prop := ∀ e, r = .error e → Benign e

/-- the result is not a panic -/
def NoPanic {α : Type} (r : R α) : Prop := ∀ s, r ≠ .error (.panic s)

theorem Good.noPanic {α : Type} {r : R α} (h : Good r) : NoPanic r := by
  intro s hr; exact h _ hr

theorem Good.ok {α : Type} (a : α) : Good (.ok a : R α) := by intro e h; cases h
theorem good_err {α : Type} (e : DErr) (h : Benign e) : Good (.error e : R α) := by
  intro e' h'; injection h' with h'; subst h'; exact h

theorem addU8_ok (site : String) (a b : Nat) (h : a + b ≤ 255) : addU8 site a b = .ok (a + b) := by
  simp [addU8, h]

theorem readEci_good (l : List Nat) : Good (readEci l) := by
  intro e
  unfold readEci
  repeat' split
  all_goals first
    | (intro h; cases h; done)
    | (intro h; injection h with h; subst h; trivial)

/-- `read_eci` never reports more codewords than there are -/
theorem readEci_used_le (l : List Nat) (eci used : Nat) (h : readEci l = .ok (eci, used)) : used ≤ l.length := by
  unfold readEci at h
  split at h
  · simp at h
  · rename_i c1 t
    split at h
    · simp only [Except.ok.injEq, Prod.mk.injEq] at h
      simp only [List.length_cons]; omega
    · split at h
      · split at h
        · simp at h
        · split at h
          · simp only [Except.ok.injEq, Prod.mk.injEq] at h
            simp only [List.length_cons]; omega
          · simp at h
      · split at h
        · split at h
          · simp at h
          · split at h
            · simp at h
            · split at h
              · simp at h
              · split at h
                · simp at h
                · simp only [Except.ok.injEq, Prod.mk.injEq] at h
                  simp only [List.length_cons]; omega
        · simp at h

theorem checkPads_good (l : List Nat) (e : Nat) : Good (checkPads l e) := by
  induction l generalizing e with
  | nil => exact Good.ok _
  | cons c t ih =>
    unfold checkPads
    simp only
    split
    · exact good_err _ trivial
    · exact ih _

theorem decodeAscii_good (l : List Nat) :
    ∀ (eaten : Nat) (out : List Nat) (ecis : List (Nat × Nat)) (upper : Bool) (skip : Nat),
      skip ≤ l.length → Good (decodeAscii l eaten out ecis upper skip) := by
  induction l with
  | nil =>
    intro eaten out ecis upper skip hs
    have : skip = 0 := by simpa using hs
    subst this
    unfold decodeAscii
    simp only [ne_eq, not_true_eq_false, if_false]
    split
    · exact good_err _ trivial
    · exact Good.ok _
  | cons ch t ih =>
    intro eaten out ecis upper skip hs
    unfold decodeAscii
    by_cases hk : skip ≠ 0
    · rw [if_pos hk]
      exact ih _ _ _ _ _ (by simp only [List.length_cons] at hs; omega)
    · rw [if_neg hk]
      have E : ∀ e : DErr, Benign e → Good (.error e : R (DSt × DMode)) := fun e h => good_err e h
      by_cases c1 : upper = true ∧ ¬ (1 ≤ ch ∧ ch ≤ 128)
      · rw [if_pos c1]; exact E _ trivial
      rw [if_neg c1]
      by_cases c2 : 1 ≤ ch ∧ ch ≤ 128
      · rw [if_pos c2]
        by_cases cu : upper = true
        · rw [if_pos cu, addU8_ok _ _ _ (by omega)]
          exact ih _ _ _ _ _ (by simp)
        · rw [if_neg cu]; exact ih _ _ _ _ _ (by simp)
      rw [if_neg c2]
      by_cases c3 : ch = 129
      · rw [if_pos c3]
        have := checkPads_good t (eaten + 1)
        cases hc : checkPads t (eaten + 1) with
        | error e =>
          intro s h
          injection h with h
          exact this s (by rw [hc, h])
        | ok v => exact Good.ok _
      rw [if_neg c3]
      by_cases c4 : 130 ≤ ch ∧ ch ≤ 229
      · rw [if_pos c4]; exact ih _ _ _ _ _ (by simp)
      rw [if_neg c4]
      by_cases c5 : ch = 230
      · rw [if_pos c5]; exact Good.ok _
      rw [if_neg c5]
      by_cases c6 : ch = 231
      · rw [if_pos c6]; exact Good.ok _
      rw [if_neg c6]
      by_cases c7 : ch = 232
      · rw [if_pos c7]; exact ih _ _ _ _ _ (by simp)
      rw [if_neg c7]
      by_cases c8 : ch = 233
      · rw [if_pos c8]; exact E _ trivial
      rw [if_neg c8]
      by_cases c9 : ch = 234
      · rw [if_pos c9]; exact E _ trivial
      rw [if_neg c9]
      by_cases c10 : ch = 235
      · rw [if_pos c10]; exact ih _ _ _ _ _ (by simp)
      rw [if_neg c10]
      by_cases c11 : ch = 238
      · rw [if_pos c11]; exact Good.ok _
      rw [if_neg c11]
      by_cases c12 : ch = 239
      · rw [if_pos c12]; exact Good.ok _
      rw [if_neg c12]
      by_cases c13 : ch = 240
      · rw [if_pos c13]; exact Good.ok _
      rw [if_neg c13]
      by_cases c14 : ch = 241
      · rw [if_pos c14]
        cases hr : readEci t with
        | error e =>
          intro s h
          injection h with h
          exact readEci_good t s (by rw [hr, h])
        | ok v =>
          obtain ⟨eci, used⟩ := v
          exact ih _ _ _ _ _ (readEci_used_le t eci used hr)
      rw [if_neg c14]
      exact E _ trivial

/-! ### C40 / Text -/

/-- facts about the regenerated lookup tables: lengths as the code indexes them, entries
below 128 (so that an upper shift cannot overflow a byte) -/
def c40TablesOK : Bool :=
  baseC40.length == 37 && baseText.length == 37 && shift2.length == 27 &&
  shift3C40.length == 32 && shift3Text.length == 32 &&
  baseC40.all (· ≤ 127) && baseText.all (· ≤ 127) && shift2.all (· ≤ 127) &&
  shift3C40.all (· ≤ 127) && shift3Text.all (· ≤ 127)

theorem c40_tables_ok : c40TablesOK = true := by decide +kernel

structure GoodTables (base shift3 : List Nat) : Prop where
  baseLen : base.length = 37
  sh3Len : shift3.length = 32
  baseLe : ∀ x ∈ base, x ≤ 127
  sh3Le : ∀ x ∈ shift3, x ≤ 127

theorem shift2_facts : shift2.length = 27 ∧ ∀ x ∈ shift2, x ≤ 127 := by
  have h := c40_tables_ok
  simp only [c40TablesOK, Bool.and_eq_true, beq_iff_eq, List.all_eq_true, decide_eq_true_eq] at h
  exact ⟨h.1.1.1.1.1.1.1.2, h.1.1.2⟩

theorem good_c40 : GoodTables baseC40 shift3C40 := by
  have h := c40_tables_ok
  simp only [c40TablesOK, Bool.and_eq_true, beq_iff_eq, List.all_eq_true, decide_eq_true_eq] at h
  exact ⟨h.1.1.1.1.1.1.1.1.1, h.1.1.1.1.1.1.2, h.1.1.1.1.2, h.1.2⟩

theorem good_text : GoodTables baseText shift3Text := by
  have h := c40_tables_ok
  simp only [c40TablesOK, Bool.and_eq_true, beq_iff_eq, List.all_eq_true, decide_eq_true_eq] at h
  exact ⟨h.1.1.1.1.1.1.1.1.2, h.1.1.1.1.1.2, h.1.1.1.2, h.2⟩

theorem tableGet_ok (site : String) (tab : List Nat) (i : Nat) (h : i < tab.length) :
    tableGet site tab i = .ok tab[i] := by
  simp [tableGet, List.getElem?_eq_getElem h]

theorem emit_good (st : CSt) (b : Nat) (hb : b ≤ 127) :
    Good (if st.upper then
        match addU8 "c40 upper shift + 128" b 128 with
        | .error e => (.error e : R (CSt × Option Nat))
        | .ok x => .ok ({ shift := 0, upper := false }, some x)
      else .ok ({ shift := 0, upper := false }, some b)) := by
  split
  · rw [addU8_ok _ _ _ (by omega)]; exact Good.ok _
  · exact Good.ok _

theorem c40Value_good (base shift3 : List Nat) (G : GoodTables base shift3) (st : CSt) (v : Nat) :
    Good (c40Value base shift3 st v) := by
  have E : ∀ e : DErr, Benign e → Good (.error e : R (CSt × Option Nat)) := fun e h => good_err e h
  unfold c40Value
  simp only
  by_cases h0 : st.shift = 0
  · rw [if_pos h0]
    by_cases h1 : v ≤ 2
    · rw [if_pos h1]; exact Good.ok _
    rw [if_neg h1]
    by_cases h2 : v ≤ 39
    · rw [if_pos h2, tableGet_ok _ _ _ (by rw [G.baseLen]; omega)]
      exact emit_good st _ (G.baseLe _ (List.getElem_mem _))
    · rw [if_neg h2]; exact E _ trivial
  rw [if_neg h0]
  by_cases h1 : st.shift = 1
  · rw [if_pos h1]
    by_cases h2 : v ≤ 31
    · rw [if_pos h2]; exact emit_good st v (by omega)
    · rw [if_neg h2]; exact E _ trivial
  rw [if_neg h1]
  by_cases h2 : st.shift = 2
  · rw [if_pos h2]
    by_cases h3 : v ≤ 26
    · rw [if_pos h3, tableGet_ok _ _ _ (by rw [shift2_facts.1]; omega)]
      exact emit_good st _ (shift2_facts.2 _ (List.getElem_mem _))
    rw [if_neg h3]
    by_cases h4 : v = 27
    · rw [if_pos h4]; exact E _ trivial
    rw [if_neg h4]
    by_cases h5 : v = 30
    · rw [if_pos h5]; exact Good.ok _
    · rw [if_neg h5]; exact E _ trivial
  rw [if_neg h2]
  by_cases h3 : v ≤ 31
  · rw [if_pos h3, tableGet_ok _ _ _ (by rw [G.sh3Len]; omega)]
    exact emit_good st _ (G.sh3Le _ (List.getElem_mem _))
  · rw [if_neg h3]; exact E _ trivial

theorem c40Values_good (base shift3 : List Nat) (G : GoodTables base shift3) :
    ∀ (vs : List Nat) (st : CSt) (out : List Nat), Good (c40Values base shift3 vs st out) := by
  intro vs
  induction vs with
  | nil => intro st out; exact Good.ok _
  | cons v vs ih =>
    intro st out
    unfold c40Values
    have := c40Value_good base shift3 G st v
    cases hv : c40Value base shift3 st v with
    | error e =>
      intro s h
      injection h with h
      exact this s (by rw [hv, h])
    | ok r =>
      obtain ⟨st', ob⟩ := r
      cases ob with
      | some b => exact ih _ _
      | none => exact ih _ _

theorem decodeC40_good (base shift3 : List Nat) (G : GoodTables base shift3) :
    ∀ (n : Nat) (l : List Nat), l.length ≤ n → ∀ (eaten : Nat) (out : List Nat) (st : CSt),
      Good (decodeC40 base shift3 l eaten out st) := by
  intro n
  induction n with
  | zero =>
    intro l hl eaten out st
    have : l = [] := List.length_eq_zero_iff.mp (by omega)
    subst this
    unfold decodeC40
    exact Good.ok _
  | succ n ih =>
    intro l hl eaten out st
    match l with
    | [] => unfold decodeC40; exact Good.ok _
    | [a] =>
      unfold decodeC40
      split <;> exact Good.ok _
    | a :: b :: t =>
      unfold decodeC40
      by_cases ha : a = 254
      · rw [if_pos ha]
        split <;> exact Good.ok _
      · rw [if_neg ha]
        simp only
        have := c40Values_good base shift3 G [(c40Tuple a b).1, (c40Tuple a b).2.1, (c40Tuple a b).2.2] st out
        cases hv : c40Values base shift3 [(c40Tuple a b).1, (c40Tuple a b).2.1, (c40Tuple a b).2.2] st out with
        | error e =>
          intro s h
          injection h with h
          exact this s (by rw [hv, h])
        | ok r =>
          obtain ⟨st', out'⟩ := r
          exact ih t (by simp only [List.length_cons] at hl; omega) _ _ _

/-! ### X12, Base 256, EDIFACT: no panic site at all -/

theorem decX12_good (v : Nat) : Good (decX12 v) := by
  unfold decX12
  repeat' split
  all_goals first | exact Good.ok _ | exact good_err _ trivial

theorem decodeX12_good : ∀ (n : Nat) (l : List Nat), l.length ≤ n → ∀ (eaten : Nat) (out : List Nat),
    Good (decodeX12 l eaten out) := by
  intro n
  induction n with
  | zero =>
    intro l hl eaten out
    have : l = [] := List.length_eq_zero_iff.mp (by omega)
    subst this
    unfold decodeX12
    exact Good.ok _
  | succ n ih =>
    intro l hl eaten out
    match l with
    | [] => unfold decodeX12; exact Good.ok _
    | [a] =>
      unfold decodeX12
      split <;> exact Good.ok _
    | a :: b :: t =>
      unfold decodeX12
      by_cases ha : a = 254
      · rw [if_pos ha]
        split <;> exact Good.ok _
      · rw [if_neg ha]
        simp only
        have h1 := decX12_good (c40Tuple a b).1
        have h2 := decX12_good (c40Tuple a b).2.1
        have h3 := decX12_good (c40Tuple a b).2.2
        cases e1 : decX12 (c40Tuple a b).1 with
        | error e =>
          intro s h
          simp only at h
          injection h with h
          exact h1 s (by rw [e1, h])
        | ok x1 =>
          cases e2 : decX12 (c40Tuple a b).2.1 with
          | error e =>
            intro s h
            simp only at h
            injection h with h
            exact h2 s (by rw [e2, h])
          | ok x2 =>
            cases e3 : decX12 (c40Tuple a b).2.2 with
            | error e =>
              intro s h
              simp only at h
              injection h with h
              exact h3 s (by rw [e3, h])
            | ok x3 =>
              exact ih t (by simp only [List.length_cons] at hl; omega) _ _

theorem decodeBase256_good (rest : List Nat) (eaten : Nat) (out : List Nat) :
    Good (decodeBase256 rest eaten out) := by
  unfold decodeBase256
  cases rest with
  | nil => exact good_err _ trivial
  | cons c1 t =>
    simp only
    by_cases h0 : derand255 c1 (eaten + 1) = 0
    · simp only [h0, if_true]
      split <;> first | exact Good.ok _ | exact good_err _ trivial
    · simp only [h0, if_false]
      by_cases h1 : derand255 c1 (eaten + 1) < 250
      · simp only [h1, if_true]
        split <;> first | exact Good.ok _ | exact good_err _ trivial
      · simp only [h1, if_false]
        cases t with
        | nil => exact good_err _ trivial
        | cons c2 t2 =>
          simp only
          split <;> first | exact Good.ok _ | exact good_err _ trivial

/-! ### the main loop, `decode_parts`, `decode_data` -/

theorem mainLoop_noPanic : ∀ (f : Nat) (m : DMode) (st : DSt), NoPanic (mainLoop f m st) := by
  intro f
  induction f with
  | zero => intro m st; unfold mainLoop; intro s h; cases h
  | succ f ih =>
    intro m st
    unfold mainLoop
    by_cases he : st.rest.isEmpty = true
    · rw [if_pos he]; exact (Good.ok _).noPanic
    rw [if_neg he]
    cases m with
    | ascii =>
      simp only
      have := (decodeAscii_good st.rest st.eaten st.out st.ecis false 0 (by omega)).noPanic
      cases h : decodeAscii st.rest st.eaten st.out st.ecis false 0 with
      | error e => intro s h'; injection h' with h'; exact this s (by rw [h, h'])
      | ok r => exact ih _ _
    | base256 =>
      simp only
      have := (decodeBase256_good st.rest st.eaten st.out).noPanic
      cases h : decodeBase256 st.rest st.eaten st.out with
      | error e => intro s h'; injection h' with h'; exact this s (by rw [h, h'])
      | ok r => exact ih _ _
    | x12 =>
      simp only
      have := (decodeX12_good st.rest.length st.rest (Nat.le_refl _) st.eaten st.out).noPanic
      cases h : decodeX12 st.rest st.eaten st.out with
      | error e => intro s h'; injection h' with h'; exact this s (by rw [h, h'])
      | ok r => exact ih _ _
    | edifact =>
      simp only
      exact ih _ _
    | c40 =>
      simp only
      have := (decodeC40_good baseC40 shift3C40 good_c40 st.rest.length st.rest (Nat.le_refl _) st.eaten st.out
        { shift := 0, upper := false }).noPanic
      cases h : decodeC40 baseC40 shift3C40 st.rest st.eaten st.out { shift := 0, upper := false } with
      | error e => intro s h'; injection h' with h'; exact this s (by rw [h, h'])
      | ok r => exact ih _ _
    | text =>
      simp only
      have := (decodeC40_good baseText shift3Text good_text st.rest.length st.rest (Nat.le_refl _) st.eaten st.out
        { shift := 0, upper := false }).noPanic
      cases h : decodeC40 baseText shift3Text st.rest st.eaten st.out { shift := 0, upper := false } with
      | error e => intro s h'; injection h' with h'; exact this s (by rw [h, h'])
      | ok r => exact ih _ _

theorem decodeParts_noPanic (data : List Nat) (raw : Bool) : NoPanic (decodeParts data raw) := by
  unfold decodeParts
  simp only
  generalize hm : mainLoop _ _ _ = r
  have hn : NoPanic r := by rw [← hm]; exact mainLoop_noPanic _ _ _
  cases r with
  | error e => intro s h; injection h with h; exact hn s (by rw [h])
  | ok st => simp only; split <;> exact (Good.ok _).noPanic

/-- **`decode_data` never panics** (model), for every list of codewords. -/
theorem decodeData_noPanic (data : List Nat) : NoPanic (decodeData data) := by
  unfold decodeData
  have := decodeParts_noPanic data true
  cases h : decodeParts data true with
  | error e => intro s h'; injection h' with h'; exact this s (by rw [h, h'])
  | ok p =>
    simp only
    split
    · exact (Good.ok _).noPanic
    · intro s h; cases h

/-! ### the fuel of the main loop always suffices -/

theorem decodeAscii_rest_le (l : List Nat) :
    ∀ (eaten : Nat) (out : List Nat) (ecis : List (Nat × Nat)) (upper : Bool) (skip : Nat) (st' : DSt) (m : DMode),
      decodeAscii l eaten out ecis upper skip = .ok (st', m) → st'.rest.length ≤ l.length - 1 := by
  induction l with
  | nil =>
    intro eaten out ecis upper skip st' m h
    unfold decodeAscii at h
    split at h
    · cases h
    · split at h
      · cases h
      · simp only [Except.ok.injEq, Prod.mk.injEq] at h
        rw [← h.1]; simp
  | cons ch t ih =>
    intro eaten out ecis upper skip st' m h
    have step : ∀ {eaten out ecis upper skip}, decodeAscii t eaten out ecis upper skip = .ok (st', m) →
        st'.rest.length ≤ (ch :: t).length - 1 := by
      intro _ _ _ _ _ h'
      have := ih _ _ _ _ _ _ _ h'
      simp only [List.length_cons, Nat.add_sub_cancel]; omega
    have direct : ∀ {e o c}, (Except.ok (({ rest := t, eaten := e, out := o, ecis := c } : DSt), m) : R (DSt × DMode))
        = .ok (st', m) → st'.rest.length ≤ (ch :: t).length - 1 := by
      intro _ _ _ h'
      simp only [Except.ok.injEq, Prod.mk.injEq, and_true] at h'
      rw [← h']; simp
    unfold decodeAscii at h
    by_cases hk : skip ≠ 0
    · rw [if_pos hk] at h; exact step h
    rw [if_neg hk] at h
    by_cases c1 : upper = true ∧ ¬ (1 ≤ ch ∧ ch ≤ 128)
    · rw [if_pos c1] at h; cases h
    rw [if_neg c1] at h
    by_cases c2 : 1 ≤ ch ∧ ch ≤ 128
    · rw [if_pos c2] at h
      by_cases cu : upper = true
      · rw [if_pos cu, addU8_ok _ _ _ (by omega)] at h; exact step h
      · rw [if_neg cu] at h; exact step h
    rw [if_neg c2] at h
    by_cases c3 : ch = 129
    · rw [if_pos c3] at h
      cases hc : checkPads t (eaten + 1) with
      | error e => rw [hc] at h; cases h
      | ok v =>
        rw [hc] at h
        simp only [Except.ok.injEq, Prod.mk.injEq] at h
        rw [← h.1]; simp
    rw [if_neg c3] at h
    by_cases c4 : 130 ≤ ch ∧ ch ≤ 229
    · rw [if_pos c4] at h; exact step h
    rw [if_neg c4] at h
    by_cases c5 : ch = 230
    · rw [if_pos c5] at h
      simp only [Except.ok.injEq, Prod.mk.injEq] at h
      rw [← h.1]; simp
    rw [if_neg c5] at h
    by_cases c6 : ch = 231
    · rw [if_pos c6] at h
      simp only [Except.ok.injEq, Prod.mk.injEq] at h
      rw [← h.1]; simp
    rw [if_neg c6] at h
    by_cases c7 : ch = 232
    · rw [if_pos c7] at h; exact step h
    rw [if_neg c7] at h
    by_cases c8 : ch = 233
    · rw [if_pos c8] at h; cases h
    rw [if_neg c8] at h
    by_cases c9 : ch = 234
    · rw [if_pos c9] at h; cases h
    rw [if_neg c9] at h
    by_cases c10 : ch = 235
    · rw [if_pos c10] at h; exact step h
    rw [if_neg c10] at h
    by_cases c11 : ch = 238
    · rw [if_pos c11] at h
      simp only [Except.ok.injEq, Prod.mk.injEq] at h
      rw [← h.1]; simp
    rw [if_neg c11] at h
    by_cases c12 : ch = 239
    · rw [if_pos c12] at h
      simp only [Except.ok.injEq, Prod.mk.injEq] at h
      rw [← h.1]; simp
    rw [if_neg c12] at h
    by_cases c13 : ch = 240
    · rw [if_pos c13] at h
      simp only [Except.ok.injEq, Prod.mk.injEq] at h
      rw [← h.1]; simp
    rw [if_neg c13] at h
    by_cases c14 : ch = 241
    · rw [if_pos c14] at h
      cases hr : readEci t with
      | error e => rw [hr] at h; cases h
      | ok v => obtain ⟨eci, used⟩ := v; rw [hr] at h; exact step h
    rw [if_neg c14] at h
    cases h

theorem decodeC40_rest_le (base shift3 : List Nat) :
    ∀ (n : Nat) (l : List Nat), l.length ≤ n → ∀ (eaten : Nat) (out : List Nat) (st : CSt) (r : List Nat) (e : Nat) (o : List Nat),
      decodeC40 base shift3 l eaten out st = .ok (r, e, o) → r.length ≤ l.length := by
  intro n
  induction n with
  | zero =>
    intro l hl eaten out st r e o h
    have : l = [] := List.length_eq_zero_iff.mp (by omega)
    subst this
    unfold decodeC40 at h
    simp only [Except.ok.injEq, Prod.mk.injEq] at h
    rw [← h.1]; simp
  | succ n ih =>
    intro l hl eaten out st r e o h
    match l with
    | [] =>
      unfold decodeC40 at h
      simp only [Except.ok.injEq, Prod.mk.injEq] at h
      rw [← h.1]; simp
    | [a] =>
      unfold decodeC40 at h
      split at h <;> (simp only [Except.ok.injEq, Prod.mk.injEq] at h; rw [← h.1]; simp)
    | a :: b :: t =>
      unfold decodeC40 at h
      by_cases ha : a = 254
      · rw [if_pos ha] at h
        split at h <;> (simp only [Except.ok.injEq, Prod.mk.injEq] at h; rw [← h.1]; simp)
      · rw [if_neg ha] at h
        simp only at h
        cases hv : c40Values base shift3 [(c40Tuple a b).1, (c40Tuple a b).2.1, (c40Tuple a b).2.2] st out with
        | error e' => rw [hv] at h; cases h
        | ok rr =>
          obtain ⟨st', out'⟩ := rr
          rw [hv] at h
          have := ih t (by simp only [List.length_cons] at hl; omega) _ _ _ _ _ _ h
          simp only [List.length_cons]; omega

theorem decodeX12_rest_le :
    ∀ (n : Nat) (l : List Nat), l.length ≤ n → ∀ (eaten : Nat) (out : List Nat) (r : List Nat) (e : Nat) (o : List Nat),
      decodeX12 l eaten out = .ok (r, e, o) → r.length ≤ l.length := by
  intro n
  induction n with
  | zero =>
    intro l hl eaten out r e o h
    have : l = [] := List.length_eq_zero_iff.mp (by omega)
    subst this
    unfold decodeX12 at h
    simp only [Except.ok.injEq, Prod.mk.injEq] at h
    rw [← h.1]; simp
  | succ n ih =>
    intro l hl eaten out r e o h
    match l with
    | [] =>
      unfold decodeX12 at h
      simp only [Except.ok.injEq, Prod.mk.injEq] at h
      rw [← h.1]; simp
    | [a] =>
      unfold decodeX12 at h
      split at h <;> (simp only [Except.ok.injEq, Prod.mk.injEq] at h; rw [← h.1]; simp)
    | a :: b :: t =>
      unfold decodeX12 at h
      by_cases ha : a = 254
      · rw [if_pos ha] at h
        split at h <;> (simp only [Except.ok.injEq, Prod.mk.injEq] at h; rw [← h.1]; simp)
      · rw [if_neg ha] at h
        simp only at h
        split at h
        · have := ih t (by simp only [List.length_cons] at hl; omega) _ _ _ _ _ h
          simp only [List.length_cons]; omega
        · cases h
        · cases h
        · cases h

theorem decodeBase256_rest_lt (rest : List Nat) (eaten : Nat) (out : List Nat) (r : List Nat) (e : Nat) (o : List Nat)
    (h : decodeBase256 rest eaten out = .ok (r, e, o)) : r.length < rest.length := by
  unfold decodeBase256 at h
  cases rest with
  | nil => cases h
  | cons c1 t =>
    simp only at h
    by_cases h0 : derand255 c1 (eaten + 1) = 0
    · simp only [h0, if_true] at h
      split at h
      · cases h
      · simp only [Except.ok.injEq, Prod.mk.injEq] at h
        rw [← h.1]; simp
    · simp only [h0, if_false] at h
      by_cases h1 : derand255 c1 (eaten + 1) < 250
      · simp only [h1, if_true] at h
        split at h
        · cases h
        · simp only [Except.ok.injEq, Prod.mk.injEq] at h
          rw [← h.1]; simp; omega
      · simp only [h1, if_false] at h
        cases t with
        | nil => cases h
        | cons c2 t2 =>
          simp only at h
          split at h
          · cases h
          · simp only [Except.ok.injEq, Prod.mk.injEq] at h
            rw [← h.1]; simp; omega

theorem decodeEdifact_rest_le : ∀ (f : Nat) (rest : List Nat) (eaten : Nat) (out : List Nat),
    (decodeEdifact f rest eaten out).1.length ≤ rest.length := by
  intro f
  induction f with
  | zero => intro rest eaten out; simp [decodeEdifact]
  | succ f ih =>
    intro rest eaten out
    unfold decodeEdifact
    match rest with
    | a :: b :: c :: t =>
      simp only
      split
      · simp
      · split
        · simp
        · split
          · simp; omega
          · split
            · simp; omega
            · have := ih t (eaten + 3) (out ++ [decEdifactChar (a / 4)] ++ [decEdifactChar (a % 4 * 16 + b / 16)] ++
                  [decEdifactChar (b % 16 * 4 + c / 64)] ++ [decEdifactChar (c % 64)])
              simp only [List.length_cons]; omega
    | [] => simp
    | [_] => simp
    | [_, _] => simp

/-- with the fuel `decode_parts` passes, the loop ends with a value or a benign error -/
theorem mainLoop_good : ∀ (f : Nat) (m : DMode) (st : DSt),
    2 * st.rest.length + (if m = .ascii then 0 else 1) < f → Good (mainLoop f m st) := by
  intro f
  induction f with
  | zero => intro m st h; omega
  | succ f ih =>
    intro m st hf
    unfold mainLoop
    by_cases he : st.rest.isEmpty = true
    · rw [if_pos he]; exact Good.ok _
    rw [if_neg he]
    have hne : 0 < st.rest.length := by
      cases hr : st.rest with
      | nil => simp [hr] at he
      | cons _ _ => simp
    cases m with
    | ascii =>
      simp only
      have hg := decodeAscii_good st.rest st.eaten st.out st.ecis false 0 (by omega)
      cases h : decodeAscii st.rest st.eaten st.out st.ecis false 0 with
      | error e => intro e' h'; injection h' with h'; subst h'; exact hg e h
      | ok r =>
        obtain ⟨st', m'⟩ := r
        have := decodeAscii_rest_le _ _ _ _ _ _ _ _ h
        apply ih
        simp only [if_true] at hf
        split <;> omega
    | base256 =>
      simp only
      have hg := decodeBase256_good st.rest st.eaten st.out
      cases h : decodeBase256 st.rest st.eaten st.out with
      | error e => intro e' h'; injection h' with h'; subst h'; exact hg e h
      | ok r =>
        obtain ⟨r, e, o⟩ := r
        have := decodeBase256_rest_lt _ _ _ _ _ _ h
        apply ih
        simp only [if_true]
        simp only [reduceCtorEq, if_false] at hf
        omega
    | x12 =>
      simp only
      have hg := decodeX12_good st.rest.length st.rest (Nat.le_refl _) st.eaten st.out
      cases h : decodeX12 st.rest st.eaten st.out with
      | error e => intro e' h'; injection h' with h'; subst h'; exact hg e h
      | ok r =>
        obtain ⟨r, e, o⟩ := r
        have := decodeX12_rest_le _ _ (Nat.le_refl _) _ _ _ _ _ h
        apply ih
        simp only [if_true]
        simp only [reduceCtorEq, if_false] at hf
        omega
    | edifact =>
      simp only
      have := decodeEdifact_rest_le st.rest.length st.rest st.eaten st.out
      apply ih
      simp only [if_true]
      simp only [reduceCtorEq, if_false] at hf
      omega
    | c40 =>
      simp only
      have hg := decodeC40_good baseC40 shift3C40 good_c40 st.rest.length st.rest (Nat.le_refl _) st.eaten st.out
        { shift := 0, upper := false }
      cases h : decodeC40 baseC40 shift3C40 st.rest st.eaten st.out { shift := 0, upper := false } with
      | error e => intro e' h'; injection h' with h'; subst h'; exact hg e h
      | ok r =>
        obtain ⟨r, e, o⟩ := r
        have := decodeC40_rest_le _ _ _ _ (Nat.le_refl _) _ _ _ _ _ _ h
        apply ih
        simp only [if_true]
        simp only [reduceCtorEq, if_false] at hf
        omega
    | text =>
      simp only
      have hg := decodeC40_good baseText shift3Text good_text st.rest.length st.rest (Nat.le_refl _) st.eaten st.out
        { shift := 0, upper := false }
      cases h : decodeC40 baseText shift3Text st.rest st.eaten st.out { shift := 0, upper := false } with
      | error e => intro e' h'; injection h' with h'; subst h'; exact hg e h
      | ok r =>
        obtain ⟨r, e, o⟩ := r
        have := decodeC40_rest_le _ _ _ _ (Nat.le_refl _) _ _ _ _ _ _ h
        apply ih
        simp only [if_true]
        simp only [reduceCtorEq, if_false] at hf
        omega

/-- **`decode_data` returns a value or one of its documented errors — never a panic, and the
model's loop bound is never hit** (for every list of codewords). -/
theorem decodeData_good (data : List Nat) : Good (decodeData data) := by
  unfold decodeData
  have hp : Good (decodeParts data true) := by
    unfold decodeParts
    simp only
    generalize hm : mainLoop _ _ _ = r
    have hn : Good r := by
      rw [← hm]
      apply mainLoop_good
      simp
    cases r with
    | error e => intro e' h; injection h with h; subst h; exact hn e rfl
    | ok st => simp only; split <;> exact Good.ok _
  cases h : decodeParts data true with
  | error e => intro e' h'; injection h' with h'; subst h'; exact hp e h
  | ok p =>
    simp only
    split
    · exact Good.ok _
    · exact good_err _ trivial

end DM.Lemmas
