import DM.Lemmas.C40RT
/-
Encoder side of C40 / Text, independent of the content of the message: `handle_end` moves the read
position back by at most one character; a successful run of the C40 / Text loop under a pure plan
has only seen bytes (`to_vals` fails on anything else: in the crate the input is `u8`) and leaves
at most two characters to ASCII.
-/
namespace DM.Lemmas.SpecC40Enc
open DM.Model DM.Model.Enc DM.Lemmas DM.Lemmas.EdiRT


theorem writeThree_same (s : St) (a b c : Nat) : (writeThree s a b c).pos = s.pos ∧ (writeThree s a b c).input = s.input ∧
    (writeThree s a b c).plan = s.plan ∧ (writeThree s a b c).mode = s.mode := by
  simp [writeThree, St.push]

/-- `handle_end` moves the read position back by at most one character, and not at all while
characters are left -/
theorem handleEnd_pos (s s' : St) (last : Nat) (buf : List Nat) (h : c40HandleEnd s last buf = .ok s') :
    s'.input = s.input ∧ s.pos ≤ s'.pos + 1 ∧ (s.hasMore = true → s'.pos = s.pos) := by
  unfold c40HandleEnd at h
  split at h
  · cases h
  · -- the part behind `early`
    have late : ∀ (s0 : St), s0.input = s.input → s0.pos = s.pos →
        (if s0.charsLeft > 0 then
          if s0.charsLeft = 2 ∧ twoDigitsComing s0.rest then
            match s0.sizeLeftE 1 with
            | .error e => .error e
            | .ok spaceLeft => .ok (if spaceLeft ≥ 1 then s0.setAscii.push 254 else s0.setAscii)
          else .ok (s0.push 254)
        else
          match s0.sizeLeftE 0 with
          | .error e => .error e
          | .ok left => if left > 0 then .ok (if !s.hasMore then (s0.push 254).setAscii else s0.push 254) else .ok s0) = Except.ok s' →
        s'.input = s.input ∧ s'.pos = s.pos := by
      intro s0 e1 e2 h
      split at h
      · split at h
        · split at h
          · cases h
          · simp only [Except.ok.injEq] at h
            subst h
            split <;> simp [St.push, St.setAscii, e1, e2]
        · simp only [Except.ok.injEq] at h
          subst h
          simp [St.push, e1, e2]
      · split at h
        · cases h
        · split at h
          · simp only [Except.ok.injEq] at h
            subst h
            split <;> simp [St.push, St.setAscii, e1, e2]
          · simp only [Except.ok.injEq] at h
            subst h
            exact ⟨e1, e2⟩
    by_cases hm : s.hasMore = true
    · simp only [hm, Bool.not_true, Bool.false_eq_true, ↓reduceIte] at h late
      have := late _ (by split <;> simp [writeThree, St.push]) (by split <;> simp [writeThree, St.push]) h
      exact ⟨this.1, by omega, fun _ => this.2⟩
    · have hm' : s.hasMore = false := by simpa using hm
      simp only [hm', Bool.not_false, ↓reduceIte] at h late
      cases hs : s.sizeLeftE buf.length with
      | error e => rw [hs] at h; cases h
      | ok sl =>
        rw [hs] at h
        simp only [] at h
        by_cases c1 : sl + buf.length = 2 ∧ buf.length = 2
        · rw [if_pos c1] at h
          simp only [Except.ok.injEq] at h
          subst h
          simp [writeThree, St.push]
        · rw [if_neg c1] at h
          by_cases c2 : sl + buf.length = 2 ∧ buf.length = 1
          · rw [if_pos c2] at h
            by_cases hp : 1 ≤ s.pos
            · have hbk : ((s.push 254).setAscii).backup 1 = .ok { (s.push 254).setAscii with pos := s.pos - 1 } := by
                unfold St.backup
                rw [if_pos (by simpa [St.push, St.setAscii] using hp)]
                rfl
              rw [hbk] at h
              simp only [Except.ok.injEq] at h
              subst h
              refine ⟨rfl, ?_, fun hh => absurd hh hm⟩
              show s.pos ≤ s.pos - 1 + 1
              omega
            · have hbk : ((s.push 254).setAscii).backup 1 = .error (.panic "backup: subtract with overflow") := by
                unfold St.backup
                rw [if_neg (by simpa [St.push, St.setAscii] using hp)]
              rw [hbk] at h
              cases h
          · rw [if_neg c2] at h
            by_cases c3 : sl + buf.length = 1 ∧ buf.length = 1 ∧ asciiSize [last] = 1
            · rw [if_pos c3] at h
              by_cases hp : 1 ≤ s.pos
              · have hbk : s.setAscii.backup 1 = .ok { s.setAscii with pos := s.pos - 1 } := by
                  unfold St.backup
                  rw [if_pos (by simpa [St.setAscii] using hp)]
                  rfl
                rw [hbk] at h
                simp only [Except.ok.injEq] at h
                subst h
                refine ⟨rfl, ?_, fun hh => absurd hh hm⟩
                show s.pos ≤ s.pos - 1 + 1
                omega
              · have hbk : s.setAscii.backup 1 = .error (.panic "backup: subtract with overflow") := by
                  unfold St.backup
                  rw [if_neg (by simpa [St.setAscii] using hp)]
                rw [hbk] at h
                cases h
            · rw [if_neg c3] at h
              simp only [] at h
              have := late _ (by split <;> simp [writeThree, St.push, St.setAscii])
                (by split <;> simp [writeThree, St.push, St.setAscii]) h
              exact ⟨this.1, by omega, fun hh => absurd hh hm⟩

theorem flush_same : ∀ (f : Nat) (s : St) (buf : List Nat), (flushTriples f s buf).1.pos = s.pos ∧
    (flushTriples f s buf).1.input = s.input ∧ (flushTriples f s buf).1.plan = s.plan ∧
    (flushTriples f s buf).1.mode = s.mode := by
  intro f
  induction f with
  | zero => intro s buf; simp [flushTriples]
  | succ f ih =>
    intro s buf
    match buf with
    | a :: b :: c :: t =>
      simp only [flushTriples]
      obtain ⟨h1, h2, h3, h4⟩ := ih (writeThree s a b c) t
      obtain ⟨w1, w2, w3, w4⟩ := writeThree_same s a b c
      exact ⟨h1.trans w1, h2.trans w2, h3.trans w3, h4.trans w4⟩
    | [] => simp [flushTriples]
    | [_] => simp [flushTriples]
    | [_, _] => simp [flushTriples]

theorem c40Low_lt (x : Nat) (v : List Nat) (h : c40Low x = .ok v) : x ≤ 127 := by
  apply Classical.byContradiction
  intro hx
  unfold c40Low at h
  repeat' split at h
  all_goals first | omega | cases h

theorem toVals_lt (text : Bool) (buf : List Nat) (ch : Nat) (v : List Nat) (h : toVals text buf ch = .ok v) : ch < 256 := by
  apply Classical.byContradiction
  intro hx
  have hlow : ∀ x, x > 127 → ∀ w, (if text then textLow else c40Low) x ≠ .ok w := by
    intro x hx w hw
    cases text with
    | false => exact absurd (c40Low_lt x w hw) (by omega)
    | true =>
      simp only [↓reduceIte, textLow] at hw
      have := c40Low_lt _ w hw
      split at this
      · omega
      · split at this <;> omega
  unfold toVals at h
  simp only [] at h
  rw [if_neg (by omega)] at h
  cases hl : (if text then textLow else c40Low) (ch - 128) with
  | error e => rw [hl] at h; simp at h
  | ok w => exact hlow _ (by omega) w hl

theorem c40Loop_bytes (text : Bool) (m : EMode) : ∀ (f : Nat) (s : St) (buf : List Nat) (last : Nat) (s' : St),
    s.plan = [(0, m)] → s.mode = m → s.pos ≤ s.input.length → c40Loop text f s buf last = .ok s' →
    (∀ b ∈ s.input.drop s.pos, b < 256) ∧ s'.input = s.input ∧ s.input.length ≤ s'.pos + 2 := by
  intro f
  induction f with
  | zero => intro s buf last s' _ _ _ h; cases h
  | succ f ih =>
    intro s buf last s' hp hm hle h
    unfold c40Loop at h
    by_cases hlt : s.pos < s.input.length
    · have he : s.eat = some (s.input[s.pos], { s with pos := s.pos + 1 }) := by
        simp only [St.eat]
        rw [List.getElem?_eq_getElem hlt]
      rw [he] at h
      simp only [] at h
      have hdrop : s.input.drop s.pos = s.input[s.pos] :: s.input.drop (s.pos + 1) := List.drop_eq_getElem_cons hlt
      have normal : (match toVals text buf s.input[s.pos] with
          | .error e => .error e
          | .ok buf1 =>
            let (s2, buf2) := flushTriples 3 { s with pos := s.pos + 1 } buf1
            match s2.maybeSwitch with
            | .error e => .error e
            | .ok (true, s3) => c40HandleEnd s3 s.input[s.pos] buf2
            | .ok (false, s3) => c40Loop text f s3 buf2 s.input[s.pos]) = Except.ok s' →
          (∀ b ∈ s.input.drop s.pos, b < 256) ∧ s'.input = s.input ∧ s.input.length ≤ s'.pos + 2 := by
        intro h
        cases htv : toVals text buf s.input[s.pos] with
        | error e => rw [htv] at h; cases h
        | ok buf1 =>
          rw [htv] at h
          simp only [] at h
          have hch := toVals_lt text buf _ buf1 htv
          obtain ⟨f1, f2, f3, f4⟩ := flush_same 3 { s with pos := s.pos + 1 } buf1
          generalize flushTriples 3 { s with pos := s.pos + 1 } buf1 = r at h f1 f2 f3 f4
          obtain ⟨s2, buf2⟩ := r
          simp only [] at h f1 f2 f3 f4
          rw [maybeSwitch_pure s2 m (by rw [f3]; exact hp) (by rw [f4]; exact hm)] at h
          simp only [] at h
          obtain ⟨i1, i2, i3⟩ := ih s2 buf2 _ s' (by rw [f3]; exact hp) (by rw [f4]; exact hm)
            (by rw [f1, f2]; omega) h
          rw [f1, f2] at i1
          rw [f2] at i2 i3
          refine ⟨?_, i2, i3⟩
          intro b hb
          rw [hdrop] at hb
          rcases List.mem_cons.mp hb with rfl | hb
          · exact hch
          · exact i1 b hb
      have hrest1 : ({ s with pos := s.pos + 1 } : St).rest = s.input.drop (s.pos + 1) := rfl
      split at h
      · rename_i d hr
        rw [hrest1] at hr
        by_cases hc : (buf.isEmpty && isDigit s.input[s.pos] && isDigit d) = true
        · rw [if_pos hc] at h
          simp only [Bool.and_eq_true] at hc
          obtain ⟨⟨_, hd1⟩, hd2⟩ := hc
          have hbk : ({ s with pos := s.pos + 1 } : St).backup 1 = .ok s := by
            unfold St.backup
            rw [if_pos (by simp)]
            simp
          rw [hbk] at h
          simp only [] at h
          have hlen2 : s.input.length = s.pos + 2 := by
            have := congrArg List.length hr
            simp only [List.length_drop, List.length_singleton] at this
            omega
          obtain ⟨p1, p2, p3⟩ := handleEnd_pos s s' last buf h
          have hmore : s.hasMore = true := by simp [St.hasMore, hlt]
          refine ⟨?_, p1, by rw [p3 hmore]; omega⟩
          intro b hb
          rw [hdrop, hr] at hb
          simp only [isDigit, Bool.and_eq_true, decide_eq_true_eq] at hd1 hd2
          simp only [List.mem_cons, List.not_mem_nil, or_false] at hb
          rcases hb with rfl | rfl <;> omega
        · rw [if_neg hc] at h
          exact normal h
      · simp only [Bool.and_false, Bool.false_eq_true, ↓reduceIte] at h
        exact normal h
    · have hnone : s.eat = none := by
        simp only [St.eat]
        rw [List.getElem?_eq_none (by omega)]
      rw [hnone] at h
      simp only [] at h
      obtain ⟨p1, p2, _⟩ := handleEnd_pos s s' last buf h
      refine ⟨?_, p1, by omega⟩
      rw [List.drop_eq_nil_of_le (by omega)]
      simp

end DM.Lemmas.SpecC40Enc
