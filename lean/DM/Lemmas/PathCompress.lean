import DM.Lemmas.PathMicro
import DM.Model.Path
import DM.Spec.Fill
/-
`compress` (the model of `compress_path`) against the path semantics of `DM.Spec.Fill`:
a list of micro steps that is a sequence of closed grid walks without a repeated unit edge is
compressed into a path that runs in the Fill semantics, ends closed, and draws exactly the unit
edges of the micro steps (`compress_spec`).
-/
namespace DM.Lemmas.PathP
open DM.Model.Path
open DM.Spec

/-! ### `span` and counting -/

theorem span_self (a : Int) : Fill.span a a = [] := by
  simp [Fill.span]

theorem span_eq_range' (a b : Int) (ha : 0 ≤ a) (hb : 0 ≤ b) :
    Fill.span a b = List.range' (min a b).toNat (max a b - min a b).toNat := by
  unfold Fill.span
  rw [List.range'_eq_map_range]
  apply List.map_congr_left
  intro k _
  omega

theorem count_span (a b : Int) (ha : 0 ≤ a) (hb : 0 ≤ b) (k : Nat) :
    (Fill.span a b).count k = if min a b ≤ (k : Int) ∧ (k : Int) < max a b then 1 else 0 := by
  rw [span_eq_range' a b ha hb, List.count_range_1']
  have : ((min a b).toNat ≤ k ∧ k < (min a b).toNat + (max a b - min a b).toNat) ↔
      (min a b ≤ (k : Int) ∧ (k : Int) < max a b) := by omega
  simp only [this]

theorem count_map_fst (l : List Nat) (c x y : Nat) :
    (l.map fun x => (x, c)).count (x, y) = if y = c then l.count x else 0 := by
  induction l with
  | nil => simp
  | cons a r ih =>
    simp only [List.map_cons, List.count_cons, ih, beq_iff_eq, Prod.mk.injEq]
    by_cases h1 : y = c
    · by_cases h2 : a = x
      · simp [h1, h2]
      · simp [h1, h2]
    · have : ¬ (a = x ∧ c = y) := fun h => h1 h.2.symm
      simp [h1, this]

theorem count_map_snd (l : List Nat) (c x y : Nat) :
    (l.map fun y => (c, y)).count (x, y) = if x = c then l.count y else 0 := by
  induction l with
  | nil => simp
  | cons a r ih =>
    simp only [List.map_cons, List.count_cons, ih, beq_iff_eq, Prod.mk.injEq]
    by_cases h1 : x = c
    · by_cases h2 : a = y
      · simp [h1, h2]
      · simp [h1, h2]
    · have : ¬ (c = x ∧ a = y) := fun h => h1 h.1.symm
      simp [h1, this]


theorem cntH (a b c : Int) (ha : 0 ≤ a) (hb : 0 ≤ b) (hc : 0 ≤ c) (x y : Nat) :
    ((Fill.span a b).map fun x => (x, c.toNat)).count (x, y) =
      if (y : Int) = c ∧ min a b ≤ (x : Int) ∧ (x : Int) < max a b then 1 else 0 := by
  rw [count_map_fst, count_span a b ha hb]
  (repeat' split) <;> omega

theorem cntV (a b c : Int) (ha : 0 ≤ a) (hb : 0 ≤ b) (hc : 0 ≤ c) (x y : Nat) :
    ((Fill.span a b).map fun y => (c.toNat, y)).count (x, y) =
      if (x : Int) = c ∧ min a b ≤ (y : Int) ∧ (y : Int) < max a b then 1 else 0 := by
  rw [count_map_snd, count_span a b ha hb]
  (repeat' split) <;> omega

theorem ext_h (px py m pj j : Int) (h1 : 0 ≤ px) (h2 : 0 ≤ py) (h3 : 0 ≤ pj) (h4 : 0 ≤ j)
    (h5 : px + m = pj) (h6 : m ≠ 0) (h7 : 0 < m → j = pj + 1) (h8 : m < 0 → j = pj - 1) (x y : Nat) :
    ((Fill.span px (px + (m + (j - pj)))).map fun x => (x, py.toNat)).count (x, y) =
      ((Fill.span px (px + m)).map fun x => (x, py.toNat)).count (x, y) +
        if ((false, py, min pj j) == ((false, (y : Int), (x : Int)) : Edge)) = true then 1 else 0 := by
  rw [cntH _ _ _ h1 (by omega) h2, cntH _ _ _ h1 (by omega) h2]
  simp only [beq_iff_eq, Prod.mk.injEq, true_and]
  (repeat' split) <;> omega

theorem unit_h (py pj j : Int) (h2 : 0 ≤ py) (h3 : 0 ≤ pj) (h4 : 0 ≤ j)
    (h7 : j = pj + 1 ∨ j = pj - 1) (x y : Nat) :
    ((Fill.span pj (pj + (j - pj))).map fun x => (x, py.toNat)).count (x, y) =
        if ((false, py, min pj j) == ((false, (y : Int), (x : Int)) : Edge)) = true then 1 else 0 := by
  rw [cntH _ _ _ h3 (by omega) h2]
  simp only [beq_iff_eq, Prod.mk.injEq, true_and]
  (repeat' split) <;> omega

theorem ext_v (px py m pi i : Int) (h1 : 0 ≤ px) (h2 : 0 ≤ py) (h3 : 0 ≤ pi) (h4 : 0 ≤ i)
    (h5 : py + m = pi) (h6 : m ≠ 0) (h7 : 0 < m → i = pi + 1) (h8 : m < 0 → i = pi - 1) (x y : Nat) :
    ((Fill.span py (py + (m + (i - pi)))).map fun y => (px.toNat, y)).count (x, y) =
      ((Fill.span py (py + m)).map fun y => (px.toNat, y)).count (x, y) +
        if ((true, min pi i, px) == ((true, (y : Int), (x : Int)) : Edge)) = true then 1 else 0 := by
  rw [cntV _ _ _ h2 (by omega) h1, cntV _ _ _ h2 (by omega) h1]
  simp only [beq_iff_eq, Prod.mk.injEq, true_and]
  (repeat' split) <;> omega

theorem unit_v (px pi i : Int) (h1 : 0 ≤ px) (h3 : 0 ≤ pi) (h4 : 0 ≤ i)
    (h7 : i = pi + 1 ∨ i = pi - 1) (x y : Nat) :
    ((Fill.span pi (pi + (i - pi))).map fun y => (px.toNat, y)).count (x, y) =
        if ((true, min pi i, px) == ((true, (y : Int), (x : Int)) : Edge)) = true then 1 else 0 := by
  rw [cntV _ _ _ h3 (by omega) h1]
  simp only [beq_iff_eq, Prod.mk.injEq, true_and]
  (repeat' split) <;> omega

/-! ### a list-producing twin of `compress.go` -/

def goL : List Micro → Int × Int → Option Seg → List Seg
  | [], _, _ => [.z]
  | .step (i, j) :: rest, pos, wip =>
    match wip with
    | some (.h m) =>
      if i == pos.1 then goL rest (i, j) (some (.h (m + (j - pos.2))))
      else .h m :: goL rest (i, j) (some (.v (i - pos.1)))
    | some (.v m) =>
      if j == pos.2 then goL rest (i, j) (some (.v (m + (i - pos.1))))
      else .v m :: goL rest (i, j) (some (if i == pos.1 then .h (j - pos.2) else .v (i - pos.1)))
    | other =>
      (match other with | some s => [s] | none => []) ++
        goL rest (i, j) (some (if i == pos.1 then .h (j - pos.2) else .v (i - pos.1)))
  | .jump (i, j) :: rest, pos, _ => .z :: .m (j - pos.2) (i - pos.1) :: goL rest (i, j) none

theorem go_eq (ms : List Micro) : ∀ (pos : Int × Int) (wip : Option Seg) (acc : Array Seg),
    (compress.go ms pos wip acc).toList = acc.toList ++ goL ms pos wip := by
  induction ms with
  | nil => intro pos wip acc; simp [compress.go, goL]
  | cons a rest ih =>
    intro pos wip acc
    cases a with
    | jump n =>
      obtain ⟨i, j⟩ := n
      simp [compress.go, goL, ih]
    | step n =>
      obtain ⟨i, j⟩ := n
      cases wip with
      | none => simp [compress.go, goL, ih]
      | some s =>
        cases s with
        | h m =>
          simp only [compress.go, goL]
          split <;> simp [ih]
        | v m =>
          simp only [compress.go, goL]
          split <;> simp [ih]
        | z => simp [compress.go, goL, ih]
        | m a b => simp [compress.go, goL, ih]

theorem compress_eq (ms : List Micro) : compress ms = goL ms (0, 0) none := by
  simp [compress, go_eq]

/-! ### the local form of the hypotheses -/

def GoodWalk (w h : Nat) : Node → Node → Option Node → List Micro → Prop
  | S, cur, _, [] => cur = S
  | S, cur, prev, .step n :: r => adj cur n ∧ prev ≠ some n ∧ inBoxN w h n ∧ GoodWalk w h S n (some cur) r
  | S, cur, _, .jump n :: r => cur = S ∧ inBoxN w h n ∧ GoodWalk w h n n none r

theorem edgeOf_symm (a b : Node) (hab : adj a b) : edgeOf a b = edgeOf b a := by
  obtain ⟨a1, a2⟩ := a
  obtain ⟨b1, b2⟩ := b
  simp only [adj] at hab
  unfold edgeOf
  simp only
  by_cases h : a1 = b1
  · have h' : b1 = a1 := h.symm
    simp only [h, if_true]
    simp only [Prod.mk.injEq, true_and]
    omega
  · have h' : ¬ b1 = a1 := fun e => h e.symm
    simp only [h, h', if_false, Prod.mk.injEq, true_and]
    omega

theorem adj_symm (a b : Node) (hab : adj a b) : adj b a := by
  simp only [adj] at *
  omega

theorem good_of (w h : Nat) (ms : List Micro) : ∀ (S cur : Node) (prev : Option Node),
    chainOK cur ms → jumpsOK S cur ms → lastNode cur ms = tstart S ms →
    (∀ m ∈ ms, inBoxN w h m.node) → (medges cur ms).Nodup →
    (∀ q, prev = some q → adj q cur ∧ edgeOf q cur ∉ medges cur ms) →
    GoodWalk w h S cur prev ms := by
  induction ms with
  | nil =>
    intro S cur prev _ _ hcl _ _ _
    simpa [GoodWalk] using hcl
  | cons a r ih =>
    intro S cur prev hch hj hcl hbox hnd hprev
    cases a with
    | step n =>
      simp only [chainOK] at hch
      simp only [jumpsOK] at hj
      simp only [medges, List.nodup_cons] at hnd
      simp only [lastNode_cons, Micro.node, tstart_step] at hcl
      refine ⟨hch.1, ?_, ?_, ?_⟩
      · intro hp
        obtain ⟨hadj, hnot⟩ := hprev n hp
        apply hnot
        rw [edgeOf_symm n cur hadj]
        simp [medges]
      · exact hbox (.step n) (by simp)
      · apply ih S n (some cur) hch.2 hj hcl (fun m hm => hbox m (by simp [hm])) hnd.2
        intro q hq
        cases hq
        exact ⟨hch.1, hnd.1⟩
    | jump n =>
      simp only [chainOK] at hch
      simp only [jumpsOK] at hj
      simp only [medges] at hnd
      simp only [lastNode_cons, Micro.node, tstart_jump] at hcl
      refine ⟨hj.1, hbox (.jump n) (by simp), ?_⟩
      apply ih n n none hch hj.2 hcl (fun m hm => hbox m (by simp [hm])) hnd
      intro q hq
      cases hq

/-! ### the run of the compressed path -/

theorem run_cons_some (w h : Nat) (g : Fill.Seg) (gs : List Fill.Seg) (s s' : Fill.St)
    (hs : Fill.step w h s g = some s') : Fill.run w h (g :: gs) s = Fill.run w h gs s' := by
  simp [Fill.run, hs]

/-- the relation between the Fill state, the position of `compress.go`, its pending segment and
the previous node -/
def Rel (st : Fill.St) (pos : Node) (prev : Option Node) : Option Seg → Prop
  | none => st.py = pos.1 ∧ st.px = pos.2 ∧ prev = none
  | some (.h m) => m ≠ 0 ∧ st.py = pos.1 ∧ st.px + m = pos.2 ∧
      prev = some (pos.1, if 0 < m then pos.2 - 1 else pos.2 + 1)
  | some (.v m) => m ≠ 0 ∧ st.px = pos.2 ∧ st.py + m = pos.1 ∧
      prev = some (if 0 < m then pos.1 - 1 else pos.1 + 1, pos.2)
  | _ => False

/-- the unit vertical edges of the pending segment -/
def pV (st : Fill.St) : Option Seg → List (Nat × Nat)
  | some (.v m) => (Fill.span st.py (st.py + m)).map fun y => (st.px.toNat, y)
  | _ => []

/-- the unit horizontal edges of the pending segment -/
def pH (st : Fill.St) : Option Seg → List (Nat × Nat)
  | some (.h m) => (Fill.span st.px (st.px + m)).map fun x => (x, st.py.toNat)
  | _ => []

/-- at the start node of the sub-path, `z` draws exactly the pending segment -/
theorem step_z (w h : Nat) (st : Fill.St) (pos : Node) (prev : Option Node) (wip : Option Seg)
    (hrel : Rel st pos prev wip) (hpos : pos = (st.sy, st.sx)) :
    ∃ st1, Fill.step w h st .z = some st1 ∧ st1.closed = true ∧ st1.px = st.sx ∧ st1.py = st.sy ∧
      st1.sx = st.sx ∧ st1.sy = st.sy ∧ st1.vEdges = st.vEdges ++ pV st wip ∧
      st1.hEdges = st.hEdges ++ pH st wip := by
  subst hpos
  obtain ⟨px, py, sx, sy, cl, vE, hE⟩ := st
  cases wip with
  | none =>
    simp only [Rel] at hrel
    obtain ⟨h1, h2, _⟩ := hrel
    subst h1 h2
    simp [Fill.step, pV, pH, span_self]
  | some s =>
    cases s with
    | h m =>
      simp only [Rel] at hrel
      obtain ⟨h0, h1, h2, _⟩ := hrel
      subst h1
      have hne : ¬ px = sx := by omega
      have : px + m = sx := h2
      simp [Fill.step, pV, pH, hne, this]
    | v m =>
      simp only [Rel] at hrel
      obtain ⟨h0, h1, h2, _⟩ := hrel
      subst h1
      have : py + m = sy := h2
      simp [Fill.step, pV, pH, this]
    | z => simp [Rel] at hrel
    | m a b => simp [Rel] at hrel

theorem edgeOf_h (i pj j : Int) : edgeOf (i, pj) (i, j) = (false, i, min pj j) := by
  simp [edgeOf]

theorem edgeOf_v (pi pj i j : Int) (hne : ¬ i = pi) : edgeOf (pi, pj) (i, j) = (true, min pi i, pj) := by
  have : ¬ pi = i := fun e => hne e.symm
  simp [edgeOf, this]

theorem run_goL (w h : Nat) (ms : List Micro) :
    ∀ (pos : Node) (prev : Option Node) (wip : Option Seg) (st : Fill.St),
    GoodWalk w h (st.sy, st.sx) pos prev ms → inBoxN w h pos → 0 ≤ st.px → 0 ≤ st.py →
    Rel st pos prev wip →
    ∃ st', Fill.run w h ((goL ms pos wip).map toFillSeg) st = some st' ∧ st'.closed = true ∧
      (∀ x y : Nat, st'.vEdges.count (x, y) =
        st.vEdges.count (x, y) + (pV st wip).count (x, y) +
          (medges pos ms).count (true, (y : Int), (x : Int))) ∧
      (∀ x y : Nat, st'.hEdges.count (x, y) =
        st.hEdges.count (x, y) + (pH st wip).count (x, y) +
          (medges pos ms).count (false, (y : Int), (x : Int))) := by
  induction ms with
  | nil =>
    intro pos prev wip st hg hbox hpx hpy hrel
    simp only [GoodWalk] at hg
    obtain ⟨st1, hs, hcl, _, _, _, _, hv, hh⟩ := step_z w h st pos prev wip hrel hg
    refine ⟨st1, ?_, hcl, ?_, ?_⟩
    · simp [goL, toFillSeg, Fill.run, hs]
    · intro x y; simp [hv, medges, List.count_append]
    · intro x y; simp [hh, medges, List.count_append]
  | cons a r ih =>
    intro pos prev wip st hg hbox hpx hpy hrel
    cases a with
    | jump n =>
      obtain ⟨i, j⟩ := n
      obtain ⟨pi, pj⟩ := pos
      simp only [GoodWalk] at hg
      obtain ⟨hpos, hboxn, hg'⟩ := hg
      obtain ⟨st1, hs, hcl, h1, h2, h3, h4, hv, hh⟩ := step_z w h st (pi, pj) prev wip hrel hpos
      have hbn := hboxn
      simp only [inBoxN] at hbn
      simp only [Prod.mk.injEq] at hpos
      have e1 : st1.px + (j - pj) = j := by omega
      have e2 : st1.py + (i - pi) = i := by omega
      have hs2 : Fill.step w h st1 (.m (j - pj) (i - pi)) =
          some ⟨j, i, j, i, true, st1.vEdges, st1.hEdges⟩ := by
        simp [Fill.step, hcl, e1, e2, Fill.inBox, hbn]
      obtain ⟨st', hrun, hcl', hv', hh'⟩ := ih (i, j) none none ⟨j, i, j, i, true, st1.vEdges, st1.hEdges⟩
        hg' hboxn hbn.2.2.1 hbn.1 (by simp [Rel])
      refine ⟨st', ?_, hcl', ?_, ?_⟩
      · simp only [goL, List.map_cons, toFillSeg]
        rw [run_cons_some _ _ _ _ _ _ hs, run_cons_some _ _ _ _ _ _ hs2]
        exact hrun
      · intro x y; rw [hv' x y]; simp [hv, pV, medges, List.count_append]
      · intro x y; rw [hh' x y]; simp [hh, pH, medges, List.count_append]
    | step n =>
      obtain ⟨i, j⟩ := n
      obtain ⟨pi, pj⟩ := pos
      obtain ⟨px, py, sx, sy, cl, vE, hE⟩ := st
      simp only [GoodWalk] at hg
      obtain ⟨hadj, hne, hboxn, hg'⟩ := hg
      have hbn := hboxn
      have hbp := hbox
      simp only [inBoxN] at hbn hbp
      simp only [adj] at hadj
      simp only at hpx hpy
      cases wip with
      | none =>
        simp only [Rel] at hrel
        obtain ⟨r1, r2, r3⟩ := hrel
        subst r1 r2
        by_cases hi : i = py
        · subst hi
          obtain ⟨st', hrun, hcl', hv', hh'⟩ := ih (i, j) (some (i, px)) (some (.h (j - px)))
            ⟨px, i, sx, sy, cl, vE, hE⟩ hg' hboxn hpx hpy (by
              simp only [Rel]
              refine ⟨by omega, trivial, by omega, ?_⟩
              congr 2
              split <;> omega)
          refine ⟨st', ?_, hcl', ?_, ?_⟩
          · simpa [goL] using hrun
          · intro x y; rw [hv' x y]; simp [pV, medges, edgeOf_h]
          · intro x y; rw [hh' x y]
            have := unit_h i px j hpy hpx (by omega) (by omega) x y
            simp only [pH, medges, edgeOf_h, List.count_cons, List.count_nil]
            omega
        · have hj : j = px := by omega
          subst hj
          obtain ⟨st', hrun, hcl', hv', hh'⟩ := ih (i, j) (some (py, j)) (some (.v (i - py)))
            ⟨j, py, sx, sy, cl, vE, hE⟩ hg' hboxn hpx hpy (by
              simp only [Rel]
              refine ⟨by omega, trivial, by omega, ?_⟩
              congr 2
              split <;> omega)
          refine ⟨st', ?_, hcl', ?_, ?_⟩
          · simpa [goL, hi] using hrun
          · intro x y; rw [hv' x y]
            have := unit_v j py i hpx hpy (by omega) (by omega) x y
            simp only [pV, medges, edgeOf_v _ _ _ _ hi, List.count_cons, List.count_nil]
            omega
          · intro x y; rw [hh' x y]; simp [pH, medges, edgeOf_v _ _ _ _ hi]
      | some s =>
        cases s with
        | z => simp [Rel] at hrel
        | m a b => simp [Rel] at hrel
        | h m =>
          simp only [Rel] at hrel
          obtain ⟨r0, r1, r3, r4⟩ := hrel
          subst r1 r4
          by_cases hi : i = py
          · subst hi
            have h7 : 0 < m → j = pj + 1 := by
              intro hm
              simp only [if_pos hm, ne_eq, Option.some.injEq, Prod.mk.injEq, true_and] at hne
              omega
            have h8 : m < 0 → j = pj - 1 := by
              intro hm
              have hm' : ¬ 0 < m := by omega
              simp only [if_neg hm', ne_eq, Option.some.injEq, Prod.mk.injEq, true_and] at hne
              omega
            obtain ⟨st', hrun, hcl', hv', hh'⟩ := ih (i, j) (some (i, pj)) (some (.h (m + (j - pj))))
              ⟨px, i, sx, sy, cl, vE, hE⟩ hg' hboxn hpx hpy (by
                simp only [Rel]
                refine ⟨by omega, trivial, by omega, ?_⟩
                congr 2
                split <;> omega)
            refine ⟨st', ?_, hcl', ?_, ?_⟩
            · simpa [goL] using hrun
            · intro x y; rw [hv' x y]; simp [pV, medges, edgeOf_h]
            · intro x y; rw [hh' x y]
              have := ext_h px i m pj j hpx hpy (by omega) (by omega) r3 r0 h7 h8 x y
              simp only [pH, medges, edgeOf_h, List.count_cons]
              omega
          · have hj : j = pj := by omega
            subst hj
            have hs1 : Fill.step w h ⟨px, py, sx, sy, cl, vE, hE⟩ (.h m) =
                some ⟨j, py, sx, sy, false, vE,
                  hE ++ (Fill.span px j).map fun x => (x, py.toNat)⟩ := by
              simp [Fill.step, r0, r3, Fill.inBox, hbp]
            obtain ⟨st', hrun, hcl', hv', hh'⟩ := ih (i, j) (some (py, j)) (some (.v (i - py)))
              ⟨j, py, sx, sy, false, vE, hE ++ (Fill.span px j).map fun x => (x, py.toNat)⟩
              hg' hboxn (by simp only; omega) hpy (by
                simp only [Rel]
                refine ⟨by omega, trivial, by omega, ?_⟩
                congr 2
                split <;> omega)
            refine ⟨st', ?_, hcl', ?_, ?_⟩
            · simp only [goL, hi, beq_iff_eq, if_false, List.map_cons, toFillSeg]
              rw [run_cons_some _ _ _ _ _ _ hs1]
              exact hrun
            · intro x y; rw [hv' x y]
              have := unit_v j py i (by omega) hpy (by omega) (by omega) x y
              simp only [pV, medges, edgeOf_v _ _ _ _ hi, List.count_cons, List.count_nil]
              omega
            · intro x y; rw [hh' x y]
              simp [pH, medges, edgeOf_v _ _ _ _ hi, List.count_append, r3]
        | v m =>
          simp only [Rel] at hrel
          obtain ⟨r0, r1, r3, r4⟩ := hrel
          subst r1 r4
          by_cases hj : j = px
          · subst hj
            have h7 : 0 < m → i = pi + 1 := by
              intro hm
              simp only [if_pos hm, ne_eq, Option.some.injEq, Prod.mk.injEq, and_true] at hne
              omega
            have h8 : m < 0 → i = pi - 1 := by
              intro hm
              have hm' : ¬ 0 < m := by omega
              simp only [if_neg hm', ne_eq, Option.some.injEq, Prod.mk.injEq, and_true] at hne
              omega
            obtain ⟨st', hrun, hcl', hv', hh'⟩ := ih (i, j) (some (pi, j)) (some (.v (m + (i - pi))))
              ⟨j, py, sx, sy, cl, vE, hE⟩ hg' hboxn hpx hpy (by
                simp only [Rel]
                refine ⟨by omega, trivial, by omega, ?_⟩
                congr 2
                split <;> omega)
            have hi : ¬ i = pi := by omega
            refine ⟨st', ?_, hcl', ?_, ?_⟩
            · simpa [goL] using hrun
            · intro x y; rw [hv' x y]
              have := ext_v j py m pi i hpx hpy (by omega) (by omega) r3 r0 h7 h8 x y
              simp only [pV, medges, edgeOf_v _ _ _ _ hi, List.count_cons]
              omega
            · intro x y; rw [hh' x y]; simp [pH, medges, edgeOf_v _ _ _ _ hi]
          · have hi : i = pi := by omega
            subst hi
            have hs1 : Fill.step w h ⟨px, py, sx, sy, cl, vE, hE⟩ (.v m) =
                some ⟨px, i, sx, sy, false,
                  vE ++ (Fill.span py i).map fun y => (px.toNat, y), hE⟩ := by
              simp [Fill.step, r0, r3, Fill.inBox, hbp]
            obtain ⟨st', hrun, hcl', hv', hh'⟩ := ih (i, j) (some (i, px)) (some (.h (j - px)))
              ⟨px, i, sx, sy, false, vE ++ (Fill.span py i).map fun y => (px.toNat, y), hE⟩
              hg' hboxn hpx (by simp only; omega) (by
                simp only [Rel]
                refine ⟨by omega, trivial, by omega, ?_⟩
                congr 2
                split <;> omega)
            refine ⟨st', ?_, hcl', ?_, ?_⟩
            · simp only [goL, hj, beq_iff_eq, if_false, List.map_cons, toFillSeg, if_true]
              rw [run_cons_some _ _ _ _ _ _ hs1]
              exact hrun
            · intro x y; rw [hv' x y]
              simp [pV, medges, edgeOf_h, List.count_append, r3]
            · intro x y; rw [hh' x y]
              have := unit_h i px j (by omega) hpx (by omega) (by omega) x y
              simp only [pH, medges, edgeOf_h, List.count_cons, List.count_nil]
              omega

/-- the statement about `compress` -/
theorem compress_spec (w h : Nat) (ms : List Micro)
    (hchain : chainOK (0, 0) ms) (hjumps : jumpsOK (0, 0) (0, 0) ms)
    (hclosed : lastNode (0, 0) ms = tstart (0, 0) ms)
    (hbox : ∀ m ∈ ms, inBoxN w h m.node)
    (hnodup : (medges (0, 0) ms).Nodup) :
    ∃ st, DM.Spec.Fill.run w h ((compress ms).map toFillSeg) DM.Spec.Fill.init = some st ∧
      st.closed = true ∧
      (∀ x y : Nat, st.vEdges.count (x, y) = (medges (0, 0) ms).count (true, (y : Int), (x : Int))) ∧
      (∀ x y : Nat, st.hEdges.count (x, y) = (medges (0, 0) ms).count (false, (y : Int), (x : Int))) := by
  have hg : GoodWalk w h (0, 0) (0, 0) none ms :=
    good_of w h ms (0, 0) (0, 0) none hchain hjumps hclosed hbox hnodup (by intro q hq; cases hq)
  obtain ⟨st, hrun, hcl, hv, hh⟩ := run_goL w h ms (0, 0) none none Fill.init hg
    (by simp [inBoxN]) (by simp [Fill.init]) (by simp [Fill.init]) (by simp [Rel, Fill.init])
  refine ⟨st, ?_, hcl, ?_, ?_⟩
  · rw [compress_eq]; exact hrun
  · intro x y; rw [hv x y]; simp [Fill.init, pV]
  · intro x y; rw [hh x y]; simp [Fill.init, pH]

end DM.Lemmas.PathP
