import DM.Lemmas.C10Pot
import DM.Lemmas.C10Prune
/-!
ASCII and Base 256 plans under the potential "cost of finishing in ASCII" (used by
`DM/Props/C10Ascii.lean`): `phi data k g` = cost of `g` + cost of leaving its mode now + 12 × ASCII size
of the unread rest (for an ASCII plan: `C10Pot.finA`). Every live plan has an ASCII successor candidate of
the same potential (itself one step further, or its ASCII child), and whatever removes an ASCII candidate
has at most its potential (`inherit_phi`); for the latter the costs are tracked modulo 12 (`Norm`).
-/
namespace DM.Lemmas.C10AB
open DM.Model DM.Model.Plan DM.Model.Enc DM.Lemmas DM.Lemmas.PlanInv DM.Lemmas.PlanLoop
open DM.Lemmas.CoupleAscii DM.Lemmas.C10Live DM.Lemmas.C10Pot DM.Lemmas.C10Prune

/-! ### `asciiSize` and one more character in front -/

theorem asciiSize_cons2 (a b : Nat) (t : List Nat) : asciiSize (a :: b :: t) =
    if (isDigit a && isDigit b) = true then 1 + asciiSize t else (if a ≤ 127 then 1 else 2) + asciiSize (b :: t) := by
  rw [asciiSize]

theorem asz_both : ∀ (n : Nat) (t : List Nat), t.length ≤ n → ∀ a,
    asciiSize t ≤ asciiSize (a :: t) ∧ asciiSize (a :: t) ≤ (if a ≤ 127 then 1 else 2) + asciiSize t := by
  intro n
  induction n with
  | zero =>
    intro t ht a
    have : t = [] := List.eq_nil_of_length_eq_zero (by omega)
    subst this
    simp only [asciiSize]
    split <;> omega
  | succ n ih =>
    intro t ht a
    cases t with
    | nil => simp only [asciiSize]; split <;> omega
    | cons b t' =>
      have hb := ih t' (by simp only [List.length_cons] at ht; omega) b
      rw [asciiSize_cons2 a b t']
      by_cases hp : (isDigit a && isDigit b) = true
      · rw [if_pos hp]
        have hb127 : b ≤ 127 := by
          simp only [isDigit, Bool.and_eq_true, decide_eq_true_eq] at hp
          omega
        rw [if_pos hb127] at hb
        constructor
        · omega
        · split <;> omega
      · rw [if_neg hp]
        constructor
        · split <;> omega
        · omega

theorem asz_tail_le (a : Nat) (t : List Nat) : asciiSize t ≤ asciiSize (a :: t) := (asz_both _ t (Nat.le_refl _) a).1
theorem asz_cons_le (a : Nat) (t : List Nat) : asciiSize (a :: t) ≤ (if a ≤ 127 then 1 else 2) + asciiSize t :=
  (asz_both _ t (Nat.le_refl _) a).2

/-- inside a digit pair: the next character is a digit -/
theorem odd_phase {data : List Nat} {k da : Nat} (hl : da ≤ digitsFrom data k) (hodd : da % 2 = 1) :
    asciiSize (data.drop (k + 1)) ≤ asciiSize (data.drop k) ∧
    asciiSize (data.drop k) ≤ 1 + asciiSize (data.drop (k + 1)) := by
  have hpos : 0 < digitsFrom data k := by omega
  have hlt : k < data.length := by
    apply Classical.byContradiction
    intro h
    unfold digitsFrom at hpos
    rw [List.drop_eq_nil_of_le (by omega)] at hpos
    simp at hpos
  have hd := (digitsFrom_pos hlt hpos).1
  have hg : data.getD k 0 = data[k] := by simp [List.getD, List.getElem?_eq_getElem hlt]
  rw [hg] at hd
  rw [List.drop_eq_getElem_cons hlt]
  refine ⟨asz_tail_le _ _, ?_⟩
  have := asz_cons_le data[k] (data.drop (k + 1))
  have h127 : data[k] ≤ 127 := by
    simp only [isDigit, Bool.and_eq_true, decide_eq_true_eq] at hd
    omega
  rw [if_pos h127] at this
  exact this

/-! ### the potential and the costs modulo 12 -/

def phi (data : List Nat) (k : Nat) (g : GPlan) : Nat :=
  match g.plan with
  | .ascii P => g.extra + finA data k P
  | _ => g.switchCost.getD 0 + 12 * asciiSize (data.drop k)

def Norm (g : GPlan) : Prop :=
  g.extra % 12 = 0 ∧
  match g.plan with
  | .ascii P => P.cost % 12 = 6 * (P.digitsAhead % 2)
  | .base256 p => p.cost % 12 = 0
  | _ => True

theorem plan_of_ascii {g : GPlan} (h : g.current = .ascii) : ∃ P, g.plan = .ascii P := by
  unfold GPlan.current at h
  cases hp : g.plan with
  | ascii P => exact ⟨P, rfl⟩
  | c40 p => rw [hp] at h; simp only [PlanImpl.mode] at h; split at h <;> cases h
  | x12 p => rw [hp] at h; cases h
  | edifact p => rw [hp] at h; cases h
  | base256 p => rw [hp] at h; cases h

theorem plan_of_b256 {g : GPlan} (h : g.current = .base256) : ∃ p, g.plan = .base256 p := by
  unfold GPlan.current at h
  cases hp : g.plan with
  | base256 p => exact ⟨p, rfl⟩
  | c40 p => rw [hp] at h; simp only [PlanImpl.mode] at h; split at h <;> cases h
  | x12 p => rw [hp] at h; cases h
  | edifact p => rw [hp] at h; cases h
  | ascii p => rw [hp] at h; cases h

theorem ceil12_mod (x : Nat) : ceil12 x % 12 = 0 := by
  unfold ceil12; split <;> omega

theorem ceil12_ge (x : Nat) : x ≤ ceil12 x := by
  unfold ceil12; split <;> omega

theorem ceil12_le (x n : Nat) (h : x ≤ 12 * n) : ceil12 x ≤ 12 * n := by
  unfold ceil12; split <;> omega

/-- the conditions every candidate meets (modes: ASCII and Base 256 only) -/
def OK (data : List Nat) (list : List Sym) (k : Nat) (g : GPlan) : Prop :=
  Norm g ∧ Core data list k g.plan ∧ (g.current = .ascii ∨ g.current = .base256)

theorem norm_switchCost {data list k} {g : GPlan} {s : Nat} (h : OK data list k g) (hs : g.switchCost = some s) :
    s % 12 = 0 := by
  obtain ⟨⟨h1, h2⟩, _, hm⟩ := h
  unfold GPlan.switchCost at hs
  rcases hm with hm | hm
  · obtain ⟨P, hp⟩ := plan_of_ascii hm
    rw [hp] at hs
    simp only [Option.some.injEq] at hs
    have := ceil12_mod P.cost
    omega
  · obtain ⟨p, hp⟩ := plan_of_b256 hm
    rw [hp] at hs h2
    simp only [Option.some.injEq] at hs
    simp only [] at h2
    unfold b256SwitchCost at hs
    split at hs <;> omega

/-- whatever removes an ASCII candidate has at most its potential -/
theorem inherit_phi {data : List Nat} {list : List Sym} {k B : Nat} {cands : List GPlan}
    (hok : ∀ x ∈ cands, OK data list k x) : Inherit cands (fun g => phi data k g ≤ B) where
  same := by
    intro f hf c hc hq hca hfa hle
    obtain ⟨⟨fe, fn⟩, ⟨_, _, fl⟩, _⟩ := hok f hf
    obtain ⟨⟨ce, cn⟩, ⟨_, _, cl⟩, _⟩ := hok c hc
    obtain ⟨Pf, hpf⟩ := plan_of_ascii hfa
    obtain ⟨Pc, hpc⟩ := plan_of_ascii hca
    rw [hpf] at fn fl
    rw [hpc] at cn cl
    simp only [] at fn cn
    simp only [Local] at fl cl
    simp only [phi, hpf, hpc] at hq ⊢
    simp only [GPlan.cost, hpf, hpc] at hle
    unfold finA at hq ⊢
    by_cases hfo : Pf.digitsAhead % 2 = 1 <;> by_cases hco : Pc.digitsAhead % 2 = 1
    · rw [if_pos hfo]; rw [if_pos hco] at hq; omega
    · rw [if_pos hfo]; rw [if_neg hco] at hq
      have := odd_phase fl hfo
      omega
    · rw [if_neg hfo]; rw [if_pos hco] at hq
      have := odd_phase cl hco
      omega
    · rw [if_neg hfo]; rw [if_neg hco] at hq; omega
  other := by
    intro f hf c hc hq hca hfa s hs hlt
    have hsm := norm_switchCost (hok f hf) hs
    obtain ⟨_, _, fm⟩ := hok f hf
    obtain ⟨⟨ce, cn⟩, ⟨_, _, cl⟩, _⟩ := hok c hc
    obtain ⟨Pc, hpc⟩ := plan_of_ascii hca
    have hfb : f.current = .base256 := by
      rcases fm with h | h
      · exact absurd h hfa
      · exact h
    obtain ⟨pf, hpf⟩ := plan_of_b256 hfb
    rw [hpc] at cn cl
    simp only [] at cn
    simp only [Local] at cl
    simp only [phi, hpf, hpc, hs, Option.getD_some] at hq ⊢
    simp only [GPlan.cost, hpc] at hlt
    unfold finA at hq
    by_cases hco : Pc.digitsAhead % 2 = 1
    · rw [if_pos hco] at hq
      have := odd_phase cl hco
      omega
    · rw [if_neg hco] at hq; omega

/-! ### `Norm` along `step()` -/

theorem ascii_norm_step {data : List Nat} {list : List Sym} {k : Nat} (P P1 : AsciiP) (r : StepResult)
    (hc : CtxAt data list k P.ctx) (hl : P.digitsAhead ≤ digitsFrom data k)
    (hn : P.cost % 12 = 6 * (P.digitsAhead % 2)) (hs : asciiStep P = .ok (P1, r)) :
    P1.cost % 12 = 6 * (P1.digitsAhead % 2) := by
  by_cases hlt : k < data.length
  · obtain ⟨p', r', e1, _, _, e4, _⟩ := asciiStep_spec P hc hl
    rw [hs] at e1
    simp only [Except.ok.injEq, Prod.mk.injEq] at e1
    have he : r.end = false := by rw [e1.2, e4]; simpa using hlt
    obtain ⟨_, _, _, hcase⟩ := asciiStep_elim P P1 r hc hl hs he
    rcases hcase with ⟨h0, _, h1, _, hcost⟩ | ⟨h0, hd, h1, _, hcost⟩ | ⟨hpos, h1, _, hcost⟩
    · rw [h0] at hn
      rw [h1, hcost]
      split <;> omega
    · rw [h0] at hn
      rw [h1, hcost]
      omega
    · rw [h1, hcost]
      omega
  · obtain ⟨c1, c2⟩ := asciiStep_end P P1 r hc hl hlt hs
    have hd0 : digitsFrom data k = 0 := by
      unfold digitsFrom
      rw [List.drop_eq_nil_of_le (by omega)]
      rfl
    have h0 : P.digitsAhead = 0 := by omega
    rw [c1, c2]
    rw [h0] at hn
    exact hn

theorem norm_step {data list k} {g g' : GPlan} {r : StepResult} (h : OK data list k g)
    (hs : g.step = .ok (some (g', r))) : Norm g' := by
  obtain ⟨⟨h1, h2⟩, ⟨hc, _, hl⟩, hm⟩ := h
  rcases hm with hm | hm
  · obtain ⟨P, hp⟩ := plan_of_ascii hm
    obtain ⟨P1, hs1, hp1, hx1⟩ := gstep_ascii hp hs
    rw [hp] at hc hl h2
    refine ⟨by rw [hx1]; exact h1, ?_⟩
    rw [hp1]
    exact ascii_norm_step P P1 r hc hl h2 hs1
  · obtain ⟨p, hp⟩ := plan_of_b256 hm
    rw [hp] at h2
    simp only [] at h2
    unfold GPlan.step at hs
    rw [hp] at hs
    simp only [] at hs
    split at hs
    · cases hs
    · rename_i p' r' hb
      simp only [Except.ok.injEq, Option.some.injEq, Prod.mk.injEq] at hs
      rw [← hs.1]
      refine ⟨h1, ?_⟩
      simp only []
      unfold b256Step at hb
      simp only [] at hb
      split at hb
      · simp only [Option.some.injEq, Prod.mk.injEq] at hb
        rw [← hb.1]; exact h2
      · split at hb
        · cases hb
        · simp only [Option.some.injEq, Prod.mk.injEq] at hb
          rw [← hb.1]
          simp only []
          omega

end DM.Lemmas.C10AB
