import DM.Lemmas.RSSoundLD
import DM.Lemmas.BPAlg
import DM.Lemmas.BPBridge
import DM.Lemmas.RSSoundLift
namespace DM.Lemmas.RSSound
set_option linter.unusedSimpArgs false
open DM.Model DM.Model.RS DM.Lemmas DM.Lemmas.RSTotal

/-- the polynomial whose roots `chienSearch c` looks for: Σ_j c[len-1-j]·X^j -/
def chienPoly (c : List Nat) (r : GF) : GF :=
  ∑ j ∈ Finset.range c.length, gf c.reverse j * r ^ j

theorem chienSearch_roots (c : List Nat) (hc : Bytes c) :
    Post (chienSearch c) (fun roots => ∀ r ∈ roots, r = 0 ∨ chienPoly c (GF.ofNat r) = 0) := by
  unfold chienSearch
  split
  · exact Safe_ok (by simp)
  · have hz : ∀ (z rs : List Nat), z = (if c.getLast? = some 0 then [0] else []) →
        (∀ r ∈ rs, chienPoly c (GF.ofNat r) = 0) →
        ∀ r ∈ z ++ rs, r = 0 ∨ chienPoly c (GF.ofNat r) = 0 := by
      intro z rs hz hrs r hr
      rcases List.mem_append.mp hr with h | h
      · subst hz
        split at h <;> simp at h
        exact Or.inl h
      · exact Or.inr (hrs r h)
    simp only []
    split
    · rename_i hl2
      split
      · rename_i h
        unfold div'
        rw [gdiv_eq_some h.2]
        refine Safe_ok (hz _ [_] rfl ?_)
        intro r hr
        simp only [List.mem_singleton] at hr
        subst hr
        unfold chienPoly
        rw [hl2, Finset.sum_range_succ, Finset.sum_range_one, pow_zero, mul_one, pow_one,
          gf_reverse (by omega), gf_reverse (by omega), hl2,
          ofNat_gdivD (hc.getD _) (hc.getD _) h.2]
        show gf c 1 + gf c 0 * (gf c 1 / gf c 0) = 0
        have hne : gf c 0 ≠ 0 := ofNat_ne_zero (hc.getD _) h.2
        rw [mul_div_cancel₀ _ hne]
        exact GF.add_self _
      · have := hz _ [] rfl (by simp)
        rw [List.append_nil] at this
        exact Safe_ok this
    · refine Safe_ok (hz _ _ rfl ?_)
      intro r hr
      simp only [List.mem_map, List.mem_filter, List.mem_range] at hr
      obtain ⟨i, ⟨hi, hcond⟩, rfl⟩ := hr
      have h0 : ((List.range c.reverse.length).map fun j =>
          gmul (c.reverse.getD j 0) (alog ((j * i) % 255))).foldl gadd 0 = 0 := by
        simpa using hcond
      have := congrArg GF.ofNat h0
      rw [ofNat_foldl_xor, ofNat_zero, zero_add, List.map_map, list_sum_range'] at this
      unfold chienPoly
      rw [← this, List.length_reverse]
      apply Finset.sum_congr rfl
      intro j _
      simp only [Function.comp]
      rw [ofNat_gmul' (hc.reverse.getD _) (alog_pos _ (Nat.mod_lt _ (by omega))).2,
        ofNat_alog_mod, ofNat_alog i hi, ← pow_mul, Nat.mul_comm]
      rfl

/-! ### the algebra behind the correction -/

/-- a root `r ≠ 0` of the Chien polynomial of `w ++ [1]` gives a locator `X = r⁻¹` with
Σ_{i<v} w_i X^i + X^v = 0 -/
theorem locator_at_inverse (w : List Nat) (r : GF) (hr : r ≠ 0)
    (h : chienPoly (w ++ [1]) r = 0) :
    ∑ i ∈ Finset.range w.length, gf w i * r⁻¹ ^ i + r⁻¹ ^ w.length = 0 := by
  have hlen : (w ++ [1]).length = w.length + 1 := by simp
  have h1 : r⁻¹ ^ w.length * chienPoly (w ++ [1]) r
      = ∑ j ∈ Finset.range (w.length + 1), gf (w ++ [1]) (w.length + 1 - 1 - j) * r⁻¹ ^ (w.length + 1 - 1 - j) := by
    unfold chienPoly
    rw [Finset.mul_sum, hlen]
    apply Finset.sum_congr rfl
    intro j hj
    have hj' := Finset.mem_range.mp hj
    rw [gf_reverse (by omega), hlen]
    have hp : r⁻¹ ^ w.length = r⁻¹ ^ (w.length + 1 - 1 - j) * r⁻¹ ^ j := by
      rw [← pow_add]; congr 1; omega
    rw [hp]
    have hc : r⁻¹ ^ j * r ^ j = 1 := by
      rw [← mul_pow, inv_mul_cancel₀ hr, one_pow]
    calc r⁻¹ ^ (w.length + 1 - 1 - j) * r⁻¹ ^ j * (gf (w ++ [1]) (w.length + 1 - 1 - j) * r ^ j)
        = gf (w ++ [1]) (w.length + 1 - 1 - j) * r⁻¹ ^ (w.length + 1 - 1 - j) * (r⁻¹ ^ j * r ^ j) := by ring
      _ = _ := by rw [hc, mul_one]
  rw [h, mul_zero, Finset.sum_range_reflect (fun i => gf (w ++ [1]) i * r⁻¹ ^ i) (w.length + 1),
    Finset.sum_range_succ, gf_snoc_one, one_mul] at h1
  refine Eq.trans ?_ h1.symm
  congr 1
  apply Finset.sum_congr rfl
  intro i hi
  rw [gf_append_left (Finset.mem_range.mp hi)]

/-- two sequences with the same order-`v` recurrence that agree on the first `v` terms agree -/
theorem recurrence_extend (s lam X e : ℕ → GF) (v k : ℕ)
    (hX : ∀ l, l < v → ∑ i ∈ Finset.range v, lam i * X l ^ i + X l ^ v = 0)
    (hwin : ∀ j, j + v < k → ∑ i ∈ Finset.range v, s (j + i) * lam i + s (j + v) = 0)
    (hbp : ∀ j, j < v → ∑ l ∈ Finset.range v, e l * X l ^ (j + 1) = s j) :
    ∀ j, j < k → ∑ l ∈ Finset.range v, e l * X l ^ (j + 1) = s j := by
  intro j
  induction j using Nat.strong_induction_on with
  | _ j ih =>
    intro hj
    by_cases hjv : j < v
    · exact hbp j hjv
    · obtain ⟨j', rfl⟩ : ∃ j', j = j' + v := ⟨j - v, by omega⟩
      have hw := gf_eq_of_add_eq_zero (hwin j' hj)
      rw [← hw]
      have hXv : ∀ l, l < v → X l ^ v = ∑ i ∈ Finset.range v, lam i * X l ^ i :=
        fun l hl => (gf_eq_of_add_eq_zero (hX l hl)).symm
      calc ∑ l ∈ Finset.range v, e l * X l ^ (j' + v + 1)
          = ∑ l ∈ Finset.range v, ∑ i ∈ Finset.range v, lam i * (e l * X l ^ (j' + i + 1)) := by
            apply Finset.sum_congr rfl
            intro l hl
            have : X l ^ (j' + v + 1) = X l ^ (j' + 1) * X l ^ v := by
              rw [← pow_add]; congr 1; omega
            rw [this, hXv l (Finset.mem_range.mp hl), Finset.mul_sum, Finset.mul_sum]
            apply Finset.sum_congr rfl
            intro i _
            have : X l ^ (j' + i + 1) = X l ^ (j' + 1) * X l ^ i := by
              rw [← pow_add]; congr 1; omega
            rw [this]; ring
        _ = ∑ i ∈ Finset.range v, lam i * ∑ l ∈ Finset.range v, e l * X l ^ (j' + i + 1) := by
            rw [Finset.sum_comm]
            apply Finset.sum_congr rfl
            intro i _
            rw [Finset.mul_sum]
        _ = ∑ i ∈ Finset.range v, s (j' + i) * lam i := by
            apply Finset.sum_congr rfl
            intro i hi
            have hi' := Finset.mem_range.mp hi
            rw [ih (j' + i) (by omega) (by omega), mul_comm]

/-! ### the correction loop and one block -/

theorem evalH_set_mid (pre suf : List Nat) (old err : Nat) (x : GF) :
    evalH (toG ((pre ++ old :: suf).set pre.length (gadd old err))) x
      = evalH (toG (pre ++ old :: suf)) x + GF.ofNat err * x ^ suf.length := by
  have h1 : (pre ++ old :: suf).set pre.length (gadd old err) = pre ++ gadd old err :: suf := by
    rw [List.set_append_right _ _ (Nat.le_refl _), Nat.sub_self]; rfl
  have h2 : ∀ a, toG (pre ++ a :: suf) = toG pre ++ GF.ofNat a :: toG suf := by
    intro a; simp [toG]
  have h3 : (toG suf).length = suf.length := by simp [toG]
  rw [h1, h2, h2, evalH_append, evalH_append, evalH_cons, evalH_cons, ofNat_gadd, h3]
  simp only [List.length_cons]
  ring

theorem evalH_set_add (l : List Nat) (pos err : Nat) (hp : pos < l.length) (x : GF) :
    evalH (toG (l.set pos (gadd (l.getD pos 0) err))) x
      = evalH (toG l) x + GF.ofNat err * x ^ (l.length - 1 - pos) := by
  have hl : l = l.take pos ++ l.getD pos 0 :: l.drop (pos + 1) := by
    rw [List.getD_eq_getElem?_getD, List.getElem?_eq_getElem hp, Option.getD_some,
      List.getElem_cons_drop, List.take_append_drop]
  have hlen : (l.take pos).length = pos := by rw [List.length_take]; omega
  have := evalH_set_mid (l.take pos) (l.drop (pos + 1)) (l.getD pos 0) err x
  rw [← hl, hlen, List.length_drop] at this
  rw [this]
  congr 3
  omega

theorem list_sum_zip (f : Nat × Nat → GF) (a b : List Nat) :
    ((a.zip b).map f).sum = ∑ i ∈ Finset.range (min a.length b.length), f (a.getD i 0, b.getD i 0) := by
  induction a generalizing b with
  | nil => simp
  | cons x a ih =>
    cases b with
    | nil => simp
    | cons y b =>
      simp only [List.zip_cons_cons, List.map_cons, List.sum_cons, List.length_cons]
      rw [ih b, Nat.succ_min_succ, Finset.sum_range_succ', add_comm]
      rfl

/-- the `j`-th syndrome of a block, in the field -/
def synd (l : List Nat) (j : Nat) : GF := evalH (toG l) (α ^ (j + 1))

/-- contribution of the correction `err` at the location `loc` to the `j`-th syndrome -/
def corrTerm (j : Nat) (x : Nat × Nat) : GF := GF.ofNat x.2 * GF.ofNat x.1 ^ (j + 1)

theorem synd_update (l : List Nat) (loc err j : Nat) (hloc : loc ≠ 0) (hlb : loc < 256)
    (hi : glog loc < l.length) :
    synd (l.set (l.length - glog loc - 1) (gadd (l.getD (l.length - glog loc - 1) 0) err)) j
      = synd l j + corrTerm j (loc, err) := by
  unfold synd corrTerm
  rw [evalH_set_add l _ err (by omega)]
  have h1 : l.length - 1 - (l.length - glog loc - 1) = glog loc := by omega
  have h2 : GF.ofNat loc = α ^ glog loc := by
    rw [← ofNat_alog _ (log_lt loc hlb), alog_log loc hlb hloc]
  rw [h1, h2, ← pow_mul, ← pow_mul, Nat.mul_comm]

theorem gf_syndromes (l : List Nat) (hl : Bytes l) (k j : Nat) (hj : j < k) :
    gf (syndromes l k) j = synd l j := by
  unfold gf syndromes synd
  rw [List.getD_eq_getElem?_getD, List.getElem?_map, List.getElem?_range hj]
  exact ofNat_syndrome l hl j

/-- correctness of the error-value computation: the values returned by `bjorckPereyra` for
pairwise distinct non-zero `roots` solve  Σ_l e_l·X_l^(j+1) = s_j  (j < v)  with X_l = 1/root_l -/
def BPCorrect : Prop :=
  ∀ (roots syn : List Nat), roots ≠ [] → roots.Nodup → (∀ r ∈ roots, r ≠ 0 ∧ r < 256) →
    roots.length ≤ syn.length → Bytes syn →
    Post (bjorckPereyra roots syn) (fun p =>
      p.1 = roots.map (gdivD 1) ∧ Bytes p.2 ∧ p.2.length = syn.length ∧
      ∀ j, j < roots.length →
        ∑ l ∈ Finset.range roots.length, gf p.2 l * gf p.1 l ^ (j + 1) = gf syn j)

/-- **(c) Björck–Pereyra is correct.** -/
theorem bjorckPereyra_correct : BPCorrect := by
  intro roots syn hne hnd hnz hlen hs
  exact bjorckPereyra_correct_of_alg
    (fun e x hinj hx0 b i hi => BP.bp_correct e x hinj hx0 b i hi) roots syn hne hnd hnz hlen hs

/-- the locator found for a block: `levinsonDurbin` returned `w ++ [1]` and the recurrence
Σ_{i ≤ v} s_{j+i}·λ_i = 0 holds on ALL windows `j = 0 … k-v-1` -/
def AllWindows (syn : List Nat) : Prop :=
  ∃ w : List Nat, levinsonDurbin syn = .ok (w ++ [1]) ∧ Bytes w ∧ 1 ≤ w.length ∧
    w.length ≤ syn.length / 2 ∧ ∀ j, j + w.length < syn.length → window syn (w ++ [1]) j = 0

/-- **One block.** If the correction of a block with syndromes `syn` succeeds, the recurrence
holds on all windows and all syndromes of the corrected block vanish. -/
theorem correctBlock_post_of_bp (hBP : BPCorrect) (dataB errB : List Nat) (errLen : Nat) (syn : List Nat)
    (hsyn : syn.length = errLen) (hs : Bytes syn) :
    Post (correctBlock dataB errB errLen syn)
      (fun p => p.1.length = dataB.length ∧ p.2.length = errB.length ∧ AllWindows syn ∧
        (Bytes dataB → Bytes errB → Bytes p.1 ∧ Bytes p.2) ∧
        ((∀ j, j < errLen → gf syn j = synd (dataB ++ errB) j) →
          ∀ j, j < errLen → synd (p.1 ++ p.2) j = 0)) := by
  subst hsyn
  unfold correctBlock
  simp only []
  rcases hld : levinsonDurbin syn with e | lam
  · exact Post_error
  have hlam := Post_val (levinsonDurbin_post syn hs) hld
  refine Safe_bind (Safe_ok ?_)
  obtain ⟨w, rfl, hw1, hwt, hwb, hwin⟩ := hlam
  obtain ⟨zero, rs, hch, hz, hnd, hnz⟩ := chienSearch_spec (w ++ [1])
  have hroots := Post_val (chienSearch_roots (w ++ [1]) (hwb.append Bytes.one)) hch
  rw [hch]
  refine Safe_bind (Safe_ok ?_)
  simp only [List.length_append, List.length_singleton, Nat.add_sub_cancel]
  refine Safe_ite (fun _ => Safe_bind Post_throw) (fun hcond => ?_)
  have hzero : zero = [] := by
    rcases hz with h | h
    · exact h
    · subst h
      exact absurd (Or.inr rfl) hcond
  subst hzero
  simp only [List.nil_append, List.length_nil, Nat.zero_add] at hcond hroots ⊢
  have hrl : rs.length = w.length := by
    apply Decidable.byContradiction
    intro h; exact hcond (Or.inl h)
  refine Safe_bind (Post_sub' fun hup => ?_)
  -- the malfunction test
  refine Safe_bind ?_
  apply Safe_mono (Safe_forIn _ _ _
    (fun (rest : List Nat) (_ : PUnit) => ∀ j, syn.length / 2 ≤ j → j < syn.length - w.length →
      j ∉ rest → window syn (w ++ [1]) j = 0)
    (fun _ => ∀ j, syn.length / 2 ≤ j → j < syn.length - w.length →
      window syn (w ++ [1]) j = 0) ?_ ?_ ?_)
  rotate_left
  · intro j h1 h2 hni
    exact absurd (by simp only [List.mem_filter, List.mem_range, decide_eq_true_eq]; omega) hni
  · intro a rest _ ha hI
    simp only [List.mem_filter, List.mem_range, decide_eq_true_eq] at ha
    refine Safe_ite (fun _ => Safe_bind Post_throw) (fun hlen => ?_)
    refine Safe_ite (fun _ => Safe_bind Post_throw) (fun hz => Safe_pure ?_)
    intro j h1 h2 hni
    by_cases hja : j = a
    · subst hja
      have h0 := Decidable.of_not_not hz
      have h3 := ofNat_dotv (syn.drop j) (w ++ [1]) (hs.drop j) (hwb.append Bytes.one)
      rw [h0] at h3
      have hmin : min (syn.drop j).length (w ++ [1]).length = (w ++ [1]).length := by
        simp only [List.length_append, List.length_singleton] at hlen ⊢; omega
      rw [hmin] at h3
      unfold window
      rw [← ofNat_zero', h3]
      apply Finset.sum_congr rfl
      intro i _
      rw [gf_drop]
    · exact hI j h1 h2 (by simp [hja, hni])
  · intro _ h j h1 h2; exact h j h1 h2 (by simp)
  intro _ hmal
  -- (a) the recurrence on all windows
  have hall : ∀ j, j + w.length < syn.length → window syn (w ++ [1]) j = 0 := by
    intro j hj
    by_cases h : j < syn.length / 2
    · exact hwin j h
    · exact hmal j (by omega) (by omega)
  -- error values
  refine Safe_bind (Safe_mono (hBP rs syn
    (by intro h; rw [h] at hrl; simp at hrl; omega) hnd hnz (by omega) hs) fun p hp => ?_)
  obtain ⟨locs, vals⟩ := p
  obtain ⟨hlocs, hvb, hvl, hbp⟩ := hp
  simp only [] at hlocs hvb hvl hbp ⊢
  rw [hrl] at hbp
  -- the locators are inverses of roots of the locator polynomial
  have hX : ∀ l, l < w.length →
      ∑ i ∈ Finset.range w.length, gf w i * gf locs l ^ i + gf locs l ^ w.length = 0 := by
    intro l hl
    have hl' : l < rs.length := by omega
    have hr := hnz _ (List.getElem_mem hl')
    have hroot : chienPoly (w ++ [1]) (GF.ofNat rs[l]) = 0 := by
      rcases hroots _ (List.getElem_mem hl') with h | h
      · exact absurd h hr.1
      · exact h
    have hloc : gf locs l = (GF.ofNat rs[l])⁻¹ := by
      unfold gf
      rw [hlocs, getD_map_gdivD rs l hl', ofNat_gdivD (by omega) hr.2 hr.1, ofNat_one, one_div]
    rw [hloc]
    exact locator_at_inverse w _ (ofNat_ne_zero hr.2 hr.1) hroot
  have hT : ∀ j, j < syn.length →
      ∑ l ∈ Finset.range w.length, gf vals l * gf locs l ^ (j + 1) = gf syn j := by
    apply recurrence_extend (gf syn) (gf w) (gf locs) (gf vals) w.length syn.length hX ?_ hbp
    intro j hj
    have := hall j hj
    rwa [window_snoc] at this
  have hlocsl : locs.length = w.length := by rw [hlocs, List.length_map, hrl]
  -- the correction
  refine Safe_bind ?_
  apply Safe_mono (Safe_forIn _ _ _
    (fun (rest : List (Nat × Nat)) (s : List Nat × List Nat) =>
      s.1.length = dataB.length ∧ s.2.length = errB.length ∧
      (Bytes dataB → Bytes errB → Bytes s.1 ∧ Bytes s.2) ∧
      ∀ j, synd (s.1 ++ s.2) j + (rest.map (corrTerm j)).sum
        = synd (dataB ++ errB) j + ((locs.zip vals).map (corrTerm j)).sum)
    (fun (s : List Nat × List Nat) =>
      s.1.length = dataB.length ∧ s.2.length = errB.length ∧
      (Bytes dataB → Bytes errB → Bytes s.1 ∧ Bytes s.2) ∧
      ∀ j, synd (s.1 ++ s.2) j
        = synd (dataB ++ errB) j + ((locs.zip vals).map (corrTerm j)).sum) ?_ ?_ ?_)
  · intro s hfin
    apply Safe_pure
    refine ⟨hfin.1, hfin.2.1, ⟨w, hld, hwb, hw1, hwt, hall⟩, hfin.2.2.1, ?_⟩
    intro hsv j hj
    rw [hfin.2.2.2 j, list_sum_zip, hlocsl, hvl, Nat.min_eq_left (by omega)]
    have : ∑ i ∈ Finset.range w.length, corrTerm j (locs.getD i 0, vals.getD i 0)
        = ∑ l ∈ Finset.range w.length, gf vals l * gf locs l ^ (j + 1) := rfl
    rw [this, hT j hj, hsv j hj]
    exact GF.add_self _
  · exact ⟨rfl, rfl, fun hd he => ⟨hd, he⟩, fun j => rfl⟩
  · intro x rest s hx hI
    obtain ⟨loc, err⟩ := x
    obtain ⟨hl1, hl2, hb12, hsum⟩ := hI
    have hmem := List.of_mem_zip hx
    have hlocm : loc ∈ rs.map (gdivD 1) := by rw [← hlocs]; exact hmem.1
    simp only [List.mem_map] at hlocm
    obtain ⟨r, hr, rfl⟩ := hlocm
    have hloc0 : gdivD 1 r ≠ 0 := gdivD_ne_zero (by decide) (hnz r hr).1
    have hlocb : gdivD 1 r < 256 := gdivD_lt _ _
    have herrb : err < 256 := hvb err hmem.2
    have hg : glogChecked (gdivD 1 r) = some (glog (gdivD 1 r)) := by
      unfold glogChecked; rw [if_neg hloc0]
    simp only [hg]
    refine Safe_ite (fun _ => Safe_bind Post_throw) (fun hin => ?_)
    have hlen12 : (s.1 ++ s.2).length = dataB.length + errB.length := by
      rw [List.length_append, hl1, hl2]
    have hupd := fun j => synd_update (s.1 ++ s.2) (gdivD 1 r) err j hloc0 hlocb (by omega)
    rw [hlen12] at hupd
    refine Safe_ite (fun hpos => Safe_pure ?_) (fun hpos => Safe_pure ?_)
    · refine ⟨by simp only [List.length_set]; exact hl1, hl2, fun hd he =>
        ⟨(hb12 hd he).1.set _ (xor_lt_256 ((hb12 hd he).1.getD _) herrb), (hb12 hd he).2⟩, ?_⟩
      intro j
      have e1 : s.1.set (dataB.length + errB.length - glog (gdivD 1 r) - 1)
            (gadd (s.1.getD (dataB.length + errB.length - glog (gdivD 1 r) - 1) 0) err) ++ s.2
          = (s.1 ++ s.2).set (dataB.length + errB.length - glog (gdivD 1 r) - 1)
            (gadd ((s.1 ++ s.2).getD (dataB.length + errB.length - glog (gdivD 1 r) - 1) 0) err) := by
        rw [List.set_append_left _ _ (by omega)]
        congr 3
        rw [List.getD_eq_getElem?_getD, List.getD_eq_getElem?_getD,
          List.getElem?_append_left (by omega)]
      simp only []
      rw [e1, hupd j, ← hsum j]
      simp only [List.map_cons, List.sum_cons]
      ring
    · refine ⟨hl1, by simp only [List.length_set]; exact hl2, fun hd he =>
        ⟨(hb12 hd he).1, (hb12 hd he).2.set _ (xor_lt_256 ((hb12 hd he).2.getD _) herrb)⟩, ?_⟩
      intro j
      have e1 : s.1 ++ s.2.set (dataB.length + errB.length - glog (gdivD 1 r) - 1 - dataB.length)
            (gadd (s.2.getD (dataB.length + errB.length - glog (gdivD 1 r) - 1 - dataB.length) 0) err)
          = (s.1 ++ s.2).set (dataB.length + errB.length - glog (gdivD 1 r) - 1)
            (gadd ((s.1 ++ s.2).getD (dataB.length + errB.length - glog (gdivD 1 r) - 1) 0) err) := by
        rw [List.set_append_right _ _ (by omega), hl1]
        congr 3
        rw [List.getD_eq_getElem?_getD, List.getD_eq_getElem?_getD,
          List.getElem?_append_right (by omega), hl1]
      simp only []
      rw [e1, hupd j, ← hsum j]
      simp only [List.map_cons, List.sum_cons]
      ring
  · intro s hI
    refine ⟨hI.1, hI.2.1, hI.2.2.1, ?_⟩
    intro j
    have := hI.2.2.2 j
    simpa using this

/-- **Soundness of `decode_gen` on one block**: whenever it answers Ok, the block it leaves behind
has zero syndromes. -/
theorem decodeBlock_sound_of_bp (hBP : BPCorrect) : BlockSound := by
  intro dB eB k hdb heb hk1 hk254 hel hdl hn d' e' h
  unfold decodeBlock at h
  rw [if_neg (by omega), if_neg (by omega)] at h
  simp only at h
  have hb : Bytes (dB ++ eB) := hdb.append heb
  split at h
  · rename_i hz
    cases h
    refine ⟨hdb, heb, rfl, rfl, ?_⟩
    rw [syndromes_eq_spec _ hb k hk254] at hz
    unfold DM.Spec.isCodeword
    unfold DM.Spec.syndromes at hz
    rw [List.all_map] at hz
    exact hz
  · have hp := Post_val (correctBlock_post_of_bp hBP dB eB k _ (length_syndromes _ _)
      (bytes_syndromes _ _)) h
    obtain ⟨h1, h2, _, h34, h5⟩ := hp
    obtain ⟨h3, h4⟩ := h34 hdb heb
    exact ⟨h3, h4, h1, h2, (isCodeword_iff _ (h3.append h4) k hk254).mpr
      (h5 (fun j hj => gf_syndromes _ hb k j hj))⟩

theorem decodeBlock_sound : BlockSound := decodeBlock_sound_of_bp bjorckPereyra_correct

/-- **(a)** After Levinson–Durbin, the Chien search and the malfunction test have succeeded (which
they have whenever `correctBlock` answers Ok), the recurrence Σ_{i ≤ v} s_{j+i}·λ_i = 0 holds on
all windows `j = 0 … k-v-1`. -/
theorem recurrence_all_windows (dataB errB syn : List Nat) (hs : Bytes syn)
    (p : List Nat × List Nat) (h : correctBlock dataB errB syn.length syn = .ok p) :
    AllWindows syn :=
  (Post_val (correctBlock_post_of_bp bjorckPereyra_correct dataB errB syn.length syn rfl hs) h).2.2.1

end DM.Lemmas.RSSound
