import DM.Lemmas.BPShape
import DM.Lemmas.BPPure
/-
Functional correctness of the Björck–Pereyra model: the imperative model computes the pure
algorithm `bpPure` of `BPPure.lean` (`bjorckPereyra_pure`), hence its result solves the
system `Σ_l v_l x_l^(j+1) = syn_j` (`bjorckPereyra_correct`).
-/
namespace DM.Lemmas.BP
set_option linter.unusedSimpArgs false
open DM.Model DM.Model.RS DM.Lemmas DM.Lemmas.RSTotal DM.Lemmas.RSTot

variable {A : String → Prop}

theorem pairwise_lt_filter_range (n : Nat) (p : Nat → Bool) :
    ((List.range n).filter p).Pairwise (· < ·) :=
  List.Pairwise.filter _ List.pairwise_lt_range

theorem pairwise_gt_filter_range_reverse (n : Nat) (p : Nat → Bool) :
    ((List.range n).filter p).reverse.Pairwise (· > ·) := by
  rw [List.pairwise_reverse]
  exact pairwise_lt_filter_range n p

/-- the state invariant of the walk: `s` is a byte list of the right length with field image `g` -/
def St (n : Nat) (g : Nat → GF) (s : List Nat) : Prop :=
  Bytes s ∧ s.length = n ∧ ∀ j, gF s j = g j

theorem bjorckPereyra_pure (roots syn : List Nat) (hne : roots ≠ []) (hnd : roots.Nodup)
    (hnz : ∀ r ∈ roots, r ≠ 0 ∧ r < 256) (hsyn : Bytes syn) (hlen : roots.length ≤ syn.length) :
    Tot NoSite (bjorckPereyra roots syn) (fun p =>
      p.1 = roots.map (gdivD 1) ∧ Bytes p.2 ∧ p.2.length = syn.length ∧
      ∀ j, gF p.2 j = bpPure (gF (roots.map (gdivD 1))) roots.length (gF syn) j) := by
  have he : roots.length ≠ 0 := by
    intro h; exact hne (List.length_eq_zero_iff.1 h)
  unfold bjorckPereyra
  simp only []
  refine Tot_bind ?_
  apply Tot_mono (invLoop_tot roots hnz)
  intro x hx
  subst hx
  refine Tot_ite (fun h => absurd h he) (fun _ => ?_)
  -- abbreviations
  generalize hX : roots.map (gdivD 1) = X
  have hXb : Bytes X := by rw [← hX]; exact bytes_map_gdivD 1 roots
  have hXlt : ∀ i, X.getD i 0 < 256 := fun i => getD_lt hXb i
  have hXne : ∀ i j, i < j → j < roots.length → X.getD i 0 ≠ X.getD j 0 := by
    intro i j hij hj
    rw [← hX]
    exact inv_distinct roots hnd hnz i j (by omega) hj hij
  have hXnz : ∀ i, i < roots.length → X.getD i 0 ≠ 0 := by
    intro i hi
    rw [← hX]
    exact inv_ne_zero roots hnz i hi
  generalize he' : roots.length = e at *
  -- stage 1
  refine Tot_bind ?_
  apply Tot_mono (Tot_forIn_range (e - 1) syn _
    (fun k s => St syn.length (s1 (gF X) e k (gF syn)) s) ⟨hsyn, rfl, fun _ => rfl⟩ ?_)
  rotate_left
  · intro k hk s hs
    refine Tot_bind ?_
    apply Tot_mono (Tot_sweep (· > ·) _ (pairwise_gt_filter_range_reverse _ _) syn.length s _
      (s1 (gF X) e k (gF syn)) (s1step (gF X) e k (s1 (gF X) e k (gF syn))) hs.1 hs.2.1 hs.2.2
      ?_ ?_)
    · intro s' hs'
      exact Tot_pure ⟨s', rfl, hs'⟩
    · intro j hj
      apply s1step_neg
      intro h
      apply hj
      simp only [List.mem_reverse, List.mem_filter, List.mem_range, decide_eq_true_eq]
      omega
    · intro a s' ha hb hn hg
      simp only [List.mem_reverse, List.mem_filter, List.mem_range, decide_eq_true_eq] at ha
      refine Tot_bind (Tot_at' (by omega) ?_)
      refine Tot_bind (Tot_at' (by omega) ?_)
      apply Tot_pure
      refine ⟨_, rfl, xor_lt_256 (getD_lt hb _) (gmul_lt' _ _), by omega, ?_⟩
      rw [gF_ofNat_xor, GF.ofNat_gmul (hXlt k) (getD_lt hb _), s1step_pos _ _ _ ⟨by omega, ha.1⟩,
        ← hg a (by omega), ← hg (a - 1) (by omega)]
      rfl
  intro s hs
  -- stage 2
  refine Tot_bind ?_
  apply Tot_mono (Tot_forIn_range_rev (e - 1) s _
    (fun i s => St syn.length
      (s2 (gF X) e (e - 1 - i) (s1 (gF X) e (e - 1) (gF syn))) s)
    (by rw [Nat.sub_self]; exact hs) ?_)
  rotate_left
  · intro k hk s hs
    have e1 : e - 1 - k = (e - 2 - k) + 1 := by omega
    have e2 : e - 1 - (k + 1) = e - 2 - k := by omega
    have e3 : e - 2 - (e - 2 - k) = k := by omega
    rw [e2] at hs
    generalize hg0 : s2 (gF X) e (e - 2 - k) (s1 (gF X) e (e - 1) (gF syn)) = g0 at hs
    have hstep : s2 (gF X) e (e - 1 - k) (s1 (gF X) e (e - 1) (gF syn)) =
        s2b e k (s2a (gF X) e k g0) := by
      rw [e1, ← hg0]
      show s2b e (e - 2 - (e - 2 - k)) (s2a (gF X) e (e - 2 - (e - 2 - k)) _) = _
      rw [e3]
    rw [hstep]
    -- part (a)
    refine Tot_bind ?_
    apply Tot_mono (Tot_sweep (· < ·) _ (pairwise_lt_filter_range _ _) syn.length s _
      g0 (s2a (gF X) e k g0) hs.1 hs.2.1 hs.2.2 ?_ ?_)
    rotate_left
    · intro j hj
      apply s2a_neg
      intro h
      apply hj
      simp only [List.mem_filter, List.mem_range, decide_eq_true_eq]
      omega
    · intro a s' ha hb hn hg
      simp only [List.mem_filter, List.mem_range, decide_eq_true_eq] at ha
      have hd : gadd (X.getD a 0) (X.getD (a - k - 1) 0) ≠ 0 :=
        xor_ne_zero (hXne (a - k - 1) a (by omega) ha.1).symm
      refine Tot_bind (Tot_at' (by omega) ?_)
      refine Tot_bind (Tot_div' hd ?_)
      apply Tot_pure
      refine ⟨_, rfl, gdivD_lt _ _, by omega, ?_⟩
      rw [ofNat_gdivD (getD_lt hb _) (xor_lt_256 (hXlt _) (hXlt _)) hd, gF_ofNat_xor,
        s2a_pos _ _ _ ⟨by omega, ha.1⟩, ← hg a (by omega)]
      rfl
    intro s1' hs1
    -- part (b)
    refine Tot_bind ?_
    apply Tot_mono (Tot_sweep (· < ·) _ (pairwise_lt_filter_range _ _) syn.length s1' _
      (s2a (gF X) e k g0) (s2b e k (s2a (gF X) e k g0)) hs1.1 hs1.2.1 hs1.2.2 ?_ ?_)
    · intro s' hs'
      exact Tot_pure ⟨s', rfl, hs'⟩
    · intro j hj
      apply s2b_neg
      intro h
      apply hj
      simp only [List.mem_filter, List.mem_range, decide_eq_true_eq]
      omega
    · intro a s' ha hb hn hg
      simp only [List.mem_filter, List.mem_range, decide_eq_true_eq] at ha
      refine Tot_bind (Tot_at' (by omega) ?_)
      refine Tot_bind (Tot_at' (by omega) ?_)
      apply Tot_pure
      refine ⟨_, rfl, xor_lt_256 (getD_lt hb _) (getD_lt hb _), by omega, ?_⟩
      rw [gF_ofNat_xor, s2b_pos _ _ ⟨ha.2, by omega⟩, ← hg a (by omega), ← hg (a + 1) (by omega)]
      rfl
  intro s hs
  rw [Nat.sub_zero] at hs
  -- stage 3
  refine Tot_bind ?_
  apply Tot_mono (Tot_sweep (· < ·) _ List.pairwise_lt_range syn.length s _
    _ (s3 (gF X) e (s2 (gF X) e (e - 1) (s1 (gF X) e (e - 1) (gF syn)))) hs.1 hs.2.1 hs.2.2 ?_ ?_)
  rotate_left
  · intro j hj
    apply s3_neg
    simpa using hj
  · intro a s' ha hb hn hg
    simp only [List.mem_range] at ha
    refine Tot_bind (Tot_at' (by omega) ?_)
    refine Tot_bind (Tot_div' (hXnz a ha) ?_)
    apply Tot_pure
    refine ⟨_, rfl, gdivD_lt _ _, by omega, ?_⟩
    rw [ofNat_gdivD (getD_lt hb _) (hXlt _) (hXnz a ha), s3_pos _ _ _ ha, ← hg a (by omega)]
    rfl
  intro s hs
  exact Tot_pure ⟨rfl, hs.1, hs.2.1, hs.2.2⟩

theorem bjorckPereyra_correct (roots syn : List Nat) (hne : roots ≠ []) (hnd : roots.Nodup)
    (hnz : ∀ r ∈ roots, r ≠ 0 ∧ r < 256) (hsyn : Bytes syn) (hlen : roots.length ≤ syn.length) :
    Tot NoSite (bjorckPereyra roots syn) (fun p =>
      p.1 = roots.map (gdivD 1) ∧ Bytes p.2 ∧ p.2.length = syn.length ∧
      ∀ j, j < roots.length →
        ∑ l ∈ Finset.range roots.length, gF p.2 l * gF p.1 l ^ (j + 1) = gF syn j) := by
  apply Tot_mono (bjorckPereyra_pure roots syn hne hnd hnz hsyn hlen)
  intro p hp
  obtain ⟨h1, h2, h3, h4⟩ := hp
  refine ⟨h1, h2, h3, ?_⟩
  intro j hj
  have hXb : Bytes (roots.map (gdivD 1)) := bytes_map_gdivD 1 roots
  rw [h1]
  rw [← bpPure_correct (gF (roots.map (gdivD 1))) roots.length ?_ ?_ (gF syn) j hj]
  · apply Finset.sum_congr rfl
    intro l _
    rw [h4 l]
  · intro i j hij hj h
    exact inv_distinct roots hnd hnz i j (by omega) hj hij
      (ofNat_inj (getD_lt hXb i) (getD_lt hXb j) h)
  · intro i hi h
    exact inv_ne_zero roots hnz i hi ((GF.ofNat_eq_zero (getD_lt hXb i)).1 h)

end DM.Lemmas.BP
