import DM.Lemmas.MainRT
import DM.Props.C15
/-
The decoder only ever appends to its list of ECI spans (`mainLoop_frame`), and an ECI designator in
ASCII mode is stepped over with the span recorded (`eci_step`).  Together with the encoder/decoder
simulation of Lemmas/MainRT this gives the round trip behind an ECI designator (`eci_parts`).
-/
namespace DM.Lemmas.EciFrame
open DM.Model DM.Model.Dec DM.Gen DM.Lemmas DM.Lemmas.DecRun

def addEcis (E : List (Nat × Nat)) (st : DSt) : DSt := { st with ecis := E ++ st.ecis }

def liftE {α : Type} (E : List (Nat × Nat)) : R (DSt × α) → R (DSt × α)
  | .error e => .error e
  | .ok (st, m) => .ok (addEcis E st, m)

@[simp] theorem liftE_error {α : Type} (E : List (Nat × Nat)) (e : DErr) : liftE (α := α) E (.error e) = .error e := rfl
@[simp] theorem liftE_ok {α : Type} (E : List (Nat × Nat)) (st : DSt) (m : α) : liftE E (.ok (st, m)) = .ok (addEcis E st, m) := rfl

theorem decodeAscii_frame (E : List (Nat × Nat)) (rest : List Nat) : ∀ (eaten : Nat) (out : List Nat)
    (ecis : List (Nat × Nat)) (upper : Bool) (skip : Nat),
    decodeAscii rest eaten out (E ++ ecis) upper skip = liftE E (decodeAscii rest eaten out ecis upper skip) := by
  induction rest with
  | nil =>
    intro eaten out ecis upper skip
    simp only [decodeAscii, apply_ite (liftE E), liftE_error, liftE_ok, addEcis]
  | cons ch t ih =>
    intro eaten out ecis upper skip
    rcases h1 : addU8 "ascii upper shift ch + 127" ch 127 with e1 | v1 <;>
    rcases h2 : checkPads t (eaten + 1) with e2 | v2 <;>
    rcases h3 : readEci t with e3 | ⟨eci, used⟩ <;>
    simp only [decodeAscii, h1, h2, h3, apply_ite (liftE E), liftE_error, liftE_ok, ih, addEcis, List.append_assoc]

def liftS (E : List (Nat × Nat)) : R DSt → R DSt
  | .error e => .error e
  | .ok st => .ok (addEcis E st)

/-- **ECI frame property of the decoder**: designators seen earlier are only carried along -/
theorem mainLoop_frame (E : List (Nat × Nat)) : ∀ (f : Nat) (m : DMode) (st : DSt),
    mainLoop f m (addEcis E st) = liftS E (mainLoop f m st) := by
  intro f
  induction f with
  | zero => intro m st; rfl
  | succ f ih =>
    intro m st
    unfold mainLoop
    have hr : (addEcis E st).rest = st.rest := rfl
    rw [hr]
    by_cases he : st.rest.isEmpty
    · simp only [he, if_true]; rfl
    · simp only [he, Bool.false_eq_true, ↓reduceIte]
      cases m with
      | ascii =>
        simp only
        have : (addEcis E st).ecis = E ++ st.ecis := rfl
        rw [this, show (addEcis E st).eaten = st.eaten from rfl, show (addEcis E st).out = st.out from rfl,
          decodeAscii_frame]
        cases decodeAscii st.rest st.eaten st.out st.ecis false 0 with
        | error e => rfl
        | ok p => obtain ⟨st', m'⟩ := p; simp only [liftE_ok]; exact ih m' st'
      | base256 =>
        simp only
        rw [show (addEcis E st).eaten = st.eaten from rfl, show (addEcis E st).out = st.out from rfl]
        cases decodeBase256 st.rest st.eaten st.out with
        | error e => rfl
        | ok p => obtain ⟨r, e, o⟩ := p; exact ih .ascii { st with rest := r, eaten := e, out := o }
      | x12 =>
        simp only
        rw [show (addEcis E st).eaten = st.eaten from rfl, show (addEcis E st).out = st.out from rfl]
        cases decodeX12 st.rest st.eaten st.out with
        | error e => rfl
        | ok p => obtain ⟨r, e, o⟩ := p; exact ih .ascii { st with rest := r, eaten := e, out := o }
      | edifact =>
        simp only
        rw [show (addEcis E st).eaten = st.eaten from rfl, show (addEcis E st).out = st.out from rfl]
        exact ih .ascii { st with rest := (decodeEdifact st.rest.length st.rest st.eaten st.out).1,
                                  eaten := (decodeEdifact st.rest.length st.rest st.eaten st.out).2.1,
                                  out := (decodeEdifact st.rest.length st.rest st.eaten st.out).2.2 }
      | c40 =>
        simp only
        rw [show (addEcis E st).eaten = st.eaten from rfl, show (addEcis E st).out = st.out from rfl]
        cases decodeC40 baseC40 shift3C40 st.rest st.eaten st.out { shift := 0, upper := false } with
        | error e => rfl
        | ok p => obtain ⟨r, e, o⟩ := p; exact ih .ascii { st with rest := r, eaten := e, out := o }
      | text =>
        simp only
        rw [show (addEcis E st).eaten = st.eaten from rfl, show (addEcis E st).out = st.out from rfl]
        cases decodeC40 baseText shift3Text st.rest st.eaten st.out { shift := 0, upper := false } with
        | error e => rfl
        | ok p => obtain ⟨r, e, o⟩ := p; exact ih .ascii { st with rest := r, eaten := e, out := o }

theorem decRun_frame (E : List (Nat × Nat)) (m : DMode) (st : DSt) :
    decRun m (addEcis E st) = liftS E (decRun m st) := mainLoop_frame E _ m st


theorem decodeAscii_skip (D R : List Nat) : ∀ (eaten : Nat) (out : List Nat) (ecis : List (Nat × Nat)) (upper : Bool),
    decodeAscii (D ++ R) eaten out ecis upper D.length = decodeAscii R (eaten + D.length) out ecis upper 0 := by
  induction D with
  | nil => intro eaten out ecis upper; rfl
  | cons d D ih =>
    intro eaten out ecis upper
    simp only [List.cons_append, List.length_cons, decodeAscii]
    rw [if_pos (by omega), Nat.add_sub_cancel, ih]
    congr 1
    omega

/-- an ECI designator in ASCII mode: the decoder records the span and goes on behind it -/
theorem eci_step (D R : List Nat) (e k : Nat) (out : List Nat) (E : List (Nat × Nat))
    (hread : readEci (D ++ R) = .ok (e, D.length)) :
    decRun .ascii { rest := 241 :: (D ++ R), eaten := k, out := out, ecis := E } =
    decRun .ascii { rest := R, eaten := k + 1 + D.length, out := out, ecis := E ++ [(out.length, e)] } := by
  rw [decRun_ascii _ (by simp)]
  simp only [decodeAscii, hread, Nat.reduceLeDiff, Nat.reduceEqDiff, ne_eq, not_true_eq_false, Bool.false_eq_true,
    false_and, and_false, ↓reduceIte]
  rw [decodeAscii_skip]
  cases R with
  | nil =>
    rw [decRun_nil .ascii { rest := [], eaten := k + 1 + D.length, out := out, ecis := E ++ [(out.length, e)] } rfl]
    simp only [decodeAscii, ne_eq, not_true_eq_false, Bool.false_eq_true, ↓reduceIte]
    rw [decRun_nil _ _ rfl]
  | cons c R =>
    rw [decRun_ascii { rest := c :: R, eaten := k + 1 + D.length, out := out, ecis := E ++ [(out.length, e)] } (by simp)]


open DM.Model.Enc DM.Lemmas.C40Gen DM.Lemmas.MainRT DM.Spec in
/-- **Round trip behind an ECI designator** (`encode_eci` with any ECI number): the decoder
returns the message bytes and one span, starting at byte 0, with that number. -/
theorem eci_parts (n : Nat) (hn : n ≤ 999999) (raw : Bool) (list : List Sym) (body cw : List Nat)
    (plan : List (Nat × EMode)) (sym : Sym) (hb : ByteList body) (hplan : PlanOK plan)
    (h : run list (241 :: Eci.designator n) body plan = .ok (cw, sym)) :
    decodeParts cw raw = .ok { output := body, ecis := [(0, n)], fnc1 := false } := by
  obtain ⟨hpfx, _, e', hdec⟩ := run_decRun (241 :: Eci.designator n) [] list body cw plan sym hb hplan h
  have hcw : cw = 241 :: (Eci.designator n ++ cw.drop (241 :: Eci.designator n).length) := by
    conv => lhs; rw [← List.take_append_drop (241 :: Eci.designator n).length cw, hpfx]
    rfl
  generalize cw.drop (241 :: Eci.designator n).length = R at hcw hdec
  subst hcw
  rw [decodeParts_other _ raw (fun t => ⟨by simp, by simp⟩),
    partsBody_no232 raw [] _ 0 false (fun t ht => by simp at ht)]
  simp only [Bool.and_false, Bool.false_eq_true, ↓reduceIte]
  have hrun : mainLoop (2 * (241 :: (Eci.designator n ++ R)).length + 2) .ascii
      { rest := 241 :: (Eci.designator n ++ R), eaten := 0, out := [], ecis := [] }
      = decRun .ascii { rest := 241 :: (Eci.designator n ++ R), eaten := 0, out := [], ecis := [] } := rfl
  rw [hrun, eci_step _ _ n 0 [] [] (DM.Props.C15.read_write_eci n hn R)]
  have hframe := decRun_frame [(0, n)] .ascii
    { rest := R, eaten := (241 :: Eci.designator n).length, out := [], ecis := [] }
  have e1 : addEcis [(0, n)] { rest := R, eaten := (241 :: Eci.designator n).length, out := [], ecis := [] }
      = { rest := R, eaten := 0 + 1 + (Eci.designator n).length, out := [], ecis := [] ++ [(([] : List Nat).length, n)] } := by
    simp [addEcis]; omega
  rw [e1, hdec] at hframe
  rw [hframe]
  simp [liftS, addEcis, partsFinish]

end DM.Lemmas.EciFrame
