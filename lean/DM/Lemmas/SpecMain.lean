import DM.Lemmas.SpecAscii
import DM.Lemmas.SpecB256
import DM.Lemmas.SpecFuel
/-
The invariant of the encoder's main loop against the reference decoder (`DM.Spec.Stream`), as the
frame into which the mode encoders are plugged: `SMI` / `SInv`, the interface `ModeStep`, its proof
for the ASCII encoder and for the Base 256 encoder (both under arbitrary plans), the main loop
(`mainLoop_SInv`) and the whole run up to the padding (`run_spec`).
-/
namespace DM.Lemmas.SpecMain
open DM.Model DM.Lemmas DM.Lemmas.AsciiRT DM.Lemmas.SpecStep DM.Lemmas.SpecAscii DM.Lemmas.SpecB256 DM.Lemmas.Complete
open DM.Lemmas.EncRT DM.Lemmas.C40Gen DM.Lemmas.B256Gen DM.Lemmas.PlanProv DM.Lemmas.MainRT DM.Spec.Stream

/-! ### the decoder side -/

/-- the observable part of a decoder state: position, output, trace, latches; no ECI, no pad met -/
structure DAt (sD : St) (i : Nat) (out : List Nat) (tr : List Mode) (lat : List (Nat × Mode)) : Prop where
  i : sD.i = i
  out : sD.out = out.toArray
  trace : sD.trace = tr.toArray
  latches : sD.latches = lat.toArray
  ecis : sD.ecis = #[]
  padAt : sD.padAt = none

theorem dAt_init (i0 : Nat) : DAt ({ i := i0 } : St) i0 [] [] [] := ⟨rfl, rfl, rfl, rfl, rfl, rfl⟩

theorem toArray_replicate (n : Nat) (m : Mode) (tr : List Mode) :
    tr.toArray ++ Array.replicate n m = (tr ++ List.replicate n m).toArray := by
  apply Array.ext'; simp

/-- an ASCII stretch behind a correctly read prefix -/
theorem dec_ascii (cw : Array Nat) (i0 k L : Nat) (sD : St) (out : List Nat) (tr : List Mode) (lat : List (Nat × Mode))
    (X chunk : List Nat) (hs : Steps cw k { i := i0 } sD) (hat : DAt sD L out tr lat) (hm : sD.mode = .ascii)
    (ho : Occurs cw L X)
    (hseg : ∀ (cw : Array Nat) (s : St), s.mode = .ascii → Occurs cw s.i X →
      ∃ k, k ≤ X.length ∧ Steps cw k s (emit s X.length chunk .ascii)) :
    ∃ k' sD', k' ≤ k + X.length ∧ Steps cw k' { i := i0 } sD' ∧
      DAt sD' (L + X.length) (out ++ chunk) (tr ++ List.replicate chunk.length .ascii) lat ∧ sD'.mode = .ascii := by
  obtain ⟨k2, hk2, hs2⟩ := hseg cw sD hm (by rw [hat.i]; exact ho)
  refine ⟨k + k2, emit sD X.length chunk .ascii, by omega, hs.trans hs2, ?_, by simpa using hm⟩
  refine ⟨by simp [hat.i], ?_, ?_, hat.latches, hat.ecis, hat.padAt⟩
  · simp [emit, hat.out]
  · simp only [emit, hat.trace]; exact toArray_replicate _ _ _

/-- a Base 256 stretch (latch, length field, data) behind a correctly read prefix -/
theorem dec_b256 (cw : Array Nat) (i0 k L : Nat) (sD : St) (out : List Nat) (tr : List Mode) (lat : List (Nat × Mode))
    (chunk : List Nat) (toEnd : Bool) (hs : Steps cw k { i := i0 } sD) (hat : DAt sD L out tr lat) (hm : sD.mode = .ascii)
    (hb : ByteList chunk)
    (ho : Occurs cw L ([231] ++ randFrom (L + 2) (b256Hdr chunk toEnd ++ chunk)))
    (hok : if toEnd then cw.size = L + 2 + chunk.length else (1 ≤ chunk.length ∧ chunk.length ≤ 1555)) :
    ∃ sD', Steps cw (k + 2) { i := i0 } sD' ∧
      DAt sD' (L + (1 + (b256Hdr chunk toEnd).length + chunk.length)) (out ++ chunk)
        (tr ++ List.replicate chunk.length .base256) (lat ++ [(L, .base256)]) ∧ sD'.mode = .ascii := by
  have h2 := steps_b256 cw sD chunk toEnd hm hb (by rw [hat.i]; exact ho) (by rw [hat.i]; exact hok)
  refine ⟨_, hs.trans h2, ?_, rfl⟩
  refine ⟨by simp [afterB256, hat.i], ?_, ?_, ?_, hat.ecis, hat.padAt⟩
  · simp [afterB256, hat.out]
  · simp only [afterB256, hat.trace]; exact toArray_replicate _ _ _
  · simp [afterB256, hat.latches, hat.i]

/-- the states the main loop can still go through: `Reach s sE` = from `s` the loop ends in `sE` -/
inductive Reach : Enc.St → Enc.St → Prop
  | done (s : Enc.St) : s.hasMore = false → Reach s s
  | step (s s' sE : Enc.St) : s.hasMore = true → Enc.encodeMode (latched s) = .ok s' → Reach s' sE → Reach s sE

theorem drop_append_le (i0 : Nat) (cw Y : List Nat) (h : i0 ≤ cw.length) : (cw ++ Y).drop i0 = cw.drop i0 ++ Y :=
  List.drop_append_of_le_length h

/-! ### the invariant -/

/-- **The invariant of the main loop against the reference decoder.** `i0` is the position behind
the header codewords (where `decode` starts the run), `P` a property of the carrying modes met so
far. `room = none`: the ordinary situation — on *every* stream that begins with the codewords
written so far the reference decoder, started at `i0`, consumes exactly these codewords, is in
ASCII mode and has produced `body[0..s.pos)`. `room = some r`: the encoder has committed itself to
ASCII until the end and to a symbol with exactly `r` more data codewords than are written; the
decoder's behaviour is only claimed on streams of that size whose next codeword is not the
UNLATCH codeword 254 (the endings without UNLATCH of C40 / Text / X12 / EDIFACT, and the "to the
end of the symbol" form of Base 256, `r = 0`). `room = some 0` with no data left is the situation
"done": nothing is claimed about the encoder's mode then, and the decoder may end in any mode.
`lo` is a lower bound for the number of codewords that still follow, for decoders that look ahead
(EDIFACT reads its UNLATCH only if at least three codewords are left): the decoder's behaviour is
claimed on streams with at least `lo` more codewords, and `low` says that every way the main loop
can still take ends in a symbol with that many more data codewords. -/
structure SMI (P : Mode → Prop) (list : List Sym) (i0 : Nat) (pre body : List Nat) (s : Enc.St)
    (room : Option Nat) (lo : Nat) (tr : List Mode) (lat : List (Nat × Mode)) : Prop where
  inp : s.input = body
  lst : s.list = list
  le : s.pos ≤ body.length
  i0le : i0 ≤ s.cw.length
  pfx : s.cw.take i0 = pre
  hd : HeadOK (s.cw.drop i0)
  /-- the pending latch is the latch of the current mode -/
  ctl : (room = some 0 ∧ s.hasMore = false) ∨ s.newMode = s.mode.latch
  more : s.newMode ≠ none → s.hasMore = true
  trlen : tr.length = s.pos
  trP : ∀ m ∈ tr, P m
  latP : ∀ l ∈ lat, P l.2 ∧ l.2 ≠ .ascii ∧ i0 ≤ l.1 ∧ l.1 < s.cw.length
  closing : ∀ r, room = some r → ((r = 0 ∧ s.hasMore = false) ∨ (s.mode = .ascii ∧ s.plan = [(0, .ascii)])) ∧
    ∃ S, firstBigEnough list (s.cw.length + Enc.asciiSize (body.drop s.pos)) = some S ∧ dataCw S = s.cw.length + r
  low : lo ≠ 0 → ∀ sE S, Reach s sE → firstBigEnough list sE.cw.length = some S → s.cw.length + lo ≤ dataCw S
  dec : ∀ cw : Array Nat, Occurs cw 0 s.cw → s.cw.length + lo ≤ cw.size →
    (∀ r, room = some r → cw.size = s.cw.length + r ∧ cw[s.cw.length]? ≠ some 254) →
    ∃ k sD, k ≤ 2 * (s.cw.length - i0) ∧ Steps cw k { i := i0 } sD ∧ DAt sD s.cw.length (body.take s.pos) tr lat ∧
      (sD.mode = .ascii ∨ (room = some 0 ∧ s.hasMore = false))

def SInv (P : Mode → Prop) (list : List Sym) (i0 : Nat) (pre body : List Nat) (s : Enc.St) : Prop :=
  ∃ room lo tr lat, SMI P list i0 pre body s room lo tr lat

/-- **The interface for a mode encoder**: one call of the encoder for mode `m` from the main loop
(after the pending latch has been written, `EncRT.latched`) preserves the invariant. `Q` is any
property of the control part (plan, mode, pending latch) of the encoder state that is `Closed`
(`PlanProv`), for side conditions on the plan; `mainLoop_SInv` keeps it along the loop. -/
def ModeStep (P : Mode → Prop) (Q : Key → Prop) (m : Enc.EMode) : Prop :=
  ∀ (list : List Sym) (i0 : Nat) (pre body : List Nat) (s s' : Enc.St), ByteList body → SInv P list i0 pre body s →
    Q (key s) → s.hasMore = true → s.mode = m → Enc.encodeMode (latched s) = .ok s' → SInv P list i0 pre body s'

theorem sInv_init (P : Mode → Prop) (list : List Sym) (pre body : List Nat) (plan : List (Nat × Enc.EMode)) :
    SInv P list pre.length pre body
      { input := body, pos := 0, mode := .ascii, plan := plan, newMode := none, cw := pre, list := list } := by
  refine ⟨none, 0, [], [], rfl, rfl, Nat.zero_le _, Nat.le_refl _, by simp, by intro c hc; simp at hc, Or.inr rfl,
    fun h => absurd rfl h, rfl, by simp, by simp, by simp, fun h => absurd rfl h, ?_⟩
  intro cw _ _ _
  exact ⟨0, _, Nat.zero_le _, Steps.refl cw _, by simpa using dAt_init pre.length, Or.inl rfl⟩

theorem occurs_zero_left {cw : Array Nat} {A B : List Nat} (h : Occurs cw 0 (A ++ B)) : Occurs cw 0 A := h.left

theorem occurs_zero_right {cw : Array Nat} {A B : List Nat} (h : Occurs cw 0 (A ++ B)) : Occurs cw A.length B := by
  simpa using h.right

/-! ### the ASCII encoder preserves the invariant -/

theorem ctl_of_exit (s s' : Enc.St) (hnm : s.newMode = none) (hm : s.mode = .ascii) (he : Exit s s') :
    s'.newMode = s'.mode.latch ∧ (s'.newMode ≠ none → s'.hasMore = true) := by
  rcases he with ⟨a1, a2, a3⟩ | ⟨a1, a2, _, a4⟩
  · refine ⟨by rw [a3, a2, hnm, hm]; rfl, fun h => absurd (a3.trans hnm) h⟩
  · refine ⟨?_, fun _ => a2⟩
    rw [a4, hnm]
    cases s'.mode.latch <;> rfl

theorem step_ascii (P : Mode → Prop) (Q : Key → Prop) (hP : P .ascii) : ModeStep P Q .ascii := by
  intro list i0 pre body s s' hb ⟨room, lo, tr, lat, mi⟩ _ hmore hmode h
  have h0 := h
  have hnm : s.newMode = none := by
    rcases mi.ctl with ⟨_, hf⟩ | hc
    · rw [hmore] at hf; cases hf
    · rw [hc, hmode]; rfl
  have hl : latched s = s := by simp [latched, hnm]
  rw [hl] at h
  simp only [Enc.encodeMode, hmode] at h
  have hrest : s.rest = body.drop s.pos := by simp [Enc.St.rest, mi.inp]
  cases room with
  | none =>
    obtain ⟨X, c1, c2, c3, c4, c5, c6⟩ := asciiLoop_specGen _ s s' h (by rw [mi.inp]; exact hb)
    have hin' : s'.input = body := c4.1.trans mi.inp
    have hle' : s'.pos ≤ body.length := by
      have := asciiLoop_pos_le _ s s' h (by rw [mi.inp]; exact mi.le)
      rw [mi.inp] at this
      exact this
    obtain ⟨hctl, hmore'⟩ := ctl_of_exit s s' hnm hmode c6
    have hlenchunk : ((s.input.drop s.pos).take (s'.pos - s.pos)).length = s'.pos - s.pos := by
      rw [mi.inp, List.length_take, List.length_drop]; omega
    have hchunk : body.take s'.pos = body.take s.pos ++ (s.input.drop s.pos).take (s'.pos - s.pos) := by
      rw [mi.inp]
      have : s'.pos = s.pos + (s'.pos - s.pos) := by omega
      conv => lhs; rw [this, List.take_add]
    have hXhd : HeadOK X := by
      intro c hc
      cases X with
      | nil => simp at hc
      | cons x t =>
        simp only [List.head?_cons, Option.mem_def, Option.some.injEq] at hc
        subst hc
        have := c2.1 x (by simp)
        exact ⟨this.2.2.1, this.2.2.2.1, this.2.2.2.2⟩
    refine ⟨none, lo - X.length, tr ++ List.replicate (s'.pos - s.pos) .ascii, lat, hin', c4.2.trans mi.lst, hle',
      by rw [c1, List.length_append]; have := mi.i0le; omega,
      by rw [c1, List.take_append_of_le_length mi.i0le]; exact mi.pfx,
      by rw [c1, drop_append_le i0 s.cw _ mi.i0le]; exact headOK_append mi.hd hXhd,
      Or.inr hctl, hmore', by rw [List.length_append, List.length_replicate, mi.trlen]; omega, ?_, ?_,
      fun r hr => (by cases hr), ?_, ?_⟩
    · intro m hm
      rcases List.mem_append.mp hm with hm | hm
      · exact mi.trP m hm
      · rw [(List.mem_replicate.mp hm).2]; exact hP
    · intro l hl
      obtain ⟨a, a', b, c⟩ := mi.latP l hl
      exact ⟨a, a', b, by rw [c1, List.length_append]; omega⟩
    · intro hlo sE S hr hS
      have := mi.low (by omega) sE S (Reach.step s s' sE hmore h0 hr) hS
      rw [c1, List.length_append]; omega
    · intro cw ho hsize _
      rw [c1] at ho
      rw [c1, List.length_append] at hsize
      obtain ⟨k, sD, hk, hs, hat, hmD⟩ := mi.dec cw (occurs_zero_left ho) (by omega) (fun r hr => by cases hr)
      have hmD' : sD.mode = .ascii := by
        rcases hmD with h | ⟨h, _⟩
        · exact h
        · cases h
      obtain ⟨k', sD', hk', hs', hat', hm'⟩ := dec_ascii cw i0 k s.cw.length sD _ tr lat X _ hs hat hmD'
        (occurs_zero_right ho) c2.2
      refine ⟨k', sD', ?_, hs', ?_, Or.inl hm'⟩
      · rw [c1, List.length_append]; have := mi.i0le; omega
      · rw [c1, List.length_append, hchunk]
        rw [hlenchunk] at hat'
        exact hat'
  | some r =>
    obtain ⟨hcl, S, hS, hcap⟩ := mi.closing r rfl
    have hplan : s.plan = [(0, .ascii)] := by
      rcases hcl with ⟨_, hf⟩ | ⟨_, hp⟩
      · rw [hmore] at hf; cases hf
      · exact hp
    rw [DM.Lemmas.X12RT.asciiLoop_rest s hplan hmode (by rw [mi.inp]; exact mi.le)] at h
    simp only [Except.ok.injEq] at h
    subst h
    have hrb : ByteList (body.drop s.pos) := hb.drop _
    have haszlen : (asciiEnc (body.drop s.pos)).length = Enc.asciiSize (body.drop s.pos) :=
      asciiEnc_length _ _ (Nat.le_refl _)
    have hSle := DM.Lemmas.X12RT.firstBigEnough_le _ _ _ hS
    have hXhd : HeadOK (asciiEnc (body.drop s.pos)) := by
      intro c hc
      have := asciiEnc_head _ hrb c hc
      omega
    have hlenrest : (body.drop s.pos).length = body.length - s.pos := by simp
    refine ⟨some (r - Enc.asciiSize (body.drop s.pos)), lo - Enc.asciiSize (body.drop s.pos),
      tr ++ List.replicate (body.length - s.pos) .ascii, lat,
      mi.inp, mi.lst, by simp [mi.inp], by simp only [List.length_append]; have := mi.i0le; omega,
      by simp only []; rw [List.take_append_of_le_length mi.i0le]; exact mi.pfx,
      by simp only [hrest]; rw [drop_append_le i0 s.cw _ mi.i0le]; exact headOK_append mi.hd hXhd,
      Or.inr (by simp only [hmode]; exact hnm), fun hne => absurd hnm hne,
      by simp only [List.length_append, List.length_replicate, mi.trlen, mi.inp]; have := mi.le; omega, ?_, ?_, ?_, ?_, ?_⟩
    · intro m hm
      rcases List.mem_append.mp hm with hm | hm
      · exact mi.trP m hm
      · rw [(List.mem_replicate.mp hm).2]; exact hP
    · intro l hl
      obtain ⟨a, a', b, c⟩ := mi.latP l hl
      exact ⟨a, a', b, by simp only [List.length_append]; omega⟩
    · intro r' hr'
      simp only [Option.some.injEq] at hr'
      subst hr'
      refine ⟨Or.inr ⟨hmode, hplan⟩, S, ?_, ?_⟩
      · simp only [hrest, mi.inp, List.length_append, haszlen, List.drop_length, Enc.asciiSize, Nat.add_zero]
        exact hS
      · simp only [hrest, List.length_append, haszlen]; omega
    · intro hlo sE S' hr hS'
      have := mi.low (by omega) sE S' (Reach.step s _ sE hmore h0 hr) hS'
      simp only [hrest, List.length_append, haszlen]; omega
    · intro cw ho hsize hsz
      simp only [hrest] at ho hsz hsize
      simp only [List.length_append, haszlen] at hsize
      obtain ⟨hsz', hnext⟩ := hsz _ rfl
      simp only [List.length_append, haszlen] at hsz'
      have hnext' : cw[s.cw.length]? ≠ some 254 := by
        cases he : asciiEnc (body.drop s.pos) with
        | nil => rw [he] at hnext; simpa using hnext
        | cons x t =>
          have h1 := occurs_zero_right ho
          rw [he] at h1
          rw [h1.head]
          have := asciiEnc_head _ hrb x (by rw [he]; simp)
          intro hx
          simp only [Option.some.injEq] at hx
          omega
      obtain ⟨k, sD, hk, hs, hat, hmD⟩ := mi.dec cw (occurs_zero_left ho) (by omega) (fun r' hr' => by
        simp only [Option.some.injEq] at hr'; subst hr'; exact ⟨by omega, hnext'⟩)
      have hpos : s.pos < body.length := by
        have := of_decide_eq_true hmore
        rw [mi.inp] at this
        exact this
      have hmD' : sD.mode = .ascii := by
        rcases hmD with h | ⟨_, h⟩
        · exact h
        · rw [hmore] at h; cases h
      obtain ⟨k', sD', hk', hs', hat', hm'⟩ := dec_ascii cw i0 k s.cw.length sD _ tr lat (asciiEnc (body.drop s.pos))
        (body.drop s.pos) hs hat hmD' (occurs_zero_right ho)
        (fun cw s hm ho => steps_asciiEnc cw _ _ (Nat.le_refl _) hrb s hm ho)
      refine ⟨k', sD', ?_, hs', ?_, Or.inl hm'⟩
      · simp only [hrest, List.length_append]; have := mi.i0le; omega
      · simp only [hrest, List.length_append, mi.inp, List.take_length]
        rw [List.take_append_drop, hlenrest] at hat'
        exact hat'

/-! ### the Base 256 encoder, any plan, from any position -/

/-- what `base256::encode` leaves behind (`B256Gen.BEnd` without any condition on the plan) -/
structure BEndS (list : List Sym) (body : List Nat) (p0 : Nat) (c0 : List Nat) (s' : Enc.St) : Prop where
  out : ∃ (p : Nat) (toEnd : Bool), p0 < p ∧ p ≤ body.length ∧
    s'.cw = c0 ++ [231] ++ randFrom (c0.length + 2) (b256Hdr (seg body p0 p) toEnd ++ seg body p0 p) ∧
    s'.pos = p ∧ s'.input = body ∧ s'.list = list ∧
    (toEnd = true → p = body.length ∧ ∃ S, firstBigEnough list s'.cw.length = some S ∧ dataCw S = s'.cw.length) ∧
    (toEnd = false → (seg body p0 p).length ≤ 1555) ∧
    ((s'.mode = .ascii ∧ s'.plan = [(0, .ascii)] ∧ s'.newMode = none ∧ p = body.length) ∨
     (toEnd = false ∧ s'.hasMore = true ∧ s'.newMode = s'.mode.latch))

theorem b256Loop_specGen (list : List Sym) (body : List Nat) (hb : ByteList body) (p0 : Nat) (c0 : List Nat) :
    ∀ (n f : Nat) (s s' : Enc.St), body.length - s.pos = n → n < f → BInv list body p0 c0 s →
      (s.hasMore = true ∨ p0 < s.pos) → Enc.b256Loop (c0.length + 1) f s = .ok s' → BEndS list body p0 c0 s' := by
  intro n
  induction n using Nat.strongRecOn with
  | _ n ih =>
    intro f s s' hn hf inv hprog h
    cases f with
    | zero => omega
    | succ f =>
      rw [b256Loop_eq] at h
      have hs1 : BInv list body p0 c0 (eatPush s) ∧ p0 < (eatPush s).pos ∧
          (s.pos < body.length → (eatPush s).pos = s.pos + 1) ∧ (¬ s.pos < body.length → eatPush s = s) := by
        unfold eatPush
        by_cases hlt : s.pos < body.length
        · have he : s.eat = some (body[s.pos], { s with pos := s.pos + 1 }) := by
            simp only [Enc.St.eat]
            rw [List.getElem?_eq_getElem (by rw [inv.input]; exact hlt)]
            simp [inv.input]
          rw [he]
          refine ⟨⟨inv.input, inv.list, inv.newMode, by simp [Enc.St.push]; have := inv.base; omega,
            by simp [Enc.St.push]; omega, ?_⟩, by simp [Enc.St.push]; have := inv.base; omega, fun _ => rfl,
            fun hn => absurd hlt hn⟩
          simp only [Enc.St.push]
          rw [inv.cw, seg_succ body p0 s.pos inv.base hlt]
          simp
        · have he : s.eat = none := by
            simp only [Enc.St.eat]
            rw [List.getElem?_eq_none (by rw [inv.input]; omega)]
          rw [he]
          refine ⟨inv, ?_, fun h => absurd h hlt, fun _ => rfl⟩
          rcases hprog with hm | hp
          · have := of_decide_eq_true hm
            rw [inv.input] at this
            exact absurd this hlt
          · exact hp
      obtain ⟨inv1, hb1, hadv, hsame⟩ := hs1
      generalize eatPush s = s1 at h inv1 hb1 hadv hsame
      unfold b256Tail at h
      by_cases hmore : s1.hasMore = true
      · simp only [hmore, Bool.not_true, Bool.false_eq_true, ↓reduceIte] at h
        cases hm : s1.maybeSwitch with
        | error e => rw [hm] at h; cases h
        | ok r =>
          obtain ⟨bsw, s3⟩ := r
          rw [hm] at h
          obtain ⟨m1, m2, m3, m4, m5, m6⟩ := maybeSwitch_spec s1 s3 bsw hm
          cases bsw with
          | true =>
            simp only [] at h
            obtain ⟨_, _, _, t4⟩ := m6 rfl
            have hctl3 : s3.newMode = s3.mode.latch := by
              rw [t4, inv1.newMode]
              cases s3.mode.latch <;> rfl
            cases hw : Enc.b256WriteLength s3 (c0.length + 1) with
            | error e => rw [hw] at h; cases h
            | ok s4 =>
              rw [hw] at h
              simp only [Except.ok.injEq] at h
              obtain ⟨toEnd, w1, w2, w3⟩ := afterWrite list body hb p0 c0 s3 s4 (m1.1.trans inv1.input) (m1.2.trans inv1.list)
                (by rw [m2]; exact hb1) (by rw [m2]; exact inv1.le) (by rw [m3, m2]; exact inv1.cw) hw
              have hmore3 : s3.hasMore = true := by simpa [Enc.St.hasMore, m1.1, m2] using hmore
              have hte : toEnd = false := by
                cases toEnd with
                | false => rfl
                | true => have := (w2 rfl).1; rw [hmore3] at this; cases this
              have hmore4 : s4.hasMore = true := by rw [w1]; simpa [Enc.St.hasMore] using hmore3
              rw [hmore4] at h
              simp only [Bool.not_true, Bool.false_eq_true, ↓reduceIte] at h
              subst h
              refine ⟨s3.pos, toEnd, by rw [m2]; exact hb1, by rw [m2]; exact inv1.le, by rw [w1], by rw [w1],
                by rw [w1]; exact m1.1.trans inv1.input, by rw [w1]; exact m1.2.trans inv1.list,
                (fun ht => by rw [hte] at ht; cases ht), w3, Or.inr ⟨hte, hmore4, ?_⟩⟩
              rw [w1]; exact hctl3
          | false =>
            simp only [] at h
            obtain ⟨f1, f2⟩ := m5 rfl
            have inv3 : BInv list body p0 c0 s3 :=
              ⟨m1.1.trans inv1.input, m1.2.trans inv1.list, f2.trans inv1.newMode, by rw [m2]; exact inv1.base,
                by rw [m2]; exact inv1.le, by rw [m3, m2]; exact inv1.cw⟩
            have hlt : s.pos < body.length := by
              by_cases hlt : s.pos < body.length
              · exact hlt
              · rw [hsame hlt] at hmore
                have := of_decide_eq_true hmore
                rw [inv.input] at this
                exact absurd this hlt
            exact ih (body.length - s3.pos) (by rw [m2, hadv hlt]; omega) f s3 s' rfl (by rw [m2, hadv hlt]; omega) inv3
              (Or.inr (by rw [m2]; exact hb1)) h
      · have hmf : s1.hasMore = false := by simpa using hmore
        simp only [hmf, Bool.not_false, ↓reduceIte] at h
        cases hw : Enc.b256WriteLength s1 (c0.length + 1) with
        | error e => rw [hw] at h; cases h
        | ok s4 =>
          rw [hw] at h
          simp only [Except.ok.injEq] at h
          subst h
          obtain ⟨toEnd, w1, w2, w3⟩ := afterWrite list body hb p0 c0 s1 s4 inv1.input inv1.list hb1 inv1.le inv1.cw hw
          have hpl : s1.pos = body.length := by
            have := of_decide_eq_false hmf
            rw [inv1.input] at this
            have := inv1.le
            omega
          refine ⟨s1.pos, toEnd, hb1, inv1.le, by rw [w1]; rfl, by rw [w1]; rfl, by rw [w1]; exact inv1.input,
            by rw [w1]; exact inv1.list, fun ht => ⟨hpl, ?_⟩, w3, Or.inl ⟨rfl, rfl, by rw [w1]; exact inv1.newMode, hpl⟩⟩
          obtain ⟨_, S, f1, f2⟩ := w2 ht
          exact ⟨S, by simpa [Enc.St.setAscii] using f1, by simpa [Enc.St.setAscii] using f2⟩

/-! ### the Base 256 encoder preserves the invariant -/

theorem step_b256 (P : Mode → Prop) (Q : Key → Prop) (hP : P .base256) : ModeStep P Q .base256 := by
  intro list i0 pre body s s' hb ⟨room, lo, tr, lat, mi⟩ _ hmore hmode h
  have h0 := h
  have hnm : s.newMode = some 231 := by
    rcases mi.ctl with ⟨_, hf⟩ | hc
    · rw [hmore] at hf; cases hf
    · rw [hc, hmode]; rfl
  have hroom : room = none := by
    cases room with
    | none => rfl
    | some r =>
      rcases (mi.closing r rfl).1 with ⟨_, hf⟩ | ⟨hm, _⟩
      · rw [hmore] at hf; cases hf
      · rw [hmode] at hm; cases hm
  subst hroom
  have hlatched : latched s = { s with newMode := none }.push 231 := by simp [latched, hnm]
  rw [hlatched] at h
  generalize hsL : ({ s with newMode := none }.push 231 : Enc.St) = sL at h
  have hLin : sL.input = body := by rw [← hsL]; exact mi.inp
  have hLli : sL.list = list := by rw [← hsL]; exact mi.lst
  have hLpos : sL.pos = s.pos := by rw [← hsL]; rfl
  have hLnm : sL.newMode = none := by rw [← hsL]; rfl
  have hLcw : sL.cw = s.cw ++ [231] := by rw [← hsL]; rfl
  have hLmode : sL.mode = .base256 := by rw [← hsL]; exact hmode
  simp only [Enc.encodeMode, hLmode, Enc.b256Encode] at h
  have hstart : sL.cw.length = s.cw.length + 1 := by rw [hLcw]; simp
  rw [hstart] at h
  have inv0 : BInv list body s.pos s.cw (sL.push 0) :=
    ⟨hLin, hLli, hLnm, by simp [Enc.St.push, hLpos], by simp [Enc.St.push, hLpos]; exact mi.le,
      by simp [Enc.St.push, hLcw, hLpos, seg_self]⟩
  have hLcl : sL.charsLeft = body.length - s.pos := by simp [Enc.St.charsLeft, hLin, hLpos]
  have hend := b256Loop_specGen list body hb s.pos s.cw (body.length - s.pos) (sL.charsLeft + 2) (sL.push 0) s'
    (by simp [Enc.St.push, hLpos]) (by omega) inv0
    (Or.inl (by simp only [Enc.St.hasMore, Enc.St.push, hLin, hLpos]; simpa [Enc.St.hasMore, mi.inp] using hmore)) h
  obtain ⟨p, toEnd, hp0, hp, hcw, hpos, hin, hli, hte, htf, hctl⟩ := hend.out
  have hseglen : (seg body s.pos p).length = p - s.pos := seg_length body s.pos p (by omega) hp
  have hsegb : ByteList (seg body s.pos p) := seg_bytes body hb s.pos p
  have hcw' : s'.cw = s.cw ++ ([231] ++ randFrom (s.cw.length + 2) (b256Hdr (seg body s.pos p) toEnd ++ seg body s.pos p)) := by
    rw [hcw]; simp
  have hXlen : ([231] ++ randFrom (s.cw.length + 2) (b256Hdr (seg body s.pos p) toEnd ++ seg body s.pos p)).length =
      1 + (b256Hdr (seg body s.pos p) toEnd).length + (seg body s.pos p).length := by
    simp [randFrom_length]; omega
  have hcwlen : s'.cw.length = s.cw.length + (1 + (b256Hdr (seg body s.pos p) toEnd).length + (seg body s.pos p).length) := by
    rw [hcw', List.length_append, hXlen]
  have hhdrlen : 1 ≤ (b256Hdr (seg body s.pos p) toEnd).length := by
    unfold b256Hdr; split
    · simp
    · split <;> simp
  have hctl' : s'.newMode = s'.mode.latch ∧ (s'.newMode ≠ none → s'.hasMore = true) := by
    rcases hctl with ⟨a1, _, a3, _⟩ | ⟨_, a2, a3⟩
    · exact ⟨by rw [a3, a1]; rfl, fun hne => absurd a3 hne⟩
    · exact ⟨a3, fun _ => a2⟩
  refine ⟨if toEnd then some 0 else none, lo - (1 + (b256Hdr (seg body s.pos p) toEnd).length + (seg body s.pos p).length),
    tr ++ List.replicate (seg body s.pos p).length .base256,
    lat ++ [(s.cw.length, .base256)], hin, hli, by rw [hpos]; exact hp,
    by rw [hcwlen]; have := mi.i0le; omega,
    by rw [hcw', List.take_append_of_le_length mi.i0le]; exact mi.pfx,
    by rw [hcw', drop_append_le i0 s.cw _ mi.i0le]; exact headOK_append mi.hd (headOK_cons 231 _ (by omega)),
    Or.inr hctl'.1, hctl'.2, by rw [List.length_append, List.length_replicate, mi.trlen, hseglen, hpos]; omega, ?_, ?_, ?_, ?_, ?_⟩
  · intro m hm
    rcases List.mem_append.mp hm with hm | hm
    · exact mi.trP m hm
    · rw [(List.mem_replicate.mp hm).2]; exact hP
  · intro l hl
    rcases List.mem_append.mp hl with hl | hl
    · obtain ⟨a, a', b, c⟩ := mi.latP l hl
      exact ⟨a, a', b, by rw [hcwlen]; omega⟩
    · simp only [List.mem_singleton] at hl
      subst hl
      exact ⟨hP, by simp, mi.i0le, by rw [hcwlen]; simp only []; omega⟩
  · intro r hr
    cases toEnd with
    | false => simp at hr
    | true =>
      simp only [↓reduceIte, Option.some.injEq] at hr
      subst hr
      obtain ⟨hpl, S, hS, hcap⟩ := hte rfl
      rcases hctl with ⟨a1, a2, _, _⟩ | ⟨a1, _⟩
      · refine ⟨Or.inr ⟨a1, a2⟩, S, ?_, by simpa using hcap⟩
        rw [hpos, hpl, List.drop_length]
        simpa [Enc.asciiSize] using hS
      · cases a1
  · intro hlo sE S hr hS
    have := mi.low (by omega) sE S (Reach.step s s' sE hmore h0 hr) hS
    rw [hcwlen]; omega
  · intro cw ho hsize hsz
    rw [hcw'] at ho
    rw [hcwlen] at hsize
    obtain ⟨k, sD, hk, hs, hat, hmD⟩ := mi.dec cw (occurs_zero_left ho) (by omega) (fun r hr => by cases hr)
    have hmD' : sD.mode = .ascii := by
      rcases hmD with h | ⟨h, _⟩
      · exact h
      · cases h
    obtain ⟨sD', hs', hat', hm'⟩ := dec_b256 cw i0 k s.cw.length sD _ tr lat (seg body s.pos p) toEnd hs hat hmD' hsegb
      (occurs_zero_right ho) (by
        cases toEnd with
        | false =>
          simp only [Bool.false_eq_true, ↓reduceIte]
          exact ⟨by rw [hseglen]; omega, htf rfl⟩
        | true =>
          simp only [↓reduceIte]
          have := (hsz 0 (by simp)).1
          rw [this, hcwlen]
          simp [b256Hdr]
          omega)
    refine ⟨k + 2, sD', ?_, hs', ?_, Or.inl hm'⟩
    · rw [hcwlen]; have := mi.i0le; omega
    · rw [hcwlen, hpos, ← take_seg body s.pos p (by omega)]
      exact hat'

/-! ### the main loop and the whole run -/

theorem mainLoop_SInv (P : Mode → Prop) (Q : Key → Prop) (hQ : Closed Q) (hsteps : ∀ m, ModeStep P Q m)
    (list : List Sym) (i0 : Nat) (pre body : List Nat) (hb : ByteList body) :
    ∀ (f : Nat) (s : Enc.St) (k : Nat) (sE : Enc.St), Enc.mainLoop f s k = .ok sE → SInv P list i0 pre body s → Q (key s) →
      SInv P list i0 pre body sE ∧ sE.hasMore = false := by
  intro f
  induction f with
  | zero => intro s k sE h; cases h
  | succ f ih =>
    intro s k sE h mi hq
    by_cases hmore : s.hasMore = true
    · obtain ⟨s', k', he, hm⟩ := mainLoop_step f s sE k h hmore
      exact ih s' k' sE hm (hsteps s.mode list i0 pre body s s' hb mi hq hmore rfl he)
        (q_encodeMode hQ _ _ he (q_latched hQ s hq))
    · have hmf : s.hasMore = false := by simpa using hmore
      rw [mainLoop_end _ _ _ hmf] at h
      simp only [Except.ok.injEq] at h
      subst h
      exact ⟨mi, hmf⟩

/-- the final state of the reference decoder -/
structure Final (P : Mode → Prop) (i0 : Nat) (body cw : List Nat) (sF : St) (L : Nat) : Prop where
  i : sF.i = cw.length
  out : sF.out.toList = body
  trlen : sF.trace.toList.length = body.length
  trP : ∀ m ∈ sF.trace.toList, P m
  latP : ∀ l ∈ sF.latches.toList, P l.2 ∧ l.2 ≠ .ascii ∧ i0 ≤ l.1 ∧ l.1 < L
  ecis : sF.ecis = #[]
  padAt : sF.padAt = if L = cw.length then none else some L

/-- **The whole run, up to `decode`'s treatment of the header**: whatever the encoder returns is a
stream on which the reference decoder, started behind the prefix codewords, runs to the end without
error and produces the message. `L` is the number of codewords before the padding. -/
theorem run_spec (P : Mode → Prop) (Q : Key → Prop) (hQ : Closed Q) (hsteps : ∀ m, ModeStep P Q m)
    (list : List Sym) (pre body cw : List Nat) (plan : List (Nat × Enc.EMode)) (sym : Sym)
    (hb : ByteList body) (hq : Q (plan, .ascii, none)) (h : Enc.run list pre body plan = .ok (cw, sym)) :
    cw.length = dataCw sym ∧ ∃ L sF, pre.length ≤ L ∧ L ≤ cw.length ∧ cw.take pre.length = pre ∧
      HeadOK (cw.drop pre.length) ∧ (L < cw.length → cw.getD L 0 = 129) ∧
      run cw.toArray (3 * cw.length + 4) { i := pre.length } = .ok sF ∧ Final P pre.length body cw sF L := by
  obtain ⟨sE, hmain, hsym, hpad⟩ := run_unfoldP list pre body cw plan sym h
  obtain ⟨⟨room, lo, tr, lat, mi⟩, hmf⟩ := mainLoop_SInv P Q hQ hsteps list pre.length pre body hb _ _ 0 sE hmain
    (sInv_init P list pre body plan) hq
  have hposl : sE.pos = body.length := by
    have := of_decide_eq_false hmf
    rw [mi.inp] at this
    have := mi.le
    omega
  have hcap := DM.Lemmas.X12RT.firstBigEnough_le list _ sym hsym
  have hsize : ∀ r, room = some r → dataCw sym = sE.cw.length + r := by
    intro r hr
    obtain ⟨_, S, hS, hc⟩ := mi.closing r hr
    rw [hposl, List.drop_length] at hS
    simp only [Enc.asciiSize, Nat.add_zero] at hS
    rw [hS] at hsym
    cases hsym
    exact hc
  have hmode : sE.cw.length < dataCw sym → sE.mode = .ascii := by
    intro hlt
    rcases mi.ctl with ⟨h0, _⟩ | hc
    · have := hsize 0 h0; omega
    · have hnm : sE.newMode = none := by
        cases hn : sE.newMode with
        | none => rfl
        | some l => have := mi.more (by rw [hn]; simp); rw [hmf] at this; cases this
      rw [hnm] at hc
      cases hm : sE.mode <;> rw [hm] at hc <;> simp [Enc.EMode.latch] at hc
  obtain ⟨out, hout, hlen, htake, _, hrest⟩ := DM.Props.C02.padding_conformant sE.cw (sE.mode == .ascii) (dataCw sym) hcap
  rw [hpad] at hout
  cases hout
  have hstart : sE.cw.length = sE.cw.length +
      (if (sE.mode == Enc.EMode.ascii) = false ∧ sE.cw.length < dataCw sym then 1 else 0) := by
    by_cases hlt : sE.cw.length < dataCw sym
    · rw [hmode hlt]; simp
    · simp [hlt]
  obtain ⟨h129, hpads⟩ := hrest sE.cw.length hstart
  have ho : Occurs cw.toArray 0 sE.cw := by
    have := occurs_of_take cw [] sE.cw (by simpa using htake)
    simpa using this
  have hroom : ∀ r, room = some r → cw.toArray.size = sE.cw.length + r ∧ cw.toArray[sE.cw.length]? ≠ some 254 := by
    intro r hr
    refine ⟨by simp only [List.size_toArray, hlen, hsize r hr], ?_⟩
    simp only [List.getElem?_toArray]
    by_cases hlt : sE.cw.length < cw.length
    · have := h129 (by rw [← hlen]; exact hlt)
      rw [List.getD_eq_getElem?_getD, List.getElem?_eq_getElem hlt] at this
      rw [List.getElem?_eq_getElem hlt]
      simp only [Option.getD_some] at this
      rw [this]; simp
    · rw [List.getElem?_eq_none (by omega)]; simp
  have hlow : sE.cw.length + lo ≤ cw.toArray.size := by
    simp only [List.size_toArray, hlen]
    by_cases hl0 : lo = 0
    · omega
    · exact mi.low hl0 sE sym (Reach.done sE hmf) hsym
  obtain ⟨k, sD, hk, hs, hat, hmD⟩ := mi.dec cw.toArray ho hlow hroom
  have hLle : sE.cw.length ≤ cw.length := by rw [hlen]; exact hcap
  have hpfx : cw.take pre.length = pre := by
    calc cw.take pre.length = (cw.take sE.cw.length).take pre.length := by rw [List.take_take, Nat.min_eq_left mi.i0le]
      _ = pre := by rw [htake]; exact mi.pfx
  have hcwsplit : cw = sE.cw ++ cw.drop sE.cw.length := by
    conv => lhs; rw [← List.take_append_drop sE.cw.length cw, htake]
  have hhd : HeadOK (cw.drop pre.length) := by
    rw [hcwsplit, drop_append_le _ sE.cw _ mi.i0le]
    apply headOK_append mi.hd
    intro c hc
    cases hd : cw.drop sE.cw.length with
    | nil => rw [hd] at hc; simp at hc
    | cons x t =>
      rw [hd] at hc
      simp only [List.head?_cons, Option.mem_def, Option.some.injEq] at hc
      subst hc
      have hlt : sE.cw.length < cw.length := by
        have : (cw.drop sE.cw.length).length = (x :: t).length := by rw [hd]
        simp only [List.length_drop, List.length_cons] at this
        omega
      have h1 := h129 (by rw [← hlen]; exact hlt)
      have h2 : cw.getD sE.cw.length 0 = x := by
        rw [List.getD_eq_getElem?_getD, ← List.head?_drop, hd]; rfl
      omega
  refine ⟨hlen, sE.cw.length, ?_⟩
  have hfin : ∀ sF, run cw.toArray (3 * cw.length + 4) { i := pre.length } = .ok sF →
      Final P pre.length body cw sF sE.cw.length → ∃ sF, pre.length ≤ sE.cw.length ∧ sE.cw.length ≤ cw.length ∧
        cw.take pre.length = pre ∧ HeadOK (cw.drop pre.length) ∧ (sE.cw.length < cw.length → cw.getD sE.cw.length 0 = 129) ∧
        run cw.toArray (3 * cw.length + 4) { i := pre.length } = .ok sF ∧ Final P pre.length body cw sF sE.cw.length :=
    fun sF h1 h2 => ⟨sF, mi.i0le, hLle, hpfx, hhd, fun hlt => h129 (by rw [← hlen]; exact hlt), h1, h2⟩
  have hout : sD.out.toList = body := by rw [hat.out, hposl]; simp
  have htr : sD.trace.toList = tr := by rw [hat.trace]
  have hlat : sD.latches.toList = lat := by rw [hat.latches]
  have htrl : tr.length = body.length := by rw [mi.trlen, hposl]
  by_cases hfull : sE.cw.length = cw.length
  · apply hfin sD
    · exact hs.finish (step_end _ _ (by simp [hat.i, hfull])) (by have := mi.i0le; omega)
    · exact ⟨by rw [hat.i, hfull], hout, by rw [htr]; exact htrl, by rw [htr]; exact mi.trP, by rw [hlat]; exact mi.latP,
        hat.ecis, by rw [if_pos hfull]; exact hat.padAt⟩
  · have hlt : sE.cw.length < cw.length := by omega
    have hmD' : sD.mode = .ascii := by
      rcases hmD with h | ⟨h, _⟩
      · exact h
      · have := (hroom 0 h).1
        simp only [List.size_toArray] at this
        omega
    have hc : cw.toArray[sD.i]? = some 129 := by
      rw [hat.i]
      simp only [List.getElem?_toArray]
      have := h129 (by rw [← hlen]; exact hlt)
      rw [List.getD_eq_getElem?_getD, List.getElem?_eq_getElem hlt] at this
      rw [List.getElem?_eq_getElem hlt]
      simpa using this
    have hpad : step cw.toArray sD = .ok (some { sD with i := cw.toArray.size, padAt := some sD.i }) := by
      apply step_pad _ _ hc hmD'
      intro j h1 h2
      rw [getBang_toArray]
      rw [hat.i] at h1
      exact hpads j h1 (by rw [← hlen]; simpa using h2)
    apply hfin _ ((hs.trans (Steps.one hpad)).finish (step_end _ _ (by simp)) (by have := mi.i0le; omega))
    exact ⟨by simp, hout, by simp only []; rw [htr]; exact htrl, by simp only []; rw [htr]; exact mi.trP,
      by simp only []; rw [hlat]; exact mi.latP, hat.ecis, by rw [if_neg hfull, hat.i]⟩

end DM.Lemmas.SpecMain
