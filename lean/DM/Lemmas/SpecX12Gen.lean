import DM.Lemmas.SpecX12
/-
X12 under arbitrary plans, against the reference decoder: `SpecSegX12 X chunk` — wherever the latch
238, the codewords `X` and one of the three endings stand in a stream and the reference decoder
arrives there in ASCII mode, it records the latch, reads `X` as `chunk` (all of it carried by X12)
and ends as the ending says. `x12Encode_specGen` is `MainRT.x12Encode_gen` for it: the outcome of
`x12::encode` from an arbitrary position of a mixed plan, in the shape of `MainRT.TEnd` with the
crate-decoder predicate `SegDec 238` replaced by `SpecSegX12` (`TEndQ` is `TEnd` with the predicate
as a parameter; `x12Encode_genQ` is the proof of `x12Encode_gen` with that parameter).
-/
namespace DM.Lemmas.SpecX12
open DM.Model DM.Model.Enc DM.Lemmas DM.Lemmas.AsciiRT DM.Lemmas.Complete
open DM.Lemmas.EncRT DM.Lemmas.X12RT DM.Lemmas.C40Gen DM.Lemmas.B256Gen DM.Lemmas.MainRT DM.Lemmas.SpecStep
open DM.Spec.Build

/-- the reference decoder on an X12 segment `238, X, ending` -/
def SpecSegX12 (X chunk : List Nat) : Prop :=
  ∃ n, X.length = 2 * n ∧ chunk.length = 3 * n ∧ (∀ c ∈ X.head?, c ≠ 254) ∧
    ∀ (cw : Array Nat) (s : DM.Spec.Stream.St) (E : List Nat) (k : Nat) (m : DM.Spec.Stream.Mode), s.mode = .ascii →
      X12Tail cw (s.i + 1 + 2 * n) E k m → Occurs cw s.i (238 :: X ++ E) →
      ∃ j, j ≤ 1 + n + 1 ∧ Steps cw j s (x12Done s n chunk k m) ∧
        (m = .x12 → DM.Spec.Stream.step cw (x12Done s n chunk k m) = .ok none)

theorem packTriples_head (b : List Nat) (hn : X12Native b) : ∀ c ∈ (packTriples (b.filterMap x12Val)).head?, c ≠ 254 := by
  intro c hc
  match b, hn with
  | x :: y :: z :: t, hn =>
    obtain ⟨vx, hvx⟩ := Option.isSome_iff_exists.mp (hn x (by simp))
    obtain ⟨vy, hvy⟩ := Option.isSome_iff_exists.mp (hn y (by simp))
    obtain ⟨vz, hvz⟩ := Option.isSome_iff_exists.mp (hn z (by simp))
    have lx := (x12Val_value x vx hvx).1
    have ly := (x12Val_value y vy hvy).1
    have lz := (x12Val_value z vz hvz).1
    simp [hvx, hvy, hvz, packTriples] at hc
    omega
  | [], _ => simp [packTriples] at hc
  | [x], hn =>
    obtain ⟨vx, hvx⟩ := Option.isSome_iff_exists.mp (hn x (by simp))
    simp [hvx, packTriples] at hc
  | [x, y], hn =>
    obtain ⟨vx, hvx⟩ := Option.isSome_iff_exists.mp (hn x (by simp))
    obtain ⟨vy, hvy⟩ := Option.isSome_iff_exists.mp (hn y (by simp))
    simp [hvx, hvy, packTriples] at hc

theorem specSegX12_pack (n : Nat) (b : List Nat) (hl : b.length = 3 * n) (hn : X12Native b) :
    SpecSegX12 (packTriples (b.filterMap x12Val)) b :=
  ⟨n, packTriples_length n _ (by rw [filterMap_native_length b hn, hl]), hl, packTriples_head b hn,
    fun cw s E k m hm ht ho => steps_x12 cw n b hl hn s hm E k m ht ho⟩

/-- the three endings, in the form a main-loop invariant meets them -/
theorem SpecSegX12.unlatch {X chunk : List Nat} (h : SpecSegX12 X chunk) (cw : Array Nat) (s : DM.Spec.Stream.St)
    (hm : s.mode = .ascii) (ho : Occurs cw s.i (238 :: X ++ [254])) :
    ∃ j, j ≤ X.length + 2 ∧ Steps cw j s (x12Done s (X.length / 2) chunk 1 .ascii) := by
  obtain ⟨n, h1, _, _, h4⟩ := h
  obtain ⟨j, hj, hst, _⟩ := h4 cw s [254] 1 .ascii hm .unlatch ho
  have : X.length / 2 = n := by omega
  exact ⟨j, by omega, by rw [this]; exact hst⟩

theorem SpecSegX12.single {X chunk : List Nat} (h : SpecSegX12 X chunk) (cw : Array Nat) (s : DM.Spec.Stream.St)
    (hm : s.mode = .ascii) (c : Nat) (hc : c ≠ 254) (hsz : cw.size = s.i + 1 + X.length + 1)
    (ho : Occurs cw s.i (238 :: X ++ [c])) :
    ∃ j, j ≤ X.length + 2 ∧ Steps cw j s (x12Done s (X.length / 2) chunk 0 .ascii) := by
  obtain ⟨n, h1, _, _, h4⟩ := h
  obtain ⟨j, hj, hst, _⟩ := h4 cw s [c] 0 .ascii hm (.single c hc (by omega)) ho
  have : X.length / 2 = n := by omega
  exact ⟨j, by omega, by rw [this]; exact hst⟩

theorem SpecSegX12.exact {X chunk : List Nat} (h : SpecSegX12 X chunk) (cw : Array Nat) (s : DM.Spec.Stream.St)
    (hm : s.mode = .ascii) (hsz : cw.size = s.i + 1 + X.length) (ho : Occurs cw s.i (238 :: X)) :
    ∃ j, j ≤ X.length + 2 ∧ Steps cw j s (x12Done s (X.length / 2) chunk 0 .x12) ∧
      DM.Spec.Stream.step cw (x12Done s (X.length / 2) chunk 0 .x12) = .ok none := by
  obtain ⟨n, h1, _, _, h4⟩ := h
  obtain ⟨j, hj, hst, hfin⟩ := h4 cw s [] 0 .x12 hm (.exact (by omega)) (by simpa using ho)
  have : X.length / 2 = n := by omega
  rw [this]
  exact ⟨j, by omega, hst, hfin rfl⟩

/-- `MainRT.TEnd` with the decoder-side predicate as a parameter -/
structure TEndQ (Q : List Nat → List Nat → Prop) (list : List Sym) (body : List Nat) (p0 : Nat) (c0 : List Nat)
    (latch : Nat) (s' : St) : Prop where
  out : ∃ (X : List Nat) (p : Nat) (un : Bool), Q X (seg body p0 p) ∧ p0 ≤ p ∧ p ≤ body.length ∧
    s'.cw = c0 ++ latch :: X ++ (if un then [254] else []) ∧ s'.pos = p ∧ s'.input = body ∧ s'.list = list ∧
    ((s'.mode = .ascii ∧ s'.plan = [(0, .ascii)] ∧ s'.newMode = none) ∨
     (un = true ∧ s'.hasMore = true ∧ Pending s' ∧ PlanOKE body s'.plan) ∨ (p = body.length ∧ un = false)) ∧
    (un = false → asciiSize (body.drop p) ≤ 1 ∧
      ∃ S, firstBigEnough list (s'.cw.length + asciiSize (body.drop p)) = some S ∧
        dataCw S = s'.cw.length + asciiSize (body.drop p))

/-- `TEnd` is the instance for the crate's decoder model -/
theorem tEnd_iff (list : List Sym) (body : List Nat) (p0 : Nat) (c0 : List Nat) (latch : Nat) (s' : St) :
    TEnd list body p0 c0 latch s' ↔ TEndQ (SegDec latch) list body p0 c0 latch s' :=
  ⟨fun h => ⟨h.out⟩, fun h => ⟨h.out⟩⟩

theorem x12Encode_genQ (Q : List Nat → List Nat → Prop)
    (hQ : ∀ (n : Nat) (b : List Nat), b.length = 3 * n → X12Native b → Q (packTriples (b.filterMap x12Val)) b)
    (list : List Sym) (body : List Nat) (p0 : Nat) (c0 : List Nat) (sL s3 : St)
    (hin : sL.input = body) (hli : sL.list = list) (hpos : sL.pos = p0) (hle : p0 ≤ body.length)
    (hnm : sL.newMode = none) (hcw : sL.cw = c0 ++ [238]) (hpl : PlanOKE body sL.plan)
    (h : x12Encode sL = .ok s3) : TEndQ Q list body p0 c0 238 s3 := by
  unfold x12Encode at h
  cases hl : x12Loop (sL.charsLeft + 2) sL with
  | error e => rw [hl] at h; cases h
  | ok r =>
    obtain ⟨s2, sw⟩ := r
    rw [hl] at h
    simp only [] at h
    obtain ⟨n, run⟩ := x12Loop_gen _ sL s2 sw hl
    obtain ⟨hPl2, hsw2⟩ := x12Loop_plan body _ sL s2 sw hl hnm hin hpl
    have hp2 : s2.pos = p0 + 3 * n := by rw [run.pos, hpos]
    have hle2 : s2.pos ≤ body.length := by rw [← hin]; exact run.le (by rw [hpos, hin]; exact hle)
    have hin2 : s2.input = body := run.same.1.trans hin
    have hli2 : s2.list = list := run.same.2.trans hli
    have hsegeq : seg body p0 s2.pos = (sL.input.drop sL.pos).take (3 * n) := by
      unfold seg
      rw [hin, hpos, hp2]
      congr 1
      omega
    have hnat : X12Native (seg body p0 s2.pos) := by rw [hsegeq]; exact run.native
    have hseglen : (seg body p0 s2.pos).length = 3 * n := by
      rw [seg_length body p0 s2.pos (by omega) hle2]; omega
    have hcw2 : s2.cw = c0 ++ 238 :: packTriples ((seg body p0 s2.pos).filterMap x12Val) := by
      rw [run.cw, hcw, hsegeq]; simp
    have hsd : Q (packTriples ((seg body p0 s2.pos).filterMap x12Val)) (seg body p0 s2.pos) :=
      hQ n _ hseglen hnat
    have hnm2 : sw = false → s2.newMode = none := fun hs => by rw [(run.stay hs).2.2]; exact hnm
    -- the three endings
    have unl : ∀ s', s' = (if !sw then s2.setAscii else s2).push 254 → TEndQ Q list body p0 c0 238 s' := by
      intro s' hs'
      subst hs'
      cases sw with
      | false =>
        exact ⟨_, s2.pos, true, hsd, by omega, hle2, by simp [St.push, St.setAscii, hcw2], rfl,
          by simp [St.push, St.setAscii, hin2], by simp [St.push, St.setAscii, hli2],
          Or.inl ⟨rfl, rfl, by simp [St.push, St.setAscii, hnm2 rfl]⟩, by simp⟩
      | true =>
        obtain ⟨a1, a2, a3, a4⟩ := run.switch rfl
        obtain ⟨hP, _⟩ := hsw2 rfl
        exact ⟨_, s2.pos, true, hsd, by omega, hle2, by simp [St.push, hcw2], rfl,
          by simp [St.push, hin2], by simp [St.push, hli2],
          Or.inr (Or.inl ⟨rfl, by simpa [St.hasMore, St.push] using a2, hP.congr rfl rfl rfl rfl rfl,
            by simpa [St.push] using hPl2⟩), by simp⟩
    have exact : s2.hasMore = false → s2.sizeLeft 0 = some 0 → TEndQ Q list body p0 c0 238 s2 := by
      intro hmf hfit
      have hpl2 : s2.pos = body.length := by
        have := of_decide_eq_false hmf
        rw [hin2] at this
        omega
      obtain ⟨S, f1, f2⟩ := sizeLeft_zero s2 0 hfit
      refine ⟨_, s2.pos, false, hsd, by omega, hle2, by simp [hcw2], rfl, hin2, hli2, Or.inr (Or.inr ⟨hpl2, rfl⟩), fun _ => ?_⟩
      rw [hpl2, List.drop_eq_nil_of_le (Nat.le_refl _)]
      simp only [asciiSize, Nat.add_zero, Nat.zero_le, true_and]
      exact ⟨S, by rw [← hli2]; simpa using f1, by simpa using f2⟩
    by_cases hone : s2.charsLeft ≤ 2 ∧ asciiSize s2.rest = 1
    · rw [if_pos hone] at h
      unfold St.sizeLeftE at h
      cases hs : s2.sizeLeft 1 with
      | none => rw [hs] at h; cases h
      | some k =>
        rw [hs] at h
        simp only [] at h
        by_cases hk : k = 0
        · subst hk
          simp only [decide_true] at h
          simp only [Except.ok.injEq] at h
          subst h
          obtain ⟨S, f1, f2⟩ := sizeLeft_zero s2 1 hs
          have hnm3 : s2.newMode = none := by
            cases sw with
            | false => exact hnm2 rfl
            | true => exact (hsw2 rfl).2 (by omega)
          have hrest : s2.rest = body.drop s2.pos := by simp [St.rest, hin2]
          refine ⟨_, s2.pos, false, hsd, by omega, hle2, by simp [St.setAscii, hcw2], rfl, by simp [St.setAscii, hin2],
            by simp [St.setAscii, hli2], Or.inl ⟨rfl, rfl, by simp [St.setAscii, hnm3]⟩, fun _ => ?_⟩
          rw [← hrest, hone.2]
          exact ⟨Nat.le_refl _, S, by rw [← hli2]; simpa [St.setAscii] using f1, by simpa [St.setAscii] using f2⟩
        · simp only [hk, decide_false] at h
          by_cases hm : s2.hasMore = true
          · simp only [hm, ↓reduceIte] at h
            simp only [Except.ok.injEq] at h
            exact unl s3 h.symm
          · simp only [hm, Bool.false_eq_true, ↓reduceIte] at h
            cases hs0 : s2.sizeLeft 0 with
            | none => rw [hs0] at h; cases h
            | some k0 =>
              rw [hs0] at h
              simp only [] at h
              by_cases hk0 : k0 > 0
              · simp only [hk0, decide_true] at h
                simp only [Except.ok.injEq] at h
                exact unl s3 h.symm
              · simp only [hk0, decide_false] at h
                simp only [Except.ok.injEq] at h
                subst h
                exact exact (by simpa using hm) (by rw [hs0]; congr 1; omega)
    · rw [if_neg hone] at h
      simp only [] at h
      unfold St.sizeLeftE at h
      by_cases hm : s2.hasMore = true
      · simp only [hm, ↓reduceIte] at h
        simp only [Except.ok.injEq] at h
        exact unl s3 h.symm
      · simp only [hm, Bool.false_eq_true, ↓reduceIte] at h
        cases hs0 : s2.sizeLeft 0 with
        | none => rw [hs0] at h; cases h
        | some k0 =>
          rw [hs0] at h
          simp only [] at h
          by_cases hk0 : k0 > 0
          · simp only [hk0, decide_true] at h
            simp only [Except.ok.injEq] at h
            exact unl s3 h.symm
          · simp only [hk0, decide_false] at h
            simp only [Except.ok.injEq] at h
            subst h
            exact exact (by simpa using hm) (by rw [hs0]; congr 1; omega)

/-- **`x12::encode` under an arbitrary plan, against the reference decoder**: from any position `p0`
of the message, behind the codewords `c0` and the latch, the encoder appends `X` (+ UNLATCH) such
that the reference decoder reads `238, X, ending` as the stretch of the message consumed. -/
theorem x12Encode_specGen (list : List Sym) (body : List Nat) (p0 : Nat) (c0 : List Nat) (sL s3 : St)
    (hin : sL.input = body) (hli : sL.list = list) (hpos : sL.pos = p0) (hle : p0 ≤ body.length)
    (hnm : sL.newMode = none) (hcw : sL.cw = c0 ++ [238]) (hpl : PlanOKE body sL.plan)
    (h : x12Encode sL = .ok s3) : TEndQ SpecSegX12 list body p0 c0 238 s3 :=
  x12Encode_genQ SpecSegX12 specSegX12_pack list body p0 c0 sL s3 hin hli hpos hle hnm hcw hpl h

/-- Non-vacuity: "1ABCDEFab", X12 entered behind the ASCII codeword for "1" with the plan "ASCII for
the last two characters" pending: the encoder writes two triples and UNLATCH; the lemma applies. -/
def exampleState : St :=
  { input := [49, 65, 66, 67, 68, 69, 70, 97, 98], pos := 1, mode := .x12, plan := [(2, .ascii), (0, .ascii)],
    newMode := none, cw := [50, 238], list := symbolList (List.range 30) }

example : (match x12Encode exampleState with
    | .ok s => s.cw == [50, 238, 89, 233, 109, 36, 254] && s.pos == 7 && s.plan == [(0, .ascii)]
    | .error _ => false) = true := by decide +kernel

example : ∃ s3, x12Encode exampleState = .ok s3 ∧
    TEndQ SpecSegX12 (symbolList (List.range 30)) [49, 65, 66, 67, 68, 69, 70, 97, 98] 1 [50] 238 s3 := by
  match h : x12Encode exampleState with
  | .ok s3 =>
    exact ⟨s3, rfl, x12Encode_specGen _ _ 1 [50] exampleState s3 rfl rfl rfl (by decide) rfl rfl
      (planOKE_of_planOK _ (by intro e he; simp [exampleState] at he; rcases he with rfl | rfl <;> simp)) h⟩
  | .error e =>
    have : (match x12Encode exampleState with | .ok _ => true | .error _ => false) = true := by decide +kernel
    rw [h] at this
    cases this

end DM.Lemmas.SpecX12
