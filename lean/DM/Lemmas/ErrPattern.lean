import DM.Lemmas.RSTot
import DM.Lemmas.RSLocator
import DM.Props.C09
/-
The error pattern of a received word relative to a codeword: positions (counted from the end
of the word, i.e. by the exponent of the locator), error values, and the decoder's syndromes
written as the power sums of that pattern.
-/
namespace DM.Lemmas.ErrPattern
open DM.Model DM.Spec DM.Lemmas DM.Lemmas.RSTot DM.Props.C09

/-- entry `j` of the decoder's syndrome list -/
theorem syndromes_getD (r : List Nat) (k j : Nat) (hj : j < k) :
    (RS.syndromes r k).getD j 0
      = ((List.range r.reverse.length).map fun i =>
          gmul (r.reverse.getD i 0) (alog ((i * (j + 1)) % 255))).foldl gadd 0 := by
  unfold RS.syndromes
  simp only [List.getD_eq_getElem?_getD, List.getElem?_map, List.getElem?_range hj,
    Option.map_some, Option.getD_some]

theorem syndromes_length (r : List Nat) (k : Nat) : (RS.syndromes r k).length = k := by
  unfold RS.syndromes
  simp

theorem syndromes_bytes (r : List Nat) (k : Nat) : Bytes (RS.syndromes r k) := by
  intro x hx
  unfold RS.syndromes at hx
  simp only [List.mem_map, List.mem_range] at hx
  obtain ⟨j, _, rfl⟩ := hx
  apply foldl_gadd_lt _ _ (by omega)
  intro y hy
  simp only [List.mem_map, List.mem_range] at hy
  obtain ⟨i, _, rfl⟩ := hy
  exact gmul_lt' _ _

/-- the decoder's syndrome `j` is the received word evaluated at `α^(j+1)` -/
theorem gF_syndromes (r : List Nat) (hr : Bytes r) (k j : Nat) (hj : j < k) :
    gF (RS.syndromes r k) j = evalH (toG r) (α ^ (j + 1)) := by
  unfold gF
  rw [syndromes_getD r k j hj]
  exact ofNat_syndrome r hr j

/-- the number of differing positions, counted from the end -/
theorem card_reflect (c r : List Nat) :
    ((Finset.range c.length).filter
        (fun p => c.getD (c.length - 1 - p) 0 ≠ r.getD (c.length - 1 - p) 0)).card
      = hamming c r := by
  unfold hamming
  rw [← List.toFinset_card_of_nodup (List.Nodup.filter _ List.nodup_range)]
  apply Finset.card_bij (fun p _ => c.length - 1 - p)
  · intro p hp
    rw [Finset.mem_filter, Finset.mem_range] at hp
    rw [List.mem_toFinset, List.mem_filter, List.mem_range]
    exact ⟨by omega, by simpa using hp.2⟩
  · intro p hp q hq h
    rw [Finset.mem_filter, Finset.mem_range] at hp hq
    omega
  · intro i hi
    rw [List.mem_toFinset, List.mem_filter, List.mem_range] at hi
    have hii : c.length - 1 - (c.length - 1 - i) = i := by omega
    refine ⟨c.length - 1 - i, ?_, hii⟩
    rw [Finset.mem_filter, Finset.mem_range, hii]
    exact ⟨by omega, by simpa using hi.2⟩

theorem error_pattern (c r : List Nat) (k : Nat) (hc : Bytes c) (hr : Bytes r)
    (hlen : c.length = r.length) (hk : k < 254) (hcw : isCodeword c k = true) :
    ∃ (I : Finset ℕ) (E : ℕ → GF),
      I.card = hamming c r ∧
      (∀ p ∈ I, p < c.length ∧ E p ≠ 0) ∧
      (∀ i, i < c.length → GF.ofNat (c.getD i 0)
          = GF.ofNat (r.getD i 0) + (if c.length - 1 - i ∈ I then E (c.length - 1 - i) else 0)) ∧
      (∀ j, j < k → gF (RS.syndromes r k) j = Locator.synd I E (fun p => α ^ p) j) ∧
      Bytes (RS.syndromes r k) ∧ (RS.syndromes r k).length = k := by
  classical
  let E : ℕ → GF := fun p =>
    GF.ofNat (c.getD (c.length - 1 - p) 0) + GF.ofNat (r.getD (c.length - 1 - p) 0)
  let I : Finset ℕ := (Finset.range c.length).filter
    (fun p => c.getD (c.length - 1 - p) 0 ≠ r.getD (c.length - 1 - p) 0)
  have hE0 : ∀ p, E p = 0 ↔ c.getD (c.length - 1 - p) 0 = r.getD (c.length - 1 - p) 0 := by
    intro p
    constructor
    · intro h
      have h3 := congrArg (· + GF.ofNat (r.getD (c.length - 1 - p) 0)) h
      simp only [E, add_assoc, GF.add_self, add_zero, zero_add] at h3
      exact ofNat_inj (getD_lt hc _) (getD_lt hr _) h3
    · intro h
      simp only [E]
      rw [h]
      exact GF.add_self _
  have hmem : ∀ p, p ∈ I ↔ p < c.length ∧ E p ≠ 0 := by
    intro p
    simp only [I, Finset.mem_filter, Finset.mem_range, ne_eq, hE0]
  refine ⟨I, E, card_reflect c r, fun p hp => (hmem p).mp hp, ?_, ?_,
    syndromes_bytes r k, syndromes_length r k⟩
  · intro i hi
    have hii : c.length - 1 - (c.length - 1 - i) = i := by omega
    by_cases h : c.length - 1 - i ∈ I
    · rw [if_pos h]
      simp only [E]
      rw [hii, add_comm (GF.ofNat (c.getD i 0)), ← add_assoc, GF.add_self, zero_add]
    · rw [if_neg h, add_zero]
      have : E (c.length - 1 - i) = 0 := by
        by_contra hne
        exact h ((hmem _).mpr ⟨by omega, hne⟩)
      have := (hE0 _).mp this
      rw [hii] at this
      rw [this]
  · intro j hj
    rw [gF_syndromes r hr k j hj]
    let d := List.zipWith (fun e g => e + 1 * g) (toG r) (toG c)
    have hdlen : d.length = c.length := by simp [d, toG, hlen]
    have hcoef : ∀ i, i < c.length → coef d i = E i := by
      intro i hi
      unfold coef
      rw [List.getD_eq_getElem?_getD, List.getElem?_reverse (by omega), hdlen]
      simp only [d, toG, List.getElem?_zipWith, List.getElem?_map]
      have h1 : c.length - 1 - i < c.length := by omega
      have h2 : c.length - 1 - i < r.length := by omega
      rw [List.getElem?_eq_getElem h1, List.getElem?_eq_getElem h2]
      simp [E, List.getD_eq_getElem?_getD, List.getElem?_eq_getElem h1, List.getElem?_eq_getElem h2,
        add_comm]
    have hd : evalH d (α ^ (j + 1)) = evalH (toG r) (α ^ (j + 1)) := by
      have h1 := (isCodeword_iff c hc k hk).mp hcw j hj
      simp only [d]
      rw [evalH_zipWith _ _ _ _ (by simp [toG, hlen]), h1]
      ring
    rw [← hd, evalH_eq_finsum, hdlen]
    unfold Locator.synd
    rw [← Finset.sum_subset (Finset.filter_subset
      (fun p => c.getD (c.length - 1 - p) 0 ≠ r.getD (c.length - 1 - p) 0) (Finset.range c.length))]
    · apply Finset.sum_congr rfl
      intro i hi
      have hi' := ((hmem i).mp hi).1
      rw [hcoef i hi', ← pow_mul, ← pow_mul, Nat.mul_comm]
    · intro i hi hni
      have hi' := Finset.mem_range.mp hi
      have : E i = 0 := by
        by_contra hne
        exact hni ((hmem i).mpr ⟨hi', hne⟩)
      rw [hcoef i hi', this]
      ring

end DM.Lemmas.ErrPattern
