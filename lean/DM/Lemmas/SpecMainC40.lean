import DM.Lemmas.SpecMain
import DM.Lemmas.SpecC40Gen
/-
The C40 / Text encoder preserves the main-loop invariant against the reference decoder
(`SpecMain.SInv`), under arbitrary plans: `ModeStep P Q .c40`, `ModeStep P Q .text` for every `Q`
that implies `C40Gen.PlanOKE` (no latch to a non-ASCII mode planned for the last four characters).
One development, generic in `text : Bool` (`stepC`). The endings: UNLATCH behind whole triples (a
padded partial triple, UNLATCH + backup, planned switch: `room = none`), no UNLATCH (a single ASCII
codeword / two digits as one ASCII codeword filling the symbol, or the exact end: `room = some r`,
`r ≤ 1`).
-/
namespace DM.Lemmas.SpecMainC40
open DM.Model DM.Lemmas DM.Lemmas.AsciiRT DM.Lemmas.SpecStep DM.Lemmas.SpecAscii DM.Lemmas.Complete
open DM.Lemmas.EncRT DM.Lemmas.C40Gen DM.Lemmas.B256Gen DM.Lemmas.PlanProv DM.Lemmas.MainRT DM.Spec.Stream
open DM.Lemmas.SpecMain DM.Lemmas.SpecC40Gen
open DM.Lemmas.C40RT (latchOf modeOf)
open DM.Lemmas.SpecC40 (cmode)
open DM.Lemmas.SpecX12 (TEndQ)

theorem asciiSize_zero (l : List Nat) (h : Enc.asciiSize l = 0) : l = [] := by
  match l, h with
  | [], _ => rfl
  | [a], h =>
    simp only [Enc.asciiSize] at h
    split at h <;> omega
  | a :: b :: t, h =>
    simp only [Enc.asciiSize] at h
    repeat' split at h
    all_goals omega

theorem occurs_snoc {cw : Array Nat} {i c : Nat} {X : List Nat} (h : Occurs cw i X) (hc : cw[i + X.length]? = some c) :
    Occurs cw i (X ++ [c]) := by
  intro k hk
  by_cases hlt : k < X.length
  · rw [List.getElem?_append_left hlt]
    exact h k hlt
  · have : k = X.length := by
      simp only [List.length_append, List.length_singleton] at hk
      omega
    subst this
    rw [hc]
    simp

/-- a C40 / Text stretch (latch, triples, ending) behind a correctly read prefix -/
theorem dec_c40 (text : Bool) (cw : Array Nat) (i0 k L : Nat) (sD : St) (out : List Nat) (tr : List Mode)
    (lat : List (Nat × Mode)) (X chunk E : List Nat) (kk : Nat) (m : Mode)
    (hs : Steps cw k { i := i0 } sD) (hat : DAt sD L out tr lat) (hm : sD.mode = .ascii)
    (hseg : SpecSegC40 text X chunk) (ht : C40Tail text cw (L + 1 + X.length) E kk m)
    (ho : Occurs cw L (latchOf text :: X ++ E)) :
    ∃ k' sD', k' ≤ k + X.length / 2 + 2 ∧ Steps cw k' { i := i0 } sD' ∧
      DAt sD' (L + 1 + X.length + kk) (out ++ chunk) (tr ++ List.replicate chunk.length (cmode text))
        (lat ++ [(L, cmode text)]) ∧ sD'.mode = m ∧ (m = cmode text → step cw sD' = .ok none) := by
  obtain ⟨n, cst, hX, h4⟩ := hseg
  have e : sD.i + 1 + 2 * n = L + 1 + X.length := by rw [hat.i]; omega
  obtain ⟨j, hj, hst, hfin⟩ := h4 cw sD E kk m hm (by rw [e]; exact ht) (by rw [hat.i]; exact ho)
  refine ⟨k + j, c40Done text sD n cst chunk kk m, by omega, hs.trans hst, ?_, rfl, hfin⟩
  refine ⟨by simp only [c40Done, hat.i]; omega, ?_, ?_, ?_, hat.ecis, hat.padAt⟩
  · simp [c40Done, hat.out]
  · simp only [c40Done, hat.trace]; exact toArray_replicate _ _ _
  · simp [c40Done, hat.latches, hat.i]

/-- **The C40 / Text encoder preserves the invariant**, for one message and any state whose plan is
admissible (`PlanOKE`). -/
theorem stepC_core (text : Bool) (P : Mode → Prop) (hP : P (cmode text)) (list : List Sym) (i0 : Nat) (pre body : List Nat)
    (s s' : Enc.St) (hb : ByteList body) (hinv : SInv P list i0 pre body s) (hpl : PlanOKE body s.plan)
    (hmore : s.hasMore = true) (hmode : s.mode = modeOf text) (h : Enc.encodeMode (latched s) = .ok s') :
    SInv P list i0 pre body s' := by
  obtain ⟨room, lo, tr, lat, mi⟩ := hinv
  have h0 := h
  have hnm : s.newMode = some (latchOf text) := by
    rcases mi.ctl with ⟨_, hf⟩ | hc
    · rw [hmore] at hf; cases hf
    · rw [hc, hmode]; cases text <;> rfl
  have hroom : room = none := by
    cases room with
    | none => rfl
    | some r =>
      rcases (mi.closing r rfl).1 with ⟨_, hf⟩ | ⟨hm, _⟩
      · rw [hmore] at hf; cases hf
      · rw [hmode] at hm; cases text <;> cases hm
  subst hroom
  have hlatched : latched s = { s with newMode := none }.push (latchOf text) := by simp [latched, hnm]
  rw [hlatched] at h
  generalize hsL : ({ s with newMode := none }.push (latchOf text) : Enc.St) = sL at h
  have hLin : sL.input = body := by rw [← hsL]; exact mi.inp
  have hLli : sL.list = list := by rw [← hsL]; exact mi.lst
  have hLpos : sL.pos = s.pos := by rw [← hsL]; rfl
  have hLnm : sL.newMode = none := by rw [← hsL]; rfl
  have hLcw : sL.cw = s.cw ++ [latchOf text] := by rw [← hsL]; rfl
  have hLmode : sL.mode = modeOf text := by rw [← hsL]; exact hmode
  have hLplan : PlanOKE body sL.plan := by rw [← hsL]; exact hpl
  have henc : Enc.c40Encode text sL = .ok s' := by
    cases text
    · have hm' : sL.mode = .c40 := hLmode
      simpa only [Enc.encodeMode, hm'] using h
    · have hm' : sL.mode = .text := hLmode
      simpa only [Enc.encodeMode, hm'] using h
  have hend := c40Encode_specGen text list body hb s.pos s.cw sL s' hLin hLli hLpos mi.le hLmode hLnm hLcw hLplan henc
  have hmore' := c40Encode_more text sL s' hLnm henc
  obtain ⟨X, p, un, hseg, hp0, hp, hcw, hpos, hin, hli, hctl, hex⟩ := hend.out
  have hseglen : (seg body s.pos p).length = p - s.pos := seg_length body s.pos p hp0 hp
  have hlatchOK : latchOf text ≠ 232 ∧ latchOf text ≠ 236 ∧ latchOf text ≠ 237 := by cases text <;> simp [latchOf]
  have hcne : cmode text ≠ .ascii := by cases text <;> simp [cmode]
  have htrP : ∀ m ∈ tr ++ List.replicate (seg body s.pos p).length (cmode text), P m := by
    intro m hm
    rcases List.mem_append.mp hm with hm | hm
    · exact mi.trP m hm
    · rw [(List.mem_replicate.mp hm).2]; exact hP
  have hlatP : ∀ c, s'.cw.length = s.cw.length + (c + 1) → ∀ l ∈ lat ++ [(s.cw.length, cmode text)],
      P l.2 ∧ l.2 ≠ .ascii ∧ i0 ≤ l.1 ∧ l.1 < s'.cw.length := by
    intro c hc l hl
    rcases List.mem_append.mp hl with hl | hl
    · obtain ⟨a, a', b, c'⟩ := mi.latP l hl
      exact ⟨a, a', b, by rw [hc]; omega⟩
    · simp only [List.mem_singleton] at hl
      subst hl
      exact ⟨hP, hcne, mi.i0le, by rw [hc]; simp only []; omega⟩
  cases un with
  | true =>
    have hcw' : s'.cw = s.cw ++ (latchOf text :: X ++ [254]) := by rw [hcw]; simp
    have hcwlen : s'.cw.length = s.cw.length + (X.length + 1 + 1) := by rw [hcw']; simp
    have hctl' : s'.newMode = s'.mode.latch := by
      rcases hctl with ⟨a1, _, a3⟩ | ⟨_, _, a3, _⟩ | ⟨_, a2⟩
      · rw [a3, a1]; rfl
      · rcases a3 with ⟨b1, b2⟩ | ⟨l, b1, b2, _⟩
        · rw [b2, b1]; rfl
        · rw [b1, b2]
      · cases a2
    refine ⟨none, lo - (X.length + 1 + 1), tr ++ List.replicate (seg body s.pos p).length (cmode text),
      lat ++ [(s.cw.length, cmode text)], hin, hli, by rw [hpos]; exact hp,
      by rw [hcwlen]; have := mi.i0le; omega,
      by rw [hcw', List.take_append_of_le_length mi.i0le]; exact mi.pfx,
      by rw [hcw', drop_append_le i0 s.cw _ mi.i0le]; exact headOK_append mi.hd (headOK_cons _ _ hlatchOK),
      Or.inr hctl', hmore', by rw [List.length_append, List.length_replicate, mi.trlen, hseglen, hpos]; omega,
      htrP, hlatP (X.length + 1) hcwlen, fun r hr => (by cases hr), ?_, ?_⟩
    · intro hlo sE S hr hS
      have := mi.low (by omega) sE S (Reach.step s s' sE hmore h0 hr) hS
      rw [hcwlen]; omega
    · intro cw ho hsize _
      rw [hcw'] at ho
      rw [hcwlen] at hsize
      obtain ⟨k, sD, hk, hs, hat, hmD⟩ := mi.dec cw (occurs_zero_left ho) (by omega) (fun r hr => by cases hr)
      have hmD' : sD.mode = .ascii := by
        rcases hmD with h | ⟨h, _⟩
        · exact h
        · cases h
      obtain ⟨k', sD', hk', hs', hat', hm', _⟩ := dec_c40 text cw i0 k s.cw.length sD _ tr lat X _ [254] 1 .ascii hs hat hmD'
        hseg .unlatch (occurs_zero_right ho)
      refine ⟨k', sD', ?_, hs', ?_, Or.inl hm'⟩
      · rw [hcwlen]; have := mi.i0le; omega
      · rw [hcwlen, hpos, ← take_seg body s.pos p hp0]
        have e : s.cw.length + (X.length + 1 + 1) = s.cw.length + 1 + X.length + 1 := by omega
        rw [e]
        exact hat'
  | false =>
    have hcw' : s'.cw = s.cw ++ (latchOf text :: X) := by rw [hcw]; simp
    have hcwlen : s'.cw.length = s.cw.length + (X.length + 1) := by rw [hcw']; simp
    obtain ⟨hone, S, hS, hcap⟩ := hex rfl
    have hmf : p = body.length → s'.hasMore = false := by
      intro hpl
      simp only [Enc.St.hasMore, hpos, hin, hpl]
      simp
    have hr0 : p = body.length → Enc.asciiSize (body.drop p) = 0 := by
      intro hpl
      rw [hpl, List.drop_length]
      simp [Enc.asciiSize]
    refine ⟨some (Enc.asciiSize (body.drop p)), lo - (X.length + 1), tr ++ List.replicate (seg body s.pos p).length (cmode text),
      lat ++ [(s.cw.length, cmode text)], hin, hli, by rw [hpos]; exact hp,
      by rw [hcwlen]; have := mi.i0le; omega,
      by rw [hcw', List.take_append_of_le_length mi.i0le]; exact mi.pfx,
      by rw [hcw', drop_append_le i0 s.cw _ mi.i0le]; exact headOK_append mi.hd (headOK_cons _ _ hlatchOK),
      ?_, hmore', by rw [List.length_append, List.length_replicate, mi.trlen, hseglen, hpos]; omega,
      htrP, hlatP X.length hcwlen, ?_, ?_, ?_⟩
    · rcases hctl with ⟨a1, _, a3⟩ | ⟨a1, _⟩ | ⟨a1, _⟩
      · right; rw [a3, a1]; rfl
      · cases a1
      · left; exact ⟨by rw [hr0 a1], hmf a1⟩
    · intro r hr
      simp only [Option.some.injEq] at hr
      subst hr
      refine ⟨?_, S, by rw [hpos]; exact hS, hcap⟩
      rcases hctl with ⟨a1, a2, _⟩ | ⟨a1, _⟩ | ⟨a1, _⟩
      · exact Or.inr ⟨a1, a2⟩
      · cases a1
      · exact Or.inl ⟨hr0 a1, hmf a1⟩
    · intro hlo sE S' hr hS'
      have := mi.low (by omega) sE S' (Reach.step s s' sE hmore h0 hr) hS'
      rw [hcwlen]; omega
    · intro cw ho hsize hsz
      obtain ⟨hsz', hnext⟩ := hsz _ rfl
      rw [hcw'] at ho
      rw [hcwlen] at hsize hsz' hnext
      obtain ⟨k, sD, hk, hs, hat, hmD⟩ := mi.dec cw (occurs_zero_left ho) (by omega) (fun r hr => by cases hr)
      have hmD' : sD.mode = .ascii := by
        rcases hmD with h | ⟨h, _⟩
        · exact h
        · cases h
      have e : s.cw.length + (X.length + 1) = s.cw.length + 1 + X.length + 0 := by omega
      by_cases hr : Enc.asciiSize (body.drop p) = 0
      · -- the triples end with the symbol
        rw [hr] at hsz'
        obtain ⟨k', sD', hk', hs', hat', hm', hfin⟩ := dec_c40 text cw i0 k s.cw.length sD _ tr lat X _ [] 0 (cmode text) hs hat
          hmD' hseg (.exact (by omega)) (by simpa using occurs_zero_right ho)
        have hnil := asciiSize_zero _ hr
        have hpl : p = body.length := by
          have := congrArg List.length hnil
          simp only [List.length_drop, List.length_nil] at this
          omega
        refine ⟨k', sD', ?_, hs', ?_, Or.inr ⟨by rw [hr], hmf hpl⟩⟩
        · rw [hcwlen]; have := mi.i0le; omega
        · rw [hcwlen, hpos, ← take_seg body s.pos p hp0, e]
          exact hat'
      · -- one ASCII codeword fills the symbol
        have hr1 : Enc.asciiSize (body.drop p) = 1 := by omega
        rw [hr1] at hsz'
        have hlt : s.cw.length + (X.length + 1) < cw.size := by omega
        have hget : cw[s.cw.length + (X.length + 1)]? = some cw[s.cw.length + (X.length + 1)] := Array.getElem?_eq_getElem hlt
        have hc : cw[s.cw.length + (X.length + 1)] ≠ 254 := by
          intro hx
          rw [hget, hx] at hnext
          exact hnext rfl
        obtain ⟨k', sD', hk', hs', hat', hm', _⟩ := dec_c40 text cw i0 k s.cw.length sD _ tr lat X _
          [cw[s.cw.length + (X.length + 1)]] 0 .ascii hs hat hmD' hseg (.single _ hc (by omega))
          (by
            have := occurs_snoc (occurs_zero_right ho) (c := cw[s.cw.length + (X.length + 1)])
              (by simp only [List.length_cons]; exact hget)
            simpa using this)
        refine ⟨k', sD', ?_, hs', ?_, Or.inl hm'⟩
        · rw [hcwlen]; have := mi.i0le; omega
        · rw [hcwlen, hpos, ← take_seg body s.pos p hp0, e]
          exact hat'

/-- **`ModeStep` for C40 (`text = false`) and Text (`text = true`)**, for every side condition `Q`
on the control part of the encoder state that implies `PlanOKE` for every message. -/
theorem stepC (text : Bool) (P : Mode → Prop) (Q : Key → Prop) (hQ : ∀ (body : List Nat) (k : Key), Q k → PlanOKE body k.1)
    (hP : P (cmode text)) : ModeStep P Q (modeOf text) := by
  intro list i0 pre body s s' hb hinv hq hmore hmode h
  exact stepC_core text P hP list i0 pre body s s' hb hinv (hQ body _ hq) hmore hmode h

theorem step_c40 (P : Mode → Prop) (Q : Key → Prop) (hQ : ∀ (body : List Nat) (k : Key), Q k → PlanOKE body k.1)
    (hP : P .c40) : ModeStep P Q .c40 := stepC false P Q hQ hP

theorem step_text (P : Mode → Prop) (Q : Key → Prop) (hQ : ∀ (body : List Nat) (k : Key), Q k → PlanOKE body k.1)
    (hP : P .text) : ModeStep P Q .text := stepC true P Q hQ hP

/-- the instance `Q := PlanOK` -/
theorem step_c40_planOK (P : Mode → Prop) (hP : P .c40) : ModeStep P (fun k => PlanOK k.1) .c40 :=
  step_c40 P _ (fun body _ h => planOKE_of_planOK body h) hP

theorem step_text_planOK (P : Mode → Prop) (hP : P .text) : ModeStep P (fun k => PlanOK k.1) .text :=
  step_text P _ (fun body _ h => planOKE_of_planOK body h) hP

end DM.Lemmas.SpecMainC40
