import DM.Lemmas.LDStep
/-
The algebraic debug assertions of the Levinson–Durbin iteration (equations (3) and (4)) never
fire: `levinsonDurbin` and the whole Reed–Solomon decoder are panic free.
-/
namespace DM.Lemmas.LD
set_option linter.unusedSimpArgs false
set_option linter.unusedVariables false
open DM.Model DM.Model.RS DM.Lemmas DM.Lemmas.RSTotal

variable {A : String → Prop}

theorem ldLoop_alg (syn : List Nat) (t : Nat) (ht : 2 * t ≤ syn.length) (hs : Bytes syn)
    (fuel : Nat) : ∀ st, LDAlg syn t st → Safe A (ldLoop syn t fuel st) (LDAlg syn t) := by
  induction fuel with
  | zero => intro st hst; exact hst
  | succ f ih =>
    intro st hst
    unfold ldLoop
    refine Safe_ite (fun hlt => ?_) (fun _ => hst)
    have h := ldStep_alg (A := A) syn t st ht hs hst hlt
    revert h
    cases ldStep syn t st with
    | error e => intro h; cases e <;> exact h
    | ok r =>
      intro h
      cases r with
      | none => exact hst
      | some st' => exact ih st' (h st' rfl)

theorem getD_takeWhile_zero (l : List Nat) :
    ∀ k, k < (l.takeWhile (· == 0)).length → l.getD k 0 = 0 := by
  induction l with
  | nil => intro k hk; simp at hk
  | cons a l ih =>
    intro k hk
    by_cases ha : a = 0
    · subst ha
      simp only [List.takeWhile_cons, beq_self_eq_true, ↓reduceIte, List.length_cons] at hk
      cases k with
      | zero => rfl
      | succ k => exact ih k (by omega)
    · have : (a == 0) = false := by simpa using ha
      simp [List.takeWhile_cons, this] at hk

theorem init_eq3 (syn : List Nat) (v y0 : Nat) (hv : 1 ≤ v) (hs : Bytes syn)
    (hz : ∀ k, k < v - 1 → syn.getD k 0 = 0) (hp : syn.getD (v - 1) 0 ≠ 0)
    (hy0 : y0 = gdivD 1 (syn.getD (v - 1) 0)) :
    Eq3 syn v (y0 :: List.replicate (v - 1) 0) := by
  intro i hi
  have hY : ∀ j, V (y0 :: List.replicate (v - 1) 0) j = if j = 0 then GF.ofNat y0 else 0 := by
    intro j
    rw [V_cons]
    split
    · rfl
    · exact V_replicate_zero _ _
  have hpb := getD_lt hs (v - 1)
  unfold H
  rw [Finset.sum_eq_single 0]
  · rw [hY 0, if_pos rfl, Nat.add_zero]
    by_cases h : i = v - 1
    · rw [if_pos h, h, hy0, ofNat_gdivD (by omega) hpb hp, ofNat_one]
      exact mul_one_div_cancel (ofNat_ne_zero hpb hp)
    · rw [if_neg h]
      unfold V
      rw [hz i (by omega)]
      exact zero_mul _
  · intro j _ hj
    rw [hY j, if_neg hj, mul_zero]
  · intro h
    exact absurd (Finset.mem_range.mpr (by omega)) h

/-- the locator search returns `v` coefficients followed by the constant `1`, `1 ≤ v ≤ t`,
or a non-panic error -/
theorem levinsonDurbin_safe' (syn : List Nat) (hs : Bytes syn) :
    Safe A (levinsonDurbin syn) (fun lam =>
      ∃ w : List Nat, lam = w ++ [1] ∧ 1 ≤ w.length ∧ w.length ≤ syn.length / 2) := by
  unfold levinsonDurbin
  simp only []
  refine Safe_ite (fun _ => Safe_bind Safe_throw_tooManyErrors) (fun hvt => ?_)
  have hp := getD_takeWhile_length syn (by omega)
  have hz := getD_takeWhile_zero syn
  refine Safe_bind (Safe_at_val (by omega) ?_)
  simp only [Nat.add_sub_cancel]
  refine Safe_bind (Safe_div' hp ?_)
  refine Safe_bind (Safe_mono (ldInitW_alg syn _ (by omega) (by omega) hs
    (by simpa only [Nat.add_sub_cancel] using hz)
    (by simpa only [Nat.add_sub_cancel] using hp)) fun w hw => ?_)
  have h3 := init_eq3 syn ((syn.takeWhile (· == 0)).length + 1)
    (gdivD 1 (syn.getD (syn.takeWhile (· == 0)).length 0)) (by omega) hs
    (by simpa only [Nat.add_sub_cancel] using hz)
    (by simpa only [Nat.add_sub_cancel] using hp) (by simp only [Nat.add_sub_cancel])
  simp only [Nat.add_sub_cancel] at h3
  refine Safe_bind (Safe_mono (ldLoop_alg syn (syn.length / 2) (by omega) hs _ _
    ⟨⟨by simp only; omega, by simp only; omega, hw.1, by simp only; lens⟩, hw.2.1, ?_, h3, hw.2.2⟩)
    fun st hst => ?_)
  · exact Bytes.cons (gdivD_lt _ _) (Bytes.replicate_zero _)
  · apply Safe_pure
    exact ⟨st.w, rfl, by have := hst.1.1; have := hst.1.2.2.1; omega,
      by have := hst.1.2.1; have := hst.1.2.2.1; omega⟩

/-- **The debug assertions of the Levinson–Durbin iteration never fire**, nor does any other
panic site of the locator search. -/
theorem levinsonDurbin_noPanic (syn : List Nat) (hb : ∀ x ∈ syn, x < 256) (site : String) :
    levinsonDurbin syn ≠ .error (.panic site) :=
  fun h => Safe_panic (levinsonDurbin_safe' (A := fun _ => False) syn hb) h


/-! ### the whole decoder (the chain of `RSTotal`, now for an arbitrary set of allowed sites) -/

theorem syndromes_bytes (received : List Nat) (k : Nat) : Bytes (syndromes received k) := by
  unfold syndromes
  intro x hx
  simp only [List.mem_map, List.mem_range] at hx
  obtain ⟨j, _, rfl⟩ := hx
  apply foldl_gadd_lt _ _ (by omega)
  intro z hz
  simp only [List.mem_map, List.mem_range] at hz
  obtain ⟨i, _, rfl⟩ := hz
  exact gmul_lt' _ _

theorem correctBlock_safe' (dataB errB : List Nat) (errLen : Nat) (syn : List Nat)
    (hsyn : syn.length = errLen) (hs : Bytes syn) :
    Safe A (correctBlock dataB errB errLen syn)
      (fun p => p.1.length = dataB.length ∧ p.2.length = errB.length) := by
  unfold correctBlock
  simp only []
  refine Safe_bind (Safe_mono (levinsonDurbin_safe' syn hs) fun lam hlam => ?_)
  obtain ⟨w, rfl, hw1, hwt⟩ := hlam
  obtain ⟨zero, rs, hch, hz, hnd, hnz⟩ := chienSearch_spec (w ++ [1])
  rw [hch]
  refine Safe_bind (Safe_ok ?_)
  simp only [List.length_append, List.length_singleton, Nat.add_sub_cancel]
  refine Safe_ite (fun _ => Safe_bind Safe_throw_malfunction) (fun hcond => ?_)
  have hzero : zero = [] := by
    rcases hz with h | h
    · exact h
    · subst h
      exact absurd (Or.inr rfl) hcond
  subst hzero
  simp only [List.nil_append, List.length_nil, Nat.zero_add] at hcond ⊢
  have hrl : rs.length = w.length := by
    apply Decidable.byContradiction
    intro h; exact hcond (Or.inl h)
  refine Safe_bind (Safe_sub' (by omega) ?_)
  refine Safe_bind ?_
  apply Safe_mono (Safe_forIn_inv _ _ _ (fun _ => True) trivial ?_)
  rotate_left
  · intro j hj _ _
    simp only [List.mem_filter, List.mem_range, decide_eq_true_eq] at hj
    refine Safe_ite (fun h => absurd h (by simp only [List.length_drop]; omega)) (fun _ => ?_)
    refine Safe_ite (fun _ => Safe_bind Safe_throw_malfunction) (fun _ => Safe_pure trivial)
  intro _ _
  refine Safe_bind (Safe_mono (bjorckPereyra_safe rs syn
    (by intro h; rw [h] at hrl; simp at hrl; omega) hnd hnz (by omega)) fun p hp => ?_)
  obtain ⟨locs, vals⟩ := p
  simp only [] at hp ⊢
  refine Safe_bind ?_
  apply Safe_mono (Safe_forIn_inv _ _ _
    (fun s : List Nat × List Nat => s.1.length = dataB.length ∧ s.2.length = errB.length)
    ⟨rfl, rfl⟩ ?_)
  · intro s hs; exact Safe_pure hs
  · intro x hx s hs
    obtain ⟨loc, err⟩ := x
    have hloc : loc ≠ 0 := hp loc (List.of_mem_zip hx).1
    have hg : glogChecked loc = some (glog loc) := by
      unfold glogChecked; rw [if_neg hloc]
    simp only [hg]
    refine Safe_ite (fun _ => Safe_bind Safe_throw_errorsOutsideRange) (fun _ => ?_)
    refine Safe_ite (fun _ => Safe_pure ?_) (fun _ => Safe_pure ?_)
    · simp only [ForInStep.value, List.length_set]; exact hs
    · simp only [ForInStep.value, List.length_set]; exact hs


theorem decodeBlock_safe' (dataB errB : List Nat) (errLen : Nat) (h1 : 1 ≤ errLen)
    (h2 : errLen < dataB.length + errB.length) :
    Safe A (decodeBlock dataB errB errLen)
      (fun p => p.1.length = dataB.length ∧ p.2.length = errB.length) := by
  unfold decodeBlock
  refine Safe_ite (fun h => absurd h (by omega)) (fun _ => ?_)
  refine Safe_ite (fun h => absurd h (by omega)) (fun _ => ?_)
  simp only []
  split
  · exact Safe_ok ⟨rfl, rfl⟩
  · exact correctBlock_safe' dataB errB errLen _ (length_syndromes _ _) (syndromes_bytes _ _)


theorem decodeBlocks_safe' (blocks eccPer dataCw : Nat) (he : 1 ≤ eccPer) (hb : blocks ≤ dataCw)
    (bs : List Nat) :
    ∀ data err : List Nat, (∀ b ∈ bs, b < blocks) → data.length = dataCw →
      err.length = blocks * eccPer →
      Safe A (decodeBlocks blocks eccPer bs data err)
        (fun p => p.1.length = dataCw ∧ p.2.length = blocks * eccPer) := by
  induction bs with
  | nil => intro data err _ hd hr; exact Safe_ok ⟨hd, hr⟩
  | cons b bs ih =>
    intro data err hbs hd hr
    have hbb : b < blocks := hbs b (List.mem_cons_self)
    have hle : blocks ≤ blocks * eccPer := Nat.le_mul_of_pos_right _ he
    unfold decodeBlocks
    refine Safe_ite (fun h => absurd h (by omega)) (fun _ => ?_)
    have hdl : 1 ≤ (strided data b blocks).length := by
      rw [length_strided, Nat.le_div_iff_mul_le (by omega)]
      omega
    have hel : eccPer ≤ (strided err b blocks).length := by
      rw [length_strided, Nat.le_div_iff_mul_le (by omega), hr, Nat.mul_comm eccPer blocks]
      omega
    have hs := decodeBlock_safe' (A := A) (strided data b blocks) (strided err b blocks) eccPer he (by omega)
    revert hs
    cases decodeBlock (strided data b blocks) (strided err b blocks) eccPer with
    | error e => intro hs; cases e <;> exact hs
    | ok p =>
      intro _
      obtain ⟨dB, eB⟩ := p
      exact ih _ _ (fun b' hb' => hbs b' (List.mem_cons_of_mem _ hb'))
        (by rw [length_scatter]; exact hd) (by rw [length_scatter]; exact hr)


theorem decode_safe' (s : Sym) (cw : List Nat)
    (hlen : cw.length = (row s).dataCw + (row s).blocks * (row s).eccPer) :
    Safe A (decode s cw) (fun out => out.length = cw.length) := by
  unfold decode
  simp only []
  refine Safe_ite (fun h => absurd h (by omega)) (fun _ => ?_)
  have hd : (cw.take (row s).dataCw).length = (row s).dataCw := by
    rw [List.length_take]; omega
  have hr : (cw.drop (row s).dataCw).length = (row s).blocks * (row s).eccPer := by
    rw [List.length_drop]; omega
  rcases row_ok s with h0 | ⟨he, hb⟩
  · rw [h0]
    show Safe A (Except.ok _) _
    apply Safe_ok
    simp only [List.length_append, List.length_take, List.length_drop]; omega
  · have hs := decodeBlocks_safe' (A := A) _ _ _ he hb (List.range (row s).blocks) _ _
      (fun b hb' => List.mem_range.1 hb') hd hr
    revert hs
    cases decodeBlocks (row s).blocks (row s).eccPer (List.range (row s).blocks)
      (cw.take (row s).dataCw) (cw.drop (row s).dataCw) with
    | error e => intro hs; cases e <;> exact hs
    | ok p =>
      intro hs
      obtain ⟨d, e⟩ := p
      apply Safe_ok
      simp only [List.length_append]
      have := hs.1; have := hs.2
      simp only at *
      omega


/-- **Totality of the Reed–Solomon decoder model**: on a word of the right length `decode`
never panics (no index / slice / subtraction / division panic, no `assert!`, and none of the
`debug_assert!`s, including equations (3) and (4) of the Levinson–Durbin iteration).
The byte-range hypothesis is not needed: the syndromes are bytes whatever the word contains. -/
theorem decode_noPanic_of_length (s : Sym) (cw : List Nat)
    (hlen : cw.length = (row s).dataCw + (row s).blocks * (row s).eccPer) (site : String) :
    RS.decode s cw ≠ .error (.panic site) :=
  fun h => Safe_panic (decode_safe' (A := fun _ => False) s cw hlen) h

theorem decode_noPanic (s : Sym) (cw : List Nat)
    (hlen : cw.length = (row s).dataCw + (row s).blocks * (row s).eccPer)
    (hbytes : ∀ b ∈ cw, b < 256) (site : String) :
    RS.decode s cw ≠ .error (.panic site) :=
  decode_noPanic_of_length s cw hlen site

end DM.Lemmas.LD
