import DM.Model.Planner
import DM.Lemmas.PlanInv
import DM.Lemmas.AsciiRT
/-!
# Planner / encoder coupling: shared vocabulary

The last sentence of C18 ("the encoder never needs a larger symbol than the size the planner predicted
for its chosen plan") and the encoder half of C11 (no assertion of the encoder fires on the planner's
plan) are statements about two independently written state machines: the per-mode plans of
`Model/Planner.lean`, which *price* a stretch of the message, and the mode encoders of
`Model/Encode.lean`, which *write* it.  This file fixes the shape of the per-mode statements so that
they can be proved one mode at a time (`Lemmas/Couple<Mode>.lean`) and composed along the switch list
of the plan the optimiser returns (`Lemmas/CoupleMain.lean`).

A live plan of the optimiser is created in some mode `m` at a position `p` of the message with `w`
codewords accounted for (prefix codewords, everything earlier segments wrote, and the latch of `m`),
is stepped once per character, and either dies, reaches the end of the data, or — at a moment where
`iteratePlans` calls `add_switches` on it (`SwitchPoint`) — fathers a plan in another mode.  The
segment of the returned switch list that belongs to it is exactly the characters it was stepped over.

* `SwitchSeg m`: a segment of mode `m` that ends with a planned switch.  Planner side: the price
  charged (`switchCost`) is exactly twelve times the codewords `write_unlatch` accounts for.  Encoder
  side: the mode encoder, started in the corresponding state with the next planned switch at the head
  of its plan, consumes exactly the segment, writes exactly those codewords, and leaves in the planned
  mode with its latch pending — or stops with `tooMuch`, and then no listed symbol holds what has been
  accounted for.
* `EndSeg m`: the segment that runs to the end of the data.  The mode encoder leaves a state from
  which at most an ASCII tail remains (`set_ascii_until_end`), and codewords written plus the ASCII
  size of that tail are at most the planner's final cost (rounded up to whole codewords).
-/
namespace DM.Lemmas.Couple
open DM.Model DM.Model.Plan DM.Model.Enc DM.Lemmas.AsciiRT

/-- `k` successful steps, none of which reports the end of the data (each reads one character) -/
def StepsTo : Nat → GPlan → GPlan → Prop
  | 0, g, g' => g = g'
  | k + 1, g, g' => ∃ g1 r, g.step = .ok (some (g1, r)) ∧ r.end = false ∧ StepsTo k g1 g'

/-- the condition under which `iteratePlans` calls `add_switches` on `g` (the copy taken before the step) -/
def SwitchPoint (g : GPlan) : Prop :=
  g.step = .ok none ∨ ∃ g' r, g.step = .ok (some (g', r)) ∧ r.unbeatable = false ∧ r.end = false

/-- the encoder state in which a mode encoder is entered by the main loop (latch already written) -/
def EncAt (body : List Nat) (list : List Sym) (s : St) (p w : Nat) (m : EMode) (plan : List (Nat × EMode)) : Prop :=
  s.input = body ∧ s.list = list ∧ s.pos = p ∧ s.cw.length = w ∧ s.mode = m ∧ s.plan = plan ∧ s.newMode = none

/-- the planner-side context of a fresh plan -/
def ctxAt (body : List Nat) (list : List Sym) (p w : Nat) : Ctx := { data := body, pos := p, written := w, list := list }

/-- **Segment that ends with a planned switch** (see the header). `k ≥ 1` for every mode but ASCII:
a fresh non-start plan is stepped once in the iteration that creates it. -/
def SwitchSeg (m : EMode) : Prop :=
  ∀ (body : List Nat) (list : List Sym) (p w k : Nat) (g0 gk : GPlan) (ac : Nat) (ctx' : Ctx) (m' : EMode)
    (rest : List (Nat × EMode)) (s : St),
    ByteList body → p + k < body.length → (1 ≤ k ∨ m = .ascii) →
    g0.plan = newPlan m (ctxAt body list p w) →
    StepsTo k g0 gk → SwitchPoint gk → gk.switchCost = some ac → gk.unlatch = .ok ctx' → m' ≠ m →
    EncAt body list s p w m ((body.length - (p + k), m') :: rest) →
    ac = g0.extra + 12 * (ctx'.written - w) ∧ w ≤ ctx'.written ∧
    ((∃ s', encodeMode s = .ok s' ∧ s'.input = body ∧ s'.list = list ∧ s'.pos = p + k ∧
        s'.cw.length = ctx'.written ∧ s'.mode = m' ∧ s'.plan = rest ∧ s'.newMode = m'.latch) ∨
     (encodeMode s = .error .tooMuch ∧ firstBigEnough list ctx'.written = none))

/-- **Segment that runs to the end of the data.**  `gE` is the plan after the step that reports the end;
`gE.cost - g0.extra` is what the planner charges for this segment. -/
def EndSeg (m : EMode) : Prop :=
  ∀ (body : List Nat) (list : List Sym) (p w k : Nat) (g0 gk gE : GPlan) (r : StepResult) (s : St),
    ByteList body → p + k = body.length → (1 ≤ k ∨ m = .ascii) →
    g0.plan = newPlan m (ctxAt body list p w) →
    StepsTo k g0 gk → gk.step = .ok (some (gE, r)) → r.end = true →
    EncAt body list s p w m [(0, m)] →
    g0.extra ≤ gE.cost ∧
    ((∃ s', encodeMode s = .ok s' ∧ s'.input = body ∧ s'.list = list ∧ s'.pos ≤ body.length ∧ s'.newMode = none ∧
        (s'.hasMore = true → s'.mode = .ascii ∧ s'.plan = [(0, .ascii)]) ∧
        12 * (s'.cw.length + asciiSize s'.rest) ≤ 12 * w + ceil12 (gE.cost - g0.extra)) ∨
     (encodeMode s = .error .tooMuch ∧ firstBigEnough list (w + ceil12 (gE.cost - g0.extra) / 12) = none))

end DM.Lemmas.Couple
