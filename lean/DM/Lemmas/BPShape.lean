import DM.Lemmas.RSTot
/-
Shape of the result of the Björck–Pereyra model: it never fails, returns the inverted roots and
a byte list of the length of the syndrome list.

Also: generic helpers for the functional-correctness walk (`BPCorrect.lean`).
-/
namespace DM.Lemmas.BP
set_option linter.unusedSimpArgs false
open DM.Model DM.Model.RS DM.Lemmas DM.Lemmas.RSTotal DM.Lemmas.RSTot

variable {A : String → Prop}

theorem bytes_set {l : List Nat} (h : Bytes l) (i : Nat) {v : Nat} (hv : v < 256) :
    Bytes (l.set i v) := by
  intro y hy
  rcases List.mem_or_eq_of_mem_set hy with h1 | h1
  · exact h y h1
  · rw [h1]; exact hv

theorem bytes_map_gdivD (c : Nat) (l : List Nat) : Bytes (l.map (gdivD c)) := by
  intro y hy
  simp only [List.mem_map] at hy
  obtain ⟨r, _, rfl⟩ := hy
  exact gdivD_lt _ _

/-- the first loop of `bjorckPereyra` inverts the roots -/
theorem invLoop_tot (roots : List Nat) (hnz : ∀ r ∈ roots, r ≠ 0 ∧ r < 256) :
    Tot A (forIn roots ([] : List Nat) (fun z (r : List Nat) => do
      let a ← div' "1 / z" 1 z
      pure PUnit.unit
      pure (ForInStep.yield (r ++ [a])))) (fun x => x = roots.map (gdivD 1)) := by
  apply Tot_forIn _ _ _
    (fun (rest : List Nat) (x : List Nat) => x ++ rest.map (gdivD 1) = roots.map (gdivD 1))
  · rfl
  · intro pre z rest x hl hI
    have hz : z ∈ roots := by rw [hl]; simp
    refine Tot_bind (Tot_div' (hnz z hz).1 ?_)
    apply Tot_pure
    rw [← hI]
    simp only [List.map_cons, List.append_assoc, List.singleton_append]
  · intro x hI
    simpa using hI

theorem bjorckPereyra_shape (roots syn : List Nat) (hne : roots ≠ []) (hnd : roots.Nodup)
    (hnz : ∀ r ∈ roots, r ≠ 0 ∧ r < 256) (hsyn : Bytes syn) (hlen : roots.length ≤ syn.length) :
    Tot NoSite (bjorckPereyra roots syn) (fun p =>
      p.1 = roots.map (gdivD 1) ∧ Bytes p.2 ∧ p.2.length = syn.length) := by
  have he : roots.length ≠ 0 := by
    intro h; exact hne (List.length_eq_zero_iff.1 h)
  unfold bjorckPereyra
  simp only []
  refine Tot_bind ?_
  apply Tot_mono (invLoop_tot roots hnz)
  intro x hx
  subst hx
  refine Tot_ite (fun h => absurd h he) (fun _ => ?_)
  refine Tot_bind ?_
  apply Tot_mono (Tot_forIn_inv _ _ _
    (fun s : List Nat => Bytes s ∧ s.length = syn.length) ⟨hsyn, rfl⟩ ?_)
  rotate_left
  · intro k hk s hs
    refine Tot_bind ?_
    apply Tot_mono (Tot_forIn_inv _ _ _
      (fun s : List Nat => Bytes s ∧ s.length = syn.length) hs ?_)
    · intro s hs; exact Tot_pure hs
    · intro j hj s hs
      simp only [List.mem_reverse, List.mem_filter, List.mem_range, decide_eq_true_eq] at hj
      refine Tot_bind (Tot_at' (by omega) ?_)
      refine Tot_bind (Tot_at' (by omega) ?_)
      apply Tot_pure
      simp only [ForInStep.value, List.length_set]
      exact ⟨bytes_set hs.1 _ (xor_lt_256 (getD_lt hs.1 _) (gmul_lt' _ _)), hs.2⟩
  intro s hs
  refine Tot_bind ?_
  apply Tot_mono (Tot_forIn_inv _ _ _
    (fun s : List Nat => Bytes s ∧ s.length = syn.length) hs ?_)
  rotate_left
  · intro k hk s hs
    refine Tot_bind ?_
    apply Tot_mono (Tot_forIn_inv _ _ _
      (fun s : List Nat => Bytes s ∧ s.length = syn.length) hs ?_)
    rotate_left
    · intro j hj s hs
      simp only [List.mem_filter, List.mem_range, decide_eq_true_eq] at hj
      refine Tot_bind (Tot_at' (by omega) ?_)
      refine Tot_bind (Tot_div' (xor_ne_zero
        (inv_distinct roots hnd hnz (j - k - 1) j (by omega) hj.1 (by omega)).symm) ?_)
      apply Tot_pure
      simp only [ForInStep.value, List.length_set]
      exact ⟨bytes_set hs.1 _ (gdivD_lt _ _), hs.2⟩
    intro s hs
    refine Tot_bind ?_
    apply Tot_mono (Tot_forIn_inv _ _ _
      (fun s : List Nat => Bytes s ∧ s.length = syn.length) hs ?_)
    · intro s hs; exact Tot_pure hs
    · intro j hj s hs
      simp only [List.mem_filter, List.mem_range, decide_eq_true_eq] at hj
      refine Tot_bind (Tot_at' (by omega) ?_)
      refine Tot_bind (Tot_at' (by omega) ?_)
      apply Tot_pure
      simp only [ForInStep.value, List.length_set]
      exact ⟨bytes_set hs.1 _ (xor_lt_256 (getD_lt hs.1 _) (getD_lt hs.1 _)), hs.2⟩
  intro s hs
  refine Tot_bind ?_
  apply Tot_mono (Tot_forIn_inv _ _ _
    (fun s : List Nat => Bytes s ∧ s.length = syn.length) hs ?_)
  rotate_left
  · intro i hi s hs
    simp only [List.mem_range] at hi
    refine Tot_bind (Tot_at' (by omega) ?_)
    refine Tot_bind (Tot_div' (inv_ne_zero roots hnz i hi) ?_)
    apply Tot_pure
    simp only [ForInStep.value, List.length_set]
    exact ⟨bytes_set hs.1 _ (gdivD_lt _ _), hs.2⟩
  intro s hs
  exact Tot_pure ⟨rfl, hs.1, hs.2⟩

/-! ### helpers for the functional-correctness walk -/

theorem gF_set (l : List Nat) (i v j : Nat) (hi : i < l.length) :
    gF (l.set i v) j = if j = i then GF.ofNat v else gF l j := by
  unfold gF
  rw [List.getD_eq_getElem?_getD, List.getD_eq_getElem?_getD, List.getElem?_set]
  by_cases h : i = j
  · subst h; simp [hi]
  · rw [if_neg h, if_neg (fun h' => h h'.symm)]

theorem gF_ofNat_xor (a b : Nat) : GF.ofNat (gadd a b) = GF.ofNat a + GF.ofNat b := GF.ofNat_xor a b

/-- loop rule for a loop over `(List.range n).reverse` whose body always yields: `I i` holds
when the iterations `n-1, …, i` are done -/
theorem Tot_forIn_range_rev {β} (n : Nat) (init : β) (f : Nat → β → R (ForInStep β))
    (I : Nat → β → Prop) (h0 : I n init)
    (hstep : ∀ i, i < n → ∀ b, I (i + 1) b →
      Tot A (f i b) (fun r => ∃ b', r = .yield b' ∧ I i b')) :
    Tot A (forIn (List.range n).reverse init f) (I 0) := by
  apply Tot_forIn _ init f (fun rest b => I rest.length b) (I 0) (by simpa using h0)
  · intro pre a rest b hl hI
    have h1 : List.range n = rest.reverse ++ a :: pre.reverse := by
      have := congrArg List.reverse hl
      simpa using this
    have hlen : n = rest.length + (pre.length + 1) := by
      have := congrArg List.length h1
      simpa using this
    have ha : a = rest.length := by
      have h2 : (List.range n)[rest.length]? = some a := by rw [h1]; simp
      rw [List.getElem?_range (by omega)] at h2
      exact (Option.some.inj h2).symm
    have hI' : I (a + 1) b := by
      have : (a :: rest).length = a + 1 := by simp only [List.length_cons]; omega
      rwa [this] at hI
    apply Tot_mono (hstep a (by omega) b hI')
    intro r hr
    obtain ⟨b', rfl, hb'⟩ := hr
    simp only
    rwa [← ha]
  · intro b h; simpa using h

/-- a loop `for a in l do s := s.set a v` over a list sorted by a relation `rel`, in
which the new entry `a` is computed from entries not yet overwritten: the field image of `s`
goes from `g` to `g'` -/
theorem Tot_sweep (rel : Nat → Nat → Prop) (l : List Nat)
    (hl : l.Pairwise rel) (n : Nat) (init : List Nat)
    (f : Nat → List Nat → R (ForInStep (List Nat))) (g g' : Nat → GF)
    (hb : Bytes init) (hn : init.length = n) (h0 : ∀ j, gF init j = g j)
    (hg : ∀ j, j ∉ l → g' j = g j)
    (hstep : ∀ a s, a ∈ l → Bytes s → s.length = n → (∀ j, ¬ rel j a → gF s j = g j) →
      Tot A (f a s) (fun r => ∃ v, r = .yield (s.set a v) ∧ v < 256 ∧ a < n ∧
        GF.ofNat v = g' a)) :
    Tot A (forIn l init f) (fun s => Bytes s ∧ s.length = n ∧ ∀ j, gF s j = g' j) := by
  apply Tot_forIn l init f (fun rest s => Bytes s ∧ s.length = n ∧
    ∃ pre, l = pre ++ rest ∧ ∀ j, gF s j = if j ∈ pre then g' j else g j)
  · exact ⟨hb, hn, [], rfl, fun j => by simpa using h0 j⟩
  · intro pre a rest s hl' hI
    obtain ⟨hbs, hns, pre', hl'', hI⟩ := hI
    have hpre : pre' = pre := List.append_cancel_right (hl''.symm.trans hl')
    subst hpre
    have hrel : ∀ p ∈ pre', rel p a := by
      intro p hp
      rw [hl', List.pairwise_append] at hl
      exact hl.2.2 p hp a (List.mem_cons_self ..)
    apply Tot_mono (hstep a s (by rw [hl']; simp) hbs hns ?_)
    · intro r hr
      obtain ⟨v, rfl, hv, han, hval⟩ := hr
      refine ⟨bytes_set hbs _ hv, by rw [List.length_set]; exact hns, pre' ++ [a],
        by rw [hl']; simp, ?_⟩
      intro j
      rw [gF_set _ _ _ _ (by omega)]
      by_cases hj : j = a
      · subst hj; simp [hval]
      · rw [if_neg hj, hI j]
        simp [hj]
    · intro j hj
      rw [hI j, if_neg (fun hm => hj (hrel j hm))]
  · intro s hI
    obtain ⟨hbs, hns, pre, hl', hI⟩ := hI
    refine ⟨hbs, hns, fun j => ?_⟩
    rw [hI j]
    have : pre = l := by simpa using hl'.symm
    subst this
    split
    · rfl
    · exact (hg j ‹_›).symm

end DM.Lemmas.BP
