import DM.Lemmas.RSTotal
import DM.Lemmas.RSDist
import Mathlib.Tactic.LinearCombination
/-
Tools for the algebraic correctness of the Levinson–Durbin recursion
(`DM.Model.RS.levinsonDurbin`): loop rules over `List.range'`, value-carrying versions of the
`Safe` rules, and the bridge from the model's `Nat` lists (`gadd`/`gmul`, `dot`, `slice`)
to sums in the field `GF`.
-/
namespace DM.Lemmas.LD
set_option linter.unusedSimpArgs false
set_option linter.unusedVariables false
open DM.Model DM.Model.RS DM.Lemmas DM.Lemmas.RSTotal

variable {A : String → Prop}

/-! ### loop rules with an index -/

theorem Safe_forIn_range' {β} (n : Nat) : ∀ (s : Nat) (init : β) (f : Nat → β → R (ForInStep β))
    (I : Nat → β → Prop) (Q : β → Prop), I s init →
    (∀ k b, s ≤ k → k < s + n → I k b →
      Safe A (f k b) (fun r => match r with | .yield b' => I (k + 1) b' | .done b' => Q b')) →
    (∀ b, I (s + n) b → Q b) → Safe A (forIn (List.range' s n) init f) Q := by
  induction n with
  | zero => intro s init f I Q h0 _ hfin; exact hfin _ h0
  | succ n ih =>
    intro s init f I Q h0 hstep hfin
    rw [List.range'_succ, List.forIn_cons]
    apply Safe_bind
    apply Safe_mono (hstep s init (Nat.le_refl _) (by omega) h0)
    intro r hr
    cases r with
    | done b' => exact hr
    | yield b' =>
      exact ih (s + 1) b' f I Q hr (fun k b h1 h2 => hstep k b (by omega) (by omega))
        (fun b hb => hfin b (by rwa [show s + (n + 1) = s + 1 + n by omega]))

theorem Safe_forIn_range {β} (n : Nat) (init : β) (f : Nat → β → R (ForInStep β))
    (I : Nat → β → Prop) (Q : β → Prop) (h0 : I 0 init)
    (hstep : ∀ k b, k < n → I k b →
      Safe A (f k b) (fun r => match r with | .yield b' => I (k + 1) b' | .done b' => Q b'))
    (hfin : ∀ b, I n b → Q b) : Safe A (forIn (List.range n) init f) Q := by
  rw [List.range_eq_range']
  exact Safe_forIn_range' n 0 init f I Q h0 (fun k b _ h2 => hstep k b (by omega))
    (fun b hb => hfin b (by simpa using hb))

theorem filter_ge_range (n a : Nat) :
    (List.range n).filter (fun x => decide (x ≥ a)) = List.range' a (n - a) := by
  induction n with
  | zero => simp
  | succ n ih =>
    rw [List.range_succ, List.filter_append, ih]
    by_cases h : n ≥ a
    · rw [show n + 1 - a = (n - a) + 1 by omega, List.range'_concat]
      simp [h]
    · rw [show n + 1 - a = 0 by omega, show n - a = 0 by omega]
      simp [h]

theorem Safe_forIn_filter_ge {β} (n a : Nat) (init : β) (f : Nat → β → R (ForInStep β))
    (I : Nat → β → Prop) (Q : β → Prop) (h0 : I a init)
    (hstep : ∀ k b, a ≤ k → k < n → I k b →
      Safe A (f k b) (fun r => match r with | .yield b' => I (k + 1) b' | .done b' => Q b'))
    (hfin : ∀ b, I (a + (n - a)) b → Q b) :
    Safe A (forIn ((List.range n).filter (fun x => decide (x ≥ a))) init f) Q := by
  rw [filter_ge_range]
  exact Safe_forIn_range' (n - a) a init f I Q h0 (fun k b h1 h2 => hstep k b h1 (by omega)) hfin

/-! ### field values of list entries -/

/-- entry `j` of a list as a field element (`0` beyond the end) -/
def V (l : List Nat) (j : Nat) : GF := GF.ofNat (l.getD j 0)

/-- `Σ_{j<L} s_{a+j} f_j` -/
def H (syn : List Nat) (a L : Nat) (f : Nat → GF) : GF :=
  ∑ j ∈ Finset.range L, V syn (a + j) * f j

/-- the value computed by `dot` -/
def dotN (a b : List Nat) : Nat := (List.zipWith gmul a b).foldl gadd 0

theorem two_eq_zero : (2 : GF) = 0 := by
  have := GF.add_self 1
  rw [← this]; norm_num

theorem V_of_ge {l : List Nat} {j : Nat} (h : l.length ≤ j) : V l j = 0 := by
  unfold V
  rw [List.getD_eq_getElem?_getD, List.getElem?_eq_none h]
  rfl

theorem V_nil (j : Nat) : V [] j = 0 := V_of_ge (by simp)
theorem V_cons_zero (a : Nat) (l : List Nat) : V (a :: l) 0 = GF.ofNat a := rfl
theorem V_cons_succ (a : Nat) (l : List Nat) (j : Nat) : V (a :: l) (j + 1) = V l j := rfl

theorem V_cons (a : Nat) (l : List Nat) (j : Nat) :
    V (a :: l) j = if j = 0 then GF.ofNat a else V l (j - 1) := by
  cases j with
  | zero => rfl
  | succ j => simp [V_cons_succ]

theorem foldl_gadd_lt (L : List Nat) : ∀ a, a < 256 → Bytes L → L.foldl gadd a < 256 := by
  induction L with
  | nil => intro a ha _; exact ha
  | cons b L ih =>
    intro a ha hL
    exact ih _ (xor_lt_256 ha hL.head) hL.tail

theorem gmul_lt' (a b : Nat) : gmul a b < 256 := by
  unfold gmul
  split
  · omega
  · unfold alog byteAt
    exact Nat.lt_of_le_of_lt Nat.and_le_right (by omega)

theorem dotN_lt (a b : List Nat) : dotN a b < 256 := by
  unfold dotN
  apply foldl_gadd_lt _ _ (by omega)
  exact bytes_zipWith _ _ _ (fun x _ y _ => gmul_lt' x y)

theorem sum_zipWith_gmul (a : List Nat) : ∀ b : List Nat, Bytes a → Bytes b →
    ((List.zipWith gmul a b).map GF.ofNat).sum = ∑ j ∈ Finset.range a.length, V a j * V b j := by
  induction a with
  | nil => intro b _ _; simp
  | cons x a ih =>
    intro b ha hb
    cases b with
    | nil => simp [V_nil]
    | cons y b =>
      rw [List.zipWith_cons_cons, List.map_cons, List.sum_cons, ih b ha.tail hb.tail,
        List.length_cons, Finset.sum_range_succ', GF.ofNat_gmul ha.head hb.head]
      simp only [V_cons_succ, V_cons_zero]
      ring

theorem ofNat_dotN (a b : List Nat) (ha : Bytes a) (hb : Bytes b) :
    GF.ofNat (dotN a b) = ∑ j ∈ Finset.range a.length, V a j * V b j := by
  unfold dotN
  rw [ofNat_foldl_xor, sum_zipWith_gmul a b ha hb]
  show (0 : GF) + _ = _
  rw [zero_add]

theorem bytes_take {l : List Nat} (h : Bytes l) (n : Nat) : Bytes (l.take n) :=
  fun x hx => h x (List.mem_of_mem_take hx)
theorem bytes_drop {l : List Nat} (h : Bytes l) (n : Nat) : Bytes (l.drop n) :=
  fun x hx => h x (List.mem_of_mem_drop hx)

theorem V_slice (l : List Nat) (a L j : Nat) (hj : j < L) :
    V ((l.drop a).take L) j = V l (a + j) := by
  unfold V
  rw [List.getD_eq_getElem?_getD, List.getD_eq_getElem?_getD, List.getElem?_take, if_pos hj,
    List.getElem?_drop]

/-- `dot (slice syn a b) l` in the field -/
theorem ofNat_dot_slice (syn l : List Nat) (a L : Nat) (hs : Bytes syn) (hl : Bytes l)
    (hlen : a + L ≤ syn.length) :
    GF.ofNat (dotN ((syn.drop a).take L) l) = H syn a L (V l) := by
  rw [ofNat_dotN _ _ (bytes_take (bytes_drop hs a) L) hl]
  have : ((syn.drop a).take L).length = L := by
    simp only [List.length_take, List.length_drop]; omega
  rw [this]
  unfold H
  apply Finset.sum_congr rfl
  intro j hj
  rw [V_slice _ _ _ _ (Finset.mem_range.mp hj)]

/-! ### value-carrying rules -/

theorem Safe_at_val {site : String} {l : List Nat} {i : Nat} {P : Nat → Prop}
    (hi : i < l.length) (h : P (l.getD i 0)) : Safe A (at' site l i) P :=
  Safe_at' hi (fun x hx => hx ▸ h)

/-- `dot (← slice site syn a b) l >>= f` -/
theorem Safe_slice_dot {β} {site : String} {syn l : List Nat} {a b L : Nat} {f : Nat → R β}
    {P : β → Prop} (hab : b + 1 = a + L) (hb : b < syn.length) (hl : l.length = L)
    (hs : Bytes syn) (hbl : Bytes l)
    (h : ∀ x, x < 256 → GF.ofNat x = H syn a L (V l) → Safe A (f x) P) :
    Safe A (slice site syn a b >>= fun s => dot s l >>= f) P := by
  unfold slice
  rw [if_pos ⟨by omega, hb⟩]
  show Safe A (dot _ l >>= f) P
  unfold dot
  have hL : b + 1 - a = L := by omega
  rw [hL, if_neg (by simp only [List.length_take, List.length_drop, ne_eq, Decidable.not_not]; omega)]
  exact h _ (dotN_lt _ _) (ofNat_dot_slice syn l a L hs hbl (by omega))

/-! ### linear algebra of `H` -/

theorem H_congr {syn : List Nat} {a L : Nat} {f g : Nat → GF} (h : ∀ j, j < L → f j = g j) :
    H syn a L f = H syn a L g := by
  unfold H
  exact Finset.sum_congr rfl fun j hj => by rw [h j (Finset.mem_range.mp hj)]

theorem H_add (syn : List Nat) (a L : Nat) (f g : Nat → GF) :
    H syn a L (fun j => f j + g j) = H syn a L f + H syn a L g := by
  unfold H
  rw [← Finset.sum_add_distrib]
  exact Finset.sum_congr rfl fun j _ => by ring

theorem H_smul (syn : List Nat) (a L : Nat) (c : GF) (f : Nat → GF) :
    H syn a L (fun j => c * f j) = c * H syn a L f := by
  unfold H
  rw [Finset.mul_sum]
  exact Finset.sum_congr rfl fun j _ => by ring

theorem H_smul_right (syn : List Nat) (a L : Nat) (c : GF) (f : Nat → GF) :
    H syn a L (fun j => f j * c) = H syn a L f * c := by
  unfold H
  rw [Finset.sum_mul]
  exact Finset.sum_congr rfl fun j _ => by ring

theorem H_zero (syn : List Nat) (a L : Nat) : H syn a L (fun _ => 0) = 0 := by
  unfold H; simp

theorem H_succ (syn : List Nat) (a L : Nat) (f : Nat → GF) :
    H syn a (L + 1) f = H syn a L f + V syn (a + L) * f L := by
  unfold H; rw [Finset.sum_range_succ]

/-- a sequence that vanishes from `L` on -/
theorem H_extend (syn : List Nat) (a L M : Nat) (f : Nat → GF) (hLM : L ≤ M)
    (h : ∀ j, L ≤ j → f j = 0) : H syn a M f = H syn a L f := by
  induction M with
  | zero => have : L = 0 := by omega
            subst this; rfl
  | succ M ih =>
    by_cases hL : L = M + 1
    · subst hL; rfl
    · rw [H_succ, ih (by omega), h M (by omega)]; ring

/-- a sequence shifted up by `off` places (zeros in front) -/
theorem H_shift (syn : List Nat) (a L off : Nat) (f : Nat → GF) :
    H syn a (off + L) (fun q => if off ≤ q then f (q - off) else 0) = H syn (a + off) L f := by
  induction L with
  | zero =>
    unfold H
    rw [Finset.sum_range_zero]
    apply Finset.sum_eq_zero
    intro q hq
    have := Finset.mem_range.mp hq
    show _ * (if off ≤ q then f (q - off) else 0) = 0
    rw [if_neg (by omega)]; ring
  | succ L ih =>
    rw [show off + (L + 1) = (off + L) + 1 by omega, H_succ, H_succ, ih, if_pos (by omega)]
    rw [show off + L - off = L by omega, show a + (off + L) = a + off + L by omega]

theorem H_shift_one (syn : List Nat) (a L : Nat) (f : Nat → GF) :
    H syn a (L + 1) (fun q => if q = 0 then 0 else f (q - 1)) = H syn (a + 1) L f := by
  rw [← H_shift syn a L 1 f, show 1 + L = L + 1 by omega]
  apply H_congr
  intro j _
  by_cases h : j = 0
  · subst h; simp
  · rw [if_neg h, if_pos (by omega)]

/-! ### bytes -/

theorem bytes_of_getD {l : List Nat} (h : ∀ j, j < l.length → l.getD j 0 < 256) : Bytes l := by
  intro x hx
  obtain ⟨i, hi, rfl⟩ := List.getElem_of_mem hx
  have := h i hi
  rwa [List.getD_eq_getElem?_getD, List.getElem?_eq_getElem hi] at this

theorem bytes_map_range (n : Nat) (f : Nat → Nat) (h : ∀ j, j < n → f j < 256) :
    Bytes ((List.range n).map f) := by
  intro x hx
  simp only [List.mem_map, List.mem_range] at hx
  obtain ⟨j, hj, rfl⟩ := hx
  exact h j hj

theorem bytes_set {l : List Nat} (h : Bytes l) (i x : Nat) (hx : x < 256) : Bytes (l.set i x) := by
  intro z hz
  rcases List.mem_or_eq_of_mem_set hz with h1 | h1
  · exact h z h1
  · omega

theorem V_map_range (n : Nat) (f : Nat → Nat) (j : Nat) :
    V ((List.range n).map f) j = if j < n then GF.ofNat (f j) else 0 := by
  split
  · rename_i h
    unfold V
    rw [List.getD_eq_getElem?_getD, List.getElem?_map, List.getElem?_range h]
    rfl
  · exact V_of_ge (by simp only [List.length_map, List.length_range]; omega)

theorem V_set (l : List Nat) (i x j : Nat) :
    V (l.set i x) j = if j = i ∧ i < l.length then GF.ofNat x else V l j := by
  unfold V
  rw [List.getD_eq_getElem?_getD, List.getD_eq_getElem?_getD, List.getElem?_set]
  by_cases hji : i = j
  · subst hji
    by_cases hi : i < l.length
    · simp [hi]
    · simp [hi]
  · rw [if_neg hji, if_neg (by omega)]

theorem V_append (l₁ l₂ : List Nat) (j : Nat) :
    V (l₁ ++ l₂) j = if j < l₁.length then V l₁ j else V l₂ (j - l₁.length) := by
  unfold V
  rw [List.getD_eq_getElem?_getD, List.getD_eq_getElem?_getD, List.getD_eq_getElem?_getD,
    List.getElem?_append]
  split <;> rfl

theorem ofNat_one : GF.ofNat 1 = 1 := rfl

theorem ofNat_gdivD {a b : Nat} (ha : a < 256) (hb : b < 256) (h0 : b ≠ 0) :
    GF.ofNat (gdivD a b) = GF.ofNat a / GF.ofNat b := by
  unfold gdivD
  rw [gdiv_eq ha hb h0, Option.getD_some, GF.ofNat_gmul ha (ginv_lt b), div_eq_mul_inv]
  congr 1
  apply GF.ext
  rw [GF.inv_val, GF.ofNat_val (ginv_lt b), GF.ofNat_val hb]

theorem ofNat_ne_zero {a : Nat} (ha : a < 256) (h0 : a ≠ 0) : GF.ofNat a ≠ 0 :=
  fun h => h0 ((GF.ofNat_eq_zero ha).mp h)

end DM.Lemmas.LD
