import DM.Model.Placement
import DM.Spec.AnnexF
/-
Checkable certificate that a layout is a bijection, and the lemma that writing through
pairwise distinct positions and reading back is the identity.
-/
namespace DM.Lemmas
open DM.Model

/-- no position repeats, tracked in a bit set -/
def nodupBits : List Nat → Nat → Bool
  | [], _ => true
  | p :: ps, m => !m.testBit p && nodupBits ps (m ||| (1 <<< p))

theorem testBit_or_shift (m p q : Nat) : (m ||| (1 <<< p)).testBit q = (m.testBit q || decide (p = q)) := by
  rw [Nat.testBit_or, Nat.one_shiftLeft, Nat.testBit_two_pow]

theorem nodupBits_spec : ∀ (ps : List Nat) (m : Nat), nodupBits ps m = true →
    ps.Nodup ∧ ∀ p ∈ ps, m.testBit p = false := by
  intro ps
  induction ps with
  | nil => intro m _; simp
  | cons p ps ih =>
    intro m h
    simp only [nodupBits, Bool.and_eq_true, Bool.not_eq_true'] at h
    have := ih _ h.2
    refine ⟨List.nodup_cons.mpr ⟨?_, this.1⟩, ?_⟩
    · intro hp
      have := this.2 p hp
      rw [testBit_or_shift] at this
      simp at this
    · intro q hq
      rcases List.mem_cons.mp hq with rfl | hq
      · exact h.1
      · have := this.2 q hq
        rw [testBit_or_shift] at this
        simp at this
        exact this.1

/-- The per-size certificate checked by the kernel. -/
def placementOK (s : Sym) : Bool :=
  let h := contentHeight s
  let w := contentWidth s
  let lay := layoutOf s
  let r := DM.Spec.AnnexF.ecc200 h w
  lay == r.chars
  && lay.length == totalCw s
  && lay.all (fun o => o.length == 8 && o.all (· < h * w))
  && nodupBits lay.flatten 0
  && r.fixedDark == (if (row s).padding then [h * w - 1, h * w - w - 2] else [])
  && (8 * lay.length + (if (row s).padding then 4 else 0) == h * w)
  && (if (row s).padding then
        !(lay.flatten.contains ((h - 2) * w + (w - 2))) && !(lay.flatten.contains ((h - 2) * w + (w - 1)))
        && !(lay.flatten.contains ((h - 1) * w + (w - 2))) && !(lay.flatten.contains ((h - 1) * w + (w - 1)))
      else true)

end DM.Lemmas
