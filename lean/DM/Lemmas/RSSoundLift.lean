import DM.Props.C09
import DM.Lemmas.RSTotal
/-
Soundness of the whole Reed–Solomon decoder reduced to the soundness of the correction of one
de-interleaved block (`BlockSound`): whatever word a successful `decode` leaves behind, every
interleaved block of it is a codeword (`C09.Valid`).
-/
namespace DM.Lemmas.RSSound
open DM.Gen DM.Model DM.Model.RS DM.Spec DM.Lemmas DM.Props

/-- soundness of the correction of one de-interleaved block -/
def BlockSound : Prop :=
  ∀ (dB eB : List Nat) (k : Nat), Bytes dB → Bytes eB → 1 ≤ k → k < 254 → eB.length = k →
    1 ≤ dB.length → dB.length + eB.length ≤ 255 →
    ∀ d' e', RS.decodeBlock dB eB k = .ok (d', e') →
      Bytes d' ∧ Bytes e' ∧ d'.length = dB.length ∧ e'.length = eB.length ∧
        isCodeword (d' ++ e') k = true

/-! ### list lemmas about `scatter` -/

theorem getD_set (l : List Nat) (i v p : Nat) :
    (l.set i v).getD p 0 = if p = i ∧ p < l.length then v else l.getD p 0 := by
  rw [List.getD_eq_getElem?_getD, List.getD_eq_getElem?_getD, List.getElem?_set]
  by_cases h : i = p
  · subst h
    by_cases h2 : i < l.length
    · simp [h2]
    · simp [h2]
  · have h' : ¬ p = i := fun e => h e.symm
    simp [h, h']

theorem pos_decomp (B b n p : Nat) (hb : b < B) : p = b + n * B ↔ p % B = b ∧ p / B = n := by
  have hB : 0 < B := by omega
  constructor
  · rintro rfl
    refine ⟨?_, ?_⟩
    · rw [Nat.add_mul_mod_self_right, Nat.mod_eq_of_lt hb]
    · rw [Nat.add_mul_div_right _ _ hB, Nat.div_eq_of_lt hb, Nat.zero_add]
  · rintro ⟨h1, h2⟩
    have := Nat.mod_add_div' p B
    rw [h1, h2] at this
    exact this.symm

/-- entries of the fold behind `scatter`, started at block index `n` -/
theorem getD_fold (b B : Nat) (hb : b < B) (blk : List Nat) :
    ∀ (n : Nat) (acc : List Nat) (p : Nat),
      ((blk.zipIdx n).foldl (fun acc q => acc.set (b + q.2 * B) q.1) acc).getD p 0
        = if p % B = b ∧ n ≤ p / B ∧ p / B < n + blk.length ∧ p < acc.length
          then blk.getD (p / B - n) 0 else acc.getD p 0 := by
  induction blk with
  | nil =>
    intro n acc p
    have : ¬ (p % B = b ∧ n ≤ p / B ∧ p / B < n + ([] : List Nat).length ∧ p < acc.length) := by
      simp only [List.length_nil]; omega
    rw [if_neg this]
    rfl
  | cons v blk ih =>
    intro n acc p
    rw [List.zipIdx_cons, List.foldl_cons, ih (n + 1) (acc.set (b + n * B) v) p]
    simp only [List.length_set, List.length_cons]
    rw [getD_set]
    have hdec := pos_decomp B b n p hb
    by_cases hmod : p % B = b
    · by_cases hlt : p < acc.length
      · by_cases hn : p / B = n
        · have hp : p = b + n * B := hdec.2 ⟨hmod, hn⟩
          rw [if_neg (by omega), if_pos ⟨hp, hlt⟩, if_pos ⟨hmod, by omega, by omega, hlt⟩]
          have : p / B - n = 0 := by omega
          rw [this]
          rfl
        · have hp : ¬ p = b + n * B := fun e => hn (hdec.1 e).2
          by_cases hr : n + 1 ≤ p / B ∧ p / B < n + 1 + blk.length
          · rw [if_pos ⟨hmod, hr.1, hr.2, hlt⟩, if_pos ⟨hmod, by omega, by omega, hlt⟩]
            have : p / B - n = (p / B - (n + 1)) + 1 := by omega
            rw [this, List.getD_cons_succ]
          · rw [if_neg (by intro h; exact hr ⟨h.2.1, h.2.2.1⟩), if_neg (by intro h; exact hp h.1),
              if_neg (by intro h; apply hr; omega)]
      · rw [if_neg (by intro h; exact hlt h.2.2.2), if_neg (by intro h; exact hlt h.2),
          if_neg (by intro h; exact hlt h.2.2.2)]
    · rw [if_neg (by intro h; exact hmod h.1), if_neg (by intro h; exact hmod (hdec.1 h.1).1),
        if_neg (by intro h; exact hmod h.1)]

/-- entries of `scatter l blk b B` -/
theorem getD_scatter (l blk : List Nat) (b B : Nat) (hb : b < B) (p : Nat) :
    (scatter l blk b B).getD p 0
      = if p % B = b ∧ p / B < blk.length ∧ p < l.length then blk.getD (p / B) 0 else l.getD p 0 := by
  unfold scatter
  rw [getD_fold b B hb blk 0 l p]
  simp only [Nat.zero_le, true_and, Nat.zero_add, Nat.sub_zero]

theorem strided_pos_lt (l : List Nat) (b B m : Nat) (hB : 0 < B)
    (hm : m < (strided l b B).length) : b + m * B < l.length := by
  rw [RSTotal.length_strided] at hm
  have h1 : m + 1 ≤ (l.length - b + B - 1) / B := hm
  rw [Nat.le_div_iff_mul_le hB, Nat.add_mul, Nat.one_mul] at h1
  omega

/-- the block written by `scatter` is read back by `strided` -/
theorem strided_scatter_self (l blk : List Nat) (b B : Nat) (hb : b < B)
    (hlen : blk.length = (strided l b B).length) :
    strided (scatter l blk b B) b B = blk := by
  have hB : 0 < B := by omega
  apply List.ext_getElem
  · rw [RSTotal.length_strided, RSTotal.length_scatter, ← RSTotal.length_strided, hlen]
  · intro m h1 h2
    have hget : (strided (scatter l blk b B) b B)[m] = (scatter l blk b B).getD (b + m * B) 0 := by
      simp [strided]
    rw [hget, getD_scatter l blk b B hb]
    have hd := (pos_decomp B b m (b + m * B) hb).1 rfl
    have hlt : b + m * B < l.length := strided_pos_lt l b B m hB (by rw [← hlen]; exact h2)
    rw [if_pos ⟨hd.1, by rw [hd.2]; exact h2, hlt⟩, hd.2, List.getD_eq_getElem?_getD,
      List.getElem?_eq_getElem h2]
    rfl

/-- `scatter` leaves the other blocks alone -/
theorem strided_scatter_other (l blk : List Nat) (b b' B : Nat) (hb : b < B) (hb' : b' < B)
    (hne : b' ≠ b) :
    strided (scatter l blk b B) b' B = strided l b' B := by
  unfold strided
  rw [RSTotal.length_scatter]
  apply List.map_congr_left
  intro m _
  rw [getD_scatter l blk b B hb]
  have hd := (pos_decomp B b' m (b' + m * B) hb').1 rfl
  rw [if_neg (by intro h; exact hne (hd.1.symm.trans h.1))]

theorem bytes_set {l : List Nat} (hl : Bytes l) (i v : Nat) (hv : v < 256) : Bytes (l.set i v) := by
  intro x hx
  rcases List.mem_or_eq_of_mem_set hx with h | h
  · exact hl x h
  · rw [h]; exact hv

theorem bytes_scatter {l blk : List Nat} (hl : Bytes l) (hblk : Bytes blk) (b B : Nat) :
    Bytes (scatter l blk b B) := by
  unfold scatter
  have key : ∀ (ps : List (Nat × Nat)) (acc : List Nat), (∀ q ∈ ps, q.1 < 256) → Bytes acc →
      Bytes (ps.foldl (fun acc q => acc.set (b + q.2 * B) q.1) acc) := by
    intro ps
    induction ps with
    | nil => intro acc _ h; exact h
    | cons q ps ih =>
      intro acc hq hacc
      rw [List.foldl_cons]
      exact ih _ (fun r hr => hq r (List.mem_cons_of_mem _ hr))
        (bytes_set hacc _ _ (hq q (List.mem_cons_self ..)))
  apply key _ _ _ hl
  intro q hq
  obtain ⟨v, i⟩ := q
  have := List.mem_zipIdx hq
  obtain ⟨_, hi, hv⟩ := this
  simp only
  rw [hv]
  exact hblk _ (List.getElem_mem _)

/-! ### the block loop -/

/-- invariant of the block loop: the blocks still to be processed and the blocks that already are
codewords are codewords of the result -/
theorem decodeBlocks_sound (hblock : BlockSound) (B k n : Nat) (hk1 : 1 ≤ k) (hk : k < 254)
    (hB : 0 < B) (hBn : B ≤ n)
    (h255 : ∀ data : List Nat, data.length = n → ∀ b, (strided data b B).length + k ≤ 255) :
    ∀ (bs data err d e : List Nat), (∀ b ∈ bs, b < B) → Bytes data → Bytes err →
      data.length = n → err.length = B * k →
      decodeBlocks B k bs data err = .ok (d, e) →
      d.length = n ∧ e.length = B * k ∧
      ∀ b, b < B → (b ∈ bs ∨ isCodeword (strided data b B ++ strided err b B) k = true) →
        isCodeword (strided d b B ++ strided e b B) k = true := by
  intro bs
  induction bs with
  | nil =>
    intro data err d e _ _ _ hdl hel h
    unfold decodeBlocks at h
    cases h
    refine ⟨hdl, hel, ?_⟩
    intro b _ hb
    rcases hb with hb | hb
    · cases hb
    · exact hb
  | cons b bs ih =>
    intro data err d e hbs hd he hdl hel h
    have hb : b < B := hbs b (List.mem_cons_self ..)
    have hkB : B ≤ B * k := Nat.le_mul_of_pos_right B hk1
    unfold decodeBlocks at h
    rw [if_neg (by rw [hdl, hel]; omega)] at h
    cases hdec : decodeBlock (strided data b B) (strided err b B) k with
    | error x => rw [hdec] at h; cases h
    | ok p =>
      obtain ⟨dB, eB⟩ := p
      rw [hdec] at h
      simp only at h
      have hsl : (strided err b B).length = k := C01.strided_length_full err b B k hb hel
      have hpos : 1 ≤ (strided data b B).length :=
        C01.strided_length_pos data b B hB (by omega)
      obtain ⟨hdB, heB, hdBl, heBl, hcw⟩ := hblock (strided data b B) (strided err b B) k
        (C06.strided_bytes hd b B) (C06.strided_bytes he b B) hk1 hk hsl hpos
        (by rw [hsl]; exact h255 data hdl b) dB eB hdec
      obtain ⟨r1, r2, r3⟩ := ih (scatter data dB b B) (scatter err eB b B) d e
        (fun x hx => hbs x (List.mem_cons_of_mem _ hx))
        (bytes_scatter hd hdB b B) (bytes_scatter he heB b B)
        (by rw [RSTotal.length_scatter]; exact hdl) (by rw [RSTotal.length_scatter]; exact hel) h
      refine ⟨r1, r2, ?_⟩
      intro b' hb' hor
      apply r3 b' hb'
      by_cases hbb : b' = b
      · right
        subst hbb
        rw [strided_scatter_self data dB b' B hb' hdBl, strided_scatter_self err eB b' B hb' heBl]
        exact hcw
      · rcases hor with hor | hor
        · rcases List.mem_cons.mp hor with hor | hor
          · exact absurd hor hbb
          · left; exact hor
        · right
          rw [strided_scatter_other data dB b b' B hb hb' hbb,
            strided_scatter_other err eB b b' B hb hb' hbb]
          exact hor

/-- **Soundness of the decoder from the soundness of one block.** -/
theorem decode_sound_of_block (hblock : BlockSound) (s : Sym) (hs : s < numSizes) (cw out : List Nat)
    (hlen : cw.length = totalCw s) (hbytes : ∀ b ∈ cw, b < 256)
    (h : RS.decode s cw = .ok out) :
    DM.Props.C09.Valid s (out.take (dataCw s)) (out.drop (dataCw s)) := by
  obtain ⟨_, hk1, hk254, hB, hBd⟩ := C06.gen_monic_roots s hs
  have hlen' : cw.length = (row s).dataCw + (row s).blocks * (row s).eccPer := hlen
  unfold RS.decode at h
  simp only at h
  rw [if_neg (by omega)] at h
  have hcwb : Bytes cw := hbytes
  have hd : Bytes (cw.take (row s).dataCw) := fun x hx => hcwb x (List.mem_of_mem_take hx)
  have he : Bytes (cw.drop (row s).dataCw) := fun x hx => hcwb x (List.mem_of_mem_drop hx)
  have hdl : (cw.take (row s).dataCw).length = (row s).dataCw := by
    rw [List.length_take]; omega
  have hel : (cw.drop (row s).dataCw).length = (row s).blocks * (row s).eccPer := by
    rw [List.length_drop]; omega
  cases hdec : decodeBlocks (row s).blocks (row s).eccPer (List.range (row s).blocks)
      (cw.take (row s).dataCw) (cw.drop (row s).dataCw) with
  | error x => rw [hdec] at h; cases h
  | ok p =>
    obtain ⟨d, e⟩ := p
    rw [hdec] at h
    simp only at h
    cases h
    obtain ⟨r1, _, r3⟩ := decodeBlocks_sound hblock (row s).blocks (row s).eccPer (row s).dataCw
      hk1 hk254 hB hBd
      (fun data hl b => DM.Props.C09.strided_data_len s hs data hl b)
      (List.range (row s).blocks) _ _ d e (fun b hb => List.mem_range.mp hb) hd he hdl hel hdec
    have ht : (d ++ e).take (dataCw s) = d := by
      have : dataCw s = d.length := r1.symm
      rw [this]; simp
    have hdr : (d ++ e).drop (dataCw s) = e := by
      have : dataCw s = d.length := r1.symm
      rw [this]; simp
    rw [ht, hdr]
    intro b hb
    exact r3 b hb (Or.inl (List.mem_range.mpr hb))

/-- the block loop keeps the two parts lists of bytes -/
theorem decodeBlocks_bytes (hblock : BlockSound) (B k n : Nat) (hk1 : 1 ≤ k) (hk : k < 254)
    (hB : 0 < B) (hBn : B ≤ n)
    (h255 : ∀ data : List Nat, data.length = n → ∀ b, (strided data b B).length + k ≤ 255) :
    ∀ (bs data err d e : List Nat), (∀ b ∈ bs, b < B) → Bytes data → Bytes err →
      data.length = n → err.length = B * k →
      decodeBlocks B k bs data err = .ok (d, e) → Bytes d ∧ Bytes e := by
  intro bs
  induction bs with
  | nil =>
    intro data err d e _ hd he _ _ h
    unfold decodeBlocks at h
    cases h
    exact ⟨hd, he⟩
  | cons b bs ih =>
    intro data err d e hbs hd he hdl hel h
    have hb : b < B := hbs b (List.mem_cons_self ..)
    have hkB : B ≤ B * k := Nat.le_mul_of_pos_right B hk1
    unfold decodeBlocks at h
    rw [if_neg (by rw [hdl, hel]; omega)] at h
    cases hdec : decodeBlock (strided data b B) (strided err b B) k with
    | error x => rw [hdec] at h; cases h
    | ok p =>
      obtain ⟨dB, eB⟩ := p
      rw [hdec] at h
      simp only at h
      have hsl : (strided err b B).length = k := C01.strided_length_full err b B k hb hel
      have hpos : 1 ≤ (strided data b B).length :=
        C01.strided_length_pos data b B hB (by omega)
      obtain ⟨hdB, heB, _, _, _⟩ := hblock (strided data b B) (strided err b B) k
        (C06.strided_bytes hd b B) (C06.strided_bytes he b B) hk1 hk hsl hpos
        (by rw [hsl]; exact h255 data hdl b) dB eB hdec
      exact ih (scatter data dB b B) (scatter err eB b B) d e
        (fun x hx => hbs x (List.mem_cons_of_mem _ hx))
        (bytes_scatter hd hdB b B) (bytes_scatter he heB b B)
        (by rw [RSTotal.length_scatter]; exact hdl) (by rw [RSTotal.length_scatter]; exact hel) h

/-- a successful `decode` returns a list of bytes of the symbol's total length -/
theorem decode_bytes_of_block (hblock : BlockSound) (s : Sym) (hs : s < numSizes) (cw out : List Nat)
    (hlen : cw.length = totalCw s) (hbytes : ∀ b ∈ cw, b < 256) (h : RS.decode s cw = .ok out) :
    Bytes out ∧ out.length = totalCw s := by
  obtain ⟨_, hk1, hk254, hB, hBd⟩ := C06.gen_monic_roots s hs
  have hlen' : cw.length = (row s).dataCw + (row s).blocks * (row s).eccPer := hlen
  refine ⟨?_, by rw [RSTotal.decode_length s cw hlen' out h, hlen]⟩
  unfold RS.decode at h
  simp only at h
  rw [if_neg (by omega)] at h
  have hcwb : Bytes cw := hbytes
  have hd : Bytes (cw.take (row s).dataCw) := fun x hx => hcwb x (List.mem_of_mem_take hx)
  have he : Bytes (cw.drop (row s).dataCw) := fun x hx => hcwb x (List.mem_of_mem_drop hx)
  have hdl : (cw.take (row s).dataCw).length = (row s).dataCw := by
    rw [List.length_take]; omega
  have hel : (cw.drop (row s).dataCw).length = (row s).blocks * (row s).eccPer := by
    rw [List.length_drop]; omega
  cases hdec : decodeBlocks (row s).blocks (row s).eccPer (List.range (row s).blocks)
      (cw.take (row s).dataCw) (cw.drop (row s).dataCw) with
  | error x => rw [hdec] at h; cases h
  | ok p =>
    obtain ⟨d, e⟩ := p
    rw [hdec] at h
    simp only at h
    cases h
    obtain ⟨b1, b2⟩ := decodeBlocks_bytes hblock (row s).blocks (row s).eccPer (row s).dataCw
      hk1 hk254 hB hBd
      (fun data hl b => DM.Props.C09.strided_data_len s hs data hl b)
      (List.range (row s).blocks) _ _ d e (fun b hb => List.mem_range.mp hb) hd he hdl hel hdec
    exact b1.append b2

end DM.Lemmas.RSSound
