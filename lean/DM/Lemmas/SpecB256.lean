import DM.Lemmas.SpecAscii
import DM.Lemmas.B256RT
/-
The reference decoder (`DM.Spec.Stream`) on the output of the Base 256 encoder: latch 231, the
length field in its three forms, 255-state randomisation by codeword position.
-/
namespace DM.Lemmas.SpecB256
open DM.Model DM.Lemmas DM.Lemmas.AsciiRT DM.Lemmas.SpecStep DM.Lemmas.SpecAscii DM.Lemmas.Complete DM.Spec.Stream
open DM.Spec.Build (randomize255)

theorem unrand_rand (v p : Nat) (hv : v < 256) : unrand255 (randomize255 v p) p = v := by
  unfold unrand255 randomize255 rand255
  have : (149 * p) % 255 < 255 := Nat.mod_lt _ (by omega)
  simp only []
  split <;> omega

theorem randFrom_getElem? : ∀ (F : List Nat) (p k : Nat), (randFrom p F)[k]? = F[k]?.map (fun v => randomize255 v (p + k)) := by
  intro F
  induction F with
  | nil => intro p k; simp [randFrom]
  | cons v t ih =>
    intro p k
    cases k with
    | zero => simp [randFrom]
    | succ k =>
      simp only [randFrom, List.getElem?_cons_succ]
      rw [ih]
      congr 2
      funext v; congr 1; omega

/-- the data bytes of a Base 256 field are read back -/
theorem b256Out_rand (cw : Array Nat) (start : Nat) (body : List Nat) (hb : ByteList body)
    (ho : Occurs cw start (randFrom (start + 1) body)) : b256Out cw start body.length = body := by
  unfold b256Out
  apply List.ext_getElem
  · simp
  · intro k h1 h2
    simp only [List.getElem_map, List.getElem_range', Nat.one_mul]
    have := ho k (by rw [randFrom_length]; exact h2)
    rw [randFrom_getElem?, List.getElem?_eq_getElem h2] at this
    simp only [Option.map_some] at this
    have := (idx this).2
    rw [this]
    have e : start + 1 + k = start + k + 1 := by omega
    rw [e]
    exact unrand_rand _ _ (hb _ (List.getElem_mem h2))


/-- the state after a Base 256 stretch that started with the latch at `s.i` -/
def afterB256 (s : St) (n : Nat) (body : List Nat) : St :=
  { s with i := s.i + n, mode := .ascii, cst := {}, out := s.out ++ body.toArray,
           trace := s.trace ++ Array.replicate body.length .base256,
           latches := s.latches.push (s.i, .base256) }

/-- **Latch, length field, data**: two steps of the reference decoder read a whole Base 256 stretch. -/
theorem steps_b256 (cw : Array Nat) (s : St) (body : List Nat) (toEnd : Bool) (hm : s.mode = .ascii) (hb : ByteList body)
    (ho : Occurs cw s.i ([231] ++ randFrom (s.i + 2) (b256Hdr body toEnd ++ body)))
    (hok : if toEnd then cw.size = s.i + 2 + body.length else (1 ≤ body.length ∧ body.length ≤ 1555)) :
    Steps cw 2 s (afterB256 s (1 + (b256Hdr body toEnd).length + body.length) body) := by
  have h1 : step cw s = .ok (some (latch s .base256)) := step_latch cw s 231 .base256 ho.left.head hm (by simp)
  have hoF : Occurs cw (s.i + 1) (randFrom (s.i + 2) (b256Hdr body toEnd ++ body)) := by
    simpa using ho.right
  have hrf : ∀ (a b : List Nat) (p : Nat), randFrom p (a ++ b) = randFrom p a ++ randFrom (p + a.length) b := by
    intro a
    induction a with
    | nil => intro b p; simp [randFrom]
    | cons x t ih => intro b p; simp only [List.cons_append, randFrom, ih, List.length_cons]; congr 3; omega
  rw [hrf] at hoF
  have hoH := hoF.left
  have hoB := hoF.right
  rw [randFrom_length] at hoB
  refine (Steps.one h1).trans (Steps.one ?_)
  have hmL : (latch s .base256).mode = .base256 := rfl
  have hiL : (latch s .base256).i = s.i + 1 := rfl
  cases toEnd with
  | true =>
    simp only [↓reduceIte] at hok
    simp only [b256Hdr, ↓reduceIte, randFrom, List.length_singleton] at hoH hoB ⊢
    have hc := hoH.head
    have hd1 : unrand255 (randomize255 0 (s.i + 2)) ((latch s .base256).i + 1) = 0 := by
      rw [hiL]; exact unrand_rand 0 _ (by omega)
    rw [step_b256 cw (latch s .base256) _ (cw.size - (s.i + 1 + 1)) (s.i + 1 + 1) (by rw [hiL]; exact hc) hmL
      (Or.inl ⟨hd1, by rw [hiL], by rw [hiL]⟩) (by omega)]
    have hlen : cw.size - (s.i + 1 + 1) = body.length := by omega
    rw [hlen, b256Out_rand cw (s.i + 1 + 1) body hb (by simpa [Nat.add_assoc] using hoB)]
    simp only [afterB256, latch]
    congr 3
    omega
  | false =>
    simp only [Bool.false_eq_true, ↓reduceIte] at hok
    by_cases h249 : body.length ≤ 249
    · simp only [b256Hdr, Bool.false_eq_true, ↓reduceIte, h249, randFrom, List.length_singleton] at hoH hoB ⊢
      have hc := hoH.head
      have hd1 : unrand255 (randomize255 body.length (s.i + 2)) ((latch s .base256).i + 1) = body.length := by
        rw [hiL]; exact unrand_rand _ _ (by omega)
      have hfit : s.i + 1 + 1 + body.length ≤ cw.size := by
        have := hoB (body.length - 1) (by rw [randFrom_length]; omega)
        rw [randFrom_getElem?, List.getElem?_eq_getElem (by omega)] at this
        have := (idx this).1
        omega
      rw [step_b256 cw (latch s .base256) _ body.length (s.i + 1 + 1) (by rw [hiL]; exact hc) hmL
        (Or.inr (Or.inl ⟨by rw [hd1]; exact hok.1, by rw [hd1]; exact h249, hd1.symm, by rw [hiL]⟩)) hfit]
      rw [b256Out_rand cw (s.i + 1 + 1) body hb (by simpa [Nat.add_assoc] using hoB)]
      simp only [afterB256, latch]
      congr 3
      omega
    · simp only [b256Hdr, Bool.false_eq_true, ↓reduceIte, h249, randFrom, List.length_cons, List.length_nil] at hoH hoB ⊢
      have hc := hoH.head
      have hc2 := hoH.tail.head
      have hd1 : unrand255 (randomize255 (body.length / 250 + 249) (s.i + 2)) ((latch s .base256).i + 1) =
          body.length / 250 + 249 := by
        rw [hiL]; exact unrand_rand _ _ (by omega)
      have hd2 : unrand255 cw[(latch s .base256).i + 1]! ((latch s .base256).i + 2) = body.length % 250 := by
        rw [hiL, (idx hc2).2]
        have e : s.i + 1 + 2 = s.i + 2 + 1 := by omega
        rw [e]
        exact unrand_rand _ _ (by omega)
      have hfit : s.i + 1 + 2 + body.length ≤ cw.size := by
        have := hoB (body.length - 1) (by rw [randFrom_length]; omega)
        rw [randFrom_getElem?, List.getElem?_eq_getElem (by omega)] at this
        have := (idx this).1
        omega
      rw [step_b256 cw (latch s .base256) _ body.length (s.i + 1 + 2) (by rw [hiL]; exact hc) hmL
        (Or.inr (Or.inr ⟨by rw [hd1]; omega, by rw [hiL]; exact (idx hc2).1, by rw [hd1, hd2]; omega, by rw [hiL]⟩)) hfit]
      rw [b256Out_rand cw (s.i + 1 + 2) body hb (by simpa [Nat.add_assoc] using hoB)]
      simp only [afterB256, latch]
      congr 3
      omega


/-! ### encoder side: the pure Base 256 plan, behind any prefix -/

def p0 (list : List Sym) (pre body : List Nat) : Enc.St :=
  { input := body, pos := 0, mode := .ascii, plan := [(body.length, .base256), (0, .base256)], newMode := none,
    cw := pre, list := list }

def p1 (list : List Sym) (pre body : List Nat) : Enc.St :=
  { input := body, pos := 0, mode := .base256, plan := [(0, .base256)], newMode := some 231, cw := pre, list := list }

def pL (list : List Sym) (pre body : List Nat) : Enc.St :=
  { input := body, pos := 0, mode := .base256, plan := [(0, .base256)], newMode := none, cw := pre ++ [231], list := list }

def pW (list : List Sym) (pre body : List Nat) : Enc.St :=
  { input := body, pos := body.length, mode := .base256, plan := [(0, .base256)], newMode := none,
    cw := pre ++ 231 :: 0 :: body, list := list }

theorem p_iter1 (list : List Sym) (pre body : List Nat) (hne : body ≠ []) (f : Nat) :
    Enc.asciiLoop (f + 1) (p0 list pre body) = .ok (p1 list pre body) := by
  have hpos : 0 < body.length := List.length_pos_iff.mpr hne
  rw [Enc.asciiLoop]
  have : (p0 list pre body).maybeSwitch = .ok (true, p1 list pre body) := by
    simp only [Enc.St.maybeSwitch, p0, p1, Enc.St.charsLeft, Nat.sub_zero, Nat.lt_irrefl, ↓reduceIte, hpos, and_self, ne_eq,
      reduceCtorEq, not_false_eq_true, Enc.EMode.latch]
  rw [this]

open DM.Lemmas.EncRT DM.Lemmas.X12RT DM.Lemmas.B256RT DM.Lemmas.B256Gen DM.Lemmas.MainRT in
/-- what the encoder writes for a non-empty message planned entirely in Base 256 -/
theorem run_b256_shape (list : List Sym) (pre body cw : List Nat) (sym : Sym) (hb : ByteList body) (hne : body ≠ [])
    (h : Enc.run list pre body [(body.length, .base256), (0, .base256)] = .ok (cw, sym)) :
    ∃ toEnd L, L = pre.length + 1 + (b256Hdr body toEnd).length + body.length ∧
      cw.length = dataCw sym ∧ L ≤ dataCw sym ∧
      cw.take L = pre ++ [231] ++ randFrom (pre.length + 2) (b256Hdr body toEnd ++ body) ∧
      (toEnd = true → L = dataCw sym) ∧ (toEnd = false → body.length ≤ 1555) ∧
      (L < dataCw sym → cw.getD L 0 = 129) ∧
      (∀ i, L < i → i < dataCw sym → unrand253 (cw.getD i 0) (i + 1) = 129) := by
  obtain ⟨sE, hmain, hsym, hpad⟩ := run_unfoldP list pre body cw _ sym h
  have hlen : 0 < body.length := List.length_pos_iff.mpr hne
  have hs0 : (p0 list pre body).hasMore = true := by simp [Enc.St.hasMore, p0, hlen]
  obtain ⟨s1, k1, he1, hm1⟩ := mainLoop_step (2 * body.length + 7) (p0 list pre body) sE 0 hmain hs0
  have hl0 : latched (p0 list pre body) = p0 list pre body := rfl
  rw [hl0] at he1
  have hmode0 : (p0 list pre body).mode = .ascii := rfl
  simp only [Enc.encodeMode, hmode0] at he1
  rw [p_iter1 list pre body hne (Enc.St.charsLeft (p0 list pre body) + 1)] at he1
  simp only [Except.ok.injEq] at he1
  subst he1
  obtain ⟨s3, k2, he2, hm2⟩ := mainLoop_step (2 * body.length + 6) _ sE k1 hm1 (by simp [Enc.St.hasMore, p1, hlen])
  have hl1 : latched (p1 list pre body) = pL list pre body := rfl
  rw [hl1] at he2
  have hmodeL : (pL list pre body).mode = .base256 := rfl
  simp only [Enc.encodeMode, hmodeL, Enc.b256Encode] at he2
  obtain ⟨s2, hw, hs3⟩ := b256Loop_copy (pL list pre body).cw.length body.length _ ((pL list pre body).push 0) s3
    (by simp [Enc.St.push, pL]) (by simp [Enc.St.charsLeft, pL]) rfl rfl (by simp [Enc.St.push, pL]) he2
  have hw' : Enc.b256WriteLength (pW list pre body) (pre.length + 1) = .ok s2 := by
    have e1 : (pL list pre body).cw.length = pre.length + 1 := by simp [pL]
    rw [e1] at hw
    simpa [Enc.St.push, pL, pW, Enc.St.rest] using hw
  obtain ⟨toEnd, hs2, hfit, hmax⟩ := writeLength_gen (pW list pre body) s2 pre body rfl hb hne hw'
  subst hs2 hs3
  rw [mainLoop_end _ _ _ (by simp [Enc.St.hasMore, Enc.St.setAscii, pW])] at hm2
  simp only [Except.ok.injEq] at hm2
  subst hm2
  simp only [Enc.St.setAscii, pW] at hsym hpad
  have hcap := firstBigEnough_le list _ sym hsym
  have hbeq : (Enc.EMode.ascii == Enc.EMode.ascii) = true := by decide
  rw [hbeq] at hpad
  have hcwlen : (pre ++ [231] ++ randFrom (pre.length + 2) (b256Hdr body toEnd ++ body)).length =
      pre.length + 1 + (b256Hdr body toEnd).length + body.length := by
    simp [randFrom_length]; omega
  obtain ⟨out, hout, holen, htake, _, hrest⟩ := DM.Props.C02.padding_conformant _ true (dataCw sym) hcap
  rw [hpad] at hout
  cases hout
  obtain ⟨h129, hpads⟩ := hrest (pre ++ [231] ++ randFrom (pre.length + 2) (b256Hdr body toEnd ++ body)).length (by simp)
  rw [hcwlen] at hcap htake h129 hpads
  refine ⟨toEnd, _, rfl, holen, hcap, htake, ?_, hmax, h129, hpads⟩
  intro ht
  obtain ⟨sym0, f1, f2⟩ := sizeLeft_zero _ 0 (hfit ht).2
  simp only [Nat.add_zero, List.length_append, List.length_cons, pW] at f1 f2
  have hl2 : (pre ++ [231] ++ randFrom (pre.length + 2) (b256Hdr body toEnd ++ body)).length =
      pre.length + (body.length + 1 + 1) := by
    rw [hcwlen, ht]; simp [b256Hdr]; omega
  rw [hl2, f1] at hsym
  simp only [Option.some.injEq] at hsym
  subst hsym
  rw [← hcwlen, hl2]
  exact f2.symm

/-! ### decoder side: the whole stream -/

/-- the final state of the reference decoder on a pure Base 256 stream whose latch stands at `i0` -/
def b256Final (i0 n : Nat) (body : List Nat) (padAt : Option Nat) : DM.Spec.Stream.St :=
  { i := n, out := body.toArray, trace := Array.replicate body.length .base256, latches := #[(i0, .base256)],
    padAt := padAt }

/-- **The reference decoder on `pre` ++ latch ++ randomised field ++ padding, started behind `pre`.** -/
theorem spec_run_b256 (cwl pre body : List Nat) (toEnd : Bool) (hb : ByteList body) (L : Nat)
    (hL : L = pre.length + 1 + (b256Hdr body toEnd).length + body.length) (hlen : L ≤ cwl.length)
    (htake : cwl.take L = pre ++ [231] ++ randFrom (pre.length + 2) (b256Hdr body toEnd ++ body))
    (hend : toEnd = true → L = cwl.length) (hmax : toEnd = false → 1 ≤ body.length ∧ body.length ≤ 1555)
    (h129 : L < cwl.length → cwl.getD L 0 = 129)
    (hpads : ∀ i, L < i → i < cwl.length → unrand253 (cwl.getD i 0) (i + 1) = 129) :
    run cwl.toArray (3 * cwl.length + 4) { i := pre.length } =
      .ok (b256Final pre.length cwl.length body (if L = cwl.length then none else some L)) := by
  have hXlen : ([231] ++ randFrom (pre.length + 2) (b256Hdr body toEnd ++ body)).length =
      1 + (b256Hdr body toEnd).length + body.length := by
    simp [randFrom_length]; omega
  have ho : Occurs cwl.toArray pre.length ([231] ++ randFrom (pre.length + 2) (b256Hdr body toEnd ++ body)) := by
    apply occurs_of_take
    rw [hXlen, ← List.append_assoc, ← htake]
    congr 1
    omega
  have hsteps := steps_b256 cwl.toArray { i := pre.length } body toEnd rfl hb ho (by
    cases toEnd with
    | true =>
      simp only [↓reduceIte, List.size_toArray]
      have := hend rfl
      rw [hL] at this
      simp [b256Hdr] at this
      omega
    | false => simpa using hmax rfl)
  have hs1 : afterB256 ({ i := pre.length } : DM.Spec.Stream.St) (1 + (b256Hdr body toEnd).length + body.length) body =
      b256Final pre.length L body none := by
    simp [afterB256, b256Final, hL]; omega
  rw [hs1] at hsteps
  by_cases hfull : L = cwl.length
  · rw [if_pos hfull, ← hfull]
    exact hsteps.finish (step_end _ _ (by simp [b256Final]; omega)) (by omega)
  · rw [if_neg hfull]
    have hlt : L < cwl.length := by omega
    have hpad : step cwl.toArray (b256Final pre.length L body none) =
        .ok (some (b256Final pre.length cwl.length body (some L))) := by
      have hc : cwl.toArray[(b256Final pre.length L body none).i]? = some 129 := by
        simp only [b256Final, List.getElem?_toArray]
        have := h129 hlt
        rw [List.getD_eq_getElem?_getD, List.getElem?_eq_getElem hlt] at this
        rw [List.getElem?_eq_getElem hlt]
        simpa using this
      rw [step_pad _ _ hc rfl]
      · simp [b256Final]
      · intro j h1 h2
        rw [getBang_toArray]
        exact hpads j h1 (by simpa using h2)
    exact (hsteps.trans (Steps.one hpad)).finish (step_end _ _ (by simp [b256Final])) (by omega)

end DM.Lemmas.SpecB256
