import DM.Lemmas.LDBase
/-
The algebraic invariant of the Levinson–Durbin iteration (equations (3) and (4) of the
Schmidt–Fettweis recursion, in the field), "the invariant makes `ldCheck` pass", and the
initial state.
-/
namespace DM.Lemmas.LD
set_option linter.unusedSimpArgs false
set_option linter.unusedVariables false
open DM.Model DM.Model.RS DM.Lemmas DM.Lemmas.RSTotal

variable {A : String → Prop}

/-- equation (3): `H_v y = e_{v-1}` -/
def Eq3 (syn : List Nat) (v : Nat) (y : List Nat) : Prop :=
  ∀ i, i < v → H syn i v (V y) = if i = v - 1 then 1 else 0

/-- equation (4): `H_v w = h_v` -/
def Eq4 (syn : List Nat) (v : Nat) (w : List Nat) : Prop :=
  ∀ i, i < v → H syn i v (V w) = V syn (v + i)

/-- the full loop invariant: shape, byte range, equations (3) and (4) -/
def LDAlg (syn : List Nat) (t : Nat) (st : LDSt) : Prop :=
  LDInv t st ∧ Bytes st.w ∧ Bytes st.y ∧ Eq3 syn st.v st.y ∧ Eq4 syn st.v st.w

theorem row_loop (syn l : List Nat) (i v : Nat) (site : String) (hs : Bytes syn) (hl : Bytes l)
    (hlen : i + v ≤ syn.length) :
    Safe A (forIn (List.range v) 0 (fun j (r : Nat) => do
        let s ← at' site syn (i + j)
        let row := gadd r (gmul s (l.getD j 0))
        pure (ForInStep.yield row)))
      (fun row => row < 256 ∧ GF.ofNat row = H syn i v (V l)) := by
  apply Safe_forIn_range v 0 _ (fun k row => row < 256 ∧ GF.ofNat row = H syn i k (V l))
  · exact ⟨by omega, by simp [H, ofNat_zero]⟩
  · intro k row hk hI
    refine Safe_bind (Safe_at_val (by omega) ?_)
    apply Safe_pure
    have h1 := getD_lt hs (i + k)
    have h2 := getD_lt hl k
    refine ⟨xor_lt_256 hI.1 (gmul_lt h1 h2), ?_⟩
    rw [H_succ, GF.ofNat_xor, GF.ofNat_gmul h1 h2, hI.2]
    rfl
  · intro b h; exact h

theorem ldCheck_pass (syn w y : List Nat) (v : Nat) (hw : w.length = v) (hy : y.length = v)
    (hlen : 2 * v ≤ syn.length) (hs : Bytes syn) (hbw : Bytes w) (hby : Bytes y)
    (h3 : Eq3 syn v y) (h4 : Eq4 syn v w) :
    Safe A (ldCheck syn w y v) (fun _ => True) := by
  unfold ldCheck
  simp only [ne_eq, hw, hy, not_true_eq_false, ↓reduceIte]
  refine Safe_bind ?_
  apply Safe_mono (Safe_forIn_inv _ _ _ (fun _ => True) trivial ?_)
  · intro _ _
    refine Safe_bind ?_
    apply Safe_mono (Safe_forIn_inv _ _ _ (fun _ => True) trivial ?_)
    · intro _ _; exact Safe_pure trivial
    · intro i hi _ _
      simp only [List.mem_range] at hi
      refine Safe_bind ?_
      apply Safe_mono (row_loop syn w i v _ hs hbw (by omega))
      intro row hrow
      refine Safe_bind (Safe_at_val (by omega) ?_)
      refine Safe_ite (fun hne => ?_) (fun _ => Safe_pure trivial)
      exfalso
      apply hne
      apply ofNat_inj hrow.1 (getD_lt hs _)
      rw [hrow.2, h4 i hi]; rfl
  · intro i hi _ _
    simp only [List.mem_range] at hi
    refine Safe_bind ?_
    apply Safe_mono (row_loop syn y i v _ hs hby (by omega))
    intro row hrow
    refine Safe_ite (fun hne => ?_) (fun _ => Safe_pure trivial)
    exfalso
    apply hne
    apply ofNat_inj hrow.1 (by split <;> omega)
    rw [hrow.2, h3 i hi]
    split <;> rfl

/-! ### the initial state -/

theorem Safe_slice_val {site : String} {l : List Nat} {a b : Nat} {P : List Nat → Prop}
    (ha : a ≤ b + 1) (hb : b < l.length) (h : P ((l.drop a).take (b + 1 - a))) :
    Safe A (slice site l a b) P := by
  unfold slice
  rw [if_pos ⟨ha, hb⟩]
  exact h

theorem H_eq_zero (syn : List Nat) (a L : Nat) (f : Nat → GF) (h : ∀ j, j < L → V syn (a + j) = 0) :
    H syn a L f = 0 := by
  unfold H
  apply Finset.sum_eq_zero
  intro j hj
  rw [h j (Finset.mem_range.mp hj)]; ring

theorem H_set (syn l : List Nat) (a L p x : Nat) (hpL : p < L) (hpl : p < l.length) :
    H syn a L (V (l.set p x)) = H syn a L (V l) + V syn (a + p) * (GF.ofNat x + V l p) := by
  have : ∀ j, V (l.set p x) j = V l j + (if j = p then GF.ofNat x + V l p else 0) := by
    intro j
    rw [V_set]
    by_cases h : j = p
    · subst h
      rw [if_pos ⟨rfl, hpl⟩, if_pos rfl]
      linear_combination (-(V l j)) * two_eq_zero
    · rw [if_neg (by tauto), if_neg h]; ring
  rw [H_congr (fun j _ => this j), H_add]
  congr 1
  unfold H
  rw [Finset.sum_eq_single p]
  · beta_reduce; rw [if_pos rfl]
  · intro j _ hj; beta_reduce; rw [if_neg hj]; ring
  · intro h; exact absurd (Finset.mem_range.mpr hpL) h

theorem ldInitW_alg (syn : List Nat) (v : Nat) (hv : 1 ≤ v) (hlen : 2 * v ≤ syn.length)
    (hs : Bytes syn) (hz : ∀ k, k < v - 1 → syn.getD k 0 = 0) (hp : syn.getD (v - 1) 0 ≠ 0) :
    Safe A (ldInitW syn v) (fun w => w.length = v ∧ Bytes w ∧ Eq4 syn v w) := by
  have hS0 : ∀ k, k < v - 1 → V syn k = 0 := by
    intro k hk; unfold V; rw [hz k hk]; rfl
  have hpiv : V syn (v - 1) ≠ 0 := ofNat_ne_zero (getD_lt hs _) hp
  unfold ldInitW
  refine Safe_bind (Safe_slice_val (by omega) (by omega) ?_)
  refine Safe_bind (Safe_at_val (by omega) ?_)
  refine Safe_bind ?_
  apply Safe_mono (Safe_forIn_range v _ _ (fun i (w : List Nat) => w.length = v ∧ Bytes w ∧
      (∀ j, j < v - i → w.getD j 0 = syn.getD (2 * v - 1 - j) 0) ∧
      (∀ i', i' < i → H syn i' v (V w) = V syn (v + i')))
    (fun w => w.length = v ∧ Bytes w ∧ Eq4 syn v w) ?_ ?_ ?_)
  · intro w hw; exact Safe_pure hw
  · refine ⟨by simp only [List.length_reverse, List.length_take, List.length_drop]; omega, ?_, ?_, ?_⟩
    · intro x hx
      exact hs x (List.mem_of_mem_drop (List.mem_of_mem_take (List.mem_reverse.mp hx)))
    · intro j hj
      have hl : ((syn.drop v).take (2 * v - 1 + 1 - v)).length = v := by
        simp only [List.length_take, List.length_drop]; omega
      rw [List.getD_eq_getElem?_getD, List.getD_eq_getElem?_getD,
        List.getElem?_reverse (by omega), hl, List.getElem?_take, if_pos (by omega),
        List.getElem?_drop]
      congr 2; omega
    · intro i' hi'; omega
  · intro i w hi ⟨hwl, hwb, hun, hdone⟩
    refine Safe_bind (Safe_at_val (by omega) ?_)
    refine Safe_bind ?_
    apply Safe_mono (Safe_forIn_filter_ge v (v - i) _ _
      (fun k (acc : Nat) => acc < 256 ∧ GF.ofNat acc
        = V w (v - 1 - i) + H syn i (v - i) (V w) + H syn i k (V w))
      (fun (acc : Nat) => acc < 256 ∧ GF.ofNat acc
        = V w (v - 1 - i) + H syn i (v - i) (V w) + H syn i v (V w)) ?_ ?_ ?_)
    · intro acc ⟨hacc, hval⟩
      refine Safe_bind (Safe_div' hp ?_)
      apply Safe_pure
      have hq := gdivD_lt acc (syn.getD (v - 1) 0)
      refine ⟨by simp only [List.length_set]; exact hwl, bytes_set hwb _ _ hq, ?_, ?_⟩
      · intro j hj
        rw [List.getD_eq_getElem?_getD, List.getElem?_set, if_neg (by omega),
          ← List.getD_eq_getElem?_getD]
        exact hun j (by omega)
      · intro i' hi'
        rw [H_set _ _ _ _ _ _ (by omega) (by omega)]
        by_cases hlt : i' < i
        · rw [hdone i' hlt, hS0 (i' + (v - 1 - i)) (by omega)]; ring
        · have : i' = i := by omega
          subst this
          have e1 : i' + (v - 1 - i') = v - 1 := by omega
          have e2 : V w (v - 1 - i') = V syn (v + i') := by
            unfold V; rw [hun _ (by omega)]; congr 2; omega
          have e3 : H syn i' (v - i') (V w) = V syn (v - 1) * V w (v - 1 - i') := by
            rw [show v - i' = (v - 1 - i') + 1 by omega, H_succ, e1,
              H_eq_zero _ _ _ _ (fun j hj => hS0 _ (by omega))]
            ring
          have hq' : V syn (v - 1) * GF.ofNat (gdivD acc (syn.getD (v - 1) 0)) = GF.ofNat acc := by
            rw [ofNat_gdivD hacc (getD_lt hs _) hp, mul_comm]
            exact div_mul_cancel₀ _ hpiv
          rw [e1]
          linear_combination hq' + hval + e3 + e2
            + (H syn i' v (V w) + V syn (v - 1) * V w (v - 1 - i')) * two_eq_zero
    · refine ⟨getD_lt hwb _, ?_⟩
      show V w (v - 1 - i) = _
      linear_combination (-(H syn i (v - i) (V w))) * two_eq_zero
    · intro k acc hk1 hk2 ⟨hacc, hval⟩
      refine Safe_bind (Safe_at_val (by omega) ?_)
      refine Safe_bind (Safe_at_val (by omega) ?_)
      apply Safe_pure
      have h1 := getD_lt hs (i + k)
      have h2 := getD_lt hwb k
      refine ⟨xor_lt_256 hacc (gmul_lt h1 h2), ?_⟩
      rw [H_succ, GF.ofNat_xor, GF.ofNat_gmul h1 h2, hval]
      unfold V
      ring
    · intro acc h
      rw [show v - i + (v - (v - i)) = v by omega] at h
      exact h
  · intro w ⟨hwl, hwb, _, hdone⟩
    exact ⟨hwl, hwb, fun i hi => hdone i hi⟩

end DM.Lemmas.LD
