import DM.Lemmas.GFField
/-
The LFSR of `ecc_block` computes the remainder of d(x)·x^k modulo a monic generator:
the block (data ++ ecc) vanishes at every root of the generator.
-/
namespace DM.Lemmas
open DM.Model

/-- Horner evaluation, highest coefficient first, from an accumulator. -/
def evalFrom (acc : GF) (p : List GF) (x : GF) : GF := p.foldl (fun acc c => acc * x + c) acc
def evalH (p : List GF) (x : GF) : GF := evalFrom 0 p x

theorem evalFrom_eq (acc : GF) (p : List GF) (x : GF) :
    evalFrom acc p x = acc * x ^ p.length + evalH p x := by
  induction p generalizing acc with
  | nil => simp [evalFrom, evalH]
  | cons c p ih =>
    have h1 : evalFrom acc (c :: p) x = evalFrom (acc * x + c) p x := rfl
    have h2 : evalH (c :: p) x = evalFrom (0 * x + c) p x := rfl
    rw [h1, h2, ih, ih (0 * x + c)]
    simp only [List.length_cons]
    ring

theorem evalH_nil (x : GF) : evalH [] x = 0 := rfl

theorem evalH_cons (c : GF) (p : List GF) (x : GF) :
    evalH (c :: p) x = c * x ^ p.length + evalH p x := by
  have h2 : evalH (c :: p) x = evalFrom (0 * x + c) p x := rfl
  rw [h2, evalFrom_eq]; ring

theorem evalH_append (p q : List GF) (x : GF) :
    evalH (p ++ q) x = evalH p x * x ^ q.length + evalH q x := by
  unfold evalH evalFrom
  rw [List.foldl_append]
  exact evalFrom_eq _ q x

theorem evalH_replicate_zero (n : Nat) (x : GF) : evalH (List.replicate n 0) x = 0 := by
  induction n with
  | zero => rfl
  | succ n ih => rw [List.replicate_succ, evalH_cons, ih]; ring

/-- register update on field elements -/
def eccStepG (gt : List GF) (ecc : List GF) (a : GF) : List GF :=
  List.zipWith (fun e gj => e + (ecc.headD 0 + a) * gj) (ecc.tail ++ [0]) gt

theorem evalFrom_zipWith (f x : GF) :
    ∀ (A B : List GF) (a b : GF), A.length = B.length →
      evalFrom (a + f * b) (List.zipWith (fun e g => e + f * g) A B) x
        = evalFrom a A x + f * evalFrom b B x := by
  intro A
  induction A with
  | nil =>
    intro B a b h
    cases B with
    | nil => rfl
    | cons _ _ => simp at h
  | cons a' A ih =>
    intro B a b h
    cases B with
    | nil => simp at h
    | cons b' B =>
      simp only [List.length_cons, Nat.add_right_cancel_iff] at h
      have e1 : evalFrom (a + f * b) (List.zipWith (fun e g => e + f * g) (a' :: A) (b' :: B)) x
          = evalFrom ((a * x + a') + f * (b * x + b')) (List.zipWith (fun e g => e + f * g) A B) x := by
        show evalFrom ((a + f * b) * x + (a' + f * b')) _ x = _
        congr 1; ring
      rw [e1, ih B _ _ h]
      rfl

theorem evalH_zipWith (f x : GF) (A B : List GF) (h : A.length = B.length) :
    evalH (List.zipWith (fun e g => e + f * g) A B) x = evalH A x + f * evalH B x := by
  have := evalFrom_zipWith f x A B 0 0 h
  simpa [evalH] using this

theorem eccStepG_length (gt ecc : List GF) (a : GF) (h : ecc.length = gt.length) (hk : 0 < gt.length) :
    (eccStepG gt ecc a).length = gt.length := by
  unfold eccStepG
  rw [List.length_zipWith, List.length_append, List.length_tail]
  simp only [List.length_cons, List.length_nil]
  omega

/-- One step of the register preserves `ecc(α) = d(α)·α^k` when `α` is a root of the monic
generator `x^k + gt`. -/
theorem eccStepG_eval (gt ecc : List GF) (a α : GF) (h : ecc.length = gt.length)
    (hroot : α ^ gt.length + evalH gt α = 0) :
    evalH (eccStepG gt ecc a) α = evalH ecc α * α + a * α ^ gt.length := by
  have hg : evalH gt α = α ^ gt.length := by
    have : evalH gt α = -(α ^ gt.length) := by
      rw [eq_neg_iff_add_eq_zero, add_comm]; exact hroot
    rw [this, GF.neg_eq]
  cases ecc with
  | nil =>
    -- k = 0 is impossible: 1 + 0 ≠ 0
    have hk : gt.length = 0 := by simpa using h.symm
    have : gt = [] := List.length_eq_zero_iff.mp hk
    subst this
    simp [evalH_nil] at hroot
  | cons e0 et =>
    have hl : (et ++ [0]).length = gt.length := by
      simp only [List.length_cons] at h
      simp [h]
    unfold eccStepG
    simp only [List.headD_cons, List.tail_cons]
    rw [evalH_zipWith _ _ _ _ hl, evalH_append, evalH_cons, hg]
    have hk : gt.length = et.length + 1 := by simpa using h.symm
    simp only [List.length_cons, List.length_nil, evalH_cons, evalH_nil]
    rw [hk]
    ring

theorem foldl_eccStepG (gt : List GF) (α : GF) (hk : 0 < gt.length)
    (hroot : α ^ gt.length + evalH gt α = 0) :
    ∀ (d ecc : List GF), ecc.length = gt.length →
      (d.foldl (eccStepG gt) ecc).length = gt.length ∧
      evalH (d.foldl (eccStepG gt) ecc) α
        = evalH ecc α * α ^ d.length + evalH d α * α ^ gt.length := by
  intro d
  induction d with
  | nil => intro ecc h; simp [h, evalH_nil]
  | cons a d ih =>
    intro ecc h
    have hl := eccStepG_length gt ecc a h hk
    have := ih (eccStepG gt ecc a) hl
    simp only [List.foldl_cons]
    refine ⟨this.1, ?_⟩
    rw [this.2, eccStepG_eval gt ecc a α h hroot, evalH_cons]
    simp only [List.length_cons]
    ring

/-- **The block `data ++ ecc_block(data)` vanishes at every root of the generator.** -/
theorem eccBlockG_root (gt : List GF) (α : GF) (hk : 0 < gt.length)
    (hroot : α ^ gt.length + evalH gt α = 0) (d : List GF) :
    (d.foldl (eccStepG gt) (List.replicate gt.length 0)).length = gt.length ∧
    evalH (d ++ d.foldl (eccStepG gt) (List.replicate gt.length 0)) α = 0 := by
  have := foldl_eccStepG gt α hk hroot d (List.replicate gt.length 0) (by simp)
  refine ⟨this.1, ?_⟩
  rw [evalH_append, this.1, this.2, evalH_replicate_zero]
  have := GF.add_self (evalH d α * α ^ gt.length)
  rw [zero_mul, zero_add]
  exact this

end DM.Lemmas
