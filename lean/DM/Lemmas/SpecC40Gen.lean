import DM.Lemmas.SpecC40
import DM.Lemmas.SpecX12Gen
import DM.Lemmas.LatchSeq
/-
C40 / Text under arbitrary plans, against the reference decoder: `SpecSegC40 text X chunk` — wherever
the latch (230 / 239), the codewords `X` and one of the three endings stand in a stream and the
reference decoder arrives there in ASCII mode, it records the latch, reads `X` as `chunk` (all of it
carried by C40 / Text) and ends as the ending says. `c40Encode_specGen` is the outcome of
`c40::encode` from an arbitrary position of a mixed plan in the shape `SpecX12.TEndQ` (= `MainRT.TEnd`
with the decoder-side predicate as a parameter), obtained from `C40Gen.c40Loop_gen` (the encoder
analysis, stated with the crate decoder's value automaton) through `SpecC40.values_bridge`.
`c40Encode_more`: a latch is pending behind the run only if characters are left.
-/
namespace DM.Lemmas.SpecC40Gen
open DM.Model DM.Model.Enc DM.Lemmas DM.Lemmas.AsciiRT DM.Lemmas.Complete
open DM.Lemmas.EncRT DM.Lemmas.X12RT DM.Lemmas.C40RT DM.Lemmas.C40Gen DM.Lemmas.MainRT DM.Lemmas.SpecStep
open DM.Lemmas.SpecC40 (cmode cvals emitC steps_c40 step_c40_unlatch step_c40_last values_bridge toS)
open DM.Lemmas.SpecX12 (TEndQ)
open DM.Lemmas.PlanProv
open DM.Spec.Build

/-- the decoder's state behind a C40 / Text segment entered at `s`: the latch recorded at `s.i`, the
bytes `b` (from `n` triples) carried by the mode, `k` further codewords consumed, mode `m` -/
def c40Done (text : Bool) (s : DM.Spec.Stream.St) (n : Nat) (cst : DM.Spec.Stream.CState) (b : List Nat) (k : Nat)
    (m : DM.Spec.Stream.Mode) : DM.Spec.Stream.St :=
  { s with i := s.i + 1 + 2 * n + k, mode := m, cst := cst, out := s.out ++ b.toArray,
           trace := s.trace ++ Array.replicate b.length (cmode text), latches := s.latches.push (s.i, cmode text) }

/-- the three ways a C40 / Text segment ends, as the reference decoder sees them at position `p`
(behind the triples): `E` the codewords standing there that belong to the ending, `k` how many of
them the C40 rules consume, `m` the mode afterwards -/
inductive C40Tail (text : Bool) (cw : Array Nat) (p : Nat) : List Nat → Nat → DM.Spec.Stream.Mode → Prop
  /-- UNLATCH (also when it is the last codeword of the symbol) -/
  | unlatch : C40Tail text cw p [254] 1 .ascii
  /-- exactly one codeword is left and it is not UNLATCH: an ASCII codeword, not consumed here -/
  | single (c : Nat) (hc : c ≠ 254) (hsz : cw.size = p + 1) : C40Tail text cw p [c] 0 .ascii
  /-- the triples end with the symbol: the decoder stops in C40 / Text mode -/
  | exact (hsz : cw.size = p) : C40Tail text cw p [] 0 (cmode text)

/-- the reference decoder on a C40 / Text segment `latch, X, ending` -/
def SpecSegC40 (text : Bool) (X chunk : List Nat) : Prop :=
  ∃ (n : Nat) (cst : DM.Spec.Stream.CState), X.length = 2 * n ∧
    ∀ (cw : Array Nat) (s : DM.Spec.Stream.St) (E : List Nat) (k : Nat) (m : DM.Spec.Stream.Mode), s.mode = .ascii →
      C40Tail text cw (s.i + 1 + 2 * n) E k m → Occurs cw s.i (latchOf text :: X ++ E) →
      ∃ j, j ≤ 1 + n + 1 ∧ Steps cw j s (c40Done text s n cst chunk k m) ∧
        (m = cmode text → DM.Spec.Stream.step cw (c40Done text s n cst chunk k m) = .ok none)

theorem emitC_latch (text : Bool) (s : DM.Spec.Stream.St) (n : Nat) (cst : DM.Spec.Stream.CState) (chunk : List Nat) :
    emitC (DM.Spec.Stream.latch s (cmode text)) (2 * n) cst chunk = c40Done text s n cst chunk 0 (cmode text) := by
  simp [emitC, DM.Spec.Stream.latch, c40Done, Nat.add_assoc]

/-- whole triples of values that the reference decoder's value function reads as `chunk` -/
theorem specSegC40_pack (text : Bool) (n : Nat) (V : List Nat) (cst : DM.Spec.Stream.CState) (chunk : List Nat)
    (hl : V.length = 3 * n) (hlt : ∀ v ∈ V, v < 40) (hv : cvals text V {} = .ok (cst, chunk)) :
    SpecSegC40 text (packTriples V) chunk := by
  refine ⟨n, cst, packTriples_length n V hl, ?_⟩
  intro cw s E k m hm ht ho
  have hpl : (latchOf text :: packTriples V).length = 1 + 2 * n := by
    rw [List.length_cons, packTriples_length n V hl]; omega
  have hbody : Steps cw (1 + n) s (c40Done text s n cst chunk 0 (cmode text)) := by
    have := steps_c40 text cw n V hl hlt s cst chunk hm ho.left hv
    rw [emitC_latch] at this
    exact this
  have hE : Occurs cw (s.i + 1 + 2 * n) E := by
    have := ho.right; rw [hpl] at this
    rw [Nat.add_assoc]; exact this
  cases ht with
  | unlatch =>
    refine ⟨1 + n + 1, Nat.le_refl _, ?_, fun h => by cases text <;> cases h⟩
    have h2 := step_c40_unlatch text cw (c40Done text s n cst chunk 0 (cmode text)) (by simpa [c40Done] using hE.head) rfl
    exact hbody.trans (Steps.one h2)
  | single c hc hsz =>
    refine ⟨1 + n + 1, Nat.le_refl _, ?_, fun h => by cases text <;> cases h⟩
    have h2 := step_c40_last text cw (c40Done text s n cst chunk 0 (cmode text)) c (by simpa [c40Done] using hE.head) rfl
      (by simp [c40Done]; omega) hc
    exact hbody.trans (Steps.one h2)
  | exact hsz =>
    exact ⟨1 + n, by omega, hbody, fun _ => step_end _ _ (by simp [c40Done]; omega)⟩

/-- the three endings, in the form a main-loop invariant meets them -/
theorem SpecSegC40.unlatch {text : Bool} {X chunk : List Nat} (h : SpecSegC40 text X chunk) (cw : Array Nat)
    (s : DM.Spec.Stream.St) (hm : s.mode = .ascii) (ho : Occurs cw s.i (latchOf text :: X ++ [254])) :
    ∃ j cst, j ≤ X.length + 2 ∧ Steps cw j s (c40Done text s (X.length / 2) cst chunk 1 .ascii) := by
  obtain ⟨n, cst, h1, h4⟩ := h
  obtain ⟨j, hj, hst, _⟩ := h4 cw s [254] 1 .ascii hm .unlatch ho
  have : X.length / 2 = n := by omega
  exact ⟨j, cst, by omega, by rw [this]; exact hst⟩

theorem SpecSegC40.single {text : Bool} {X chunk : List Nat} (h : SpecSegC40 text X chunk) (cw : Array Nat)
    (s : DM.Spec.Stream.St) (hm : s.mode = .ascii) (c : Nat) (hc : c ≠ 254) (hsz : cw.size = s.i + 1 + X.length + 1)
    (ho : Occurs cw s.i (latchOf text :: X ++ [c])) :
    ∃ j cst, j ≤ X.length + 2 ∧ Steps cw j s (c40Done text s (X.length / 2) cst chunk 0 .ascii) := by
  obtain ⟨n, cst, h1, h4⟩ := h
  obtain ⟨j, hj, hst, _⟩ := h4 cw s [c] 0 .ascii hm (.single c hc (by omega)) ho
  have : X.length / 2 = n := by omega
  exact ⟨j, cst, by omega, by rw [this]; exact hst⟩

theorem SpecSegC40.exact {text : Bool} {X chunk : List Nat} (h : SpecSegC40 text X chunk) (cw : Array Nat)
    (s : DM.Spec.Stream.St) (hm : s.mode = .ascii) (hsz : cw.size = s.i + 1 + X.length) (ho : Occurs cw s.i (latchOf text :: X)) :
    ∃ j cst, j ≤ X.length + 2 ∧ Steps cw j s (c40Done text s (X.length / 2) cst chunk 0 (cmode text)) ∧
      DM.Spec.Stream.step cw (c40Done text s (X.length / 2) cst chunk 0 (cmode text)) = .ok none := by
  obtain ⟨n, cst, h1, h4⟩ := h
  obtain ⟨j, hj, hst, hfin⟩ := h4 cw s [] 0 (cmode text) hm (.exact (by omega)) (by simpa using ho)
  have : X.length / 2 = n := by omega
  rw [this]
  exact ⟨j, cst, by omega, hst, hfin rfl⟩

/-- `C40Gen.End` (the encoder analysis, with the crate decoder's value automaton) in the shape
`TEndQ` for the reference decoder -/
theorem c40_to_TEndQ (text : Bool) (list : List Sym) (body : List Nat) (p0 : Nat) (c0 : List Nat) (s' : St)
    (h : End text list body p0 c0 s') : TEndQ (SpecSegC40 text) list body p0 c0 (latchOf text) s' := by
  obtain ⟨V, n, p, un, st', hVl, hVlt, hdec, hp0, hp, hcw, hpos, hin, hli, hctl, hex⟩ := h.out
  obtain ⟨chunk, hch1, hch2⟩ := values_bridge text V C40RT.st0 st' [] _ (hdec [])
  simp only [List.nil_append] at hch1
  have hst0 : toS C40RT.st0 = {} := rfl
  rw [hst0] at hch2
  refine ⟨packTriples V, p, un, ?_, hp0, hp, hcw, hpos, hin, hli, hctl, hex⟩
  rw [hch1]
  exact specSegC40_pack text n V (toS st') chunk hVl hVlt hch2

/-- **`c40::encode` under an arbitrary plan, against the reference decoder**: from any position `p0`
of the message, behind the codewords `c0` and the latch, the encoder appends `X` (+ UNLATCH) such
that the reference decoder reads `latch, X, ending` as the stretch of the message consumed. -/
theorem c40Encode_specGen (text : Bool) (list : List Sym) (body : List Nat) (hb : ByteList body) (p0 : Nat) (c0 : List Nat)
    (sL s3 : St) (hin : sL.input = body) (hli : sL.list = list) (hpos : sL.pos = p0) (hle : p0 ≤ body.length)
    (hmode : sL.mode = modeOf text) (hnm : sL.newMode = none) (hcw : sL.cw = c0 ++ [latchOf text])
    (hpl : PlanOKE body sL.plan) (h : c40Encode text sL = .ok s3) :
    TEndQ (SpecSegC40 text) list body p0 c0 (latchOf text) s3 := by
  unfold c40Encode at h
  have inv0 : Inv text list body p0 c0 sL [] 0 0 :=
    ⟨hin, hli, hmode, hnm, by omega, by rw [hpos]; exact hle, by simp,
      by simp [Wb, hpos, seg_self], by simp, by simp [Wb, hpos, seg_self, packTriples, hcw], by omega⟩
  have hcl : sL.charsLeft = body.length - p0 := by simp [St.charsLeft, hin, hpos]
  have hend := c40Loop_gen text list body hb p0 c0 (body.length - p0) (sL.charsLeft + 2) sL [] 0 0 s3
    (by rw [hpos]) (by omega) inv0 hpl h
  exact c40_to_TEndQ text list body p0 c0 s3 hend

/-! ### a latch is pending behind the run only if characters are left -/

theorem handleEnd_nm (s s' : St) (lastCh : Nat) (buf : List Nat) (h : c40HandleEnd s lastCh buf = .ok s') :
    s'.newMode = s.newMode := by
  rcases DM.Lemmas.LatchSeq.c40HandleEnd_ctl s s' lastCh buf h with ⟨hk, _⟩ | ⟨hk, _⟩
  · exact congrArg (·.2.2) hk
  · exact congrArg (·.2.2) hk

theorem handleEnd_more' (s s' : St) (lastCh : Nat) (buf : List Nat) (h : c40HandleEnd s lastCh buf = .ok s')
    (hm : s.hasMore = true) : s'.hasMore = true := by
  obtain ⟨p1, _, p3⟩ := DM.Lemmas.SpecC40Enc.handleEnd_pos s s' lastCh buf h
  simp only [St.hasMore, p1, p3 hm]
  exact hm

theorem c40Loop_more (text : Bool) : ∀ (f : Nat) (s : St) (buf : List Nat) (lastCh : Nat) (s' : St),
    s.newMode = none → c40Loop text f s buf lastCh = .ok s' → s'.newMode = none ∨ s'.hasMore = true := by
  intro f
  induction f with
  | zero => intro s buf lastCh s' _ h; cases h
  | succ f ih =>
    intro s buf lastCh s' hn h
    unfold c40Loop at h
    cases he : s.eat with
    | none =>
      rw [he] at h
      exact Or.inl ((handleEnd_nm _ _ _ _ h).trans hn)
    | some r =>
      obtain ⟨ch, s1⟩ := r
      rw [he] at h
      dsimp only at h
      obtain ⟨hs1, hlt⟩ := DM.Lemmas.LatchSeq.eat_spec he
      subst hs1
      have hbk : ({ s with pos := s.pos + 1 } : St).backup 1 = .ok s := by
        unfold St.backup
        rw [if_pos (by simp)]
        simp
      rw [hbk] at h
      dsimp only at h
      have normal : (match toVals text buf ch with
          | .error e => .error e
          | .ok buf1 =>
            match (flushTriples 3 { s with pos := s.pos + 1 } buf1).1.maybeSwitch with
            | .error e => .error e
            | .ok (true, s3) => c40HandleEnd s3 ch (flushTriples 3 { s with pos := s.pos + 1 } buf1).2
            | .ok (false, s3) => c40Loop text f s3 (flushTriples 3 { s with pos := s.pos + 1 } buf1).2 ch) =
          Except.ok s' → s'.newMode = none ∨ s'.hasMore = true := by
        intro h
        split at h
        · cases h
        · rename_i buf1 _
          have hk2 : key (flushTriples 3 { s with pos := s.pos + 1 } buf1).1 = key s := by
            rw [key_flush]; rfl
          have hn2 : (flushTriples 3 { s with pos := s.pos + 1 } buf1).1.newMode = none :=
            (congrArg (·.2.2) hk2).trans hn
          cases hm : (flushTriples 3 { s with pos := s.pos + 1 } buf1).1.maybeSwitch with
          | error e => rw [hm] at h; cases h
          | ok r =>
            obtain ⟨b, s3⟩ := r
            rw [hm] at h
            obtain ⟨m1, m2, m3, m4, m5, m6⟩ := maybeSwitch_spec _ s3 b hm
            cases b with
            | true =>
              dsimp only at h
              obtain ⟨_, t2, _, _⟩ := m6 rfl
              have hmore3 : s3.hasMore = true := by simpa [St.hasMore, m1.1, m2] using t2
              exact Or.inr (handleEnd_more' _ _ _ _ h hmore3)
            | false =>
              dsimp only at h
              exact ih _ _ _ _ ((m5 rfl).2.trans hn2) h
      have back : c40HandleEnd s lastCh buf = .ok s' → s'.newMode = none ∨ s'.hasMore = true := fun h =>
        Or.inl ((handleEnd_nm _ _ _ _ h).trans hn)
      split at h
      · split at h
        · exact back h
        · exact normal h
      · simp only [Bool.and_false, Bool.false_eq_true, ↓reduceIte] at h
        exact normal h

theorem c40Encode_more (text : Bool) (sL s3 : St) (hnm : sL.newMode = none) (h : c40Encode text sL = .ok s3) :
    s3.newMode ≠ none → s3.hasMore = true := by
  intro hne
  rcases c40Loop_more text _ sL [] 0 s3 hnm h with h1 | h1
  · exact absurd h1 hne
  · exact h1

/-- Non-vacuity: "1ABCDEFab", C40 entered behind the ASCII codeword for "1" with the plan "ASCII for
the last two characters" pending; the lemma applies. -/
def exampleState : St :=
  { input := [49, 65, 66, 67, 68, 69, 70, 97, 98], pos := 1, mode := .c40, plan := [(2, .ascii), (0, .ascii)],
    newMode := none, cw := [50, 230], list := symbolList (List.range 30) }

example : ∃ s3, c40Encode false exampleState = .ok s3 ∧
    TEndQ (SpecSegC40 false) (symbolList (List.range 30)) [49, 65, 66, 67, 68, 69, 70, 97, 98] 1 [50] 230 s3 := by
  match h : c40Encode false exampleState with
  | .ok s3 =>
    exact ⟨s3, rfl, c40Encode_specGen false _ _ (by decide) 1 [50] exampleState s3 rfl rfl rfl (by decide) rfl rfl rfl
      (planOKE_of_planOK _ (by intro e he; simp [exampleState] at he; rcases he with rfl | rfl <;> simp)) h⟩
  | .error e =>
    have : (match c40Encode false exampleState with | .ok _ => true | .error _ => false) = true := by decide +kernel
    rw [h] at this
    cases this

end DM.Lemmas.SpecC40Gen
