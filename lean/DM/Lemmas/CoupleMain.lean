import DM.Lemmas.CoupleReach
import DM.Lemmas.EncRT
import DM.Model.PlanSide
/-!
# Planner / encoder coupling: composition along the plan

`predicted_size_suffices_partial`: on the plan the optimiser returns (within the decidable condition
`planOK`), the encoder model neither panics nor runs out of fuel (`encoder_no_panic_partial`), and it
never needs a larger symbol than the one predicted from the optimiser's cost.

Per-mode content is taken as hypotheses, in the shape of `Couple.lean` with the amendments that testing
the models made necessary:
* `SwitchSegX m` = `Couple.SwitchSeg m` with the side condition under which it holds for C40 / Text
  (`switchSegX_of_switchSeg`: the original implies it);
* `LateSwitchSeg m`: C40 / Text followed by the switch to ASCII two characters before the end, both digits;
* `EndSegSym m` = `Couple.EndSeg m` with the codeword inequality (false: trailing unlatch when the symbol
  has room) replaced by "fits the predicted symbol", plus `w ≤ s'.cw.length`
  (`endSegSym_of_endSeg`: the original implies it for encoders that do not shorten the codeword list);
* `SegProgress m`: a non-ASCII segment ended by a switch accounts for ≥ 2 codewords after the latch
  (no-progress counter of the main loop).
The two ASCII helpers (ASCII tail, first segment) are proved here (`ascii_tail`, `ascii_first_switch`,
`ascii_pop` / `mainLoop_pop`), they are not hypotheses.
-/
namespace DM.Lemmas.CoupleMain
open DM.Model.PlanSide
open DM.Model DM.Model.Plan DM.Model.Enc DM.Lemmas.PlanInv DM.Lemmas.Couple DM.Lemmas.CoupleReach
open DM.Lemmas.AsciiRT DM.Lemmas.EncRT

/-! ### the per-mode interface, as consumed here -/

/-- a segment of a non-ASCII mode that ends with a planned switch accounts for at least two codewords
after the latch (C40/Text: a triple and the unlatch; X12: a triple and the unlatch; EDIFACT: at least
one character and the unlatch; Base 256: the length byte and one character).  Needed for the
no-progress counter of the main loop. Planner side only. -/
def SegProgress (m : EMode) : Prop :=
  ∀ (body : List Nat) (list : List Sym) (p w k : Nat) (g0 gk : GPlan) (ac : Nat) (ctx' : Ctx),
    ByteList body → p + k < body.length → 1 ≤ k → m ≠ .ascii →
    ((m = .c40 ∨ m = .text) → lateDigits body (body.length - (p + k)) = false) →
    g0.plan = newPlan m (ctxAt body list p w) →
    StepsTo k g0 gk → SwitchPoint gk → gk.switchCost = some ac → gk.unlatch = .ok ctx' →
    w + 2 ≤ ctx'.written

/-- `Couple.SwitchSeg` with the side condition under which it holds for C40 / Text: the switch is not
planned at one of the last two positions of a message that ends with two digits. -/
def SwitchSegX (m : EMode) : Prop :=
  ∀ (body : List Nat) (list : List Sym) (p w k : Nat) (g0 gk : GPlan) (ac : Nat) (ctx' : Ctx) (m' : EMode)
    (rest : List (Nat × EMode)) (s : St),
    ByteList body → p + k < body.length → (1 ≤ k ∨ m = .ascii) →
    ((m = .c40 ∨ m = .text) → lateDigits body (body.length - (p + k)) = false) →
    g0.plan = newPlan m (ctxAt body list p w) →
    StepsTo k g0 gk → SwitchPoint gk → gk.switchCost = some ac → gk.unlatch = .ok ctx' → m' ≠ m →
    EncAt body list s p w m ((body.length - (p + k), m') :: rest) →
    ac = g0.extra + 12 * (ctx'.written - w) ∧ w ≤ ctx'.written ∧
    ((∃ s', encodeMode s = .ok s' ∧ s'.input = body ∧ s'.list = list ∧ s'.pos = p + k ∧
        s'.cw.length = ctx'.written ∧ s'.mode = m' ∧ s'.plan = rest ∧ s'.newMode = m'.latch) ∨
     (encodeMode s = .error .tooMuch ∧ firstBigEnough list ctx'.written = none))

theorem switchSegX_of_switchSeg (m : EMode) (h : SwitchSeg m) : SwitchSegX m := by
  intro body list p w k g0 gk ac ctx' m' rest s hb hlt hk _ hpl hst hsp hsc hul hne henc
  exact h body list p w k g0 gk ac ctx' m' rest s hb hlt hk hpl hst hsp hsc hul hne henc

/-- C40 / Text segment followed by the planned switch to ASCII exactly two characters before the end,
both digits (`"AAA12"`): `handle_end` sets ASCII until the end and writes the unlatch only if there is
room, so the encoder may be one codeword cheaper than priced. -/
def LateSwitchSeg (m : EMode) : Prop :=
  ∀ (body : List Nat) (list : List Sym) (p w k : Nat) (g0 gk : GPlan) (ac : Nat) (ctx' : Ctx) (s : St),
    ByteList body → p + k + 2 = body.length → 1 ≤ k → (m = .c40 ∨ m = .text) → lateDigits body 2 = true →
    g0.plan = newPlan m (ctxAt body list p w) →
    StepsTo k g0 gk → SwitchPoint gk → gk.switchCost = some ac → gk.unlatch = .ok ctx' →
    EncAt body list s p w m [(2, .ascii), (0, .ascii)] →
    ac = g0.extra + 12 * (ctx'.written - w) ∧ w ≤ ctx'.written ∧
    ((∃ s', encodeMode s = .ok s' ∧ s'.input = body ∧ s'.list = list ∧ s'.pos = p + k ∧ s'.mode = .ascii ∧
        s'.plan = [(0, .ascii)] ∧ s'.newMode = none ∧ w ≤ s'.cw.length ∧ s'.cw.length ≤ ctx'.written) ∨
     (encodeMode s = .error .tooMuch ∧ firstBigEnough list ctx'.written = none))

/-- `Couple.EndSeg` with the codeword inequality replaced by what is true of the models ("Sym form"):
at the end of the data the encoders append an unlatch codeword exactly when the symbol chosen still
has room, which the planner does not count; so the number of codewords may exceed the planner's by
one, but it fits the symbol predicted from the planner's cost.  Also: the mode encoder does not
shorten the codeword list (assertion `codewords.len() - len` of the main loop). -/
def EndSegSym (m : EMode) : Prop :=
  ∀ (body : List Nat) (list : List Sym) (p w k : Nat) (g0 gk gE : GPlan) (r : StepResult) (s : St),
    ByteList body → p + k = body.length → (1 ≤ k ∨ m = .ascii) →
    g0.plan = newPlan m (ctxAt body list p w) →
    StepsTo k g0 gk → gk.step = .ok (some (gE, r)) → r.end = true →
    EncAt body list s p w m [(0, m)] →
    g0.extra ≤ gE.cost ∧
    ((∃ s', encodeMode s = .ok s' ∧ s'.input = body ∧ s'.list = list ∧ s'.pos ≤ body.length ∧ s'.newMode = none ∧
        (s'.hasMore = true → s'.mode = .ascii ∧ s'.plan = [(0, .ascii)]) ∧ w ≤ s'.cw.length ∧
        ∀ sym, firstBigEnough list (w + ceil12 (gE.cost - g0.extra) / 12) = some sym →
          s'.cw.length + asciiSize s'.rest ≤ dataCw sym) ∨
     (encodeMode s = .error .tooMuch ∧ firstBigEnough list (w + ceil12 (gE.cost - g0.extra) / 12) = none))

/-! ### `first_symbol_big_enough_for` is monotone -/

theorem fbe_none_mono (l : List Sym) (n n' : Nat) (h : firstBigEnough l n = none) (hn : n ≤ n') :
    firstBigEnough l n' = none := by
  unfold firstBigEnough at *
  rw [List.find?_eq_none] at *
  intro x hx
  have := h x hx
  simp only [ge_iff_le, decide_eq_true_eq] at this ⊢
  omega

theorem fbe_some_ge (l : List Sym) (n : Nat) (a : Sym) (h : firstBigEnough l n = some a) : n ≤ dataCw a := by
  unfold firstBigEnough at h
  have := List.find?_some h
  simpa using this

theorem fbe_some_le (l : List Sym) (n n' : Nat) (a b : Sym) (ha : firstBigEnough l n = some a)
    (hb : firstBigEnough l n' = some b) (hn : n ≤ n') : dataCw a ≤ dataCw b := by
  induction l with
  | nil => simp [firstBigEnough] at ha
  | cons x xs ih =>
    unfold firstBigEnough at ha hb ih
    rw [List.find?_cons] at ha hb
    by_cases h1 : dataCw x ≥ n'
    · have h2 : dataCw x ≥ n := by omega
      simp only [h1, h2, decide_true, Option.some.injEq] at ha hb
      subst ha hb
      exact Nat.le_refl _
    · simp only [h1, decide_false] at hb
      by_cases h2 : dataCw x ≥ n
      · simp only [h2, decide_true, Option.some.injEq] at ha
        subst ha
        have := List.find?_some hb
        simp only [ge_iff_le, decide_eq_true_eq] at this
        omega
      · simp only [h2, decide_false] at ha
        exact ih ha hb

theorem ceil12_facts (c : Nat) : c ≤ ceil12 c ∧ ceil12 c % 12 = 0 := by
  unfold ceil12
  split <;> omega

theorem ceil12_add (a d : Nat) : ceil12 (12 * a + d) = 12 * a + ceil12 d := by
  unfold ceil12
  have : (12 * a + d) % 12 = d % 12 := by omega
  rw [this]
  split <;> omega

/-! ### one round of the main loop -/

theorem mainLoop_unfold (f : Nat) (s : St) (nw : Nat) (hm : s.hasMore = true) :
    mainLoop (f + 1) s nw =
      match encodeMode (latched s) with
      | .error e => .error e
      | .ok s' =>
        if s'.cw.length < (latched s).cw.length then .error (.panic "codewords.len() - len")
        else if s'.cw.length - (latched s).cw.length ≤ 1 then
          (if nw + 1 > 5 then .error (.panic "no progress in encoder") else mainLoop f s' (nw + 1))
        else mainLoop f s' 0 := by
  rw [mainLoop]
  simp only [hm, Bool.not_true, Bool.false_eq_true, ↓reduceIte]
  unfold latched
  cases s.newMode <;> rfl

theorem mainLoop_round (f : Nat) (s s' : St) (nw : Nat) (hm : s.hasMore = true)
    (he : encodeMode (latched s) = .ok s') (hle : (latched s).cw.length ≤ s'.cw.length) (hnw : nw ≤ 4) :
    mainLoop (f + 1) s nw = mainLoop f s' (if s'.cw.length - (latched s).cw.length ≤ 1 then nw + 1 else 0) := by
  rw [mainLoop_unfold f s nw hm, he]
  simp only []
  rw [if_neg (by omega)]
  split
  · rw [if_neg (by omega)]
  · rfl

theorem mainLoop_round_err (f : Nat) (s : St) (nw : Nat) (e : EErr) (hm : s.hasMore = true)
    (he : encodeMode (latched s) = .error e) : mainLoop (f + 1) s nw = .error e := by
  rw [mainLoop_unfold f s nw hm, he]

/-! ### the beginning of the encoder's run -/

/-- the encoder's initial state -/
def s0 (list : List Sym) (pre body : List Nat) (plan : List (Nat × EMode)) : St :=
  { input := body, pos := 0, mode := .ascii, plan := plan, newMode := none, cw := pre, list := list }

/-- the state in which the main loop arrives at a segment: the latch of the segment's mode is pending -/
def PreAt (body : List Nat) (list : List Sym) (s : St) (p w : Nat) (m : EMode) (plan : List (Nat × EMode)) : Prop :=
  s.input = body ∧ s.list = list ∧ s.pos = p ∧ s.cw.length + lcost m = w ∧ s.mode = m ∧ s.plan = plan ∧
    s.newMode = m.latch

theorem preAt_latched {body : List Nat} {list : List Sym} {s : St} {p w : Nat} {m : EMode}
    {plan : List (Nat × EMode)} (h : PreAt body list s p w m plan) : EncAt body list (latched s) p w m plan := by
  obtain ⟨a, b, c, d, e, f, g⟩ := h
  unfold latched
  rw [g]
  cases m with
  | ascii => exact ⟨a, b, c, by simpa [lcost, EMode.latch] using d, e, f, g⟩
  | _ => exact ⟨a, b, c, by simpa [lcost, EMode.latch, St.push] using d, e, f, rfl⟩

/-- a first entry `(len, m)`, `m ≠ ASCII`: the ASCII encoder returns at once with the latch pending -/
theorem ascii_first_switch (s : St) (m : EMode) (rest : List (Nat × EMode)) (hmode : s.mode = .ascii)
    (hp : s.plan = (s.charsLeft, m) :: rest) (hcl : 0 < s.charsLeft) (hm : m ≠ .ascii) :
    encodeMode s = .ok { s with mode := m, plan := rest, newMode := m.latch } := by
  unfold encodeMode
  rw [hmode]
  simp only []
  rw [asciiLoop]
  have : s.maybeSwitch = .ok (true, { s with mode := m, plan := rest, newMode := m.latch }) := by
    unfold St.maybeSwitch
    rw [hp]
    simp only [Nat.lt_irrefl, ↓reduceIte, hcl, and_self, hmode, ne_eq, hm, not_false_eq_true]
    cases m <;> first | exact absurd rfl hm | rfl
  rw [this]

/-- a first entry `(len, ASCII)` is taken from the list by the first `maybe_switch_mode` and changes
nothing else -/
theorem ascii_pop (s : St) (r : Nat) (m' : EMode) (rest : List (Nat × EMode)) (hmode : s.mode = .ascii)
    (hp : s.plan = (s.charsLeft, .ascii) :: (r, m') :: rest) (hr : r < s.charsLeft) :
    encodeMode s = encodeMode { s with plan := (r, m') :: rest } := by
  obtain ⟨s2, hs2⟩ : ∃ s2 : St, s2 = { s with plan := (r, m') :: rest } := ⟨_, rfl⟩
  rw [← hs2]
  have hmode2 : s2.mode = .ascii := by rw [hs2]; exact hmode
  have hc : s2.charsLeft = s.charsLeft := by rw [hs2]; rfl
  have hp2 : s2.plan = (r, m') :: rest := by rw [hs2]
  have e1 : encodeMode s = asciiLoop (s.charsLeft + 1 + 1) s := by unfold encodeMode; rw [hmode]
  have e2 : encodeMode s2 = asciiLoop (s.charsLeft + 1 + 1) s2 := by unfold encodeMode; rw [hmode2, hc]
  rw [e1, e2, asciiLoop, asciiLoop]
  have h1 : s.maybeSwitch = .ok (false, s2) := by
    unfold St.maybeSwitch
    rw [hp]
    have : 0 < s.charsLeft := by omega
    simp only [Nat.lt_irrefl, ↓reduceIte, this, and_self, hmode, ne_eq, not_true_eq_false, hs2]
  have h2 : s2.maybeSwitch = .ok (false, s2) := by
    unfold St.maybeSwitch
    rw [hp2]
    simp only [hc]
    have h3 : ¬ s.charsLeft < r := by omega
    have h4 : ¬ (s.charsLeft > 0 ∧ s.charsLeft = r) := by omega
    simp only [h3, h4, ↓reduceIte, ne_eq, not_true_eq_false]
    cases s2; simp only [] at hp2; subst hp2; rfl
  rw [h1, h2]

theorem mainLoop_pop (s : St) (r : Nat) (m' : EMode) (rest : List (Nat × EMode)) (hmode : s.mode = .ascii)
    (hnm : s.newMode = none) (hp : s.plan = (s.charsLeft, .ascii) :: (r, m') :: rest) (hr : r < s.charsLeft)
    (f nw : Nat) : mainLoop f s nw = mainLoop f { s with plan := (r, m') :: rest } nw := by
  cases f with
  | zero => rfl
  | succ f =>
    have hm : s.hasMore = true := by
      unfold St.charsLeft at hr
      simp only [St.hasMore, decide_eq_true_eq]; omega
    have hm2 : ({ s with plan := (r, m') :: rest } : St).hasMore = true := hm
    have hl1 : latched s = s := by unfold latched; rw [hnm]
    have hl2 : latched { s with plan := (r, m') :: rest } = { s with plan := (r, m') :: rest } := by
      unfold latched; simp only [hnm]
    rw [mainLoop_unfold f s nw hm, mainLoop_unfold f _ nw hm2, hl1, hl2, ascii_pop s r m' rest hmode hp hr]


/-! ### the per-mode interface: relation to `Couple.lean`, and the condition on the plan -/

/-- the original interface implies the amended one wherever it holds, given that the mode encoder does
not shorten the codeword list -/
theorem endSegSym_of_endSeg (m : EMode) (h : EndSeg m)
    (hmono : ∀ s s' : St, s.mode = m → encodeMode s = .ok s' → s.cw.length ≤ s'.cw.length) : EndSegSym m := by
  intro body list p w k g0 gk gE r s hb hpk hk hpl hst hs hre henc
  obtain ⟨h1, h2⟩ := h body list p w k g0 gk gE r s hb hpk hk hpl hst hs hre henc
  refine ⟨h1, ?_⟩
  rcases h2 with ⟨s', a, b, c, d, e, f, g⟩ | h2
  · left
    refine ⟨s', a, b, c, d, e, f, ?_, ?_⟩
    · have := hmono s s' henc.2.2.2.2.1 a
      rw [henc.2.2.2.1] at this
      exact this
    · intro sym hsym
      have := fbe_some_ge list _ sym hsym
      obtain ⟨_, d2⟩ := ceil12_facts (gE.cost - g0.extra)
      omega
  · right; exact h2

/-- a count that fits the symbol chosen for a larger count gets a symbol that is no larger -/
theorem fbe_fit (l : List Sym) (T P : Nat) (ps : Sym) (hP : firstBigEnough l P = some ps) (hT : T ≤ dataCw ps) :
    ∃ sym, firstBigEnough l T = some sym ∧ dataCw sym ≤ dataCw ps := by
  induction l with
  | nil => simp [firstBigEnough] at hP
  | cons x xs ih =>
    unfold firstBigEnough at hP ih ⊢
    rw [List.find?_cons] at hP ⊢
    by_cases h1 : dataCw x ≥ P
    · simp only [h1, decide_true, Option.some.injEq] at hP
      subst hP
      have h2 : dataCw x ≥ T := hT
      simp only [h2, decide_true]
      exact ⟨x, rfl, Nat.le_refl _⟩
    · simp only [h1, decide_false] at hP
      by_cases h2 : dataCw x ≥ T
      · simp only [h2, decide_true]
        refine ⟨x, rfl, ?_⟩
        have := List.find?_some hP
        simp only [ge_iff_le, decide_eq_true_eq] at this
        omega
      · simp only [h2, decide_false]
        exact ih hP

theorem planOK_append (body : List Nat) (e : Nat × EMode) (t : List (Nat × EMode)) :
    ∀ A : List (Nat × EMode), planOK body (A ++ e :: t) = true → headOK body e t = true := by
  intro A
  induction A with
  | nil => intro h; simp only [List.nil_append, planOK, Bool.and_eq_true] at h; exact h.1
  | cons a A ih => intro h; simp only [List.cons_append, planOK, Bool.and_eq_true] at h; exact ih h.2

theorem headOK_cases {body : List Nat} {e : Nat × EMode} {r : Nat} {m' : EMode} {t : List (Nat × EMode)}
    (h : headOK body e ((r, m') :: t) = true) :
    ((e.2 = .c40 ∨ e.2 = .text) → lateDigits body r = false) ∨
    ((e.2 = .c40 ∨ e.2 = .text) ∧ lateDigits body r = true ∧ r = 2 ∧ m' = .ascii ∧ t = [(0, .ascii)]) := by
  by_cases hc : e.2 = .c40 ∨ e.2 = .text
  · by_cases hl : lateDigits body r = true
    · right
      have hc' : (e.2 == EMode.c40 || e.2 == EMode.text) = true := by simpa using hc
      simp only [headOK, hc', hl, Bool.not_true, Bool.false_or, Bool.and_eq_true, beq_iff_eq] at h
      exact ⟨hc, hl, h.1.1, h.1.2, h.2⟩
    · left; intro _; simpa using hl
  · left; intro h'; exact absurd h' hc

theorem planOK_finPlan (body : List Nat) (W len : Nat) (sw : List (Nat × EMode))
    (h : planOK body (finPlan W len sw) = true) : planOK body sw = true := by
  unfold finPlan at h
  split at h
  · rename_i hc
    cases sw with
    | nil => rfl
    | cons e t =>
      simp only [List.head?_cons, Option.some.injEq] at hc
      simp only [List.tail_cons] at h
      simp only [planOK, h, Bool.and_true]
      rw [hc.2]
      cases t with
      | nil => rfl
      | cons a t => obtain ⟨r, m'⟩ := a; simp [headOK]
  · exact h

/-! ### arrival at a segment -/

section
variable {body : List Nat} {list : List Sym} {W : Nat}

theorem lcost_ascii : lcost .ascii = 0 := rfl

theorem hist_last {g0 : GPlan} {p w : Nat} {m : EMode} (hh : Hist body list W g0 p w m) :
    ∃ A, g0.switches = A ++ [(body.length - p, m)] := by
  cases hh with
  | start => exact ⟨[], by simp [startPlan]⟩
  | first m hm => exact ⟨[], by simp⟩
  | switch hh => exact ⟨_, rfl⟩

theorem switch_planner_side (hS : ∀ m, SwitchSegX m) (hb : ByteList body) {g0 gk : GPlan} {p w k ac : Nat}
    {m m' : EMode} {ctx' : Ctx} (hh : Hist body list W g0 p w m) (hlt : p + k < body.length) (hk : 1 ≤ k)
    (hside : (m = .c40 ∨ m = .text) → lateDigits body (body.length - (p + k)) = false)
    (hst : StepsTo k g0 gk) (hsp : SwitchPoint gk) (hsc : gk.switchCost = some ac) (hul : gk.unlatch = .ok ctx')
    (hne : m' ≠ m) : ac = g0.extra + 12 * (ctx'.written - w) ∧ w ≤ ctx'.written := by
  have := hS m body list p w k g0 gk ac ctx' m' []
    { input := body, pos := p, mode := m, plan := [(body.length - (p + k), m')], newMode := none,
      cw := List.replicate w 0, list := list }
    hb hlt (Or.inl hk) hside (hist_plan hh) hst hsp hsc hul hne ⟨rfl, rfl, rfl, by simp, rfl, rfl, rfl⟩
  exact ⟨this.1, this.2.1⟩

theorem late_planner_side (hL : ∀ m, LateSwitchSeg m) (hb : ByteList body) {g0 gk : GPlan} {p w k ac : Nat}
    {m : EMode} {ctx' : Ctx} (hh : Hist body list W g0 p w m) (hlt : p + k + 2 = body.length) (hk : 1 ≤ k)
    (hc : m = .c40 ∨ m = .text) (hld : lateDigits body 2 = true)
    (hst : StepsTo k g0 gk) (hsp : SwitchPoint gk) (hsc : gk.switchCost = some ac) (hul : gk.unlatch = .ok ctx') :
    ac = g0.extra + 12 * (ctx'.written - w) ∧ w ≤ ctx'.written := by
  have := hL m body list p w k g0 gk ac ctx'
    { input := body, pos := p, mode := m, plan := [(2, .ascii), (0, .ascii)], newMode := none,
      cw := List.replicate w 0, list := list }
    hb hlt hk hc hld (hist_plan hh) hst hsp hsc hul ⟨rfl, rfl, rfl, by simp, rfl, rfl, rfl⟩
  exact ⟨this.1, this.2.1⟩

/-- the main loop, started in `st`, arrives at the segment `(p, w, m)` with `rest` as remaining plan;
or has stopped with `tooMuch`, and then some count `n ≤ w` already fits no symbol; or (C40 / Text
before two final digits) has arrived in ASCII-until-the-end with at most `w` codewords -/
def Arrive (body : List Nat) (list : List Sym) (st : St) (p w : Nat) (m : EMode) (rest : List (Nat × EMode)) : Prop :=
  (∃ s used nw, PreAt body list s p w m rest ∧ used ≤ p + 1 ∧ nw ≤ 1 ∧ (m = .ascii → nw = 0) ∧
      ∀ f, mainLoop (used + f) st 0 = mainLoop f s nw) ∨
  (∃ used n, used ≤ p + 1 ∧ n ≤ w ∧ firstBigEnough list n = none ∧
      ∀ f, mainLoop (used + f) st 0 = .error .tooMuch) ∨
  (∃ s used nw, s.input = body ∧ s.list = list ∧ s.pos = p ∧ s.mode = .ascii ∧ s.plan = [(0, .ascii)] ∧
      s.newMode = none ∧ s.cw.length ≤ w ∧ m = .ascii ∧ rest = [(0, .ascii)] ∧ used ≤ p + 1 ∧ nw ≤ 2 ∧
      ∀ f, mainLoop (used + f) st 0 = mainLoop f s nw)

theorem finPlan_first (len : Nat) (m : EMode) (t : List (Nat × EMode)) (hm : m ≠ .ascii) :
    finPlan W len ((len, m) :: t) = (len, m) :: t := by
  unfold finPlan
  rw [if_neg]
  intro h
  simp only [List.head?_cons, Option.some.injEq, Prod.mk.injEq] at h
  exact hm h.2.2

theorem arrive (pre : List Nat) (hW : W = pre.length) (hS : ∀ m, SwitchSegX m) (hL : ∀ m, LateSwitchSeg m)
    (hP : ∀ m, SegProgress m) (hb : ByteList body) (hpos : 0 < body.length) {g0 : GPlan} {p w : Nat} {m : EMode}
    (hh : Hist body list W g0 p w m) :
    ∀ (r : Nat) (m' : EMode) (rest' : List (Nat × EMode)), r < body.length →
      planOK body (g0.switches ++ (r, m') :: rest') = true →
      (g0.extra = 12 * (w - W) ∧ W ≤ w) ∧
      Arrive body list (s0 list pre body (finPlan W body.length (g0.switches ++ (r, m') :: rest'))) p w m
        ((r, m') :: rest') := by
  induction hh with
  | start =>
    intro r m' rest' hr _
    refine ⟨⟨by simp [startPlan], Nat.le_refl _⟩, ?_⟩
    left
    simp only [startPlan, List.cons_append, List.nil_append]
    by_cases hw0 : W = 0
    · have : finPlan W body.length ((body.length, EMode.ascii) :: (r, m') :: rest') = (r, m') :: rest' := by
        unfold finPlan; rw [if_pos ⟨hw0, rfl⟩]; rfl
      rw [this]
      exact ⟨s0 list pre body ((r, m') :: rest'), 0, 0, ⟨rfl, rfl, rfl, by simp [s0, lcost_ascii, hW], rfl, rfl, rfl⟩,
        by omega, by omega, fun _ => rfl, fun f => by rw [Nat.zero_add]⟩
    · have : finPlan W body.length ((body.length, EMode.ascii) :: (r, m') :: rest') =
          (body.length, EMode.ascii) :: (r, m') :: rest' := by
        unfold finPlan; rw [if_neg (fun h => hw0 h.1)]
      rw [this]
      refine ⟨s0 list pre body ((r, m') :: rest'), 0, 0, ⟨rfl, rfl, rfl, by simp [s0, lcost_ascii, hW], rfl, rfl, rfl⟩,
        by omega, by omega, fun _ => rfl, fun f => ?_⟩
      rw [Nat.zero_add]
      exact mainLoop_pop (s0 list pre body ((body.length, EMode.ascii) :: (r, m') :: rest')) r m' rest' rfl rfl
        (by simp [s0, St.charsLeft]) (by simpa [s0, St.charsLeft] using hr) f 0
  | first m hm =>
    intro r m' rest' hr _
    refine ⟨⟨by simp only []; omega, by omega⟩, ?_⟩
    left
    simp only [List.cons_append, List.nil_append]
    rw [finPlan_first _ _ _ hm]
    have henc := ascii_first_switch (s0 list pre body ((body.length, m) :: (r, m') :: rest')) m ((r, m') :: rest') rfl
      (by simp [s0, St.charsLeft]) (by simpa [s0, St.charsLeft] using hpos) hm
    have hl : latched (s0 list pre body ((body.length, m) :: (r, m') :: rest')) =
        s0 list pre body ((body.length, m) :: (r, m') :: rest') := rfl
    have hmore : (s0 list pre body ((body.length, m) :: (r, m') :: rest')).hasMore = true := by
      simp [s0, St.hasMore, hpos]
    refine ⟨({ input := body, pos := 0, mode := m, plan := (r, m') :: rest', newMode := m.latch, cw := pre, list := list } : St),
      1, 1, ⟨rfl, rfl, rfl, ?_, rfl, rfl, rfl⟩, by omega, by omega, fun h => absurd h hm, fun f => ?_⟩
    · simp only []; omega
    · rw [Nat.add_comm 1 f, mainLoop_round f _ _ 0 hmore (by rw [hl]; exact henc) (by rw [hl]; exact Nat.le_refl _)
        (by omega)]
      rw [hl]
      simp [s0]
  | @switch g0 gk p w k ac m m' ctx' hh hlt hk hst hsp hsc hul hne ih =>
    intro r m'' rest' hr hok
    simp only [List.append_assoc, List.cons_append, List.nil_append] at hok ⊢
    obtain ⟨⟨hex, hWw⟩, harr⟩ := ih (body.length - (p + k)) m' ((r, m'') :: rest') (by omega) hok
    obtain ⟨A, hA⟩ := hist_last hh
    have hhead : headOK body (body.length - p, m) ((body.length - (p + k), m') :: (r, m'') :: rest') = true := by
      rw [hA, List.append_assoc] at hok
      exact planOK_append body _ _ A hok
    rcases headOK_cases hhead with hside | ⟨hc40, hlate, hr2, hma, ht⟩
    · -- the regular case
      obtain ⟨hac, hwle⟩ := switch_planner_side hS hb hh hlt hk hside hst hsp hsc hul hne
      refine ⟨⟨by show ac + lcost m' * 12 = _; omega, by omega⟩, ?_⟩
      rcases harr with ⟨s, used, nw, hpre, hused, hnw, hnwa, hrun⟩ | ⟨used, n, hused, hn, hfb, hrun⟩ |
        ⟨s, used, nw, _, _, _, _, _, _, _, _, hrest, _⟩
      · have henc := preAt_latched hpre
        have hmore : s.hasMore = true := by
          obtain ⟨a, _, c, _⟩ := hpre
          simp only [St.hasMore, a, c, decide_eq_true_eq]; omega
        obtain ⟨_, _, hres⟩ := hS m body list p w k g0 gk ac ctx' m' ((r, m'') :: rest') (latched s) hb hlt (Or.inl hk)
          hside (hist_plan hh) hst hsp hsc hul hne henc
        rcases hres with ⟨s', e1, e2, e3, e4, e5, e6, e7, e8⟩ | ⟨e1, e2⟩
        · left
          have hlen : (latched s).cw.length = w := henc.2.2.2.1
          have hnw' : (if s'.cw.length - (latched s).cw.length ≤ 1 then nw + 1 else 0) ≤ 1 ∧
              (m' = .ascii → (if s'.cw.length - (latched s).cw.length ≤ 1 then nw + 1 else 0) = 0) := by
            rw [hlen, e5]
            by_cases hma : m = .ascii
            · have := hnwa hma
              subst this
              refine ⟨by split <;> omega, fun h => absurd (h.trans hma.symm) hne⟩
            · have := hP m body list p w k g0 gk ac ctx' hb hlt hk hma hside (hist_plan hh) hst hsp hsc hul
              rw [if_neg (by omega)]
              exact ⟨by omega, fun _ => rfl⟩
          refine ⟨s', used + 1, _, ⟨e2, e3, e4, by rw [e5], e6, e7, e8⟩, by omega, hnw'.1, hnw'.2, fun f => ?_⟩
          rw [Nat.add_assoc, Nat.add_comm 1 f, hrun (f + 1)]
          exact mainLoop_round f s s' nw hmore e1 (by rw [hlen, e5]; exact hwle) (by omega)
        · right; left
          refine ⟨used + 1, ctx'.written, by omega, by omega, e2, fun f => ?_⟩
          rw [Nat.add_assoc, Nat.add_comm 1 f, hrun (f + 1)]
          exact mainLoop_round_err f s nw _ hmore e1
      · right; left
        exact ⟨used, n, by omega, by omega, hfb, hrun⟩
      · exfalso
        simp only [List.cons.injEq, Prod.mk.injEq] at hrest
        omega
    · -- C40 / Text, then ASCII for the two final digits
      simp only [] at hc40
      simp only [List.cons.injEq, Prod.mk.injEq] at ht
      obtain ⟨hr0, hm''⟩ := ht.1
      have hrest' : rest' = [] := ht.2
      subst hma hr0 hm'' hrest'
      have hlt2 : p + k + 2 = body.length := by omega
      rw [hr2] at hlate
      obtain ⟨hac, hwle⟩ := late_planner_side hL hb hh hlt2 hk hc40 hlate hst hsp hsc hul
      refine ⟨⟨by show ac + lcost EMode.ascii * 12 = _; omega, by omega⟩, ?_⟩
      rw [hr2] at harr ⊢
      rcases harr with ⟨s, used, nw, hpre, hused, hnw, hnwa, hrun⟩ | ⟨used, n, hused, hn, hfb, hrun⟩ |
        ⟨s, used, nw, _, _, _, _, _, _, _, _, hrest, _⟩
      · have henc := preAt_latched hpre
        have hmore : s.hasMore = true := by
          obtain ⟨a, _, c, _⟩ := hpre
          simp only [St.hasMore, a, c, decide_eq_true_eq]; omega
        obtain ⟨_, _, hres⟩ := hL m body list p w k g0 gk ac ctx' (latched s) hb hlt2 hk hc40 hlate
          (hist_plan hh) hst hsp hsc hul henc
        have hlen : (latched s).cw.length = w := henc.2.2.2.1
        rcases hres with ⟨s', e1, e2, e3, e4, e5, e6, e7, e8, e9⟩ | ⟨e1, e2⟩
        · right; right
          refine ⟨s', used + 1, (if s'.cw.length - (latched s).cw.length ≤ 1 then nw + 1 else 0), e2, e3, e4, e5, e6, e7,
            by rw [lcost_ascii]; omega, rfl, rfl, by omega, ?_, fun f => ?_⟩
          · split <;> omega
          · rw [Nat.add_assoc, Nat.add_comm 1 f, hrun (f + 1)]
            exact mainLoop_round f s s' nw hmore e1 (by rw [hlen]; exact e8) (by omega)
        · right; left
          refine ⟨used + 1, ctx'.written, by omega, by omega, e2, fun f => ?_⟩
          rw [Nat.add_assoc, Nat.add_comm 1 f, hrun (f + 1)]
          exact mainLoop_round_err f s nw _ hmore e1
      · right; left
        exact ⟨used, n, by omega, by omega, hfb, hrun⟩
      · exfalso
        simp only [List.cons.injEq, Prod.mk.injEq] at hrest
        omega


theorem end_planner_side (hE : ∀ m, EndSegSym m) (hb : ByteList body) {g0 gk gE : GPlan} {p w k : Nat} {m : EMode}
    {r : StepResult} (hh : Hist body list W g0 p w m) (hpk : p + k = body.length) (hk : 1 ≤ k)
    (hst : StepsTo k g0 gk) (hs : gk.step = .ok (some (gE, r))) (hre : r.end = true) : g0.extra ≤ gE.cost :=
  (hE m body list p w k g0 gk gE r
    { input := body, pos := p, mode := m, plan := [(0, m)], newMode := none, cw := List.replicate w 0, list := list }
    hb hpk (Or.inl hk) (hist_plan hh) hst hs hre ⟨rfl, rfl, rfl, by simp, rfl, rfl, rfl⟩).1

theorem hasMore_false_rest (s : St) (h : s.hasMore = false) : s.rest = [] := by
  unfold St.rest
  apply List.drop_eq_nil_of_le
  simpa [St.hasMore] using h

/-- the ASCII tail (`set_ascii_until_end`) -/
theorem ascii_tail (s : St) (hmode : s.mode = .ascii) (hp : s.plan = [(0, .ascii)]) (hpos : s.pos ≤ s.input.length) :
    ∃ s', encodeMode s = .ok s' ∧ s'.hasMore = false ∧ s'.cw.length = s.cw.length + asciiSize s.rest := by
  refine ⟨{ s with pos := s.input.length, cw := s.cw ++ asciiEnc s.rest }, ?_, by simp [St.hasMore], ?_⟩
  · have : encodeMode s = asciiLoop (s.charsLeft + 2) s := by unfold encodeMode; rw [hmode]
    rw [this]
    exact asciiLoop_spec (s.input.length - s.pos) (s.charsLeft + 2) s hp hmode hpos (Nat.le_refl _)
      (by unfold St.charsLeft; omega)
  · simp only [List.length_append]
    rw [asciiEnc_length _ _ (Nat.le_refl _)]

/-- what the planner's price of a final ASCII segment guarantees (from `EndSegSym .ascii`, on a state of
exactly `w` codewords) -/
theorem ascii_end_bound (hE : ∀ m, EndSegSym m) (hb : ByteList body) {g0 gk gE : GPlan} {p w k : Nat}
    {r : StepResult} (hh : Hist body list W g0 p w .ascii) (hpk : p + k = body.length) (hk : 1 ≤ k)
    (hst : StepsTo k g0 gk) (hs : gk.step = .ok (some (gE, r))) (hre : r.end = true) (ps : Sym)
    (hps : firstBigEnough list (w + ceil12 (gE.cost - g0.extra) / 12) = some ps) :
    w + asciiSize (body.drop p) ≤ dataCw ps := by
  obtain ⟨d, hd⟩ : ∃ d : St, d = St.mk body p .ascii [(0, .ascii)] none (List.replicate w 0) list := ⟨_, rfl⟩
  have henc : EncAt body list d p w .ascii [(0, .ascii)] := by
    rw [hd]; exact ⟨rfl, rfl, rfl, by simp, rfl, rfl, rfl⟩
  obtain ⟨sd, t1, t2, t3⟩ := ascii_tail d henc.2.2.2.2.1 henc.2.2.2.2.2.1 (by rw [henc.1, henc.2.2.1]; omega)
  obtain ⟨_, hres⟩ := hE .ascii body list p w k g0 gk gE r d hb hpk (Or.inl hk) (hist_plan hh) hst hs hre henc
  rcases hres with ⟨s', e1, _, _, _, _, _, _, e8⟩ | ⟨e1, _⟩
  · rw [t1] at e1
    simp only [Except.ok.injEq] at e1
    subst e1
    have := e8 ps hps
    rw [hasMore_false_rest sd t2, t3, henc.2.2.2.1] at this
    have hr : d.rest = body.drop p := by unfold St.rest; rw [henc.1, henc.2.2.1]
    rw [hr] at this
    simpa [asciiSize] using this
  · rw [t1] at e1; cases e1

/-- **The main loop on the optimiser's plan.** -/
theorem mainLoop_planned (hS : ∀ m, SwitchSegX m) (hL : ∀ m, LateSwitchSeg m) (hE : ∀ m, EndSegSym m)
    (hP : ∀ m, SegProgress m)
    (pre : List Nat) (modes : Nat) (perms : List (List Nat)) (o : Outcome) (plan : List (Nat × EMode))
    (hb : ByteList body) (hopt : optimize body pre.length list modes perms = .ok o) (hp : o.plan = some plan)
    (hok : planOK body plan = true) :
    (∃ sE, mainLoop (2 * body.length + 8) (s0 list pre body plan) 0 = .ok sE ∧
        ∀ ps, firstBigEnough list (pre.length + o.cost12 / 12) = some ps → sE.cw.length ≤ dataCw ps) ∨
    (mainLoop (2 * body.length + 8) (s0 list pre body plan) 0 = .error .tooMuch ∧
        firstBigEnough list (pre.length + o.cost12 / 12) = none) := by
  by_cases hne : body = []
  · subst hne
    left
    refine ⟨s0 list pre [] plan, mainLoop_end _ _ _ (by simp [s0, St.hasMore]), ?_⟩
    intro ps hps
    have := fbe_some_ge list _ ps hps
    simp only [s0]
    omega
  have hpos : 0 < body.length := List.length_pos_iff.mpr hne
  obtain ⟨best, ⟨g0, p, w, m, j, gk, r, hh, hst, hpj, hj, hs, hre⟩, hplan, hcost⟩ := optimize_final hne hopt hp
  obtain ⟨hck, hcur, hsw, _, _⟩ := stepsTo_core j p g0 gk hst (hist_core hh).1
  obtain ⟨bsw, _, bcur, _, _, _⟩ := step_some_spec hck hs
  have hm0 := (hist_core hh).2
  rw [bsw, hsw, bcur, hcur, hm0] at hplan
  subst hplan
  obtain ⟨⟨hex, hWw⟩, harr⟩ := arrive pre rfl hS hL hP hb hpos hh 0 m [] hpos (planOK_finPlan body _ _ _ hok)
  have hle := end_planner_side hE hb hh hpj hj hst hs hre
  obtain ⟨c1, c2⟩ := ceil12_facts best.cost
  have hcd : ceil12 best.cost = 12 * (w - pre.length) + ceil12 (best.cost - g0.extra) := by
    have : best.cost = 12 * (w - pre.length) + (best.cost - g0.extra) := by omega
    rw [← ceil12_add, ← this]
  obtain ⟨d1, d2⟩ := ceil12_facts (best.cost - g0.extra)
  have hP' : pre.length + o.cost12 / 12 = w + ceil12 (best.cost - g0.extra) / 12 := by
    rw [hcost, hcd]; omega
  rw [hP']
  rcases harr with ⟨s, used, nw, hpre, hused, hnw, _, hrun⟩ | ⟨used, n, hused, hn, hfb, hrun⟩ |
    ⟨s, used, nw, a1, a2, a3, a4, a5, a6, a7, a8, _, hused, hnw, hrun⟩
  · obtain ⟨f, hf⟩ : ∃ f, 2 * body.length + 8 = used + (f + 3) := ⟨2 * body.length + 8 - used - 3, by omega⟩
    rw [hf, hrun (f + 3)]
    have henc := preAt_latched hpre
    have hmore : s.hasMore = true := by
      obtain ⟨a, _, c, _⟩ := hpre
      simp only [St.hasMore, a, c, decide_eq_true_eq]; omega
    obtain ⟨_, hres⟩ := hE m body list p w j g0 gk best r (latched s) hb hpj (Or.inl hj) (hist_plan hh) hst hs hre henc
    have hlen : (latched s).cw.length = w := henc.2.2.2.1
    rcases hres with ⟨s', e1, e2, e3, e4, e5, e6, e7, e8⟩ | ⟨e1, e2⟩
    · left
      rw [mainLoop_round (f + 2) s s' nw hmore e1 (by rw [hlen]; exact e7) (by omega)]
      generalize hnw' : (if s'.cw.length - (latched s).cw.length ≤ 1 then nw + 1 else 0) = nw'
      have hnw2 : nw' ≤ 2 := by rw [← hnw']; split <;> omega
      by_cases hm' : s'.hasMore = true
      · obtain ⟨a1, a2⟩ := e6 hm'
        obtain ⟨s'', t1, t2, t3⟩ := ascii_tail s' a1 a2 (by rw [e2]; exact e4)
        have hl' : latched s' = s' := by unfold latched; rw [e5]
        rw [mainLoop_round (f + 1) s' s'' nw' hm' (by rw [hl']; exact t1) (by rw [hl', t3]; omega) (by omega)]
        refine ⟨s'', mainLoop_end _ _ _ t2, ?_⟩
        rw [t3]; exact e8
      · have hm'' : s'.hasMore = false := by simpa using hm'
        refine ⟨s', mainLoop_end _ _ _ hm'', ?_⟩
        intro ps hps
        have := e8 ps hps
        rw [hasMore_false_rest s' hm''] at this
        simpa [asciiSize] using this
    · right
      rw [mainLoop_round_err (f + 2) s nw _ hmore e1]
      exact ⟨rfl, e2⟩
  · right
    obtain ⟨f, hf⟩ : ∃ f, 2 * body.length + 8 = used + f := ⟨2 * body.length + 8 - used, by omega⟩
    rw [hf, hrun f]
    exact ⟨rfl, fbe_none_mono list n _ hfb (by omega)⟩
  · left
    subst a8
    obtain ⟨f, hf⟩ : ∃ f, 2 * body.length + 8 = used + (f + 2) := ⟨2 * body.length + 8 - used - 2, by omega⟩
    rw [hf, hrun (f + 2)]
    have hmore : s.hasMore = true := by
      simp only [St.hasMore, a1, a3, decide_eq_true_eq]; omega
    obtain ⟨s'', t1, t2, t3⟩ := ascii_tail s a4 a5 (by rw [a1, a3]; omega)
    have hl' : latched s = s := by unfold latched; rw [a6]
    rw [mainLoop_round (f + 1) s s'' nw hmore (by rw [hl']; exact t1) (by rw [hl', t3]; omega) (by omega)]
    refine ⟨s'', mainLoop_end _ _ _ t2, ?_⟩
    intro ps hps
    have := ascii_end_bound hE hb hh hpj hj hst hs hre ps hps
    have hr : s.rest = body.drop p := by unfold St.rest; rw [a1, a3]
    rw [t3, hr]
    omega

end

theorem addPadding_some (cw : List Nat) (b : Bool) (cap : Nat) (h : cw.length ≤ cap) :
    ∃ out, addPadding cw b cap = some out := by
  unfold addPadding
  rw [if_neg (by omega)]
  simp only []
  split
  · exact ⟨_, rfl⟩
  · exact ⟨_, rfl⟩

/-- **C18 (last sentence) / C11 (encoder half): the predicted size suffices** — for plans within
`planOK` (no switch out of C40 / Text at one of the last two positions of a message ending with two
digits, other than the final switch to ASCII two characters before the end).

`list = []`: the encoder answers `listEmpty`.  More characters than the largest symbol holds as digit
pairs (`maxCapacity`): the encoder refuses before looking at the plan.  Otherwise: either the encoder
succeeds and the symbol it chooses is no larger than the one `first_symbol_big_enough_for` returns for
the prefix codewords plus the optimiser's cost (if that returns one at all), or the encoder answers
`tooMuch`, and then the predicted count fits no symbol of the list. -/
theorem predicted_size_suffices_partial (hS : ∀ m, SwitchSegX m) (hL : ∀ m, LateSwitchSeg m)
    (hE : ∀ m, EndSegSym m) (hP : ∀ m, SegProgress m)
    (body pre : List Nat) (list : List Sym) (modes : Nat) (perms : List (List Nat)) (o : Outcome)
    (plan : List (Nat × EMode)) (hb : ByteList body)
    (hopt : optimize body pre.length list modes perms = .ok o) (hp : o.plan = some plan)
    (hok : planOK body plan = true) :
    (list = [] ∧ run list pre body plan = .error .listEmpty) ∨
    (list ≠ [] ∧ maxCapacity list < body.length ∧ run list pre body plan = .error .tooMuch) ∨
    (list ≠ [] ∧ body.length ≤ maxCapacity list ∧ ∃ cw sym, run list pre body plan = .ok (cw, sym) ∧
      ∀ ps, firstBigEnough list (pre.length + o.cost12 / 12) = some ps → dataCw sym ≤ dataCw ps) ∨
    (list ≠ [] ∧ body.length ≤ maxCapacity list ∧ run list pre body plan = .error .tooMuch ∧
      firstBigEnough list (pre.length + o.cost12 / 12) = none) := by
  by_cases hl : list = []
  · left
    subst hl
    exact ⟨rfl, rfl⟩
  right
  have hle : list.isEmpty = false := by cases list <;> simp_all
  by_cases hg : body.length > maxCapacity list
  · left
    refine ⟨hl, hg, ?_⟩
    unfold run
    rw [hle]
    simp only [Bool.false_eq_true, ↓reduceIte, hg]
  right
  have hrun : run list pre body plan =
      match mainLoop (2 * body.length + 8) (s0 list pre body plan) 0 with
      | .error e => .error e
      | .ok s =>
        match firstBigEnough list s.cw.length with
        | none => .error .tooMuch
        | some sym =>
          match addPadding s.cw (s.mode == .ascii) (dataCw sym) with
          | some cw => .ok (cw, sym)
          | none => .error (.panic "add_padding") := by
    unfold run
    rw [hle]
    simp only [Bool.false_eq_true, ↓reduceIte, hg]
    rfl
  rcases mainLoop_planned hS hL hE hP pre modes perms o plan hb hopt hp hok with ⟨sE, h1, h2⟩ | ⟨h1, h2⟩
  · rw [h1] at hrun
    simp only [] at hrun
    cases hf : firstBigEnough list sE.cw.length with
    | none =>
      right
      rw [hf] at hrun
      refine ⟨hl, by omega, hrun, ?_⟩
      cases hpr : firstBigEnough list (pre.length + o.cost12 / 12) with
      | none => rfl
      | some ps =>
        obtain ⟨sym, hsym, _⟩ := fbe_fit list sE.cw.length _ ps hpr (h2 ps hpr)
        rw [hf] at hsym; cases hsym
    | some sym =>
      left
      rw [hf] at hrun
      simp only [] at hrun
      obtain ⟨out, hout⟩ := addPadding_some sE.cw (sE.mode == .ascii) (dataCw sym) (fbe_some_ge list _ sym hf)
      rw [hout] at hrun
      refine ⟨hl, by omega, out, sym, hrun, ?_⟩
      intro ps hps
      obtain ⟨sym2, hsym2, hle2⟩ := fbe_fit list sE.cw.length _ ps hps (h2 ps hps)
      rw [hf] at hsym2
      simp only [Option.some.injEq] at hsym2
      subst hsym2
      exact hle2
  · right
    rw [h1] at hrun
    exact ⟨hl, by omega, hrun, h2⟩

/-- **C11 (encoder half): on the optimiser's plan (within `planOK`) the encoder model reaches none of
its panic sites and does not run out of fuel.** -/
theorem encoder_no_panic_partial (hS : ∀ m, SwitchSegX m) (hL : ∀ m, LateSwitchSeg m)
    (hE : ∀ m, EndSegSym m) (hP : ∀ m, SegProgress m)
    (body pre : List Nat) (list : List Sym) (modes : Nat) (perms : List (List Nat)) (o : Outcome)
    (plan : List (Nat × EMode)) (hb : ByteList body)
    (hopt : optimize body pre.length list modes perms = .ok o) (hp : o.plan = some plan)
    (hok : planOK body plan = true) :
    (∀ site, run list pre body plan ≠ .error (.panic site)) ∧ run list pre body plan ≠ .error .fuel := by
  rcases predicted_size_suffices_partial hS hL hE hP body pre list modes perms o plan hb hopt hp hok with
    ⟨_, h⟩ | ⟨_, _, h⟩ | ⟨_, _, _, _, h, _⟩ | ⟨_, _, h, _⟩ <;> rw [h] <;>
    exact ⟨fun _ h' => (by cases h'), fun h' => (by cases h')⟩

end DM.Lemmas.CoupleMain
