import DM.Lemmas.EdiRT
/-
Data-level round trip for a message planned entirely in C40 or Text.
-/
namespace DM.Lemmas.C40RT
open DM.Model DM.Model.Enc DM.Model.Dec DM.Gen DM.Lemmas DM.Lemmas.DecRun DM.Lemmas.AsciiRT DM.Lemmas.Complete
open DM.Lemmas.EncRT DM.Lemmas.X12RT DM.Lemmas.EdiRT DM.Spec.Build

def st0 : CSt := { shift := 0, upper := false }

/-! ### decoder: values that do not complete a character, and the fill values -/

/-- every proper prefix of the values of a byte is consumed without output and without error -/
def prefixOK (text : Bool) (b : Nat) : Bool :=
  (List.range (c40Vals text b).length).all fun k =>
    match c40Values (tabs text).1 (tabs text).2 ((c40Vals text b).take k) st0 [] with
    | .ok (_, o) => o == []
    | .error _ => false

theorem prefixes_ok : (List.range 256).all (fun b => prefixOK false b && prefixOK true b) = true := by
  decide +kernel

/-- the encoder's value function agrees with the reference builder's on every byte -/
def valsAgree (text : Bool) (b : Nat) : Bool :=
  match toVals text [] b with
  | .ok v => v == c40Vals text b
  | .error _ => false

theorem vals_agree : (List.range 256).all (fun b => valsAgree false b && valsAgree true b) = true := by
  decide +kernel

theorem prefix_ok (text : Bool) (b : Nat) (hb : b < 256) (k : Nat) (hk : k < (c40Vals text b).length) (out : List Nat) :
    ∃ st, c40Values (tabs text).1 (tabs text).2 ((c40Vals text b).take k) st0 out = .ok (st, out) := by
  have h := prefixes_ok
  rw [List.all_eq_true] at h
  have hb' := h b (List.mem_range.mpr hb)
  simp only [Bool.and_eq_true] at hb'
  have hp : prefixOK text b = true := by cases text; exact hb'.1; exact hb'.2
  unfold prefixOK at hp
  rw [List.all_eq_true] at hp
  have := hp k (List.mem_range.mpr hk)
  rw [c40Values_prefix]
  cases hc : c40Values (tabs text).1 (tabs text).2 ((c40Vals text b).take k) st0 [] with
  | error e => rw [hc] at this; simp at this
  | ok r =>
    obtain ⟨st, o⟩ := r
    rw [hc] at this
    simp only [beq_iff_eq] at this
    subst this
    exact ⟨st, by simp⟩

theorem toVals_eq (text : Bool) (buf : List Nat) (b : Nat) (hb : b < 256) :
    toVals text buf b = if (buf ++ c40Vals text b).length > 6 then .error (.panic "ArrayVec capacity")
      else .ok (buf ++ c40Vals text b) := by
  have h := vals_agree
  rw [List.all_eq_true] at h
  have hb' := h b (List.mem_range.mpr hb)
  simp only [Bool.and_eq_true] at hb'
  have hp : valsAgree text b = true := by cases text; exact hb'.1; exact hb'.2
  unfold valsAgree at hp
  unfold toVals at hp ⊢
  simp only [] at hp ⊢
  generalize (if b ≤ 127 then (if text = true then textLow else c40Low) b
    else match (if text = true then textLow else c40Low) (b - 128) with
      | .ok v => .ok ([1, 30] ++ v)
      | .error e => .error e) = r at hp ⊢
  cases r with
  | error e => simp at hp
  | ok v =>
    simp only [List.nil_append] at hp
    split at hp
    · rename_i v2 heq
      simp only [beq_iff_eq] at hp
      have hv2 : v = v2 := by
        split at heq
        · cases heq
        · simpa using heq
      subst hv2
      subst hp
      rfl
    · simp at hp

/-- the decoder on a C40 / Text run given by its value list -/
theorem seg_c40_vals (text : Bool) (V chars : List Nat) (st' : CSt) (n : Nat) (hl : V.length = 3 * n)
    (hlt : ∀ v ∈ V, v < 40)
    (hv : ∀ out, c40Values (tabs text).1 (tabs text).2 V st0 out = .ok (st', out ++ chars))
    (un : Bool) (tail : List Nat) (ht : TripleTail un tail) (e : Nat) (out : List Nat) :
    decRun .ascii { rest := [if text then 239 else 230] ++ packTriples V ++ (if un then [254] else []) ++ tail,
                    eaten := e, out := out, ecis := [] } =
    decRun .ascii { rest := tail, eaten := e + (1 + 2 * n + (if un then 1 else 0)), out := out ++ chars, ecis := [] } := by
  have hpl := packTriples_length n V hl
  rw [decRun_ascii _ (by simp)]
  simp only [List.singleton_append, List.cons_append]
  rw [decodeAscii]
  by_cases hnil : packTriples V ++ ((if un then [254] else []) ++ tail) = []
  · have h1 := (List.append_eq_nil_iff.mp hnil)
    have h2 := (List.append_eq_nil_iff.mp h1.2)
    have hn0 : n = 0 := by rw [h1.1] at hpl; simp at hpl; omega
    have hun : un = false := by
      cases un with
      | true => simp at h2
      | false => rfl
    have hV : V = [] := List.length_eq_zero_iff.mp (by omega)
    have hchars : chars = [] := by
      have := hv []
      rw [hV] at this
      simp only [c40Values, List.nil_append, Except.ok.injEq, Prod.mk.injEq] at this
      exact this.2.symm
    subst hun hV hchars hn0
    cases text <;>
    · simp only [ne_eq, not_true_eq_false, ↓reduceIte, Bool.false_eq_true, false_and, Nat.reduceLeDiff, and_false,
        Nat.reduceEqDiff, List.nil_append]
      rw [decRun_nil _ _ (by simpa using hnil), h2.2, decRun_nil _ _ rfl]
      simp [packTriples]
  · cases text with
    | false =>
      simp only [ne_eq, not_true_eq_false, ↓reduceIte, Bool.false_eq_true, false_and, Nat.reduceLeDiff, and_false,
        Nat.reduceEqDiff, List.nil_append]
      rw [decRun_c40 _ (by simpa using hnil)]
      simp only [List.append_assoc]
      rw [decodeC40_triples baseC40 shift3C40 n _ hl hlt]
      have := hv out
      simp only [tabs, Bool.false_eq_true, ↓reduceIte, st0] at this
      rw [this]
      simp only []
      rw [decodeC40_end _ _ un tail ht]
      simp only []
      congr 2
      omega
    | true =>
      simp only [ne_eq, not_true_eq_false, ↓reduceIte, Bool.false_eq_true, false_and, Nat.reduceLeDiff, and_false,
        Nat.reduceEqDiff, List.nil_append]
      rw [decRun_text _ (by simpa using hnil)]
      simp only [List.append_assoc]
      rw [decodeC40_triples baseText shift3Text n _ hl hlt]
      have := hv out
      simp only [tabs, ↓reduceIte, st0] at this
      rw [this]
      simp only []
      rw [decodeC40_end _ _ un tail ht]
      simp only []
      congr 2
      omega

end DM.Lemmas.C40RT
